//! Class files that ordinary compilers do not produce and that matter for replay: attributes that are
//! present but empty (annotation lists, Exceptions, InnerClasses, MethodParameters, NestMembers,
//! PermittedSubclasses, Record, LineNumberTable / LocalVariableTable / LocalVariableTypeTable /
//! StackMapTable without rows), flags-only attributes, the same attribute at every level, and an
//! annotations attribute occurring twice in one item.  Built by editing the raw structure of a base
//! class (`fbh::classfile::raw`: parse, edit, byte-exact write).
use fbh::classfile::raw::{self, Annotation, AttrInfo, Attribute, Const, ElementValue, LineNumber, LocalVar, RawClass, TargetInfo, TypeAnnotation};
use fbh::prng::Rng;

pub const KINDS: [&str; 14] = ["empty-annotations", "empty-lists", "empty-debug-tables", "flags-only", "signature-everywhere", "dup-annotations", "mixed-debug-tables", "reordered-debug-tables", "cldc-stackmap", "annotation-values", "type-annotation-values", "module-flags", "flagged-code", "too-deep-annotation"];

fn utf8(c: &mut RawClass, s: &str) -> u16 {
	for (i, e) in c.pool.iter().enumerate() {
		if let Some(Const::Utf8(b)) = e { if b.as_slice() == s.as_bytes() { return i as u16; } }
	}
	c.pool.push(Some(Const::Utf8(s.as_bytes().to_vec())));
	(c.pool.len() - 1) as u16
}
fn has(attrs: &[Attribute], name: &str) -> bool { attrs.iter().any(|a| a.name == name) }
fn attr(idx: u16, name: &str, info: AttrInfo) -> Attribute { Attribute { name_index: idx, name: name.to_owned(), info } }
/// insert at the front, in the middle or at the end
fn put(rng: &mut Rng, attrs: &mut Vec<Attribute>, a: Attribute) {
	let pos = match rng.below(3) { 0 => 0, 1 => attrs.len(), _ => rng.below(attrs.len() + 1) };
	attrs.insert(pos, a);
}

const ANN: [&str; 4] = ["RuntimeVisibleAnnotations", "RuntimeInvisibleAnnotations", "RuntimeVisibleTypeAnnotations", "RuntimeInvisibleTypeAnnotations"];
fn empty_ann(name: &str) -> AttrInfo {
	match name {
		"RuntimeVisibleAnnotations" => AttrInfo::RuntimeVisibleAnnotations(vec![]),
		"RuntimeInvisibleAnnotations" => AttrInfo::RuntimeInvisibleAnnotations(vec![]),
		"RuntimeVisibleTypeAnnotations" => AttrInfo::RuntimeVisibleTypeAnnotations(vec![]),
		_ => AttrInfo::RuntimeInvisibleTypeAnnotations(vec![]),
	}
}

/// every attribute list of the class with its level: 0 class, 1 field, 2 method, 3 code, 4 record component
fn for_each_list(c: &mut RawClass, f: &mut dyn FnMut(u8, &mut Vec<Attribute>)) {
	f(0, &mut c.attributes);
	for a in c.attributes.iter_mut() { if let AttrInfo::Record(rcs) = &mut a.info { for rc in rcs.iter_mut() { f(4, &mut rc.attributes); } } }
	for m in c.fields.iter_mut() { f(1, &mut m.attributes); }
	for m in c.methods.iter_mut() {
		f(2, &mut m.attributes);
		for a in m.attributes.iter_mut() { if let AttrInfo::Code(code) = &mut a.info { f(3, &mut code.attributes); } }
	}
}

/// one edit of `c`; returns false when the edit does not apply to this class
pub fn edit(rng: &mut Rng, c: &mut RawClass, kind: &str) -> bool {
	let mut changed = false;
	match kind {
		"empty-annotations" => {
			let idx: Vec<u16> = ANN.iter().map(|n| utf8(c, n)).collect();
			let p = rng.range(3, 9);
			for_each_list(c, &mut |level, attrs| {
				for (i, n) in ANN.iter().enumerate() {
					if level == 3 && i < 2 { continue; } // plain annotations are not defined on Code (they would be unknown attributes there)
					if !has(attrs, n) && rng.chance(p, 10) { put(rng, attrs, attr(idx[i], n, empty_ann(n))); changed = true; }
				}
			});
		}
		"empty-lists" => {
			let names = ["InnerClasses", "NestMembers", "PermittedSubclasses", "Record", "Exceptions", "MethodParameters"];
			let idx: Vec<u16> = names.iter().map(|n| utf8(c, n)).collect();
			for_each_list(c, &mut |level, attrs| {
				let cands: Vec<(usize, AttrInfo)> = match level {
					0 => vec![(0, AttrInfo::InnerClasses(vec![])), (1, AttrInfo::NestMembers(vec![])), (2, AttrInfo::PermittedSubclasses(vec![])), (3, AttrInfo::Record(vec![]))],
					2 => vec![(4, AttrInfo::Exceptions(vec![])), (5, AttrInfo::MethodParameters(vec![]))],
					_ => vec![],
				};
				for (i, info) in cands {
					if !has(attrs, names[i]) && rng.chance(2, 3) { put(rng, attrs, attr(idx[i], names[i], info)); changed = true; }
				}
			});
		}
		"empty-debug-tables" | "mixed-debug-tables" => {
			let names = ["LineNumberTable", "LocalVariableTable", "LocalVariableTypeTable", "StackMapTable"];
			let idx: Vec<u16> = names.iter().map(|n| utf8(c, n)).collect();
			let mixed = kind == "mixed-debug-tables";
			for_each_list(c, &mut |level, attrs| {
				if level != 3 { return; }
				for i in 0..4 {
					// StackMapTable may occur once; the three debug tables may occur several times ("mixed": next to tables with rows)
					let present = has(attrs, names[i]);
					if (i == 3 && present) || (!mixed && present) { continue; }
					if rng.chance(if mixed { 1 } else { 2 }, 3) {
						let info = match i { 0 => AttrInfo::LineNumberTable(vec![]), 1 => AttrInfo::LocalVariableTable(vec![]), 2 => AttrInfo::LocalVariableTypeTable(vec![]), _ => AttrInfo::StackMapTable(vec![]) };
						put(rng, attrs, attr(idx[i], names[i], info));
						changed = true;
					}
				}
			});
		}
		"reordered-debug-tables" => {
			// The JVMS fixes no attribute order and allows several LineNumberTable / LocalVariableTable /
			// LocalVariableTypeTable attributes per Code; javac, ASM and duke's own writer always emit one table
			// followed by one type table.  Here the ROWS of a Code's tables are redistributed over several
			// attributes in other orders: type table before table, one attribute per row interleaved, halves
			// alternating, a type table in between two tables.
			let names = ["LocalVariableTable", "LocalVariableTypeTable", "LineNumberTable"];
			let idx: Vec<u16> = names.iter().map(|n| utf8(c, n)).collect();
			let sigs = [utf8(c, "Ljava/util/List<Ljava/lang/String;>;"), utf8(c, "TT;"), utf8(c, "[TE;")];
			for_each_list(c, &mut |level, attrs| {
				if level != 3 { return; }
				let (mut lvt, mut lvtt, mut lnt): (Vec<LocalVar>, Vec<LocalVar>, Vec<LineNumber>) = (vec![], vec![], vec![]);
				for a in attrs.iter() {
					match &a.info {
						AttrInfo::LocalVariableTable(v) => lvt.extend(v.iter().copied()),
						AttrInfo::LocalVariableTypeTable(v) => lvtt.extend(v.iter().copied()),
						AttrInfo::LineNumberTable(v) => lnt.extend(v.iter().copied()),
						_ => {}
					}
				}
				if lvt.is_empty() && lvtt.is_empty() { return; }
				// a Code with a table only: type-table rows for some of the same variables (as for generic locals)
				if lvtt.is_empty() {
					for r in lvt.iter() { if rng.chance(1, 2) { lvtt.push(LocalVar { descriptor_index: *rng.pick(&sigs), ..*r }); } }
					if lvtt.is_empty() { lvtt.push(LocalVar { descriptor_index: sigs[0], ..lvt[0] }); }
				}
				attrs.retain(|a| !matches!(a.info, AttrInfo::LocalVariableTable(_) | AttrInfo::LocalVariableTypeTable(_)));
				let t = |rows: &[LocalVar]| attr(idx[0], names[0], AttrInfo::LocalVariableTable(rows.to_vec()));
				let tt = |rows: &[LocalVar]| attr(idx[1], names[1], AttrInfo::LocalVariableTypeTable(rows.to_vec()));
				let mut seq: Vec<Attribute> = match rng.below(5) {
					0 => vec![tt(&lvtt), t(&lvt)],
					1 => { let mut s: Vec<Attribute> = lvt.iter().map(|r| t(&[*r])).chain(lvtt.iter().map(|r| tt(&[*r]))).collect(); rng.shuffle(&mut s); s }
					2 => { let (a, b) = (lvt.len() / 2, lvtt.len() / 2); vec![tt(&lvtt[..b]), t(&lvt[..a]), tt(&lvtt[b..]), t(&lvt[a..])] }
					3 => { let a = lvt.len() / 2; vec![t(&lvt[..a]), tt(&lvtt), t(&lvt[a..])] }
					_ => { let b = (lvtt.len() + 1) / 2; vec![tt(&lvtt[..b]), t(&lvt), tt(&lvtt[b..])] }
				};
				// sometimes the line numbers too: one attribute per row group, rows kept in order or reversed
				if lnt.len() > 1 && rng.chance(1, 2) {
					attrs.retain(|a| !matches!(a.info, AttrInfo::LineNumberTable(_)));
					let k = rng.range(1, lnt.len() - 1);
					let mut parts = vec![attr(idx[2], names[2], AttrInfo::LineNumberTable(lnt[k..].to_vec())), attr(idx[2], names[2], AttrInfo::LineNumberTable(lnt[..k].to_vec()))];
					if rng.chance(1, 2) { parts.reverse(); }
					seq.extend(parts);
					if rng.chance(1, 2) { rng.shuffle(&mut seq); }
				}
				// relative order of `seq` is kept; the other attributes of the Code stay where they are
				let mut pos: Vec<usize> = (0..seq.len()).map(|_| rng.below(attrs.len() + 1)).collect();
				pos.sort();
				for (k, (p, a)) in pos.into_iter().zip(seq).enumerate() { attrs.insert(p + k, a); }
				changed = true;
			});
		}
		"cldc-stackmap" => {
			// the pre-Java-6 / CLDC `StackMap` attribute (explicit offsets, entries in any order) instead of a StackMapTable:
			// the reader has an arm of its own for it, governed by the same interest flag (stack_map_table)
			let idx = utf8(c, "StackMap");
			for_each_list(c, &mut |level, attrs| {
				if level != 3 || has(attrs, "StackMap") || has(attrs, "StackMapTable") || !rng.chance(2, 3) { return; }
				changed = true; // the offsets are filled in below (they need the code array)
				put(rng, attrs, attr(idx, "StackMap", AttrInfo::Unknown(vec![])));
			});
			if changed {
				for m in c.methods.iter_mut() {
					for a in m.attributes.iter_mut() {
						let AttrInfo::Code(code) = &mut a.info else { continue };
						let pcs: Vec<u32> = raw::decode_code(&code.code).map(|v| v.iter().map(|(pc, _)| *pc).collect()).unwrap_or_else(|_| vec![0]);
						for ca in code.attributes.iter_mut() {
							if ca.name != "StackMap" { continue; }
							// 0..3 entries at instruction offsets, written in descending, ascending or mixed order; locals / stack of Top / Integer / Null items
							let n = rng.below(4).min(pcs.len());
							let mut offs: Vec<u32> = vec![];
							while offs.len() < n { let o = *rng.pick(&pcs); if !offs.contains(&o) { offs.push(o); } }
							match rng.below(3) { 0 => offs.sort(), 1 => { offs.sort(); offs.reverse(); } _ => {} }
							let mut b: Vec<u8> = (offs.len() as u16).to_be_bytes().to_vec();
							for o in offs {
								b.extend((o as u16).to_be_bytes());
								for _ in 0..2 {
									let k = rng.below(3);
									b.extend((k as u16).to_be_bytes());
									for _ in 0..k { b.push(*rng.pick(&[0u8, 1, 5])); }
								}
							}
							ca.info = AttrInfo::Unknown(b);
						}
					}
				}
			}
		}
		"annotation-values" => {
			// Annotations built from scratch with the values compilers rarely write: byte / char / short / boolean constants whose
			// pool entry is a WIDE int (the reader narrows: `integer as i8`, `!= 0`), NaNs with payloads, extreme longs, empty and
			// non-ASCII strings, empty arrays, annotations without pairs, the same pair name twice, arrays and annotations nested
			// 1..6 deep and once exactly as deep as the reader admits (64; one level more and the full read refuses the class)
			let ints: Vec<u16> = [0x1_2345, -1, 256, 0x8000, i32::MIN, 255, 0, 65536, 0x7f, -129].iter().map(|v| { c.pool.push(Some(Const::Integer(*v))); (c.pool.len() - 1) as u16 }).collect();
			let floats: Vec<u16> = [0x7fc0_0001u32, 0xffc0_0000, 0x8000_0000, 0x7f80_0000].iter().map(|v| { c.pool.push(Some(Const::Float(*v))); (c.pool.len() - 1) as u16 }).collect();
			let mut wide = vec![];
			for v in [i64::MIN, -1, 0x1_0000_0000] { c.pool.push(Some(Const::Long(v))); wide.push((b'J', (c.pool.len() - 1) as u16)); c.pool.push(None); }
			for v in [0x7ff8_0000_0000_0001u64, 0xfff0_0000_0000_0000, 0x8000_0000_0000_0000] { c.pool.push(Some(Const::Double(v))); wide.push((b'D', (c.pool.len() - 1) as u16)); c.pool.push(None); }
			let strs: Vec<u16> = ["", "x", "\u{e9}\u{4e2d}", "a\tb c"].iter().map(|t| utf8(c, t)).collect();
			let (ty, ety, cty) = (utf8(c, "Lverif/Ann;"), utf8(c, "Lverif/En;"), [utf8(c, "V"), utf8(c, "I"), utf8(c, "[[Lverif/Ann;")]);
			let names: Vec<u16> = ["value", "a", "b", "\u{e9}"].iter().map(|t| utf8(c, t)).collect();
			fn leaf(rng: &mut Rng, ints: &[u16], floats: &[u16], wide: &[(u8, u16)], strs: &[u16], ety: u16, cty: &[u16]) -> ElementValue {
				match rng.below(8) {
					0 | 1 | 2 => ElementValue::Const { tag: *rng.pick(&[b'B', b'C', b'S', b'Z', b'I']), index: *rng.pick(ints) },
					3 => ElementValue::Const { tag: b'F', index: *rng.pick(floats) },
					4 => { let (tag, index) = *rng.pick(wide); ElementValue::Const { tag, index } }
					5 => ElementValue::Const { tag: b's', index: *rng.pick(strs) },
					6 => ElementValue::Enum { type_name_index: ety, const_name_index: *rng.pick(strs) },
					_ => ElementValue::Class(*rng.pick(cty)),
				}
			}
			#[allow(clippy::too_many_arguments)]
			fn tree(rng: &mut Rng, depth: usize, ty: u16, names: &[u16], ints: &[u16], floats: &[u16], wide: &[(u8, u16)], strs: &[u16], ety: u16, cty: &[u16]) -> ElementValue {
				if depth == 0 { return leaf(rng, ints, floats, wide, strs, ety, cty); }
				let n = rng.below(3);
				if rng.chance(1, 2) {
					ElementValue::Array((0..n).map(|i| if i == 0 { tree(rng, depth - 1, ty, names, ints, floats, wide, strs, ety, cty) } else { leaf(rng, ints, floats, wide, strs, ety, cty) }).collect())
				} else {
					ElementValue::Annotation(Annotation { type_index: ty, pairs: (0..n).map(|i| (*rng.pick(names), if i == 0 { tree(rng, depth - 1, ty, names, ints, floats, wide, strs, ety, cty) } else { leaf(rng, ints, floats, wide, strs, ety, cty) })).collect() })
				}
			}
			// nested exactly d deep (every level holds one element): the deepest value the reader admits has d = 64
			fn chain(rng: &mut Rng, d: usize, ty: u16, name: u16, inner: ElementValue) -> ElementValue {
				let mut v = inner;
				for _ in 0..d { v = if rng.chance(1, 2) { ElementValue::Array(vec![v]) } else { ElementValue::Annotation(Annotation { type_index: ty, pairs: vec![(name, v)] }) }; }
				v
			}
			let idx: Vec<u16> = ANN[..2].iter().map(|n| utf8(c, n)).collect();
			let dflt = utf8(c, "AnnotationDefault");
			let mut deep_done = false;
			for_each_list(c, &mut |level, attrs| {
				if level == 3 { return; }
				for i in 0..2 {
					if has(attrs, ANN[i]) || !rng.chance(1, 2) { continue; }
					let n = rng.range(1, 3);
					let mut anns: Vec<Annotation> = vec![];
					for _ in 0..n {
						let np = rng.below(4);
						let mut pairs = vec![];
						for _ in 0..np { let d = rng.below(4); let nm = *rng.pick(&names); pairs.push((nm, tree(rng, d, ty, &names, &ints, &floats, &wide, &strs, ety, &cty))); }
						anns.push(Annotation { type_index: ty, pairs });
					}
					if !deep_done {
						deep_done = true;
						let leafv = leaf(rng, &ints, &floats, &wide, &strs, ety, &cty);
						anns.push(Annotation { type_index: ty, pairs: vec![(names[0], chain(rng, 64, ty, names[1], leafv))] });
					}
					let info = if i == 0 { AttrInfo::RuntimeVisibleAnnotations(anns) } else { AttrInfo::RuntimeInvisibleAnnotations(anns) };
					put(rng, attrs, attr(idx[i], ANN[i], info));
					changed = true;
				}
				if level == 2 && !has(attrs, "AnnotationDefault") && rng.chance(1, 2) {
					let d = rng.below(4);
					let v = if rng.chance(1, 6) { let leafv = leaf(rng, &ints, &floats, &wide, &strs, ety, &cty); chain(rng, 64, ty, names[1], leafv) } else { tree(rng, d, ty, &names, &ints, &floats, &wide, &strs, ety, &cty) };
					put(rng, attrs, attr(dflt, "AnnotationDefault", AttrInfo::AnnotationDefault(v)));
					changed = true;
				}
			});
		}
		"type-annotation-values" => {
			// Type annotations built from scratch, per location every target type its reader admits, with the values at the ends of
			// their ranges: type parameter / bound / formal parameter / type argument index 0 and 255, super type index 0, 65534 and
			// 65535 (the super class), throws index 0 and 65535, local-variable tables without rows, with one row spanning the whole
			// code (slot 65535) and with several rows, offsets at the first instruction; type paths: empty, each kind alone, a type
			// argument index 255, mixed, and once 255 entries long (path_length is a u8)
			let ty = utf8(c, "Lverif/TA;");
			let (nm, sv) = (utf8(c, "value"), utf8(c, "s"));
			let idx: Vec<u16> = ANN[2..].iter().map(|n| utf8(c, n)).collect();
			let paths: Vec<Vec<(u8, u8)>> = vec![vec![], vec![(0, 0)], vec![(1, 0), (1, 0)], vec![(2, 0)], vec![(3, 255)], vec![(3, 0), (0, 0), (3, 7), (2, 0)], vec![(0, 0); 255]];
			let mut long_done = false;
			// Code needs its length and whether it has an exception table: collected first, by position
			let mut code_info: Vec<(u16, bool)> = vec![];
			for m in c.methods.iter() { for a in m.attributes.iter() { if let AttrInfo::Code(code) = &a.info { code_info.push((code.code.len().min(65535) as u16, !code.exception_table.is_empty())); } } }
			let mut code_no = 0usize;
			for_each_list(c, &mut |level, attrs| {
				let (len, has_exc) = if level == 3 { let x = code_info.get(code_no).copied().unwrap_or((1, false)); code_no += 1; x } else { (0, false) };
				for i in 0..2 {
					if has(attrs, ANN[2 + i]) || !rng.chance(2, 3) { continue; }
					let targets: Vec<(u8, TargetInfo)> = match level {
						0 => vec![(0x00, TargetInfo::TypeParameter(0)), (0x00, TargetInfo::TypeParameter(255)), (0x10, TargetInfo::Supertype(65535)), (0x10, TargetInfo::Supertype(65534)),
							(0x10, TargetInfo::Supertype(0)), (0x11, TargetInfo::TypeParameterBound(255, 255)), (0x11, TargetInfo::TypeParameterBound(0, 1))],
						1 | 4 => vec![(0x13, TargetInfo::Empty)],
						2 => vec![(0x01, TargetInfo::TypeParameter(255)), (0x12, TargetInfo::TypeParameterBound(255, 0)), (0x12, TargetInfo::TypeParameterBound(1, 255)), (0x14, TargetInfo::Empty),
							(0x15, TargetInfo::Empty), (0x16, TargetInfo::FormalParameter(0)), (0x16, TargetInfo::FormalParameter(255)), (0x17, TargetInfo::Throws(0)), (0x17, TargetInfo::Throws(65535))],
						_ => {
							let mut v = vec![(0x40, TargetInfo::LocalVar(vec![])), (0x40, TargetInfo::LocalVar(vec![(0, len, 65535)])), (0x41, TargetInfo::LocalVar(vec![(0, 0, 0), (0, len, 1), (0, len, 256)])),
								(0x43, TargetInfo::Offset(0)), (0x44, TargetInfo::Offset(0)), (0x45, TargetInfo::Offset(0)), (0x46, TargetInfo::Offset(0)),
								(0x47, TargetInfo::TypeArgument(0, 255)), (0x48, TargetInfo::TypeArgument(0, 0)), (0x49, TargetInfo::TypeArgument(0, 1)), (0x4a, TargetInfo::TypeArgument(0, 255)), (0x4b, TargetInfo::TypeArgument(0, 7))];
							if has_exc { v.push((0x42, TargetInfo::Catch(0))); }
							v
						}
					};
					let n = rng.range(1, targets.len().min(5));
					let mut tas = vec![];
					for k in 0..n {
						let (target_type, target) = targets[(rng.below(targets.len()) + k) % targets.len()].clone();
						let path = if !long_done && rng.chance(1, 3) { long_done = true; paths[6].clone() } else { paths[rng.below(6)].clone() };
						let pairs = if rng.chance(1, 2) { vec![(nm, ElementValue::Const { tag: b's', index: sv })] } else { vec![] };
						tas.push(TypeAnnotation { target_type, target, path, annotation: Annotation { type_index: ty, pairs } });
					}
					let info = if i == 0 { AttrInfo::RuntimeVisibleTypeAnnotations(tas) } else { AttrInfo::RuntimeInvisibleTypeAnnotations(tas) };
					put(rng, attrs, attr(idx[i], ANN[2 + i], info));
					changed = true;
				}
			});
		}
		"too-deep-annotation" => {
			// one level more than the reader admits (65 arrays around an int): the full visitor refuses the class, a visitor that is
			// not interested in the attribute skips it by its length
			let (ty, nm, rva) = (utf8(c, "Lverif/Ann;"), utf8(c, "value"), utf8(c, "RuntimeVisibleAnnotations"));
			c.pool.push(Some(Const::Integer(7)));
			let mut v = ElementValue::Const { tag: b'I', index: (c.pool.len() - 1) as u16 };
			// the innermost level (the one beyond the limit) alternately an array and an annotation: both readers have their own test
			let inner_is_array = rng.chance(1, 2);
			for k in 0..65 { v = if (k == 0 && inner_is_array) || (k > 0 && rng.chance(1, 2)) { ElementValue::Array(vec![v]) } else { ElementValue::Annotation(Annotation { type_index: ty, pairs: vec![(nm, v)] }) }; }
			let a = attr(rva, "RuntimeVisibleAnnotations", AttrInfo::RuntimeVisibleAnnotations(vec![Annotation { type_index: ty, pairs: vec![(nm, v)] }]));
			let at = rng.below(3);
			if at == 0 || c.methods.is_empty() { put(rng, &mut c.attributes, a); } else if at == 1 { let k = rng.below(c.methods.len()); put(rng, &mut c.methods[k].attributes, a); }
			else if !c.fields.is_empty() { let k = rng.below(c.fields.len()); put(rng, &mut c.fields[k].attributes, a); } else { put(rng, &mut c.attributes, a); }
			changed = true;
		}
		"flagged-code" => {
			// a method that is ACC_NATIVE and/or ACC_ABSTRACT and nevertheless carries a Code attribute: the reader delivers the
			// code whatever the flags say, so a replay has to as well (seed C17-b8: accept() skipped the code of such methods)
			for m in c.methods.iter_mut() {
				if has(&m.attributes, "Code") && rng.chance(1, 2) {
					m.access |= *rng.pick(&[0x0100u16, 0x0400, 0x0500]);
					changed = true;
				}
			}
		}
		"flags-only" => {
			let (d, s) = (utf8(c, "Deprecated"), utf8(c, "Synthetic"));
			for_each_list(c, &mut |level, attrs| {
				if level > 2 { return; }
				if !has(attrs, "Deprecated") && rng.chance(1, 2) { put(rng, attrs, attr(d, "Deprecated", AttrInfo::Deprecated)); changed = true; }
				if !has(attrs, "Synthetic") && rng.chance(1, 2) { put(rng, attrs, attr(s, "Synthetic", AttrInfo::Synthetic)); changed = true; }
			});
		}
		"signature-everywhere" => {
			let n = utf8(c, "Signature");
			let sigs = [utf8(c, "<T:Ljava/lang/Object;>Ljava/lang/Object;"), utf8(c, "TT;"), utf8(c, "<T:Ljava/lang/Object;>(TT;)V"), 0, utf8(c, "TT;")];
			for_each_list(c, &mut |level, attrs| {
				if level == 3 || has(attrs, "Signature") { return; }
				put(rng, attrs, attr(n, "Signature", AttrInfo::Signature(sigs[level as usize])));
				changed = true;
			});
		}
		"dup-annotations" => {
			let idx: Vec<u16> = ANN.iter().map(|n| utf8(c, n)).collect();
			let mut done = false;
			for_each_list(c, &mut |level, attrs| {
				if done || level == 3 { return; }
				// duplicate an existing annotations attribute, or add an empty one twice
				if let Some(a) = attrs.iter().find(|a| ANN.contains(&a.name.as_str())).cloned() {
					if rng.chance(1, 2) { put(rng, attrs, a); done = true; }
				} else if rng.chance(1, 4) {
					let i = rng.below(4);
					if level == 3 && i < 2 { return; }
					put(rng, attrs, attr(idx[i], ANN[i], empty_ann(ANN[i])));
					put(rng, attrs, attr(idx[i], ANN[i], empty_ann(ANN[i])));
					done = true;
				}
			});
			changed = done;
		}
		"module-flags" => {
			// every flags word of a Module attribute (module, requires, exports, opens): single bits incl. the ones duke's flag types
			// do not keep, all bits, random words — the value handed over keeps exactly the bits of the type's From<u16>
			let mut word = |rng: &mut Rng| -> u16 { match rng.below(4) { 0 => 1u16 << rng.below(16), 1 => 0xffff, 2 => [0x20, 0x40, 0x60, 0x80, 0x1000, 0x8000, 0x9060][rng.below(7)], _ => rng.below(65536) as u16 } };
			for a in c.attributes.iter_mut() {
				if let AttrInfo::Module(m) = &mut a.info {
					m.flags = word(rng);
					// the first row of every vector carries ALL bits (so that one edited class shows every bit a flag type keeps or drops)
					for (k, r) in m.requires.iter_mut().enumerate() { r.flags = if k == 0 { 0xffff } else { word(rng) }; }
					for (k, e) in m.exports.iter_mut().enumerate() { e.flags = if k == 0 { 0xffff } else { word(rng) }; }
					for (k, e) in m.opens.iter_mut().enumerate() { e.flags = if k == 0 { 0xffff } else { word(rng) }; }
					changed = true;
				}
			}
		}
		_ => {}
	}
	changed
}

/// `base` edited by the given kinds; None if the base does not parse or no edit applied
pub fn make(rng: &mut Rng, base: &[u8], kinds: &[&str]) -> Option<Vec<u8>> {
	let mut c = raw::parse(base).ok()?;
	let mut any = false;
	for k in kinds { any |= edit(rng, &mut c, k); }
	if !any { return None; }
	Some(raw::write(&c))
}

// ---------------------------------------------------------------- classification of a class file (for the replay oracle)
pub struct Shape {
	/// an annotations attribute without annotations somewhere (known finding: the tree cannot hold it)
	pub empty_annotations: bool,
	/// an at-most-once attribute that the tree builder merges / overwrites occurs twice in one item (outside the hypothesis)
	pub duplicate_merged: bool,
}

pub fn shape(bytes: &[u8]) -> Option<Shape> {
	let mut c = raw::parse(bytes).ok()?;
	let mut s = Shape { empty_annotations: false, duplicate_merged: false };
	for_each_list(&mut c, &mut |_level, attrs| {
		for a in attrs.iter() {
			match &a.info {
				AttrInfo::RuntimeVisibleAnnotations(v) | AttrInfo::RuntimeInvisibleAnnotations(v) => if v.is_empty() { s.empty_annotations = true; },
				AttrInfo::RuntimeVisibleTypeAnnotations(v) | AttrInfo::RuntimeInvisibleTypeAnnotations(v) => if v.is_empty() { s.empty_annotations = true; },
				_ => {}
			}
		}
		for n in ANN.iter().chain(["AnnotationDefault"].iter()) {
			if attrs.iter().filter(|a| a.name == *n && !matches!(a.info, AttrInfo::Unknown(_))).count() > 1 { s.duplicate_merged = true; }
		}
	});
	Some(s)
}
