//! Recording visitors written against duke's PUBLIC visitor traits: they report a caller-chosen
//! interest mask (class, method, code level), decline caller-chosen classes / fields / methods /
//! record components / code, and record every visitor call in order.
//!
//! The field and record-component visitor traits of duke are crate-private, so for those two
//! levels the only visitors available outside the crate are duke's own tree builders (`Field`,
//! `RecordComponent`, interests = all).  Their events are reconstructed from the finished tree
//! value (canonical order, see `events_of_field`).
use std::collections::HashMap;
use std::ops::ControlFlow;
use anyhow::Result;
use duke::tree::annotation::{Annotation, ElementValue};
use duke::tree::attribute::Attribute;
use duke::tree::class::{ClassAccess, ClassName, ClassSignature, EnclosingMethod, InnerClass, ObjClassName};
use duke::tree::field::{Field, FieldAccess, FieldDescriptor, FieldName};
use duke::tree::method::code::{Exception, Instruction, Label, Lv};
use duke::tree::method::{MethodAccess, MethodDescriptor, MethodName, MethodParameter, MethodSignature};
use duke::tree::module::{Module, PackageName};
use duke::tree::record::{RecordComponent, RecordName};
use duke::tree::type_annotation::{TargetInfoClass, TargetInfoCode, TargetInfoMethod, TypeAnnotation};
use duke::tree::version::Version;
use duke::visitor::class::{ClassInterests, ClassVisitor};
use duke::visitor::method::code::{CodeInterests, CodeVisitor, StackMapData};
use duke::visitor::method::{MethodInterests, MethodVisitor};
use duke::visitor::MultiClassVisitor;
use java_string::JavaString;
use crate::values::{ck, canon_constant, canon_module, canon_annotations, canon_element, canon_inner_classes, canon_enclosing_method, canon_class, canon_classes, canon_packages, canon_parameters,
	canon_type_annotations, canon_code_type_annotations, ValN};

pub type Mask = Vec<&'static str>;

pub const CLASS_FLAGS: [&str; 19] = ["inner_classes", "enclosing_method", "signature", "source_file", "source_debug_extension",
	"runtime_visible_annotations", "runtime_invisible_annotations", "runtime_visible_type_annotations", "runtime_invisible_type_annotations",
	"module", "module_packages", "module_main_class", "nest_host", "nest_members", "permitted_subclasses", "record", "unknown_attributes",
	"fields", "methods"];
pub const FIELD_FLAGS: [&str; 7] = ["constant_value", "signature", "runtime_visible_annotations", "runtime_invisible_annotations",
	"runtime_visible_type_annotations", "runtime_invisible_type_annotations", "unknown_attributes"];
pub const METHOD_FLAGS: [&str; 12] = ["code", "exceptions", "signature", "runtime_visible_annotations", "runtime_invisible_annotations",
	"runtime_visible_type_annotations", "runtime_invisible_type_annotations", "runtime_visible_parameter_annotations",
	"runtime_invisible_parameter_annotations", "annotation_default", "method_parameters", "unknown_attributes"];
pub const CODE_FLAGS: [&str; 7] = ["stack_map_table", "line_number_table", "local_variable_table", "local_variable_type_table",
	"runtime_visible_type_annotations", "runtime_invisible_type_annotations", "unknown_attributes"];
pub const RC_FLAGS: [&str; 6] = ["signature", "runtime_visible_annotations", "runtime_invisible_annotations",
	"runtime_visible_type_annotations", "runtime_invisible_type_annotations", "unknown_attributes"];

pub fn has(m: &Mask, f: &str) -> bool { m.iter().any(|x| *x == f) }

pub fn class_interests(m: &Mask) -> ClassInterests {
	if m.is_empty() { return ClassInterests::none(); }
	ClassInterests {
		inner_classes: has(m, "inner_classes"), enclosing_method: has(m, "enclosing_method"), signature: has(m, "signature"),
		source_file: has(m, "source_file"), source_debug_extension: has(m, "source_debug_extension"),
		runtime_visible_annotations: has(m, "runtime_visible_annotations"), runtime_invisible_annotations: has(m, "runtime_invisible_annotations"),
		runtime_visible_type_annotations: has(m, "runtime_visible_type_annotations"), runtime_invisible_type_annotations: has(m, "runtime_invisible_type_annotations"),
		module: has(m, "module"), module_packages: has(m, "module_packages"), module_main_class: has(m, "module_main_class"),
		nest_host: has(m, "nest_host"), nest_members: has(m, "nest_members"), permitted_subclasses: has(m, "permitted_subclasses"),
		record: has(m, "record"), unknown_attributes: has(m, "unknown_attributes"), fields: has(m, "fields"), methods: has(m, "methods"),
	}
}
pub fn method_interests(m: &Mask) -> MethodInterests {
	if m.is_empty() { return MethodInterests::none(); }
	MethodInterests {
		code: has(m, "code"), exceptions: has(m, "exceptions"), signature: has(m, "signature"),
		runtime_visible_annotations: has(m, "runtime_visible_annotations"), runtime_invisible_annotations: has(m, "runtime_invisible_annotations"),
		runtime_visible_type_annotations: has(m, "runtime_visible_type_annotations"), runtime_invisible_type_annotations: has(m, "runtime_invisible_type_annotations"),
		runtime_visible_parameter_annotations: has(m, "runtime_visible_parameter_annotations"),
		runtime_invisible_parameter_annotations: has(m, "runtime_invisible_parameter_annotations"),
		annotation_default: has(m, "annotation_default"), method_parameters: has(m, "method_parameters"), unknown_attributes: has(m, "unknown_attributes"),
	}
}
pub fn code_interests(m: &Mask) -> CodeInterests {
	if m.is_empty() { return CodeInterests::none(); }
	CodeInterests {
		stack_map_table: has(m, "stack_map_table"), line_number_table: has(m, "line_number_table"),
		local_variable_table: has(m, "local_variable_table"), local_variable_type_table: has(m, "local_variable_type_table"),
		runtime_visible_type_annotations: has(m, "runtime_visible_type_annotations"), runtime_invisible_type_annotations: has(m, "runtime_invisible_type_annotations"),
		unknown_attributes: has(m, "unknown_attributes"),
	}
}

/// What the visitor side answers (the quantifier of the property: masks and accept/decline choices).
#[derive(Clone, Debug)]
pub struct VDesc {
	pub accept: bool,
	pub class: Mask,
	pub fields: Vec<bool>, pub field_default: bool,                  // accept the k-th field (tree builder, all interests)
	pub methods: Vec<Option<Mask>>, pub method_default: Option<Mask>, // None = decline, Some(method interests)
	pub codes: Vec<Option<Mask>>, pub code_default: Option<Mask>,     // visit_code() of the k-th method
	pub rcs: Vec<bool>, pub rc_default: bool,
}
impl VDesc {
	pub fn full() -> VDesc {
		VDesc { accept: true, class: CLASS_FLAGS.to_vec(), fields: vec![], field_default: true, methods: vec![], method_default: Some(METHOD_FLAGS.to_vec()),
			codes: vec![], code_default: Some(CODE_FLAGS.to_vec()), rcs: vec![], rc_default: true }
	}
	pub fn field(&self, k: usize) -> bool { self.fields.get(k).copied().unwrap_or(self.field_default) }
	pub fn method(&self, k: usize) -> Option<Mask> { self.methods.get(k).cloned().unwrap_or_else(|| self.method_default.clone()) }
	pub fn code(&self, k: usize) -> Option<Mask> { self.codes.get(k).cloned().unwrap_or_else(|| self.code_default.clone()) }
	pub fn rc(&self, k: usize) -> bool { self.rcs.get(k).copied().unwrap_or(self.rc_default) }
}

#[derive(Clone, Debug, PartialEq)]
pub struct Insn { pub label: bool, pub frame: Option<String>, pub text: String }

/// where a label sits: at the k-th instruction the visitor was shown, after the last one, or nowhere the visitor saw
#[derive(Clone, Copy, Debug, PartialEq)]
pub enum Pos { At(usize), End, Unknown }
/// one row of a table handed to the code visitor, as numbers (for the comparison with the model's parsed rows):
/// strings by a checksum of their modified-UTF-8 bytes
#[derive(Clone, Debug, PartialEq)]
pub enum RowN {
	Line(Pos, u16),
	Var { kind: u8, start: Pos, end: Pos, name: u64, desc: u64, index: u16 },
	Exc(Pos, Pos, Pos, bool),
}
pub fn cksum(bytes: &[u8]) -> u64 { bytes.iter().fold(7u64, |a, &b| (a * 31 + b as u64 + 1) % (1 << 31)) }

#[derive(Clone, Debug, PartialEq)]
pub enum Ev {
	/// a visit caused by one attribute; raw = the bytes handed over verbatim (unknown attributes, SourceDebugExtension)
	/// val = the parsed value as numbers (values.rs), for the attributes whose value the Coq model parses too; empty otherwise
	/// cval = the same for a value that speaks of labels (type annotations inside Code): resolved to numbers when the case is printed
	Attr { name: String, raw: Option<Vec<u8>>, content: String, val: Vec<u64>, cval: Vec<ValN> },
	Flags(bool, bool),
	/// a table collected over the attribute loop and visited after it; one item per entry with the
	/// attribute kind it comes from (0 LineNumberTable, 1 LocalVariableTable, 2 LocalVariableTypeTable);
	Deferred { slot: &'static str, items: Vec<(u8, String)>, rows: Vec<RowN> },
	CodeDeclined,
	Code { max_stack: u16, max_locals: u16, insns: Vec<Insn>, last_label: bool, exc: String, exc_rows: Vec<RowN>, es: Vec<Ev> },
	Rc { hdr: String, es: Option<Vec<Ev>> },
	Field { hdr: String, es: Option<Vec<Ev>> },
	Method { hdr: String, es: Option<Vec<Ev>> },
}

fn attr(name: &str, content: String) -> Ev { Ev::Attr { name: name.to_owned(), raw: None, content, val: vec![], cval: vec![] } }
fn attr_v(name: &str, content: String, val: Vec<u64>) -> Ev { Ev::Attr { name: name.to_owned(), raw: None, content, val, cval: vec![] } }
fn unknown(a: Attribute) -> Ev {
	// the name as the bytes of its modified-UTF-8 form (one char per byte): that is what the pool holds and the model compares
	let name: String = a.name.to_modified_utf8().iter().map(|&b| b as char).collect();
	Ev::Attr { name, raw: Some(a.bytes.clone()), content: String::new(), val: vec![], cval: vec![] }
}
fn vis(visible: bool, a: &'static str, b: &'static str) -> &'static str { if visible { a } else { b } }

// ---------------------------------------------------------------- class level
pub struct RecMulti { pub desc: VDesc, pub header: Option<String>, pub result: Option<Option<Vec<Ev>>> }
impl RecMulti { pub fn new(desc: VDesc) -> RecMulti { RecMulti { desc, header: None, result: None } } }

impl MultiClassVisitor for RecMulti {
	type ClassVisitor = RecClass;
	type ClassResidual = RecMulti;
	fn visit_class(mut self, version: Version, access: ClassAccess, name: ObjClassName, super_class: Option<ObjClassName>, interfaces: Vec<ObjClassName>)
			-> Result<ControlFlow<Self, (Self::ClassResidual, Self::ClassVisitor)>> {
		self.header = Some(format!("{version:?} {access:?} {name:?} {super_class:?} {interfaces:?}"));
		if self.desc.accept {
			let cv = RecClass { desc: self.desc.clone(), evs: vec![], nfield: 0, nmethod: 0, nrc: 0 };
			Ok(ControlFlow::Continue((self, cv)))
		} else {
			self.result = Some(None);
			Ok(ControlFlow::Break(self))
		}
	}
	fn finish_class(mut this: Self::ClassResidual, class_visitor: Self::ClassVisitor) -> Result<Self> {
		this.result = Some(Some(class_visitor.evs));
		Ok(this)
	}
}

pub struct RecClass { desc: VDesc, pub evs: Vec<Ev>, nfield: usize, nmethod: usize, nrc: usize }

impl ClassVisitor for RecClass {
	type AnnotationsVisitor = Vec<Annotation>;
	type AnnotationsResidual = (Self, bool);
	type TypeAnnotationsVisitor = Vec<TypeAnnotation<TargetInfoClass>>;
	type TypeAnnotationsResidual = (Self, bool);
	type RecordComponentVisitor = RecordComponent;
	type RecordComponentResidual = (Self, String);
	type FieldVisitor = Field;
	type FieldResidual = (Self, String);
	type MethodVisitor = RecMethod;
	type MethodResidual = Self;
	type UnknownAttribute = Attribute;

	fn interests(&self) -> ClassInterests { class_interests(&self.desc.class) }
	fn visit_deprecated_and_synthetic_attribute(&mut self, deprecated: bool, synthetic: bool) -> Result<()> { self.evs.push(Ev::Flags(deprecated, synthetic)); Ok(()) }
	fn visit_inner_classes(&mut self, x: Vec<InnerClass>) -> Result<()> { self.evs.push(attr_v("InnerClasses", format!("{x:?}"), canon_inner_classes(&x))); Ok(()) }
	fn visit_enclosing_method(&mut self, x: EnclosingMethod) -> Result<()> { self.evs.push(attr_v("EnclosingMethod", format!("{x:?}"), canon_enclosing_method(&x))); Ok(()) }
	fn visit_signature(&mut self, x: ClassSignature) -> Result<()> { self.evs.push(attr_v("Signature", format!("{x:?}"), vec![ck(x.as_inner())])); Ok(()) }
	fn visit_source_file(&mut self, x: JavaString) -> Result<()> { self.evs.push(attr_v("SourceFile", format!("{x:?}"), vec![ck(&x)])); Ok(()) }
	fn visit_source_debug_extension(&mut self, x: JavaString) -> Result<()> {
		// the reader hands over the attribute's bytes decoded from modified UTF-8; re-encoding gives the bytes back
		let raw = Some(x.to_modified_utf8().into_owned());
		self.evs.push(Ev::Attr { name: "SourceDebugExtension".into(), raw, content: format!("{x:?}"), val: vec![], cval: vec![] });
		Ok(())
	}
	fn visit_annotations(self, visible: bool) -> Result<(Self::AnnotationsResidual, Self::AnnotationsVisitor)> { Ok(((self, visible), Vec::new())) }
	fn finish_annotations((mut this, visible): Self::AnnotationsResidual, v: Self::AnnotationsVisitor) -> Result<Self> {
		this.evs.push(attr_v(vis(visible, "RuntimeVisibleAnnotations", "RuntimeInvisibleAnnotations"), format!("{v:?}"), canon_annotations(&v)));
		Ok(this)
	}
	fn visit_type_annotations(self, visible: bool) -> Result<(Self::TypeAnnotationsResidual, Self::TypeAnnotationsVisitor)> { Ok(((self, visible), Vec::new())) }
	fn finish_type_annotations((mut this, visible): Self::TypeAnnotationsResidual, v: Self::TypeAnnotationsVisitor) -> Result<Self> {
		this.evs.push(attr_v(vis(visible, "RuntimeVisibleTypeAnnotations", "RuntimeInvisibleTypeAnnotations"), format!("{v:?}"), canon_type_annotations(&v)));
		Ok(this)
	}
	fn visit_module(&mut self, x: Module) -> Result<()> { self.evs.push(attr_v("Module", format!("{x:?}"), canon_module(&x))); Ok(()) }
	fn visit_module_packages(&mut self, x: Vec<PackageName>) -> Result<()> { self.evs.push(attr_v("ModulePackages", format!("{x:?}"), canon_packages(&x))); Ok(()) }
	fn visit_module_main_class(&mut self, x: ClassName) -> Result<()> { self.evs.push(attr_v("ModuleMainClass", format!("{x:?}"), canon_class(&x))); Ok(()) }
	fn visit_nest_host_class(&mut self, x: ClassName) -> Result<()> { self.evs.push(attr_v("NestHost", format!("{x:?}"), canon_class(&x))); Ok(()) }
	fn visit_nest_members(&mut self, x: Vec<ClassName>) -> Result<()> { self.evs.push(attr_v("NestMembers", format!("{x:?}"), canon_classes(&x))); Ok(()) }
	fn visit_permitted_subclasses(&mut self, x: Vec<ClassName>) -> Result<()> { self.evs.push(attr_v("PermittedSubclasses", format!("{x:?}"), canon_classes(&x))); Ok(()) }

	fn visit_record_component(mut self, name: RecordName, descriptor: FieldDescriptor)
			-> Result<ControlFlow<Self, (Self::RecordComponentResidual, Self::RecordComponentVisitor)>> {
		let k = self.nrc; self.nrc += 1;
		let hdr = format!("{name:?} {descriptor:?}");
		if self.desc.rc(k) {
			Ok(ControlFlow::Continue(((self, hdr), RecordComponent::new(name, descriptor))))
		} else {
			self.evs.push(Ev::Rc { hdr, es: None });
			Ok(ControlFlow::Break(self))
		}
	}
	fn finish_record_component((mut this, hdr): Self::RecordComponentResidual, rc: Self::RecordComponentVisitor) -> Result<Self> {
		this.evs.push(Ev::Rc { hdr, es: Some(events_of_rc(&rc)) });
		Ok(this)
	}
	fn visit_unknown_attribute(&mut self, a: Self::UnknownAttribute) -> Result<()> { self.evs.push(unknown(a)); Ok(()) }

	fn visit_field(mut self, access: FieldAccess, name: FieldName, descriptor: FieldDescriptor)
			-> Result<ControlFlow<Self, (Self::FieldResidual, Self::FieldVisitor)>> {
		let k = self.nfield; self.nfield += 1;
		let hdr = format!("{access:?} {name:?} {descriptor:?}");
		if self.desc.field(k) {
			Ok(ControlFlow::Continue(((self, hdr), Field::new(access, name, descriptor))))
		} else {
			self.evs.push(Ev::Field { hdr, es: None });
			Ok(ControlFlow::Break(self))
		}
	}
	fn finish_field((mut this, hdr): Self::FieldResidual, f: Self::FieldVisitor) -> Result<Self> {
		this.evs.push(Ev::Field { hdr, es: Some(events_of_field(&f)) });
		Ok(this)
	}
	fn visit_method(mut self, access: MethodAccess, name: MethodName, descriptor: MethodDescriptor)
			-> Result<ControlFlow<Self, (Self::MethodResidual, Self::MethodVisitor)>> {
		let k = self.nmethod; self.nmethod += 1;
		let hdr = format!("{access:?} {name:?} {descriptor:?}");
		match self.desc.method(k) {
			Some(mask) => { let code = self.desc.code(k); Ok(ControlFlow::Continue((self, RecMethod { mask, code, hdr, evs: vec![] }))) }
			None => { self.evs.push(Ev::Method { hdr, es: None }); Ok(ControlFlow::Break(self)) }
		}
	}
	fn finish_method(mut this: Self::MethodResidual, m: Self::MethodVisitor) -> Result<Self> {
		this.evs.push(Ev::Method { hdr: m.hdr, es: Some(m.evs) });
		Ok(this)
	}
}

/// events of a field that duke's own tree builder collected, in canonical order (by attribute name,
/// flags last): the call order is not observable from outside the crate at this level
pub fn events_of_field(f: &Field) -> Vec<Ev> {
	let mut es = vec![];
	if let Some(x) = &f.constant_value { es.push(attr_v("ConstantValue", format!("{x:?}"), canon_constant(x))); }
	if let Some(x) = &f.signature { es.push(attr_v("Signature", format!("{x:?}"), vec![ck(x.as_inner())])); }
	if !f.runtime_visible_annotations.is_empty() { es.push(attr_v("RuntimeVisibleAnnotations", format!("{:?}", f.runtime_visible_annotations), canon_annotations(&f.runtime_visible_annotations))); }
	if !f.runtime_invisible_annotations.is_empty() { es.push(attr_v("RuntimeInvisibleAnnotations", format!("{:?}", f.runtime_invisible_annotations), canon_annotations(&f.runtime_invisible_annotations))); }
	if !f.runtime_visible_type_annotations.is_empty() { es.push(attr_v("RuntimeVisibleTypeAnnotations", format!("{:?}", f.runtime_visible_type_annotations), canon_type_annotations(&f.runtime_visible_type_annotations))); }
	if !f.runtime_invisible_type_annotations.is_empty() { es.push(attr_v("RuntimeInvisibleTypeAnnotations", format!("{:?}", f.runtime_invisible_type_annotations), canon_type_annotations(&f.runtime_invisible_type_annotations))); }
	for a in &f.attributes { es.push(unknown(a.clone())); }
	canon_sort(&mut es);
	es.push(Ev::Flags(f.has_deprecated_attribute, f.has_synthetic_attribute));
	es
}

/// same for a record component; its fields are crate-private, so they are read off `{:?}`
pub fn events_of_rc(rc: &RecordComponent) -> Vec<Ev> {
	let dbg = format!("{rc:?}");
	let fields = dbg_fields(&dbg);
	let get = |k: &str| fields.iter().find(|(n, _)| n == k).map(|(_, v)| v.clone()).unwrap_or_default();
	let mut es = vec![];
	if get("signature") != "None" { es.push(attr("Signature", get("signature"))); }
	for (field, name) in [("runtime_visible_annotations", "RuntimeVisibleAnnotations"), ("runtime_invisible_annotations", "RuntimeInvisibleAnnotations"),
			("runtime_visible_type_annotations", "RuntimeVisibleTypeAnnotations"), ("runtime_invisible_type_annotations", "RuntimeInvisibleTypeAnnotations")] {
		if get(field) != "[]" { es.push(attr(name, get(field))); }
	}
	let attrs = get("attributes");
	for a in dbg_list(&attrs) {
		let af = dbg_fields(&a);
		let name = af.iter().find(|(n, _)| n == "name").map(|(_, v)| v.trim_matches('"').to_owned()).unwrap_or_default();
		let bytes = af.iter().find(|(n, _)| n == "bytes").map(|(_, v)| dbg_list(v).iter().filter_map(|x| x.trim().parse::<u8>().ok()).collect::<Vec<u8>>()).unwrap_or_default();
		es.push(Ev::Attr { name, raw: Some(bytes), content: String::new(), val: vec![], cval: vec![] });
	}
	canon_sort(&mut es);
	es
}

/// stable sort by attribute name (the order Run.v's `canon` uses)
pub fn canon_sort(es: &mut [Ev]) {
	es.sort_by(|a, b| match (a, b) {
		(Ev::Attr { name: x, .. }, Ev::Attr { name: y, .. }) => x.chars().map(|c| c as u32).cmp(y.chars().map(|c| c as u32)),
		(Ev::Attr { .. }, _) => std::cmp::Ordering::Less,
		(_, Ev::Attr { .. }) => std::cmp::Ordering::Greater,
		_ => std::cmp::Ordering::Equal,
	});
}

/// `Name { a: X, b: Y }` -> [(a, X), (b, Y)] (top level only; brackets and string literals respected)
pub fn dbg_fields(s: &str) -> Vec<(String, String)> {
	let Some(open) = s.find('{') else { return vec![] };
	let Some(close) = s.rfind('}') else { return vec![] };
	split_top(&s[open + 1..close]).into_iter().filter_map(|part| {
		let i = part.find(':')?;
		Some((part[..i].trim().to_owned(), part[i + 1..].trim().to_owned()))
	}).collect()
}
/// `[X, Y]` -> [X, Y]
pub fn dbg_list(s: &str) -> Vec<String> {
	let s = s.trim();
	if !s.starts_with('[') || !s.ends_with(']') { return vec![]; }
	split_top(&s[1..s.len() - 1]).into_iter().map(|x| x.trim().to_owned()).filter(|x| !x.is_empty()).collect()
}
fn split_top(s: &str) -> Vec<String> {
	let mut out = vec![];
	let (mut depth, mut cur, mut in_str, mut esc) = (0i32, String::new(), false, false);
	for c in s.chars() {
		if in_str {
			cur.push(c);
			if esc { esc = false; } else if c == '\\' { esc = true; } else if c == '"' { in_str = false; }
			continue;
		}
		match c {
			'"' => { in_str = true; cur.push(c); }
			'(' | '[' | '{' => { depth += 1; cur.push(c); }
			')' | ']' | '}' => { depth -= 1; cur.push(c); }
			',' if depth == 0 => { out.push(std::mem::take(&mut cur)); }
			_ => cur.push(c),
		}
	}
	if !cur.trim().is_empty() { out.push(cur); }
	out
}

// ---------------------------------------------------------------- method level
pub struct RecMethod { mask: Mask, code: Option<Mask>, hdr: String, pub evs: Vec<Ev> }

impl MethodVisitor for RecMethod {
	type AnnotationsVisitor = Vec<Annotation>;
	type AnnotationsResidual = (Self, bool);
	type TypeAnnotationsVisitor = Vec<TypeAnnotation<TargetInfoMethod>>;
	type TypeAnnotationsResidual = (Self, bool);
	type AnnotationDefaultVisitor = Vec<ElementValue>;
	type AnnotationDefaultResidual = Self;
	type CodeVisitor = RecCode;
	type UnknownAttribute = Attribute;

	fn interests(&self) -> MethodInterests { method_interests(&self.mask) }
	fn visit_deprecated_and_synthetic_attribute(&mut self, deprecated: bool, synthetic: bool) -> Result<()> { self.evs.push(Ev::Flags(deprecated, synthetic)); Ok(()) }
	fn visit_exceptions(&mut self, x: Vec<ClassName>) -> Result<()> { self.evs.push(attr_v("Exceptions", format!("{x:?}"), canon_classes(&x))); Ok(()) }
	fn visit_signature(&mut self, x: MethodSignature) -> Result<()> { self.evs.push(attr_v("Signature", format!("{x:?}"), vec![ck(x.as_inner())])); Ok(()) }
	fn visit_annotations(self, visible: bool) -> Result<(Self::AnnotationsResidual, Self::AnnotationsVisitor)> { Ok(((self, visible), Vec::new())) }
	fn finish_annotations((mut this, visible): Self::AnnotationsResidual, v: Self::AnnotationsVisitor) -> Result<Self> {
		this.evs.push(attr_v(vis(visible, "RuntimeVisibleAnnotations", "RuntimeInvisibleAnnotations"), format!("{v:?}"), canon_annotations(&v)));
		Ok(this)
	}
	fn visit_type_annotations(self, visible: bool) -> Result<(Self::TypeAnnotationsResidual, Self::TypeAnnotationsVisitor)> { Ok(((self, visible), Vec::new())) }
	fn finish_type_annotations((mut this, visible): Self::TypeAnnotationsResidual, v: Self::TypeAnnotationsVisitor) -> Result<Self> {
		this.evs.push(attr_v(vis(visible, "RuntimeVisibleTypeAnnotations", "RuntimeInvisibleTypeAnnotations"), format!("{v:?}"), canon_type_annotations(&v)));
		Ok(this)
	}
	fn visit_annotation_default(self) -> Result<(Self::AnnotationDefaultResidual, Self::AnnotationDefaultVisitor)> { Ok((self, Vec::new())) }
	fn finish_annotation_default(mut this: Self::AnnotationDefaultResidual, v: Self::AnnotationDefaultVisitor) -> Result<Self> {
		// the value: one element_value (a visitor that was handed none, or several, has no value to report)
		let val = if v.len() == 1 { canon_element(&v[0]) } else { vec![] };
		this.evs.push(attr_v("AnnotationDefault", format!("{v:?}"), val));
		Ok(this)
	}
	fn visit_parameters(&mut self, x: Vec<MethodParameter>) -> Result<()> { self.evs.push(attr_v("MethodParameters", format!("{x:?}"), canon_parameters(&x))); Ok(()) }
	fn visit_annotable_parameter_count(&mut self) {}
	fn visit_parameter_annotation(&mut self) {}
	fn visit_unknown_attribute(&mut self, a: Self::UnknownAttribute) -> Result<()> { self.evs.push(unknown(a)); Ok(()) }
	fn visit_code(&mut self) -> Result<Option<Self::CodeVisitor>> {
		match &self.code {
			Some(m) => Ok(Some(RecCode { mask: m.clone(), max: (0, 0), insns: vec![], last: None, exc: String::new(), es: vec![], raw_exc: vec![], raw_lines: vec![], raw_lvs: vec![], raw_tas: vec![] })),
			None => { self.evs.push(Ev::CodeDeclined); Ok(None) }
		}
	}
	fn finish_code(&mut self, c: Self::CodeVisitor) -> Result<()> { self.evs.push(c.into_event()); Ok(()) }
}

// ---------------------------------------------------------------- code level
pub struct RecCode { mask: Mask, max: (u16, u16), insns: Vec<(Option<Label>, Option<String>, String)>, last: Option<Label>, exc: String, es: Vec<Ev>,
	raw_exc: Vec<Exception>, raw_lines: Vec<Vec<(Label, u16)>>, raw_lvs: Vec<Vec<Lv>>, raw_tas: Vec<Vec<TypeAnnotation<TargetInfoCode>>> }

impl CodeVisitor for RecCode {
	type TypeAnnotationsVisitor = Vec<TypeAnnotation<TargetInfoCode>>;
	type TypeAnnotationsResidual = (Self, bool);
	type UnknownAttribute = Attribute;

	fn interests(&self) -> CodeInterests { code_interests(&self.mask) }
	fn visit_max_stack_and_max_locals(&mut self, max_stack: u16, max_locals: u16) -> Result<()> { self.max = (max_stack, max_locals); Ok(()) }
	fn visit_exception_table(&mut self, x: Vec<Exception>) -> Result<()> { self.exc = format!("{x:?}"); self.raw_exc = x; Ok(()) }
	fn visit_instruction(&mut self, label: Option<Label>, frame: Option<StackMapData>, instruction: Instruction) -> Result<()> {
		self.insns.push((label, frame.map(|f| format!("{f:?}")), format!("{instruction:?}")));
		Ok(())
	}
	fn visit_last_label(&mut self, last_label: Label) -> Result<()> { self.last = Some(last_label); Ok(()) }
	fn visit_line_numbers(&mut self, x: Vec<(Label, u16)>) -> Result<()> {
		// rows: index into raw_lines, resolved in into_event (the instructions may be visited after the tables)
		self.es.push(Ev::Deferred { slot: "line_number_table", items: x.iter().map(|e| (0, format!("{e:?}"))).collect(), rows: vec![] });
		self.raw_lines.push(x);
		Ok(())
	}
	fn visit_local_variables(&mut self, x: Vec<Lv>) -> Result<()> {
		// the reader builds one entry per LocalVariableTable row (descriptor) and one per LocalVariableTypeTable row (signature)
		self.es.push(Ev::Deferred { slot: "local_variable_table", items: x.iter().map(|e| (if e.descriptor.is_some() { 1 } else { 2 }, format!("{e:?}"))).collect(), rows: vec![] });
		self.raw_lvs.push(x);
		Ok(())
	}
	fn visit_type_annotations(self, visible: bool) -> Result<(Self::TypeAnnotationsResidual, Self::TypeAnnotationsVisitor)> { Ok(((self, visible), Vec::new())) }
	fn finish_type_annotations((mut this, visible): Self::TypeAnnotationsResidual, v: Self::TypeAnnotationsVisitor) -> Result<Self> {
		// the value: index into raw_tas, resolved in into_event (the labels are placed by the instructions, which may be visited later)
		this.es.push(attr(vis(visible, "RuntimeVisibleTypeAnnotations", "RuntimeInvisibleTypeAnnotations"), format!("{v:?}")));
		this.raw_tas.push(v);
		Ok(this)
	}
	fn visit_unknown_attribute(&mut self, a: Self::UnknownAttribute) -> Result<()> { self.es.push(unknown(a)); Ok(()) }
}

impl RecCode {
	/// Label ids are handed out in creation order and therefore depend on which attributes were
	/// parsed; every mention of a label is replaced by the index of the instruction it is attached to.
	fn into_event(self) -> Ev {
		let mut names: HashMap<String, String> = HashMap::new();
		for (i, (l, _, _)) in self.insns.iter().enumerate() { if let Some(l) = l { names.insert(format!("{l:?}"), format!("@{i}")); } }
		if let Some(l) = &self.last { names.insert(format!("{l:?}"), "@end".to_owned()); }
		let fix = |s: &str| relabel(s, &names);
		let insns = self.insns.iter().map(|(l, f, t)| Insn { label: l.is_some(), frame: f.as_ref().map(|f| fix(f)), text: fix(t) }).collect();
		// labels as positions: the instruction they are attached to / the end of the code
		let mut pos: HashMap<Label, Pos> = HashMap::new();
		for (i, (l, _, _)) in self.insns.iter().enumerate() { if let Some(l) = l { pos.insert(*l, Pos::At(i)); } }
		if let Some(l) = &self.last { pos.insert(*l, Pos::End); }
		let at = |l: &Label| pos.get(l).copied().unwrap_or(Pos::Unknown);
		// LabelRange keeps its two labels crate-private: they are read off its debug text (`Label { id: N }` twice)
		let by_id: HashMap<String, Pos> = pos.iter().map(|(l, p)| (format!("{l:?}"), *p)).collect();
		let range = |r: &duke::tree::method::code::LabelRange| -> (Pos, Pos) {
			let t = format!("{r:?}");
			let ls: Vec<Pos> = t.match_indices("Label { id: ").map(|(i, _)| { let e = t[i..].find('}').map(|k| i + k + 1).unwrap_or(t.len()); by_id.get(&t[i..e]).copied().unwrap_or(Pos::Unknown) }).collect();
			(ls.first().copied().unwrap_or(Pos::Unknown), ls.get(1).copied().unwrap_or(Pos::Unknown))
		};
		let (mut lines, mut lvs, mut tas) = (self.raw_lines.iter(), self.raw_lvs.iter(), self.raw_tas.iter());
		let es = self.es.into_iter().map(|e| match e {
			Ev::Attr { name, raw: None, content, val, .. } if name.ends_with("TypeAnnotations") => {
				let cval = tas.next().map(|x| canon_code_type_annotations(x, &at, &range)).unwrap_or_default();
				Ev::Attr { name, raw: None, content: fix(&content), val, cval }
			}
			Ev::Attr { name, raw, content, val, cval } => Ev::Attr { name, raw, content: fix(&content), val, cval },
			Ev::Deferred { slot, items, .. } => {
				let rows: Vec<RowN> = if slot == "line_number_table" {
					lines.next().map(|x| x.iter().map(|(l, n)| RowN::Line(at(l), *n)).collect()).unwrap_or_default()
				} else {
					lvs.next().map(|x| x.iter().map(|lv| {
						let (start, end) = range(&lv.range);
						let desc = match (&lv.descriptor, &lv.signature) { (Some(d), _) => cksum(&d.as_inner().to_modified_utf8()), (None, Some(g)) => cksum(&g.as_inner().to_modified_utf8()), _ => 0 };
						RowN::Var { kind: if lv.descriptor.is_some() { 1 } else { 2 }, start, end, name: cksum(&lv.name.as_inner().to_modified_utf8()), desc, index: lv.index.index }
					}).collect()).unwrap_or_default()
				};
				Ev::Deferred { slot, items: items.into_iter().map(|(k, t)| (k, fix(&t))).collect(), rows }
			}
			e => e,
		}).collect();
		let exc_rows = self.raw_exc.iter().map(|x| RowN::Exc(at(&x.start), at(&x.end), at(&x.handler), x.catch.is_some())).collect();
		Ev::Code { max_stack: self.max.0, max_locals: self.max.1, insns, last_label: self.last.is_some(), exc: fix(&self.exc), exc_rows, es }
	}
}

fn relabel(s: &str, names: &HashMap<String, String>) -> String {
	const P: &str = "Label { id: ";
	let mut out = String::with_capacity(s.len());
	let mut rest = s;
	while let Some(i) = rest.find(P) {
		out.push_str(&rest[..i]);
		let after = &rest[i + P.len()..];
		let digits = after.chars().take_while(|c| c.is_ascii_digit()).count();
		let end = i + P.len() + digits + " }".len();
		if digits > 0 && after[digits..].starts_with(" }") {
			let key = &rest[i..end];
			match names.get(key) { Some(n) => out.push_str(n), None => { out.push_str("@?"); out.push_str(&after[..digits]); } }
			rest = &rest[end..];
		} else {
			out.push_str(P);
			rest = after;
		}
	}
	out.push_str(rest);
	out
}

// ---------------------------------------------------------------- duke's ready-made visitors: SimpleClassVisitor, (), Infallible
/// A class visitor written against `SimpleClassVisitor` (interests = fields + methods only; the blanket impl answers every
/// other class-level call itself): fields through duke's tree builder, methods through the recording method visitor.
pub struct SimpleRec { desc: VDesc, pub evs: Vec<Ev>, nfield: usize, nmethod: usize, pending: Vec<String> }

impl duke::visitor::simple::class::SimpleClassVisitor for SimpleRec {
	type FieldVisitor = Field;
	type MethodVisitor = RecMethod;
	fn visit_field(&mut self, access: FieldAccess, name: FieldName, descriptor: FieldDescriptor) -> Result<Option<Field>> {
		let k = self.nfield; self.nfield += 1;
		let hdr = format!("{access:?} {name:?} {descriptor:?}");
		if self.desc.field(k) { self.pending.push(hdr); Ok(Some(Field::new(access, name, descriptor))) }
		else { self.evs.push(Ev::Field { hdr, es: None }); Ok(None) }
	}
	fn finish_field(&mut self, f: Field) -> Result<()> {
		let hdr = self.pending.pop().unwrap_or_default();
		self.evs.push(Ev::Field { hdr, es: Some(events_of_field(&f)) });
		Ok(())
	}
	fn visit_method(&mut self, access: MethodAccess, name: MethodName, descriptor: MethodDescriptor) -> Result<Option<RecMethod>> {
		let k = self.nmethod; self.nmethod += 1;
		let hdr = format!("{access:?} {name:?} {descriptor:?}");
		match self.desc.method(k) {
			Some(mask) => Ok(Some(RecMethod { mask, code: self.desc.code(k), hdr, evs: vec![] })),
			None => { self.evs.push(Ev::Method { hdr, es: None }); Ok(None) }
		}
	}
	fn finish_method(&mut self, m: RecMethod) -> Result<()> { self.evs.push(Ev::Method { hdr: m.hdr, es: Some(m.evs) }); Ok(()) }
}

pub struct SimpleMulti { pub desc: VDesc, pub result: Option<Vec<Ev>> }
impl MultiClassVisitor for SimpleMulti {
	type ClassVisitor = SimpleRec;
	type ClassResidual = SimpleMulti;
	fn visit_class(self, _: Version, _: ClassAccess, _: ObjClassName, _: Option<ObjClassName>, _: Vec<ObjClassName>)
			-> Result<ControlFlow<Self, (Self::ClassResidual, Self::ClassVisitor)>> {
		let cv = SimpleRec { desc: self.desc.clone(), evs: vec![], nfield: 0, nmethod: 0, pending: vec![] };
		Ok(ControlFlow::Continue((self, cv)))
	}
	fn finish_class(mut this: Self::ClassResidual, cv: Self::ClassVisitor) -> Result<Self> { this.result = Some(cv.evs); Ok(this) }
}

/// The leanest visitor the public API allows: fields never looked at (`Infallible`), methods through a visitor that voids
/// annotations / type annotations / unknown attributes into `()`, keeps the default `visit_instruction`, and records only
/// what Code delivers besides the instructions: max_stack / max_locals, the exception table and the tables visited after the loop.
pub struct LiteClass { desc: VDesc, pub methods: Vec<Option<Vec<Ev>>>, nmethod: usize }

impl duke::visitor::simple::class::SimpleClassVisitor for LiteClass {
	type FieldVisitor = std::convert::Infallible;
	type MethodVisitor = LiteMethod;
	fn visit_field(&mut self, _: FieldAccess, _: FieldName, _: FieldDescriptor) -> Result<Option<std::convert::Infallible>> { Ok(None) }
	fn finish_field(&mut self, f: std::convert::Infallible) -> Result<()> { match f {} }
	fn visit_method(&mut self, _: MethodAccess, _: MethodName, _: MethodDescriptor) -> Result<Option<LiteMethod>> {
		let k = self.nmethod; self.nmethod += 1;
		match self.desc.method(k) {
			Some(mask) => Ok(Some(LiteMethod { mask, code: self.desc.code(k), codes: vec![] })),
			None => { self.methods.push(None); Ok(None) }
		}
	}
	fn finish_method(&mut self, m: LiteMethod) -> Result<()> { self.methods.push(Some(m.codes)); Ok(()) }
}
pub struct LiteMulti { pub desc: VDesc, pub result: Option<Vec<Option<Vec<Ev>>>> }
impl MultiClassVisitor for LiteMulti {
	type ClassVisitor = LiteClass;
	type ClassResidual = LiteMulti;
	fn visit_class(self, _: Version, _: ClassAccess, _: ObjClassName, _: Option<ObjClassName>, _: Vec<ObjClassName>)
			-> Result<ControlFlow<Self, (Self::ClassResidual, Self::ClassVisitor)>> {
		let cv = LiteClass { desc: self.desc.clone(), methods: vec![], nmethod: 0 };
		Ok(ControlFlow::Continue((self, cv)))
	}
	fn finish_class(mut this: Self::ClassResidual, cv: Self::ClassVisitor) -> Result<Self> { this.result = Some(cv.methods); Ok(this) }
}

pub struct LiteMethod { mask: Mask, code: Option<Mask>, codes: Vec<Ev> }
impl MethodVisitor for LiteMethod {
	type AnnotationsVisitor = ();
	type AnnotationsResidual = Self;
	type TypeAnnotationsVisitor = ();
	type TypeAnnotationsResidual = Self;
	type AnnotationDefaultVisitor = ();
	type AnnotationDefaultResidual = Self;
	type CodeVisitor = LiteCode;
	type UnknownAttribute = ();
	fn interests(&self) -> MethodInterests { method_interests(&self.mask) }
	fn visit_deprecated_and_synthetic_attribute(&mut self, _: bool, _: bool) -> Result<()> { Ok(()) }
	fn visit_exceptions(&mut self, _: Vec<ClassName>) -> Result<()> { Ok(()) }
	fn visit_signature(&mut self, _: MethodSignature) -> Result<()> { Ok(()) }
	fn visit_annotations(self, _: bool) -> Result<(Self, ())> { Ok((self, ())) }
	fn finish_annotations(this: Self, _: ()) -> Result<Self> { Ok(this) }
	fn visit_type_annotations(self, _: bool) -> Result<(Self, ())> { Ok((self, ())) }
	fn finish_type_annotations(this: Self, _: ()) -> Result<Self> { Ok(this) }
	fn visit_annotation_default(self) -> Result<(Self, ())> { Ok((self, ())) }
	fn finish_annotation_default(this: Self, _: ()) -> Result<Self> { Ok(this) }
	fn visit_parameters(&mut self, _: Vec<MethodParameter>) -> Result<()> { Ok(()) }
	fn visit_annotable_parameter_count(&mut self) {}
	fn visit_parameter_annotation(&mut self) {}
	fn visit_unknown_attribute(&mut self, _: ()) -> Result<()> { Ok(()) }
	fn visit_code(&mut self) -> Result<Option<LiteCode>> {
		Ok(self.code.as_ref().map(|m| LiteCode { mask: m.clone(), max: (0, 0), exc: String::new(), es: vec![] }))
	}
	fn finish_code(&mut self, c: LiteCode) -> Result<()> {
		self.codes.push(Ev::Code { max_stack: c.max.0, max_locals: c.max.1, insns: vec![], last_label: false, exc: c.exc, exc_rows: vec![], es: c.es });
		Ok(())
	}
}
pub struct LiteCode { mask: Mask, max: (u16, u16), exc: String, es: Vec<Ev> }
impl CodeVisitor for LiteCode {
	type TypeAnnotationsVisitor = ();
	type TypeAnnotationsResidual = Self;
	type UnknownAttribute = ();
	fn interests(&self) -> CodeInterests { code_interests(&self.mask) }
	fn visit_max_stack_and_max_locals(&mut self, a: u16, b: u16) -> Result<()> { self.max = (a, b); Ok(()) }
	fn visit_exception_table(&mut self, x: Vec<Exception>) -> Result<()> { self.exc = strip_labels(&format!("{x:?}")); Ok(()) }
	// visit_instruction: the trait's default
	fn visit_last_label(&mut self, _: Label) -> Result<()> { Ok(()) }
	fn visit_line_numbers(&mut self, x: Vec<(Label, u16)>) -> Result<()> {
		self.es.push(Ev::Deferred { slot: "line_number_table", items: x.iter().map(|e| (0, strip_labels(&format!("{e:?}")))).collect(), rows: vec![] }); Ok(())
	}
	fn visit_local_variables(&mut self, x: Vec<Lv>) -> Result<()> {
		self.es.push(Ev::Deferred { slot: "local_variable_table", items: x.iter().map(|e| (if e.descriptor.is_some() { 1 } else { 2 }, strip_labels(&format!("{e:?}")))).collect(), rows: vec![] }); Ok(())
	}
	fn visit_type_annotations(self, _: bool) -> Result<(Self, ())> { Ok((self, ())) }
	fn finish_type_annotations(this: Self, _: ()) -> Result<Self> { Ok(this) }
	fn visit_unknown_attribute(&mut self, _: ()) -> Result<()> { Ok(()) }
}

/// every mention of a label (`Label { id: 7 }`, or `@3` / `@end` / `@?7` after relabelling) becomes `@_`:
/// a visitor that does not look at the instructions cannot tell where a label sits
pub fn strip_labels(s: &str) -> String {
	let s = relabel(s, &HashMap::new());
	let mut out = String::with_capacity(s.len());
	let mut it = s.chars().peekable();
	while let Some(c) = it.next() {
		if c == '@' {
			out.push_str("@_");
			if it.peek() == Some(&'?') { it.next(); }
			while matches!(it.peek(), Some(d) if d.is_ascii_alphanumeric()) { it.next(); }
		} else { out.push(c); }
	}
	out
}
