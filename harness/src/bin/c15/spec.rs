//! The abstract view of a jar that the Coq model of C15 works on, its Gallina printer, and the
//! reader of the vendored `.spec` files (produced once from `javap -v` output, see
//! corpus/C15/mkspec.py) that describe the javac-compiled corpus classes.
use fbh::gal::*;

pub use fbh::mapmodel::S;

#[derive(Clone, Debug, PartialEq, Eq, Hash, PartialOrd, Ord)]
pub struct MRef { pub class: S, pub name: S, pub desc: S }

#[derive(Clone, Copy, Debug, PartialEq, Eq, Hash)]
pub enum CallKind { Virtual, Special, Static, Interface,
	/// an invokedynamic instruction (name and descriptor of the call site in `target`, class = the bootstrap method's owner):
	/// ignored by the code under test, absent from the model's view of a body
	Dynamic }

#[derive(Clone, Debug, PartialEq, Eq, Hash)]
pub struct Call { pub kind: CallKind, pub iface_ref: bool, pub target: MRef }

#[derive(Clone, Debug, PartialEq, Eq, Hash)]
pub struct AMeth { pub name: S, pub desc: S, pub flags: u16, pub calls: Option<Vec<Call>> }

#[derive(Clone, Debug, PartialEq, Eq, Hash)]
pub struct AClass { pub name: S, pub flags: u16, pub super_class: Option<S>, pub interfaces: Vec<S>, pub methods: Vec<AMeth> }

pub const ACC_PUBLIC: u16 = 0x0001;
pub const ACC_PRIVATE: u16 = 0x0002;
pub const ACC_PROTECTED: u16 = 0x0004;
pub const ACC_STATIC: u16 = 0x0008;
pub const ACC_FINAL: u16 = 0x0010;
pub const ACC_SUPER: u16 = 0x0020;
pub const ACC_BRIDGE: u16 = 0x0040;
pub const ACC_INTERFACE: u16 = 0x0200;
pub const ACC_ABSTRACT: u16 = 0x0400;
pub const ACC_SYNTHETIC: u16 = 0x1000;

impl AMeth {
	pub fn is(&self, f: u16) -> bool { self.flags & f != 0 }
	pub fn mref(&self, class: &S) -> MRef { MRef { class: class.clone(), name: self.name.clone(), desc: self.desc.clone() } }
}

pub fn g_mref(m: &MRef) -> String { format!("({}, ({}, {}))", gstr(&m.class), gstr(&m.name), gstr(&m.desc)) }
pub fn g_pairs(v: &[(MRef, MRef)]) -> String { glist(v.iter().map(|(a, b)| gpair(g_mref(a), g_mref(b)))) }
/// one invoke instruction as a term of the model's `insn`
fn g_insn(c: &Call) -> String {
	match c.kind {
		CallKind::Virtual => format!("IVirtual {}", g_mref(&c.target)),
		CallKind::Special => format!("ISpecial {} {}", g_mref(&c.target), gbool(c.iface_ref)),
		CallKind::Static => format!("IStatic {} {}", g_mref(&c.target), gbool(c.iface_ref)),
		CallKind::Interface => format!("IInterface {}", g_mref(&c.target)),
		CallKind::Dynamic => format!("IDynamic {} {}", gstr(&c.target.name), gstr(&c.target.desc)),
	}
}
/// The body as the model's instruction list: every invoke instruction (invokedynamic included) in order, with `IOther`
/// (a possibly empty run of other instructions: loads, casts, noise, pop, return) before each of them and at the end.
fn g_meth(m: &AMeth) -> String {
	format!("(mkJM {} {} (mkAcc {} {} {} {} {}) {})", gstr(&m.name), gstr(&m.desc),
		gbool(m.is(ACC_PRIVATE)), gbool(m.is(ACC_STATIC)), gbool(m.is(ACC_FINAL)), gbool(m.is(ACC_BRIDGE)), gbool(m.is(ACC_SYNTHETIC)),
		gopt(m.calls.as_ref().map(|cs| glist(cs.iter().flat_map(|c| ["IOther".to_string(), g_insn(c)]).chain(std::iter::once("IOther".to_string()))))))
}
pub fn g_class(c: &AClass) -> String {
	format!("(mkJC {} {} {} {})", gstr(&c.name), gopt(c.super_class.as_ref().map(|s| gstr(s))), glist(c.interfaces.iter().map(|s| gstr(s))), glist(c.methods.iter().map(g_meth)))
}
pub fn g_jar(j: &[AClass]) -> String { glist(j.iter().map(g_class)) }

pub fn show_mref(m: &MRef) -> String { format!("{}.{}{}", show(&m.class), show(&m.name), show(&m.desc)) }
pub fn show_class(c: &AClass) -> String {
	let mut o = format!("class {} extends {} implements [{}]\n", show(&c.name), c.super_class.as_ref().map(|s| show(s)).unwrap_or("-".into()),
		c.interfaces.iter().map(|s| show(s)).collect::<Vec<_>>().join(", "));
	for m in &c.methods {
		o += &format!("  method flags={:#06x} {}{}", m.flags, show(&m.name), show(&m.desc));
		match &m.calls {
			None => o += " (no Code)\n",
			Some(cs) => { o += &format!(" invokes [{}]\n", cs.iter().map(|c| if c.kind == CallKind::Dynamic { format!("invokedynamic {}{} (bootstrap in {})", show(&c.target.name), show(&c.target.desc), show(&c.target.class)) } else { show_mref(&c.target) }).collect::<Vec<_>>().join(", ")); }
		}
	}
	o
}

/// One `.spec` file: a sequence of classes, each tied to a `.class` file beside it.
///   file <relative path of the class file>
///   class <name> <flags hex>
///   super <name> | super -
///   iface <name>
///   method <flags hex> <name> <descriptor>
///   code                      (the method has a Code attribute)
///   call <kind> <class> <name> <descriptor>     (kind: virtual special static interface; `!` suffix = InterfaceMethodref)
pub fn parse_spec(text: &str) -> Result<Vec<(String, AClass)>, String> {
	let mut out: Vec<(String, AClass)> = vec![];
	let mut file = String::new();
	for (ln, line) in text.lines().enumerate() {
		let line = line.trim_end();
		if line.is_empty() || line.starts_with('#') { continue; }
		let w: Vec<&str> = line.split(' ').collect();
		let bad = || format!("line {}: {:?}", ln + 1, line);
		match w[0] {
			"file" => file = w.get(1).ok_or_else(bad)?.to_string(),
			"class" => out.push((file.clone(), AClass { name: cps_str(w.get(1).ok_or_else(bad)?), flags: u16::from_str_radix(w.get(2).ok_or_else(bad)?, 16).map_err(|_| bad())?, super_class: None, interfaces: vec![], methods: vec![] })),
			"super" => { let c = &mut out.last_mut().ok_or_else(bad)?.1; let n = w.get(1).ok_or_else(bad)?; c.super_class = if *n == "-" { None } else { Some(cps_str(n)) }; }
			"iface" => out.last_mut().ok_or_else(bad)?.1.interfaces.push(cps_str(w.get(1).ok_or_else(bad)?)),
			"method" => {
				if w.len() != 4 { return Err(bad()); }
				out.last_mut().ok_or_else(bad)?.1.methods.push(AMeth { flags: u16::from_str_radix(w[1], 16).map_err(|_| bad())?, name: cps_str(w[2]), desc: cps_str(w[3]), calls: None });
			}
			"code" => out.last_mut().ok_or_else(bad)?.1.methods.last_mut().ok_or_else(bad)?.calls = Some(vec![]),
			"call" => {
				if w.len() != 5 { return Err(bad()); }
				let (k, iface_ref) = match w[1].strip_suffix('!') { Some(k) => (k, true), None => (w[1], false) };
				let kind = match k { "virtual" => CallKind::Virtual, "special" => CallKind::Special, "static" => CallKind::Static, "interface" => CallKind::Interface, _ => return Err(bad()) };
				let m = out.last_mut().ok_or_else(bad)?.1.methods.last_mut().ok_or_else(bad)?;
				m.calls.as_mut().ok_or_else(bad)?.push(Call { kind, iface_ref, target: MRef { class: cps_str(w[2]), name: cps_str(w[3]), desc: cps_str(w[4]) } });
			}
			_ => return Err(bad()),
		}
	}
	Ok(out)
}

/// The abstract view of a class file taken by the independent parser `fbh::classfile::raw`
/// (shares no code with /repo): header, method table, and per Code attribute the targets of the
/// invokevirtual / invokespecial / invokestatic / invokeinterface instructions in order.
pub fn abstract_class(bytes: &[u8]) -> Result<AClass, String> {
	use fbh::classfile::raw::{self, AttrInfo, Const, Operands};
	let c = raw::parse(bytes)?;
	let name = c.class_name(c.this_class)?.code_points();
	let super_class = if c.super_class == 0 { None } else { Some(c.class_name(c.super_class)?.code_points()) };
	let mut interfaces = vec![];
	for &i in &c.interfaces { interfaces.push(c.class_name(i)?.code_points()); }
	let mut methods = vec![];
	for m in &c.methods {
		let mut calls = None;
		for a in &m.attributes {
			if let AttrInfo::Code(code) = &a.info {
				let mut v = vec![];
				for (_, insn) in raw::decode_code(&code.code)? {
					let (kind, index) = match (insn.opcode, &insn.operands) {
						(0xb6, Operands::Pool(i)) => (CallKind::Virtual, *i),
						(0xb7, Operands::Pool(i)) => (CallKind::Special, *i),
						(0xb8, Operands::Pool(i)) => (CallKind::Static, *i),
						(0xb9, Operands::InvokeInterface { index, .. }) => (CallKind::Interface, *index),
						_ => continue,
					};
					let (iface_ref, ci, nt) = match c.constant(index)? {
						Const::Methodref(ci, nt) => (false, *ci, *nt),
						Const::InterfaceMethodref(ci, nt) => (true, *ci, *nt),
						k => return Err(format!("invoke operand {index} is {}", k.kind_name())),
					};
					let (n, d) = c.name_and_type(nt)?;
					v.push(Call { kind, iface_ref, target: MRef { class: c.class_name(ci)?.code_points(), name: n.code_points(), desc: d.code_points() } });
				}
				calls = Some(v);
			}
		}
		methods.push(AMeth { name: c.utf8(m.name_index)?.code_points(), desc: c.utf8(m.descriptor_index)?.code_points(), flags: m.access, calls });
	}
	Ok(AClass { name, flags: c.access, super_class, interfaces, methods })
}
