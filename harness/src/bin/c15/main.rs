//! C15 — bridge methods: `Jar::get_specialized_methods` and `add_specialized_methods_to_mappings`
//! of the binary crate's src/specialized_methods/mod.rs, compiled into this harness.
#![allow(dead_code, unused_imports, unused_variables)]
mod asm;
mod det;
mod gen;
mod oracle;
mod spec;

// The module under test belongs to the binary crate feather-build-rs (no library): its source is
// compiled into this binary; the three namespace marker types it imports from `crate::` are the
// same unit structs as in /repo/src/main.rs.
pub struct Official;
pub struct Intermediary;
pub struct Named;
mod specialized_methods { include!(concat!(env!("FBH_REPO"), "/src/specialized_methods/mod.rs")); }

use std::cell::RefCell;
use std::panic::AssertUnwindSafe;

use duke::tree::class::{ObjClassName, ObjClassNameSlice};
use duke::tree::field::{FieldDescriptorSlice, FieldNameAndDesc, FieldNameSlice};
use duke::tree::method::{MethodDescriptorSlice, MethodNameAndDesc, MethodNameSlice, MethodRefObj};
use dukebox::storage::{BasicFileAttributes, ClassRepr, Jar, JarEntryEnum, ParsedJar, ParsedJarEntry};
use fbh::gal::*;
use fbh::mapmodel::*;
use fbh::prng::Rng;
use fbh::report::{guarded, Report};
use fbh::Ctx;
use quill::remapper::{ARemapper, BRemapper};
use quill::tree::mappings::Mappings;

use gen::*;
use spec::*;
use specialized_methods::GetSpecializedMethods;

type MemJar = ParsedJar<ClassRepr, Vec<u8>>;

fn mem_jar(classes: &[(AClass, Vec<u8>)]) -> MemJar {
	let mut jar = MemJar { entries: Default::default() };
	for (i, (c, bytes)) in classes.iter().enumerate() {
		// distinct entry names even when a class name occurs twice
		let mut name = format!("{}.class", show(&c.name));
		if jar.entries.contains_key(&name) { name = format!("dup{i}/{name}"); }
		jar.entries.insert(name, ParsedJarEntry { attr: BasicFileAttributes::default(), content: JarEntryEnum::Class(ClassRepr::Vec { data: bytes.clone() }) });
	}
	jar.entries.insert("META-INF/MANIFEST.MF".to_string(), ParsedJarEntry { attr: BasicFileAttributes::default(), content: JarEntryEnum::Other(b"Manifest-Version: 1.0\n".to_vec()) });
	jar
}

fn of_ref(m: &MethodRefObj) -> MRef { MRef { class: cps(m.class.as_inner()), name: cps(m.name.as_inner()), desc: cps(m.desc.as_inner()) } }

/// An identity remapper that records every `map_method_ref_obj` call: the only way to see the
/// private `specialized_to_bridge` map through the module's own API (`SpecializedMethods::remap`).
struct Recorder(RefCell<Vec<MRef>>);
impl ARemapper for Recorder {
	fn map_class_fail(&self, _class: &ObjClassNameSlice) -> anyhow::Result<Option<ObjClassName>> { Ok(None) }
}
impl BRemapper for Recorder {
	fn map_field_fail(&self, _o: &ObjClassNameSlice, _n: &FieldNameSlice, _d: &FieldDescriptorSlice) -> anyhow::Result<Option<FieldNameAndDesc>> { Ok(None) }
	fn map_method_fail(&self, _o: &ObjClassNameSlice, _n: &MethodNameSlice, _d: &MethodDescriptorSlice) -> anyhow::Result<Option<MethodNameAndDesc>> { Ok(None) }
	fn map_method_ref_obj(&self, m: &MethodRefObj) -> anyhow::Result<MethodRefObj> { self.0.borrow_mut().push(of_ref(m)); Ok(m.clone()) }
}

type Pairs = Vec<(MRef, MRef)>;

// the message of the last Err the implementation returned (shown in replay texts only)
thread_local! { static LAST_ERR: RefCell<String> = RefCell::new(String::new()); }
fn last_err() -> String { LAST_ERR.with(|l| format!("Err ({})", l.borrow())) }

/// the private table specialized_to_bridge of a SpecializedMethods value, seen through `remap` with the recording
/// identity remapper: first the (bridge, specialized) pairs of bridge_to_specialized are asked, then the
/// (specialized, bridge) pairs of specialized_to_bridge.  Also returns bridge_to_specialized of the remapped value.
fn observe_s2b(sm: &specialized_methods::SpecializedMethods) -> (Pairs, Option<Pairs>) {
	let n = sm.bridge_to_specialized.len();
	let rec = Recorder(RefCell::new(vec![]));
	let again = sm.clone().remap(&rec).ok().map(|x| x.bridge_to_specialized.iter().map(|(b, s)| (of_ref(b), of_ref(s))).collect());
	let log = rec.0.into_inner();
	let rest = &log[(2 * n).min(log.len())..];
	(rest.chunks(2).filter(|c| c.len() == 2).map(|c| (c[0].clone(), c[1].clone())).collect(), again)
}

thread_local! {
	/// bridge_to_specialized of the last value after `remap` with the identity remapper (None: remap returned Err)
	static ID_REMAP: RefCell<Option<Pairs>> = RefCell::new(None);
}

/// Jar::get_specialized_methods: Ok(Some((b2s, s2b))) | Ok(None) for Err | Err(panic message)
fn impl_spec(jar: &MemJar) -> Result<Option<(Pairs, Pairs)>, String> {
	guarded(AssertUnwindSafe(|| {
		let sm = match jar.get_specialized_methods() { Ok(sm) => sm, Err(e) => { LAST_ERR.with(|l| *l.borrow_mut() = format!("{e:#}")); return None } };
		let b2s: Pairs = sm.bridge_to_specialized.iter().map(|(b, s)| (of_ref(b), of_ref(s))).collect();
		let (s2b, again) = observe_s2b(&sm);
		ID_REMAP.with(|c| *c.borrow_mut() = again);
		Some((b2s, s2b))
	}))
}

/// `main_jar.get_specialized_methods()?.remap(&remapper_calamus)?` exactly as add_specialized_methods_to_mappings builds
/// it (providers of the main jar and the libraries, calamus official -> intermediary): both tables of the result.
/// Ok(Some((b2s', s2b'))) | Ok(None) for Err | Err(panic message)
fn impl_remap(jar: &MemJar, libs: &[MemJar], cal: &MMappings) -> Result<Option<(Pairs, Pairs)>, String> {
	let Ok(cal_q) = to_quill::<2, (Official, Intermediary)>(cal) else { return Err("harness: calamus mirror not convertible".into()) };
	guarded(AssertUnwindSafe(|| {
		let run = || -> anyhow::Result<(Pairs, Pairs)> {
			let mut provs = vec![jar.get_super_classes_provider()?];
			for l in libs { provs.push(l.get_super_classes_provider()?); }
			let rc = cal_q.remapper_b(cal_q.get_namespace("official")?, cal_q.get_namespace("intermediary")?, &provs)?;
			let sm = jar.get_specialized_methods()?.remap(&rc)?;
			let b2s: Pairs = sm.bridge_to_specialized.iter().map(|(b, s)| (of_ref(b), of_ref(s))).collect();
			let (s2b, _) = observe_s2b(&sm);
			Ok((b2s, s2b))
		};
		run().map_err(|e| LAST_ERR.with(|l| *l.borrow_mut() = format!("{e:#}"))).ok()
	}))
}

/// add_specialized_methods_to_mappings: Ok(Some(tree)) | Ok(None) for Err | Err(panic)
fn impl_add(jar: &MemJar, libs: &[MemJar], cal: &MMappings, maps: &MMappings, desync: &mut Vec<String>) -> Result<Option<MMappings>, String> {
	let Ok(cal_q) = to_quill::<2, (Official, Intermediary)>(cal) else { return Err("harness: calamus mirror not convertible".into()) };
	let Ok(maps_q) = to_quill::<2, (Intermediary, Named)>(maps) else { return Err("harness: mappings mirror not convertible".into()) };
	let mut d = vec![];
	let r = guarded(AssertUnwindSafe(|| {
		specialized_methods::add_specialized_methods_to_mappings(jar, &cal_q, libs, &maps_q).map_err(|e| LAST_ERR.with(|l| *l.borrow_mut() = format!("{e:#}"))).ok().map(|m| from_quill(&m, &mut d))
	}));
	desync.extend(d);
	r
}

/// Gallina terms are dominated by string literals (`list N` of numerals), which Coq elaborates
/// slowly.  coq/C15/Run.v defines a pool of abbreviations `zN : str`; every string literal of a case
/// is re-printed as a concatenation of pool entries (longest match first; a character outside the
/// pool stays a one-element literal).  The pool is read from Run.v itself, so there is one table.
/// the verification tree: $VERIF_ROOT, else the working directory when it is one (the driver starts
/// the harness there), else /verif
fn verif_root() -> std::path::PathBuf {
	if let Ok(v) = std::env::var("VERIF_ROOT") { return v.into(); }
	if let Ok(d) = std::env::current_dir() { if d.join("coq/C15/Run.v").exists() { return d; } }
	"/verif".into()
}

struct Pool { entries: Vec<(Vec<u32>, String)> }
impl Pool {
	fn load() -> Pool {
		let mut entries = vec![];
		if let Ok(text) = std::fs::read_to_string(verif_root().join("coq/C15/Run.v")) {
			for line in text.lines() {
				let Some(rest) = line.strip_prefix("Definition z") else { continue };
				let Some((id, lit)) = rest.split_once(" : str := [") else { continue };
				let Some(lit) = lit.strip_suffix("].") else { continue };
				if !id.bytes().all(|b| b.is_ascii_digit()) { continue; }
				let cps: Option<Vec<u32>> = lit.split(';').map(|x| x.trim().parse().ok()).collect();
				if let Some(cps) = cps { if !cps.is_empty() { entries.push((cps, format!("z{id}"))); } }
			}
		}
		entries.sort_by(|a, b| b.0.len().cmp(&a.0.len()));
		Pool { entries }
	}
	fn enc(&self, s: &[u32]) -> String {
		// the whole string, else pool entries of three or more characters with literal runs between them
		if let Some(e) = self.entries.iter().find(|e| e.0 == s) { return e.1.clone(); }
		let mut parts: Vec<String> = vec![];
		let mut run: Vec<u32> = vec![];
		let flush = |run: &mut Vec<u32>, parts: &mut Vec<String>| {
			if !run.is_empty() { parts.push(format!("[{}]", run.iter().map(|c| c.to_string()).collect::<Vec<_>>().join(";"))); run.clear(); }
		};
		let mut i = 0;
		while i < s.len() {
			match self.entries.iter().find(|e| e.0.len() >= 3 && s[i..].starts_with(&e.0)) {
				Some(e) => { flush(&mut run, &mut parts); parts.push(e.1.clone()); i += e.0.len(); }
				None => { run.push(s[i]); i += 1; }
			}
		}
		flush(&mut run, &mut parts);
		if parts.len() == 1 { parts.pop().unwrap() } else { format!("(cat [{}])", parts.join("; ")) }
	}
	/// re-prints every numeric list literal `[n;n;...]` of a Gallina term
	fn compress(&self, term: &str) -> String {
		let b = term.as_bytes();
		let mut out = String::with_capacity(term.len() / 2);
		let mut i = 0;
		while i < b.len() {
			if b[i] == b'[' && i + 1 < b.len() && b[i + 1].is_ascii_digit() {
				let mut j = i + 1;
				while j < b.len() && (b[j].is_ascii_digit() || b[j] == b';') { j += 1; }
				if j < b.len() && b[j] == b']' && b[j - 1].is_ascii_digit() {
					let cps: Vec<u32> = term[i + 1..j].split(';').map(|x| x.parse().unwrap_or(0)).collect();
					out.push_str(&self.enc(&cps));
					i = j + 1;
					continue;
				}
			}
			out.push(b[i] as char);
			i += 1;
		}
		out
	}
}
thread_local! { static POOL: Pool = Pool::load(); }
fn intern(term: &str) -> String { POOL.with(|p| p.compress(term)) }

fn assemble_jar(classes: &[AClass], rng: &mut Rng) -> Vec<(AClass, Vec<u8>)> { classes.iter().map(|c| (c.clone(), asm::assemble(c, rng))).collect() }

fn replay_text(what: &str, jar: &[AClass], libs: &[Vec<AClass>], maps: Option<(&MMappings, &MMappings)>, got: &str) -> String {
	let mut t = format!("property C15\nwhat: {what}\nmain jar (class files assembled from this description; methods list flags, name, descriptor and the invoke targets of the body):\n");
	for c in jar { t += &show_class(c); }
	for (i, l) in libs.iter().enumerate() { t += &format!("library {i}:\n"); for c in l { t += &show_class(c); } }
	if let Some((cal, m)) = maps {
		t += &format!("calamus (Gallina): {}\nmappings (Gallina): {}\n", g_mappings(cal), g_mappings(m));
	}
	t += &format!("implementation answered: {got}\nabstract jar (Gallina): {}\n", g_jar(jar));
	t
}

fn show_pairs(p: &Pairs) -> String { p.iter().map(|(b, s)| format!("{} -> {}", show_mref(b), show_mref(s))).collect::<Vec<_>>().join("; ") }

struct St<'a> { r: &'a mut Report }

/// one jar through get_specialized_methods: oracle + correspondence case
fn do_spec(r: &mut Report, stream: &str, classes: &[AClass], jar: &MemJar, use_oracle: bool) {
	let text = g_jar(classes);
	let expected = oracle::ref_pairs(classes);
	let fresh = r.eval(&format!("spec {text}"), !expected.is_empty());
	// the hierarchy work-lists run over a user-supplied graph: should they not terminate (or exhaust the memory),
	// `check` reports this text as the failing input
	fbh::report::crumb(&replay_text("Jar::get_specialized_methods did not return (endless loop, memory exhaustion or crash)", classes, &[], None, "nothing"));
	let got = impl_spec(jar);
	match &got {
		Err(p) => { r.violation(format!("get_specialized_methods panicked: {p}"), replay_text("get_specialized_methods panicked", classes, &[], None, p)); return; }
		Ok(None) => {
			r.count("spec:Err");
			if use_oracle { r.violation("get_specialized_methods returned Err on a well-formed jar".into(), replay_text("get_specialized_methods returned Err on a well-formed jar", classes, &[], None, &last_err())); }
		}
		Ok(Some((b2s, s2b))) => {
			r.count(&format!("spec:pairs={}", b2s.len().min(4)));
			if use_oracle {
				let mut want = expected.clone(); want.sort();
				let mut have = b2s.clone(); have.sort();
				if want != have {
					let what = format!("bridge pairs differ from the documented rule: implementation [{}], rule [{}]", show_pairs(b2s), show_pairs(&expected));
					r.violation(what.clone(), replay_text(&what, classes, &[], None, &show_pairs(b2s)));
				}
				// specialized_to_bridge: one entry per delegate, pointing at one of its bridges
				for (s, b) in s2b {
					if !b2s.iter().any(|(b2, s2)| b2 == b && s2 == s) {
						let what = format!("specialized_to_bridge maps {} to {}, which is not one of its bridges", show_mref(s), show_mref(b));
						r.violation(what.clone(), replay_text(&what, classes, &[], None, &show_pairs(s2b)));
					}
				}
				let mut ds: Vec<&MRef> = b2s.iter().map(|e| &e.1).collect(); ds.sort(); ds.dedup();
				if ds.len() != s2b.len() {
					let what = format!("specialized_to_bridge has {} entries for {} delegates", s2b.len(), ds.len());
					r.violation(what.clone(), replay_text(&what, classes, &[], None, &show_pairs(s2b)));
				}
				// the tie-break between several bridges of one delegate: the one higher in the hierarchy
				let mut want_s2b = oracle::ref_s2b(classes, &expected); want_s2b.sort();
				let mut have_s2b = s2b.clone(); have_s2b.sort();
				if want == have && want_s2b != have_s2b {
					let what = format!("specialized_to_bridge does not keep the bridge higher in the hierarchy: implementation [{}], rule [{}]", show_pairs(s2b), show_pairs(&oracle::ref_s2b(classes, &expected)));
					r.violation(what.clone(), replay_text(&what, classes, &[], None, &show_pairs(s2b)));
				}
				if b2s.len() >= 2 && ds.len() < b2s.len() { r.count("spec:several-bridges-share-a-delegate"); }
				// SpecializedMethods::remap with a remapper that renames nothing returns the table it was given
				match ID_REMAP.with(|c| c.borrow().clone()) {
					Some(again) if again == *b2s => {}
					other => {
						let what = format!("SpecializedMethods::remap with a remapper that renames nothing changed bridge_to_specialized: [{}] became {}", show_pairs(b2s), match &other { Some(a) => format!("[{}]", show_pairs(a)), None => "an error".into() });
						r.violation(what.clone(), replay_text(&what, classes, &[], None, &what));
					}
				}
			}
		}
	}
	if fresh {
		let res = match got { Ok(Some((b2s, s2b))) => gres(Some(gpair(g_pairs(&b2s), g_pairs(&s2b)))), _ => gres(None) };
		r.case(stream, intern(&format!("CSpec {} {}", text, res)));
	}
}

/// one (jar, libraries, calamus, mappings) through add_specialized_methods_to_mappings
fn do_add(r: &mut Report, stream: &str, g: &JarGen, jar: &MemJar, libs: &[MemJar], cal: &MMappings, maps: &MMappings, use_oracle: bool) { do_add_opt(r, stream, g, jar, libs, cal, maps, use_oracle, true) }

/// `with_case` = false: implementation and oracle only, no correspondence case
fn do_add_opt(r: &mut Report, stream: &str, g: &JarGen, jar: &MemJar, libs: &[MemJar], cal: &MMappings, maps: &MMappings, use_oracle: bool, with_case: bool) {
	let text = format!("{} {} {} {}", g_jar(&g.classes), glist(g.libs.iter().map(|l| g_jar(l))), g_mappings(cal), g_mappings(maps));
	let expected = oracle::ref_pairs(&g.classes);
	let fresh = r.eval(&format!("add {text}"), !expected.is_empty() && !maps.classes.is_empty());
	let mut desync = vec![];
	fbh::report::crumb(&replay_text("add_specialized_methods_to_mappings did not return (endless loop, unbounded recursion, memory exhaustion or crash)", &g.classes, &g.libs, Some((cal, maps)), "nothing"));
	let got = impl_add(jar, libs, cal, maps, &mut desync);
	let got = match got {
		Err(p) if p.starts_with("harness:") => { r.count("add:skipped-unconvertible"); return; }
		Err(p) => { r.violation(format!("add_specialized_methods_to_mappings panicked: {p}"), replay_text("add_specialized_methods_to_mappings panicked", &g.classes, &g.libs, Some((cal, maps)), &p)); return; }
		Ok(x) => x,
	};
	if !desync.is_empty() {
		let what = format!("result tree has a node whose map key differs from its info: {}", desync[0]);
		r.violation(what.clone(), replay_text(&what, &g.classes, &g.libs, Some((cal, maps)), "see above"));
	}
	match &got {
		None => r.count("add:Err"),
		Some(m) => r.count(if m != maps { "add:changed" } else { "add:unchanged" }),
	}
	if use_oracle {
		let dev = oracle::check_add(&g.classes, &g.libs, cal, maps, got.as_ref());
		if !dev.is_empty() {
			let what = format!("produced mappings deviate from the documented rule: {}", dev.join(" | "));
			let shown = match &got { Some(m) => g_mappings(m), None => last_err() };
			r.violation(what.clone(), replay_text(&what, &g.classes, &g.libs, Some((cal, maps)), &shown));
		}
	}
	if fresh && with_case {
		r.case(stream, intern(&format!("CAdd {} {}", text, gres(got.as_ref().map(g_mappings)))));
	}
	// the step between detection and insertion on its own: both tables after `remap` with the calamus remapper
	if with_case { do_remap(r, &stream.replace("-add", "-remap"), g, jar, libs, cal, use_oracle); }
}

/// one (jar, libraries, calamus) through `get_specialized_methods()?.remap(&remapper_calamus)`: BOTH tables of the result
fn do_remap(r: &mut Report, stream: &str, g: &JarGen, jar: &MemJar, libs: &[MemJar], cal: &MMappings, use_oracle: bool) {
	let text = format!("{} {} {}", g_jar(&g.classes), glist(g.libs.iter().map(|l| g_jar(l))), g_mappings(cal));
	let expected = oracle::ref_pairs(&g.classes);
	if !r.eval(&format!("remap {text}"), !expected.is_empty() && !cal.classes.is_empty()) { return; }
	let rt = |what: &str, got: &str| format!("{}calamus (Gallina): {}\n", replay_text(what, &g.classes, &g.libs, None, got), g_mappings(cal));
	fbh::report::crumb(&rt("SpecializedMethods::remap with the calamus remapper did not return (endless loop, unbounded recursion, memory exhaustion or crash)", "nothing"));
	let got = match impl_remap(jar, libs, cal) {
		Err(p) if p.starts_with("harness:") => { r.count("remap:skipped-unconvertible"); return; }
		Err(p) => { r.violation(format!("SpecializedMethods::remap panicked: {p}"), rt("SpecializedMethods::remap panicked", &p)); return; }
		Ok(x) => x,
	};
	r.count(match &got { None => "remap:Err", Some((b, _)) if b.len() < expected.len() => "remap:Ok,bridges-merged", Some(_) => "remap:Ok" });
	if use_oracle {
		// `remap` is judged on its own: the tables it is given are the ones the implementation detected (detection has its
		// own oracle in do_spec); when detection returned an error the documented pairs stand in
		let (det_b, det_s) = match impl_spec(jar) { Ok(Some(x)) => x, _ => (expected.clone(), oracle::ref_s2b(&g.classes, &expected)) };
		let want_b = oracle::ref_remap(&g.classes, &g.libs, cal, &det_b);
		let want_s = oracle::ref_remap(&g.classes, &g.libs, cal, &det_s);
		let shown = match &got { Some((b, s)) => format!("bridge_to_specialized [{}]; specialized_to_bridge [{}]", show_pairs(b), show_pairs(s)), None => last_err() };
		match (&got, &want_b, &want_s) {
			(None, None, _) | (None, _, None) => {}
			(None, Some(_), Some(_)) => {
				let what = "SpecializedMethods::remap returned an error although every inheritance lookup of a bridge / delegate ends".to_string();
				r.violation(what.clone(), rt(&what, &shown));
			}
			(Some(_), None, _) | (Some(_), _, None) => {
				let what = "SpecializedMethods::remap returned tables although a lookup through the super types of a bridge / delegate runs into cyclic inheritance (documented: an error)".to_string();
				r.violation(what.clone(), rt(&what, &shown));
			}
			(Some((b, s)), Some(wb), Some(ws)) => {
				let sorted = |v: &Pairs| { let mut v = v.clone(); v.sort(); v };
				if sorted(b) != sorted(wb) {
					let lost: Vec<String> = wb.iter().filter(|e| !b.iter().any(|x| x.0 == e.0)).map(|e| show_mref(&e.0)).collect();
					let what = format!("SpecializedMethods::remap does not preserve bridge_to_specialized (every pair re-expressed in intermediary names): {}implementation [{}], rule [{}]", if lost.is_empty() { String::new() } else { format!("bridges lost: {}; ", lost.join(", ")) }, show_pairs(b), show_pairs(wb));
					r.violation(what.clone(), rt(&what, &shown));
				}
				if sorted(s) != sorted(ws) {
					let what = format!("SpecializedMethods::remap does not preserve specialized_to_bridge (every pair re-expressed in intermediary names): implementation [{}], rule [{}]", show_pairs(s), show_pairs(ws));
					r.violation(what.clone(), rt(&what, &shown));
				}
			}
		}
	}
	let res = match &got { Some((b, s)) => gres(Some(gpair(g_pairs(b), g_pairs(s)))), None => gres(None) };
	r.case(stream, intern(&format!("CRemap {} {}", text, res)));
}

/// the fixed inputs: /repo's own fixture classes and the vendored javac bridge patterns, each
/// `.spec` file one jar
fn corpus(r: &mut Report, rng: &mut Rng) -> anyhow::Result<()> {
	let repo = std::env::var("VERIF_REPO").unwrap_or_else(|_| "/repo".into());
	let dir = verif_root().join("corpus/C15");
	let mut specs: Vec<_> = std::fs::read_dir(&dir)?.filter_map(|e| e.ok()).map(|e| e.path()).filter(|p| p.extension().map(|x| x == "spec").unwrap_or(false)).collect();
	specs.sort();
	for sp in specs {
		let parsed = spec::parse_spec(&std::fs::read_to_string(&sp)?).map_err(|e| anyhow::anyhow!("{}: {e}", sp.display()))?;
		let mut classes: Vec<(AClass, Vec<u8>)> = vec![];
		let mut missing = false;
		for (file, c) in parsed {
			if file == "@asm" { let b = asm::assemble(&c, rng); classes.push((c, b)); continue; }
			let path = if let Some(rest) = file.strip_prefix("@repo/") { std::path::Path::new(&repo).join(rest) } else { dir.join(&file) };
			match std::fs::read(&path) {
				Ok(b) => {
					// the vendored description (javap) against the independent parser of fbh::classfile
					match spec::abstract_class(&b) {
						Ok(a) if a == c => r.count("corpus:spec-confirmed-by-independent-parser"),
						Ok(a) => anyhow::bail!("{}: vendored description of {} differs from what fbh::classfile::raw reads:\n{}vs\n{}", sp.display(), file, show_class(&c), show_class(&a)),
						Err(e) => anyhow::bail!("{}: fbh::classfile::raw rejects {}: {e}", sp.display(), file),
					}
					classes.push((c, b))
				}
				Err(_) => { missing = true; r.notes.push(format!("corpus class file {} not found; jar {} skipped", path.display(), sp.display())); }
			}
		}
		if missing || classes.is_empty() { r.count("corpus:skipped"); continue; }
		r.count("corpus:jars");
		let abs: Vec<AClass> = classes.iter().map(|c| c.0.clone()).collect();
		let jar = mem_jar(&classes);
		do_spec(r, "corpus", &abs, &jar, oracle::jar_wf(&abs));
		let g = JarGen { classes: abs, libs: vec![] };
		for k in 0..6 {
			let (cal, maps) = gen_maps(rng, &g, &MapCfg { name_12: [12, 8, 4, 10, 6, 0][k], swap_calamus: false, swap_named: false, absent_class_names: false });
			do_add(r, "corpus-add", &g, &jar, &[], &cal, &maps, oracle::jar_wf(&g.classes));
		}
	}
	Ok(())
}

/// the shared corpus /verif/corpus/classes (javac 8/11/17 output and classes of jars on the image):
/// every directory is one jar; the abstract view comes from the independent parser
fn big_corpus(r: &mut Report, rng: &mut Rng, thorough: bool) {
	let mut dirs: std::collections::BTreeMap<String, Vec<(String, Vec<u8>)>> = Default::default();
	for (path, bytes) in fbh::classfile::corpus::corpus_classes() {
		let dir = path.rsplit_once('/').map(|x| x.0.to_string()).unwrap_or_default();
		dirs.entry(dir).or_default().push((path, bytes));
	}
	let mut taken = 0;
	// directories with the corpus' bridge classes first (the quick tier takes the first 40)
	let mut dirs: Vec<(String, Vec<(String, Vec<u8>)>)> = dirs.into_iter().collect();
	dirs.sort_by_key(|(d, fs)| (!fs.iter().any(|f| f.0.contains("Bridges")), d.clone()));
	for (dir, files) in dirs {
		if files.len() > 60 { r.count("corpus2:dir-too-large-for-tier"); continue; }
		if !thorough && taken >= 40 { r.count("corpus2:dir-left-to-thorough"); continue; }
		let mut classes = vec![];
		for (path, bytes) in &files {
			match spec::abstract_class(bytes) {
				Ok(a) => classes.push((a, bytes.clone())),
				Err(_) => r.count("corpus2:class-rejected-by-independent-parser"),
			}
		}
		if classes.is_empty() { continue; }
		taken += 1;
		let abs: Vec<AClass> = classes.iter().map(|c| c.0.clone()).collect();
		let jar = mem_jar(&classes);
		// a class duke's reader rejects is C01/C16's business: such a jar cannot be compared here
		fbh::report::crumb(&format!("property C15\nwhat: Jar::get_specialized_methods did not return on the classes of corpus directory {dir}\n"));
		match impl_spec(&jar) { Ok(None) => { r.count("corpus2:jar-not-readable-by-duke"); continue; } _ => {} }
		r.count("corpus2:jars");
		r.count_n("corpus2:classes", abs.len() as u64);
		let wf = oracle::jar_wf(&abs);
		do_spec(r, "corpus2", &abs, &jar, wf);
		if abs.len() <= 12 {
			let g = JarGen { classes: abs, libs: vec![] };
			let (cal, maps) = gen_maps(rng, &g, &MapCfg { name_12: 9, swap_calamus: false, swap_named: false, absent_class_names: false });
			do_add(r, "corpus2-add", &g, &jar, &[], &cal, &maps, wf);
		}
	}
}

/// A work-list that never ends grows its output vector without bound: the process gets an address-space and a CPU
/// limit, so that such a run dies quickly (failed allocation = abort; SIGXCPU) with the crumb of the input in place
/// instead of exhausting the machine.  (`setrlimit` of the C library std links anyway; Linux numbering.)
fn limit_resources(thorough: bool) {
	#[repr(C)] struct Rlimit { cur: u64, max: u64 }
	extern "C" { fn setrlimit(resource: i32, rlim: *const Rlimit) -> i32; }
	const RLIMIT_CPU: i32 = 0; const RLIMIT_AS: i32 = 9;
	if cfg!(all(target_os = "linux", target_pointer_width = "64")) {
		unsafe {
			setrlimit(RLIMIT_AS, &Rlimit { cur: 4 << 30, max: 4 << 30 });
			// the whole run takes 1-2 s of CPU in the quick tier and some 15 s in the thorough one
			let cpu = if thorough { 400 } else { 60 };
			setrlimit(RLIMIT_CPU, &Rlimit { cur: cpu, max: cpu });
		}
	}
}

/// whether jars with a cyclic hierarchy also go through add_specialized_methods_to_mappings (its remapper searches the
/// super types recursively: quill/src/remapper.rs, property C06)
const CYCLIC_ADD: bool = true;

fn run(ctx: &Ctx) -> anyhow::Result<Report> {
	limit_resources(ctx.thorough);
	let mut r = Report::new("C15", "C15.Run");
	r.shard_size = 60;
	r.rule = "jars are class files assembled in memory (own JVMS assembler, harness/src/bin/c15/asm.rs) from an abstract description (bodies are printed to the model as instruction lists: the four invokes with their references and interface-constant flag, invokedynamic, IOther): acyclic hierarchies over a pool of 10 in-jar and 6 external class names, per class a few patterns — flagged bridges, unflagged synthetics with generalised (Object / ancestor / external / equal) parameter and return types, and the near-misses not-synthetic, zero / two / repeated / array-class callees, arity mismatch, incompatible type, void-vs-value, private|static|final with and without the bridge flag, no Code, delegate in another class, a further bridge in a related class invoking the identical delegate reference, invokedynamic instructions beside / instead of the invoke, array element covariance as a candidate — ; a `dag` stream of multi-parent hierarchies inside the jar (2-3 super types per class in random order, redundant edges to an ancestor, no external super types) with unflagged synthetics whose parameter / return types are in-jar ancestors of the delegate's types (or, as near misses, non-ancestors); deterministic shapes (harness/src/bin/c15/det.rs): diamonds with every order of every parent list (shared ancestor first / middle / last; first parent as super class or interface) and the bound reached only through a later entry, at a parameter, second parameter, return type, both, unflagged and flagged, with the mapping sets of the seeded demonstration; two-level diamonds; towers of 3 / 6 / 9 diamonds and tall towers of 40 / 64 diamonds (2^42 and 2^66 paths: detection with a correspondence case, insertion judged by the oracle only); ten CYCLIC hierarchy shapes in both jar orders (self loops through super class / interface, 2- and 3-cycles, a cycle below the start, behind a second parent, through a class outside the jar, two cycles sharing a class, a diamond inside a cycle) with every in-jar class as bound of an unflagged synthetic and flagged bridges sharing a delegate inside the cycle, each with mapping sets naming all / none / some methods (cyclic inheritance met by a remapper lookup = Err); 74 bodies for what counts as an invocation (each of the four opcodes with Methodref / InterfaceMethodref constants, the same target through two and through all four opcodes, the delegate's name and descriptor on another owner / on an array class / only on an array class per opcode, other descriptor, other name, invokedynamic between invokes); 60 arity cases (the synthetic's parameter list a proper prefix / extension of the delegate's with every common position and the return type compatible, down to zero parameters, in both directions; same-arity controls; flagged controls; delegate under the same / another name); 28 foreign-owner cases (the delegate owned by the super class / an interface / an unrelated class of the jar / a library class with and without the library jar / java/lang/Object, by invokespecial / invokeinterface / invokestatic / invokevirtual, flagged and unflagged) with four hand-built mapping sets each (rows for both classes; the delegate already named in both; only the owner's row; the bridge's name inherited from the owner's row); array candidates; 2-3 bridges in super class / subclass / unrelated class in several jar orders sharing one delegate reference; the bridge key named differently in two super types (both parent orders, depth-first through a super type's super class, differing intermediary names, no name at all, no row for the bridge's class) with hand-built mapping sets; bodies with invokedynamic — plus the vendored javac-17 bridge classes of corpus/C15 (covariant returns, parameters erased to Object and to a bound, interface bridges, bridges through several levels, visibility bridges, lambdas/enum synthetics; abstract view from javap, confirmed by the independent parser) with /repo's fixtures, and every directory of the shared corpus /verif/corpus/classes as one jar (abstract view from the independent parser fbh::classfile::raw; quick tier: the 40 first directories, bridge classes first). Mapping sets: calamus (official->intermediary) and mappings (intermediary->named) naming each class / method involved with a per-case probability, delegate entries with javadoc and parameters, bridge keys named only in a super type or under different names in every super type (own entry removed), unrelated entries; extra streams: duplicate class / method keys, exchanged namespace order, wrong namespace names, a method / field descriptor that the remapper's map_desc refuses. Round 5: every (jar, libraries, calamus) also goes through `get_specialized_methods()?.remap(&remapper_calamus)` on its own (case CRemap: both tables of the remapped value; oracle: pointwise images of the tables the implementation detected, last pair of a key wins; an identity remap returns bridge_to_specialized unchanged); specialized_to_bridge is judged by the tie-break rule of the source (the bridge higher in the hierarchy); shared-delegate patterns also produce covariant siblings (one object-typed position generalised to Object, in the same or a related class); deterministic: two covariant bridges of ONE class (return / parameter / in-jar bound, both declaration orders, flagged and unflagged) whose keys are named differently in two super types; bridges in a class and its subclasses sharing one delegate with hand-built mapping sets; name-less entries (no named / no intermediary name) in the bridge's own row, in the class between, for the delegate, everywhere, and a name-less class row, with the real name on a super class; random mapping sets keep a name-less own entry beside an inherited name. Distinct = distinct (abstract jar, libraries, mapping sets); non-trivial = the documented rule yields at least one bridge pair (and, for the insertion, the mappings are not empty).".into();
	let mut rng = Rng::new(ctx.seed);

	corpus(&mut r, &mut rng)?;
	big_corpus(&mut r, &mut rng, ctx.thorough);

	// the deterministic shapes (harness/src/bin/c15/det.rs)
	for d in det::det_cases() {
		let wf = oracle::jar_wf(&d.g.classes);
		let files = assemble_jar(&d.g.classes, &mut rng);
		let jar = mem_jar(&files);
		r.count(&format!("det:{}", d.label.split(|c: char| c == ' ' || c == ':').next().unwrap_or("")));
		do_spec(&mut r, "det", &d.g.classes, &jar, wf);
		if d.label.starts_with("cycle:") && !CYCLIC_ADD { continue; }
		// tall towers: the MODEL of the remapper's super-type search (coq/C15/Model.v map_method_fail, depth-first without
		// memo; the answers of quill's search, which since /repo 20b1d86 searches a class once per query, are the same —
		// C06_memo_sound) walks every path of the hierarchy, 2^(k+2) steps on k diamonds: the insertion is run on the
		// implementation and judged by the oracle, without a correspondence case
		if d.label.starts_with("tall tower") {
			for name_12 in [0, 6, 12] {
				let (cal, maps) = gen_maps(&mut rng, &d.g, &MapCfg { name_12, swap_calamus: false, swap_named: false, absent_class_names: false });
				do_add_opt(&mut r, "det-add-tall", &d.g, &jar, &[], &cal, &maps, wf, false);
			}
			continue;
		}
		if d.maps.is_empty() {
			// cyclic hierarchies: mapping sets that name everything (every lookup ends at the owner), nothing (every lookup
			// runs into the cycle: an error) and some of it
			let densities: &[usize] = if d.label.starts_with("cycle:") { &[12, 0, 6, 9] } else { &[10] };
			for &name_12 in densities {
				let (cal, maps) = gen_maps(&mut rng, &d.g, &MapCfg { name_12, swap_calamus: false, swap_named: false, absent_class_names: false });
				do_add(&mut r, "det-add", &d.g, &jar, &[], &cal, &maps, wf);
			}
		}
		for (cal, maps) in &d.maps { do_add(&mut r, "det-add", &d.g, &jar, &[], cal, maps, wf); }
	}

	let n = if ctx.thorough { 2400 } else { 300 };
	let mut counts: Vec<String> = vec![];
	for i in 0..n {
		let stream = match i % 20 { 0..=8 => "patterns", 9..=13 => "dag", 14 | 15 => "large", 16 | 17 => "dups", 18 => "swapped", _ => if i % 40 == 39 { "baddesc" } else { "badns" } };
		let cfg = match stream {
			"large" => JarCfg { max_classes: 8, max_patterns: 14, dups: false, libs: true, dag: i % 40 >= 20 },
			"dups" => JarCfg { max_classes: 4, max_patterns: 8, dups: true, libs: false, dag: false },
			"dag" => JarCfg { max_classes: 8, max_patterns: 6, dups: false, libs: false, dag: true },
			_ => JarCfg { max_classes: 5, max_patterns: 6, dups: false, libs: true, dag: false },
		};
		let g = gen_jar(&mut rng, &cfg, &mut |k| counts.push(k.to_string()));
		let wf = oracle::jar_wf(&g.classes);
		let files = assemble_jar(&g.classes, &mut rng);
		let jar = mem_jar(&files);
		let libs: Vec<MemJar> = g.libs.iter().map(|l| mem_jar(&assemble_jar(l, &mut rng))).collect();
		r.count(&format!("jar:classes={}", g.classes.len()));
		let h = oracle::Hier::new(&g.classes);
		if wf { for c in &g.classes { for m in &c.methods { r.count(&format!("method:{}", oracle::classify(&h, m).0)); } } }
		do_spec(&mut r, stream, &g.classes, &jar, wf);
		let reps = if stream == "large" { 1 } else { 2 };
		for _ in 0..reps {
			let mut mcfg = MapCfg { name_12: *rng.pick(&[0, 4, 8, 10, 12][..]), swap_calamus: false, swap_named: false, absent_class_names: stream != "patterns" && stream != "dag" };
			let mut oracle_ok = wf;
			if stream == "swapped" { mcfg.swap_calamus = rng.chance(2, 3); mcfg.swap_named = !mcfg.swap_calamus || rng.chance(1, 3); oracle_ok = false; }
			let (mut cal, mut maps) = gen_maps(&mut rng, &g, &mcfg);
			if stream == "baddesc" {
				// a descriptor the remapper's map_desc refuses (`L;`, or a class name without its semicolon) in some entry of
				// one of the two mapping sets: outside the contract of the mapping tree (its readers validate descriptors), an
				// error of the function as a whole
				oracle_ok = false;
				let bad = cps_str(*rng.pick(&["(L;)V", "(LA", "(ILp/F", "L;", "(LA;L;)LA;", "()L"][..]));
				let target = if rng.chance(1, 2) { &mut cal } else { &mut maps };
				let n = target.classes.len();
				if n > 0 {
					let c = &mut target.classes[rng.below(n)];
					if !c.methods.is_empty() && rng.chance(2, 3) { let k = rng.below(c.methods.len()); c.methods[k].desc = bad; }
					else { c.fields.push(MField { desc: bad, names: vec![Some(cps_str("g")), Some(cps_str("g_1"))], doc: None }); }
				}
			}
			if stream == "badns" {
				oracle_ok = false;
				match rng.below(3) { 0 => cal.ns[1] = cps_str("calamus"), 1 => maps.ns[1] = cps_str("feather"), _ => maps.ns[0] = cps_str("official") }
			}
			do_add(&mut r, &format!("{stream}-add"), &g, &jar, &libs, &cal, &maps, oracle_ok);
		}
	}
	for k in counts { r.count(&k); }
	Ok(r)
}

fn main() -> anyhow::Result<()> { fbh::main_with(run) }
