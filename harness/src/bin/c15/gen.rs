//! Generators of C15: jars of bridge patterns and near-misses, and mapping sets that name or do
//! not name the methods involved.
use crate::oracle::{object, split_desc, Hier};
use crate::spec::*;
use fbh::gal::cps_str;
use fbh::mapmodel::*;
use fbh::prng::Rng;

const IN_JAR: [&str; 10] = ["A", "B", "C", "D", "E", "p/F", "p/G", "I", "J", "p/K$1"];
const EXTERNAL: [&str; 5] = ["java/lang/Integer", "java/lang/String", "java/lang/Comparable", "x/Lib", "x/Base"];
const MNAMES: [&str; 8] = ["m", "get", "set", "compareTo", "call", "run", "apply", "a"];
const PRIMS: [&str; 4] = ["I", "J", "Z", "D"];

fn obj(n: &S) -> S { let mut t = vec!['L' as u32]; t.extend(n); t.push(';' as u32); t }
fn join_desc(ps: &[S], r: &S) -> S { let mut d = vec!['(' as u32]; for p in ps { d.extend(p); } d.push(')' as u32); d.extend(r); d }

pub struct JarGen { pub classes: Vec<AClass>, pub libs: Vec<Vec<AClass>> }

/// an acyclic hierarchy over a random subset of the name pool, in random jar order
fn gen_hierarchy(rng: &mut Rng, n: usize) -> Vec<AClass> {
	let mut names: Vec<S> = IN_JAR.iter().map(|s| cps_str(s)).collect();
	rng.shuffle(&mut names);
	names.truncate(n);
	let mut out: Vec<AClass> = vec![];
	for (k, name) in names.iter().enumerate() {
		let earlier: Vec<S> = names[..k].to_vec();
		let pick_parent = |rng: &mut Rng| -> S {
			if !earlier.is_empty() && rng.chance(3, 4) { rng.pick(&earlier[..]).clone() } else { cps_str(*rng.pick(&EXTERNAL[..])) }
		};
		let super_class = match rng.below(10) { 0 => None, 1..=4 => Some(object()), _ => Some(pick_parent(rng)) };
		let mut interfaces = vec![];
		for _ in 0..(if rng.chance(1, 2) { 0 } else { rng.range(1, 2) }) { let p = pick_parent(rng); if !interfaces.contains(&p) && Some(&p) != super_class.as_ref() { interfaces.push(p); } }
		if rng.chance(1, 12) { interfaces.push(object()); }
		out.push(AClass { name: name.clone(), flags: ACC_PUBLIC | ACC_SUPER, super_class, interfaces, methods: vec![] });
	}
	rng.shuffle(&mut out);
	out
}

/// A hierarchy in which classes have several super types INSIDE the jar, listed in random order: diamonds, shared
/// ancestors reached along several paths, the shared ancestor first / in the middle / last in a parent list.
/// No external super types (an ancestor outside the jar makes every type test succeed).
fn gen_dag(rng: &mut Rng, n: usize) -> Vec<AClass> {
	let mut names: Vec<S> = IN_JAR.iter().map(|s| cps_str(s)).collect();
	rng.shuffle(&mut names);
	names.truncate(n);
	let mut out: Vec<AClass> = vec![];
	for (k, name) in names.iter().enumerate() {
		let mut earlier: Vec<S> = names[..k].to_vec();
		rng.shuffle(&mut earlier);
		let want = *rng.pick(&[0, 1, 1, 2, 2, 2, 2, 3, 3, 3][..]);
		let mut parents: Vec<S> = earlier.into_iter().take(want).collect();
		// sometimes an ancestor of one parent is listed as a direct parent too (redundant edge = shared ancestor)
		if !parents.is_empty() && rng.chance(1, 3) {
			let h = Hier::new(&out);
			let anc: Vec<S> = h.ancestors(rng.pick(&parents[..])).into_iter().collect();
			if !anc.is_empty() { let a = rng.pick(&anc[..]).clone(); if !parents.contains(&a) { let at = rng.below(parents.len() + 1); parents.insert(at, a); } }
		}
		let (super_class, interfaces) = if !parents.is_empty() && rng.chance(1, 2) { (Some(parents[0].clone()), parents[1..].to_vec()) } else { (Some(object()), parents) };
		out.push(AClass { name: name.clone(), flags: ACC_PUBLIC | ACC_SUPER, super_class, interfaces, methods: vec![] });
	}
	rng.shuffle(&mut out);
	out
}

/// A synthetic method (usually without the bridge flag) one of whose parameter / return types is an in-jar
/// ancestor of the delegate's type at that position — or, as a near miss, an in-jar class that is no ancestor.
fn gen_ancestor_pattern(rng: &mut Rng, jar: &mut Vec<AClass>, ci: usize, h: &Hier, counts: &mut dyn FnMut(&str)) {
	let jar_names: Vec<S> = jar.iter().map(|c| c.name.clone()).collect();
	let with_anc: Vec<S> = jar_names.iter().filter(|n| !h.ancestors(n).is_empty()).cloned().collect();
	if with_anc.is_empty() { counts("pattern:ancestor:no-class-with-ancestors"); return; }
	let cname = jar[ci].name.clone();
	let name = cps_str(*rng.pick(&MNAMES[..]));
	let nparams = rng.range(0, 2);
	let has_ret = nparams == 0 || rng.chance(1, 2);
	let slots = nparams + if has_ret { 1 } else { 0 };
	let hot = rng.below(slots);
	let mut ds: Vec<S> = vec![]; let mut bs: Vec<S> = vec![];
	let mut near_miss = false;
	for i in 0..slots {
		if i == hot || rng.chance(1, 3) {
			let t = rng.pick(&with_anc[..]).clone();
			let anc: Vec<S> = h.ancestors(&t).into_iter().collect();
			let b = if rng.chance(1, 8) { near_miss = true; rng.pick(&jar_names[..]).clone() } else { rng.pick(&anc[..]).clone() };
			ds.push(obj(&t)); bs.push(obj(&b));
		} else { let t = gen_type(rng, &jar_names); ds.push(t.clone()); bs.push(if rng.chance(1, 4) && t.first() == Some(&('L' as u32)) { obj(&object()) } else { t }); }
	}
	let (dr, br) = if has_ret { (ds.pop().unwrap(), bs.pop().unwrap()) } else { (cps_str("V"), cps_str("V")) };
	let sdesc = join_desc(&ds, &dr); let bdesc = join_desc(&bs, &br);
	counts(if near_miss { "pattern:ancestor-typed-unflagged-maybe-miss" } else { "pattern:ancestor-typed-unflagged" });
	let dname = if rng.chance(1, 5) { cps_str(*rng.pick(&MNAMES[..])) } else { name.clone() };
	add_method(&mut jar[ci], AMeth { name: dname.clone(), desc: sdesc.clone(), flags: ACC_PUBLIC, calls: Some(vec![]) }, false);
	let mut bname = name.clone();
	if bdesc == sdesc && bname == dname { bname = cps_str("bridge$"); bname.extend(&name); }
	let flags = *rng.pick(&[ACC_PUBLIC, ACC_PROTECTED, 0][..]) | ACC_SYNTHETIC | if rng.chance(1, 8) { ACC_BRIDGE } else { 0 };
	add_method(&mut jar[ci], AMeth { name: bname, desc: bdesc, flags, calls: Some(vec![call(CallKind::Virtual, &cname, &dname, &sdesc)]) }, false);
}

fn gen_type(rng: &mut Rng, jar_names: &[S]) -> S {
	let base = match rng.below(10) {
		0..=2 => cps_str(*rng.pick(&PRIMS[..])),
		3..=6 if !jar_names.is_empty() => obj(rng.pick(jar_names)),
		7 => obj(&object()),
		_ => obj(&cps_str(*rng.pick(&EXTERNAL[..]))),
	};
	if rng.chance(1, 10) { let mut t = vec!['[' as u32; rng.range(1, 2)]; t.extend(base); t } else { base }
}

/// a type the rule accepts (or, with `spoil`, probably rejects) in the bridge position for delegate type `ts`
fn generalise(rng: &mut Rng, h: &Hier, jar_names: &[S], ts: &S, spoil: bool) -> S {
	let is_obj = ts.first() == Some(&('L' as u32));
	if spoil {
		return match rng.below(4) {
			0 => cps_str(*rng.pick(&PRIMS[..])),
			1 if !jar_names.is_empty() => obj(rng.pick(jar_names)),
			2 => { let mut t = vec!['[' as u32]; t.extend(ts); t }
			_ => if is_obj { cps_str("I") } else { obj(&object()) },
		};
	}
	if !is_obj {
		// array element covariance as a candidate: `[LA;` seen as `[Ljava/lang/Object;` (same dimensions), as
		// `Ljava/lang/Object;` or with an ancestor as element type — javac never emits these as erasures the rule
		// accepts; the rule only accepts equal array types
		let dims = ts.iter().take_while(|&&c| c == '[' as u32).count();
		if dims > 0 && ts.get(dims) == Some(&('L' as u32)) && rng.chance(1, 2) {
			let elem = ts[dims + 1..ts.len() - 1].to_vec();
			let anc: Vec<S> = h.ancestors(&elem).into_iter().collect();
			let e2 = match rng.below(3) { 0 if !anc.is_empty() => rng.pick(&anc[..]).clone(), 1 => return obj(&object()), _ => object() };
			let mut t = vec!['[' as u32; dims]; t.extend(obj(&e2)); return t;
		}
		return ts.clone();
	}
	let name = ts[1..ts.len() - 1].to_vec();
	let anc: Vec<S> = h.ancestors(&name).into_iter().collect();
	match rng.below(6) {
		0 | 1 => ts.clone(),
		2 => obj(&object()),
		3 | 4 if !anc.is_empty() => obj(rng.pick(&anc[..])),
		_ => obj(&cps_str(*rng.pick(&EXTERNAL[..]))),
	}
}

const KINDS: [(&str, usize); 21] = [
	("chain", 4), ("shared-delegate", 3), ("indy-extra", 2), ("only-indy", 1),
	("plain", 5), ("bridge-flagged", 5), ("bridge-unflagged", 5), ("flagged-any-signature", 2), ("not-synthetic", 3),
	("zero-callees", 2), ("two-callees", 3), ("same-callee-twice", 2), ("array-callee-extra", 2), ("only-array-callee", 1),
	("arity", 3), ("bad-type", 4), ("private-static-final", 3), ("flagged-private-static-final", 2), ("no-code", 2),
	("delegate-elsewhere", 3), ("void-vs-value", 2),
];

fn pick_kind(rng: &mut Rng) -> &'static str {
	let total: usize = KINDS.iter().map(|k| k.1).sum();
	let mut x = rng.below(total);
	for (k, w) in KINDS { if x < w { return k; } x -= w; }
	"plain"
}

fn add_method(c: &mut AClass, m: AMeth, allow_dup: bool) -> bool {
	if !allow_dup && c.methods.iter().any(|x| x.name == m.name && x.desc == m.desc) { return false; }
	c.methods.push(m); true
}

fn call(kind: CallKind, class: &S, name: &S, desc: &S) -> Call {
	Call { kind, iface_ref: kind == CallKind::Interface, target: MRef { class: class.clone(), name: name.clone(), desc: desc.clone() } }
}

/// Adds one pattern (a synthetic method and, usually, its delegate) to class `ci`.
fn gen_pattern(rng: &mut Rng, jar: &mut Vec<AClass>, ci: usize, h: &Hier, kind: &str, allow_dup: bool, counts: &mut dyn FnMut(&str)) {
	let jar_names: Vec<S> = jar.iter().map(|c| c.name.clone()).collect();
	let cname = jar[ci].name.clone();
	let name = cps_str(*rng.pick(&MNAMES[..]));
	let nparams = rng.below(3);
	let ps: Vec<S> = (0..nparams).map(|_| gen_type(rng, &jar_names)).collect();
	let rs: S = if rng.chance(1, 3) { cps_str("V") } else { gen_type(rng, &jar_names) };
	let sdesc = join_desc(&ps, &rs);
	let vis = *rng.pick(&[ACC_PUBLIC, ACC_PUBLIC, ACC_PROTECTED, 0][..]);
	counts(&format!("pattern:{kind}"));
	if kind == "chain" {
		// a bridge whose delegate is itself a synthetic bridge of the jar (A -> B -> C): in B's class or in a related class,
		// under a more general descriptor or another name, declared BEFORE or after B
		let existing: Vec<(S, AMeth)> = jar.iter().flat_map(|c| c.methods.iter().filter(|m| m.is(ACC_SYNTHETIC) && m.calls.as_ref().map(|v| v.len() == 1 && v[0].kind != CallKind::Dynamic).unwrap_or(false)).map(|m| (c.name.clone(), m.clone())).collect::<Vec<_>>()).collect();
		if existing.is_empty() { counts("pattern:chain:no-bridge-to-extend"); return; }
		let (bcls, bm) = rng.pick(&existing[..]).clone();
		let mut related: Vec<S> = jar_names.iter().filter(|n| h.ancestors(n).contains(&bcls)).cloned().collect();
		let target_cls = if related.is_empty() || rng.chance(2, 3) { bcls.clone() } else { rng.pick(&related[..]).clone() };
		related.clear();
		let ti = jar.iter().position(|c| c.name == target_cls).unwrap();
		let mut a = AMeth { name: bm.name.clone(), desc: bm.desc.clone(), flags: vis | ACC_SYNTHETIC | if rng.chance(1, 2) { ACC_BRIDGE } else { 0 }, calls: Some(vec![call(if target_cls == bcls { CallKind::Virtual } else { *rng.pick(&[CallKind::Virtual, CallKind::Special][..]) }, if rng.chance(1, 3) { &target_cls } else { &bcls }, &bm.name, &bm.desc)]) };
		if let Some((mut ps, mut ret)) = split_desc(&a.desc) {
			let objp: Vec<usize> = (0..=ps.len()).filter(|&i| { let t = if i < ps.len() { &ps[i] } else { &ret }; t.first() == Some(&('L' as u32)) && *t != obj(&object()) }).collect();
			if !objp.is_empty() && rng.chance(3, 4) { let i = *rng.pick(&objp[..]); if i < ps.len() { ps[i] = obj(&object()); } else { ret = obj(&object()); } a.desc = join_desc(&ps, &ret); }
		}
		if jar[ti].methods.iter().any(|x| x.name == a.name && x.desc == a.desc) { a.name = { let mut n = cps_str("chain$"); n.extend(&bm.name); n }; }
		if !allow_dup && jar[ti].methods.iter().any(|x| x.name == a.name && x.desc == a.desc) { counts("pattern:chain:key-taken"); return; }
		// before B (so that the pair of A is handled first) or at the end
		let at = match jar[ti].methods.iter().position(|x| x.name == bm.name && x.desc == bm.desc) { Some(p) if rng.chance(2, 3) => p, _ => jar[ti].methods.len() };
		jar[ti].methods.insert(at, a);
		counts(if target_cls == bcls { "pattern:chain:same-class" } else { "pattern:chain:subclass" });
		return;
	}
	if kind == "shared-delegate" {
		// a second (third, ...) bridge calling the IDENTICAL delegate reference of a bridge the jar already has, placed in a
		// descendant, an ancestor or an unrelated class: specialized_to_bridge keeps one of them (get_higher_method)
		let existing: Vec<(S, AMeth)> = jar.iter().flat_map(|c| c.methods.iter().filter(|m| m.is(ACC_SYNTHETIC) && m.calls.as_ref().map(|v| v.len() == 1 && v[0].kind != CallKind::Dynamic).unwrap_or(false)).map(|m| (c.name.clone(), m.clone())).collect::<Vec<_>>()).collect();
		if existing.is_empty() { counts("pattern:shared-delegate:none-to-share"); return; }
		let (ecls, em) = rng.pick(&existing[..]).clone();
		let mut related: Vec<S> = jar_names.iter().filter(|n| h.ancestors(n).contains(&ecls) || h.ancestors(&ecls).contains(*n)).cloned().collect();
		if related.is_empty() || rng.chance(1, 4) { related = jar_names.clone(); }
		let target_cls = rng.pick(&related[..]).clone();
		let ti = jar.iter().position(|c| c.name == target_cls).unwrap();
		let mut m = em.clone();
		if rng.chance(1, 2) { m.flags |= ACC_BRIDGE; }
		if rng.chance(1, 2) {
			// a covariant sibling: one object-typed position (parameter or return) generalised to java/lang/Object
			if let Some((mut ps, mut ret)) = split_desc(&m.desc) {
				let objp: Vec<usize> = (0..=ps.len()).filter(|&i| { let t = if i < ps.len() { &ps[i] } else { &ret }; t.first() == Some(&('L' as u32)) && *t != obj(&object()) }).collect();
				if !objp.is_empty() {
					let i = *rng.pick(&objp[..]);
					if i < ps.len() { ps[i] = obj(&object()); } else { ret = obj(&object()); }
					m.desc = join_desc(&ps, &ret);
					counts("pattern:shared-delegate:covariant-sibling");
				}
			}
		}
		if let Some(v) = m.calls.as_mut() { v[0].kind = *rng.pick(&[CallKind::Virtual, CallKind::Special][..]); if v[0].kind == CallKind::Virtual { v[0].iface_ref = false; } }
		if !add_method(&mut jar[ti], m.clone(), allow_dup) { m.name = { let mut n = cps_str("syn$"); n.extend(&em.name); n }; add_method(&mut jar[ti], m, allow_dup); }
		return;
	}
	if kind == "plain" {
		let calls = if rng.chance(1, 3) { None } else {
			let mut v = vec![];
			for _ in 0..rng.below(3) { let t = rng.pick(&jar_names[..]).clone(); v.push(call(CallKind::Virtual, &t, &cps_str(*rng.pick(&MNAMES[..])), &sdesc)); }
			Some(v)
		};
		let flags = vis | if calls.is_none() { ACC_ABSTRACT } else { 0 } | if rng.chance(1, 6) { ACC_FINAL } else { 0 };
		add_method(&mut jar[ci], AMeth { name, desc: sdesc, flags, calls }, allow_dup);
		return;
	}
	// the delegate: usually a method of the same class, under the same or another name
	let (dclass, dkind) = if kind == "delegate-elsewhere" {
		let other = rng.pick(&jar_names[..]).clone();
		(other, *rng.pick(&[CallKind::Special, CallKind::Static, CallKind::Virtual, CallKind::Interface][..]))
	} else { (cname.clone(), CallKind::Virtual) };
	let dname = if rng.chance(1, 5) { cps_str(*rng.pick(&MNAMES[..])) } else { name.clone() };
	if let Some(di) = jar.iter().position(|c| c.name == dclass) {
		if rng.chance(9, 10) { add_method(&mut jar[di], AMeth { name: dname.clone(), desc: sdesc.clone(), flags: ACC_PUBLIC, calls: Some(vec![]) }, allow_dup); }
	}
	// the synthetic method's signature
	let slots = nparams + if rs != cps_str("V") { 1 } else { 0 };
	let spoil_at = if kind == "bad-type" && slots > 0 { Some(rng.below(slots)) } else { None };
	let mut pb: Vec<S> = ps.iter().enumerate().map(|(i, t)| generalise(rng, h, &jar_names, t, spoil_at == Some(i))).collect();
	let mut rb: S = if rs == cps_str("V") { rs.clone() } else { generalise(rng, h, &jar_names, &rs, spoil_at == Some(nparams)) };
	if kind == "bad-type" && nparams == 0 && rs == cps_str("V") { rb = cps_str("I"); }
	if kind == "arity" { if pb.is_empty() || rng.chance(1, 2) { pb.push(gen_type(rng, &jar_names)); } else { pb.pop(); } }
	if kind == "void-vs-value" { rb = if rs == cps_str("V") { obj(&object()) } else { cps_str("V") }; }
	if kind == "flagged-any-signature" { pb = (0..rng.below(3)).map(|_| gen_type(rng, &jar_names)).collect(); rb = gen_type(rng, &jar_names); }
	let mut bdesc = join_desc(&pb, &rb);
	let mut bname = name.clone();
	if bdesc == sdesc && bname == dname && dclass == cname { bname = cps_str("bridge$"); bname.extend(&name); }
	let mut flags = vis | ACC_SYNTHETIC;
	let target = call(dkind, &dclass, &dname, &sdesc);
	let mut calls = Some(vec![target.clone()]);
	match kind {
		"bridge-flagged" | "flagged-any-signature" | "delegate-elsewhere" => { if kind != "delegate-elsewhere" || rng.chance(1, 2) { flags |= ACC_BRIDGE; } }
		"not-synthetic" => { flags &= !ACC_SYNTHETIC; if rng.chance(1, 2) { flags |= ACC_BRIDGE; } }
		"zero-callees" => calls = Some(vec![]),
		"two-callees" => {
			let other = match rng.below(3) {
				0 => call(CallKind::Virtual, &dclass, &cps_str("other"), &sdesc),                // another name
				1 => call(CallKind::Virtual, rng.pick(&EXTERNAL.map(|e| cps_str(e))[..]), &dname, &sdesc), // another owner
				_ => call(CallKind::Virtual, &dclass, &dname, &join_desc(&pb, &cps_str("V"))),   // another descriptor
			};
			if other.target == target.target { calls = Some(vec![target.clone(), call(CallKind::Static, &object(), &cps_str("hashCode"), &cps_str("()I"))]); }
			else { calls = Some(if rng.chance(1, 2) { vec![target.clone(), other] } else { vec![other, target.clone()] }); }
			if rng.chance(1, 2) { flags |= ACC_BRIDGE; }
		}
		"same-callee-twice" => { calls = Some(vec![target.clone(), call(CallKind::Special, &dclass, &dname, &sdesc), target.clone()]); if rng.chance(1, 2) { flags |= ACC_BRIDGE; } }
		"array-callee-extra" => { calls = Some(vec![call(CallKind::Virtual, &cps_str("[I"), &cps_str("clone"), &cps_str("()Ljava/lang/Object;")), target.clone()]); if rng.chance(1, 2) { flags |= ACC_BRIDGE; } }
		"only-array-callee" => { calls = Some(vec![call(CallKind::Virtual, &cps_str("[Ljava/lang/Object;"), &cps_str("clone"), &cps_str("()Ljava/lang/Object;"))]); flags |= ACC_BRIDGE; }
		"private-static-final" => { flags = (flags & !(ACC_PUBLIC | ACC_PROTECTED)) | *rng.pick(&[ACC_PRIVATE, ACC_STATIC | ACC_PUBLIC, ACC_FINAL | ACC_PUBLIC, ACC_PRIVATE | ACC_STATIC][..]); }
		"flagged-private-static-final" => { flags = (flags & !(ACC_PUBLIC | ACC_PROTECTED)) | ACC_BRIDGE | *rng.pick(&[ACC_PRIVATE, ACC_STATIC | ACC_PUBLIC, ACC_FINAL | ACC_PUBLIC][..]); }
		"indy-extra" => {
			// invokedynamic instructions beside the one invoke: the rule does not count them
			let d = call(CallKind::Dynamic, if rng.chance(1, 2) { &cname } else { &dclass }, &cps_str("run"), &cps_str(*rng.pick(&["()Ljava/lang/Runnable;", "(I)V", "(Ljava/lang/Object;)Ljava/lang/Object;"][..])));
			calls = Some(match rng.below(3) { 0 => vec![d, target.clone()], 1 => vec![target.clone(), d], _ => vec![d.clone(), target.clone(), d] });
			if rng.chance(1, 2) { flags |= ACC_BRIDGE; }
		}
		"only-indy" => { calls = Some(vec![call(CallKind::Dynamic, &cname, &dname, &sdesc)]); if rng.chance(1, 2) { flags |= ACC_BRIDGE; } }
		"no-code" => { calls = None; flags |= ACC_ABSTRACT; if rng.chance(1, 2) { flags |= ACC_BRIDGE; } }
		_ => {}
	}
	if !add_method(&mut jar[ci], AMeth { name: bname.clone(), desc: bdesc.clone(), flags, calls: calls.clone() }, allow_dup) {
		// the key is taken: try once under another name
		bname = cps_str("syn$"); bname.extend(&name); bdesc = join_desc(&pb, &rb);
		add_method(&mut jar[ci], AMeth { name: bname, desc: bdesc, flags, calls }, allow_dup);
	}
}

pub struct JarCfg { pub max_classes: usize, pub max_patterns: usize, pub dups: bool, pub libs: bool,
	/// multi-parent hierarchies inside the jar (diamonds) and patterns whose bridge types are ancestors of the delegate's types
	pub dag: bool }

pub fn gen_jar(rng: &mut Rng, cfg: &JarCfg, counts: &mut dyn FnMut(&str)) -> JarGen {
	let n = rng.range(if cfg.dag { 4 } else { 1 }, cfg.max_classes);
	let mut classes = if cfg.dag { gen_dag(rng, n) } else { gen_hierarchy(rng, n) };
	let h = Hier::new(&classes);
	let total = rng.range(1, cfg.max_patterns);
	for _ in 0..total {
		let ci = rng.below(classes.len());
		if cfg.dag && rng.chance(3, 4) { gen_ancestor_pattern(rng, &mut classes, ci, &h, counts); continue; }
		let kind = pick_kind(rng);
		let dup = cfg.dups && rng.chance(1, 3);
		gen_pattern(rng, &mut classes, ci, &h, kind, dup, counts);
	}
	if rng.chance(1, 3) { for c in &mut classes { rng.shuffle(&mut c.methods); } }
	if cfg.dups && classes.len() > 1 && rng.chance(1, 2) {
		// the same class name twice (two jar entries)
		let mut c = rng.pick(&classes[..]).clone();
		if rng.chance(1, 2) { c.super_class = Some(object()); c.interfaces.clear(); }
		if rng.chance(1, 2) { for m in &mut c.methods { m.flags ^= ACC_SYNTHETIC; } }
		classes.push(c);
	}
	// libraries: classes the main jar refers to as x/Lib, x/Base, with their own super types
	let mut libs = vec![];
	if cfg.libs && rng.chance(1, 2) {
		let mut l = vec![AClass { name: cps_str("x/Lib"), flags: ACC_PUBLIC | ACC_SUPER, super_class: Some(cps_str("x/Base")), interfaces: vec![], methods: vec![] }];
		if rng.chance(1, 2) { l.push(AClass { name: cps_str("x/Base"), flags: ACC_PUBLIC | ACC_SUPER, super_class: Some(object()), interfaces: vec![cps_str("java/lang/Comparable")], methods: vec![] }); }
		libs.push(l);
		if rng.chance(1, 4) { libs.push(vec![AClass { name: cps_str("x/Base"), flags: ACC_PUBLIC, super_class: None, interfaces: vec![], methods: vec![] }]); }
	}
	JarGen { classes, libs }
}

// ---------- mapping sets ----------
fn remap_desc(d: &S, f: &dyn Fn(&S) -> S) -> S {
	let mut out = vec![];
	let mut i = 0;
	while i < d.len() {
		out.push(d[i]);
		if d[i] == 'L' as u32 {
			let end = (i + 1..d.len()).find(|&j| d[j] == ';' as u32).unwrap_or(d.len());
			out.extend(f(&d[i + 1..end].to_vec()));
			out.push(';' as u32);
			i = end + 1;
		} else { i += 1; }
	}
	out
}

fn doc(rng: &mut Rng) -> Option<S> { if rng.chance(1, 3) { Some(cps_str(*rng.pick(&["doc", "two\nlines", "x"][..]))) } else { None } }

pub struct MapCfg { pub name_12: usize, pub swap_calamus: bool, pub swap_named: bool, pub absent_class_names: bool }

/// calamus (official -> intermediary) and mappings (intermediary -> named) for the jar.
/// Every random decision "name it / do not name it" is taken per class and per method.
pub fn gen_maps(rng: &mut Rng, g: &JarGen, cfg: &MapCfg) -> (MMappings, MMappings) {
	let mut all: Vec<&AClass> = g.classes.iter().collect();
	for l in &g.libs { all.extend(l.iter()); }
	// class renames official -> intermediary
	let mut seen: Vec<S> = vec![];
	let mut cmap: Vec<(S, S)> = vec![];
	for c in &all {
		if seen.contains(&c.name) { continue; }
		seen.push(c.name.clone());
		if rng.below(12) < cfg.name_12 + 3 {
			let to = if rng.chance(1, 6) { c.name.clone() } else { let mut t = cps_str("net/C_"); t.extend(cps_str(&cmap.len().to_string())); t };
			cmap.push((c.name.clone(), to));
		}
	}
	let cm = |n: &S| cmap.iter().find(|e| &e.0 == n).map(|e| e.1.clone()).unwrap_or_else(|| n.clone());
	// calamus
	let mut cal = MMappings { ns: vec![cps_str("official"), cps_str("intermediary")], doc: None, classes: vec![] };
	let mut mcount = 0;
	// intermediary view of every method of the jar: (intermediary class, intermediary name or None, intermediary desc)
	let mut inter: Vec<(S, S, S)> = vec![];
	for (off, to) in &cmap {
		let mut mc = MClass { names: vec![Some(off.clone()), if cfg.absent_class_names && rng.chance(1, 8) { None } else { Some(to.clone()) }], doc: None, fields: vec![], methods: vec![] };
		for c in all.iter().filter(|c| &c.name == off) {
			for m in &c.methods {
				if rng.below(12) < cfg.name_12 && !mc.methods.iter().any(|x| x.names[0].as_ref() == Some(&m.name) && x.desc == m.desc) {
					mcount += 1;
					let mut to = cps_str("m_"); to.extend(cps_str(&mcount.to_string()));
					mc.methods.push(MMeth { desc: m.desc.clone(), names: vec![Some(m.name.clone()), if rng.chance(1, 10) { None } else { Some(to) }], doc: None, params: vec![] });
				}
			}
		}
		if rng.chance(1, 6) { mc.fields.push(MField { desc: cps_str("I"), names: vec![Some(cps_str("f")), Some(cps_str("f_1"))], doc: None }); }
		cal.classes.push(mc);
	}
	rng.shuffle(&mut cal.classes);
	// what the methods are called in intermediary (own entry only; good enough to aim the named entries)
	for c in &all {
		let mc = cal.classes.iter().find(|k| k.names[0].as_ref() == Some(&c.name));
		for m in &c.methods {
			let n = mc.and_then(|k| k.methods.iter().find(|x| x.names[0].as_ref() == Some(&m.name) && x.desc == m.desc)).and_then(|x| x.names[1].clone()).unwrap_or_else(|| m.name.clone());
			inter.push((cm(&c.name), n, remap_desc(&m.desc, &cm)));
		}
	}
	// mappings intermediary -> named
	let mut maps = MMappings { ns: vec![cps_str("intermediary"), cps_str("named")], doc: if rng.chance(1, 8) { Some(cps_str("top")) } else { None }, classes: vec![] };
	let mut inter_classes: Vec<S> = vec![];
	for c in &all { let n = cm(&c.name); if !inter_classes.contains(&n) { inter_classes.push(n); } }
	let mut ncount = 0;
	for ic in &inter_classes {
		if rng.below(12) >= cfg.name_12 + 3 { continue; }
		let mut named = cps_str("named/N"); named.extend(cps_str(&maps.classes.len().to_string()));
		let mut mc = MClass { names: vec![Some(ic.clone()), if cfg.absent_class_names && rng.chance(1, 8) { None } else { Some(named) }], doc: doc(rng), fields: vec![], methods: vec![] };
		for (k, n, d) in &inter {
			if k != ic || rng.below(12) >= cfg.name_12 { continue; }
			if mc.methods.iter().any(|x| x.names[0].as_ref() == Some(n) && x.desc == *d) { continue; }
			ncount += 1;
			let mut to = cps_str("named"); to.extend(cps_str(&ncount.to_string()));
			let mut me = MMeth { desc: d.clone(), names: vec![Some(n.clone()), if rng.chance(1, 8) { None } else { Some(to) }], doc: doc(rng), params: vec![] };
			for i in 0..rng.below(3) { me.params.push(MParam { index: i as u64, names: vec![None, Some(cps_str("arg"))], doc: doc(rng) }); }
			mc.methods.push(me);
		}
		// an entry for a method the jar does not have, and a field
		if rng.chance(1, 4) { mc.methods.push(MMeth { desc: cps_str("()V"), names: vec![Some(cps_str("unrelated")), Some(cps_str("unrelatedNamed"))], doc: doc(rng), params: vec![] }); }
		if rng.chance(1, 4) { mc.fields.push(MField { desc: cps_str("I"), names: vec![Some(cps_str("f_1")), Some(cps_str("field"))], doc: doc(rng) }); }
		maps.classes.push(mc);
	}
	// the bridge's key named in a super type of the bridge's class (found through inheritance): in one super type, or —
	// under different names — in every super type and sometimes in their super types too (the first one in parent-list
	// order, depth first, decides); then the own entry of the key is sometimes removed
	for (k, n, d) in inter.clone() {
		if !rng.chance(1, 6) { continue; }
		let owner = all.iter().find(|c| cm(&c.name) == k);
		let Some(owner) = owner else { continue };
		let direct: Vec<&S> = owner.super_class.iter().chain(owner.interfaces.iter()).collect();
		if direct.is_empty() { continue; }
		let mut targets: Vec<S> = vec![];
		if rng.chance(1, 2) { targets.push(cm(*rng.pick(&direct[..]))); }
		else {
			for s in &direct {
				if rng.chance(4, 5) { targets.push(cm(s)); }
				if let Some(sc) = all.iter().find(|c| &c.name == *s) { for s2 in sc.super_class.iter().chain(sc.interfaces.iter()) { if rng.chance(1, 2) { targets.push(cm(s2)); } } }
			}
			if rng.chance(1, 2) { if let Some(own) = maps.classes.iter_mut().find(|c| c.names[0].as_ref() == Some(&k)) { own.methods.retain(|x| !(x.names[0].as_ref() == Some(&n) && x.desc == d)); } }
			else if rng.chance(1, 2) {
				// the own entry stays but has NO named name (it only carries a parameter name): it names nothing, the lookup goes on
				match maps.classes.iter_mut().find(|c| c.names[0].as_ref() == Some(&k)) {
					Some(own) => match own.methods.iter_mut().find(|x| x.names[0].as_ref() == Some(&n) && x.desc == d) {
						Some(x) => x.names[1] = None,
						None => own.methods.push(MMeth { desc: d.clone(), names: vec![Some(n.clone()), None], doc: None, params: vec![MParam { index: 1, names: vec![None, Some(cps_str("arg"))], doc: None }] }),
					},
					None => {}
				}
			}
		}
		for sup in targets {
			let idx = match maps.classes.iter().position(|c| c.names[0].as_ref() == Some(&sup)) {
				Some(i) => i,
				None => { let mut nm = cps_str("named/S"); nm.extend(cps_str(&maps.classes.len().to_string())); maps.classes.push(MClass { names: vec![Some(sup.clone()), Some(nm)], doc: None, fields: vec![], methods: vec![] }); maps.classes.len() - 1 }
			};
			if maps.classes[idx].methods.iter().any(|x| x.names[0].as_ref() == Some(&n) && x.desc == d) { continue; }
			ncount += 1;
			let mut to = cps_str("inherited"); to.extend(cps_str(&ncount.to_string()));
			maps.classes[idx].methods.push(MMeth { desc: d.clone(), names: vec![Some(n.clone()), Some(to)], doc: None, params: vec![] });
		}
	}
	rng.shuffle(&mut maps.classes);
	if cfg.swap_calamus { swap(&mut cal); }
	if cfg.swap_named { swap(&mut maps); }
	(cal, maps)
}

/// the same table with the two namespaces exchanged (rows without a name in the new first column are dropped)
fn swap(m: &mut MMappings) {
	m.ns.swap(0, 1);
	let table: Vec<(S, S)> = m.classes.iter().filter_map(|c| Some((c.names[0].clone()?, c.names[1].clone()?))).collect();
	let f = |n: &S| table.iter().find(|e| &e.0 == n).map(|e| e.1.clone()).unwrap_or_else(|| n.clone());
	m.classes.retain(|c| c.names[1].is_some());
	for c in &mut m.classes {
		c.names.swap(0, 1);
		c.methods.retain(|x| x.names[1].is_some());
		c.fields.retain(|x| x.names[1].is_some());
		for x in &mut c.methods { x.names.swap(0, 1); x.desc = remap_desc(&x.desc, &f); }
		for x in &mut c.fields { x.names.swap(0, 1); x.desc = remap_desc(&x.desc, &f); }
		let mut seen = vec![];
		c.methods.retain(|x| { let k = (x.names[0].clone(), x.desc.clone()); if seen.contains(&k) { false } else { seen.push(k); true } });
	}
	let mut seen = vec![];
	m.classes.retain(|c| { if seen.contains(&c.names[0]) { false } else { seen.push(c.names[0].clone()); true } });
}

#[allow(dead_code)]
pub fn desc_ok(d: &S) -> bool { split_desc(d).is_some() }
