//! Independent reference of the documented rule (property C15), written against the abstract jar
//! and the mapping mirrors only; shares no code with /repo and none with the Coq model.
//!
//!  * (b, s) is a bridge pair iff b is synthetic, the distinct object-class methods its body
//!    invokes are exactly {s}, and b carries the bridge flag or is not private/static/final and
//!    has the arity of s with position-wise bridge-compatible parameter and return types;
//!  * for every pair, in the bridge's class (intermediary name) the entry keyed by the delegate's
//!    intermediary name and descriptor has the names [delegate name, name the mappings give the
//!    bridge through inheritance]; javadoc and parameters of an existing entry stay;
//!  * everything else is returned unchanged.
use crate::spec::*;
use fbh::gal::{cps_str, show};
use fbh::mapmodel::*;
use std::collections::{BTreeMap, BTreeSet, HashMap, HashSet};

pub fn object() -> S { cps_str("java/lang/Object") }

/// the field types of a descriptor as strings, and the return type ("V" for void); None if malformed
pub fn split_desc(d: &[u32]) -> Option<(Vec<S>, S)> {
	let c = |i: usize| d.get(i).copied();
	if c(0) != Some('(' as u32) { return None; }
	let mut i = 1;
	let one = |i: &mut usize| -> Option<S> {
		let start = *i;
		while c(*i) == Some('[' as u32) { *i += 1; }
		match char::from_u32(c(*i)?)? {
			'B' | 'C' | 'D' | 'F' | 'I' | 'J' | 'S' | 'Z' => { *i += 1; }
			'L' => { while c(*i)? != ';' as u32 { *i += 1; } *i += 1; }
			_ => return None,
		}
		Some(d[start..*i].to_vec())
	};
	let mut ps = vec![];
	while c(i)? != ')' as u32 { ps.push(one(&mut i)?); }
	i += 1;
	let r = if c(i) == Some('V' as u32) { i += 1; vec!['V' as u32] } else { one(&mut i)? };
	if i != d.len() { return None; }
	Some((ps, r))
}
fn obj_name(t: &[u32]) -> Option<&[u32]> { if t.first() == Some(&('L' as u32)) { Some(&t[1..t.len() - 1]) } else { None } }

pub struct Hier { pub in_jar: HashSet<S>, pub parents: HashMap<S, Vec<S>> }
impl Hier {
	pub fn new(jar: &[AClass]) -> Hier {
		let mut h = Hier { in_jar: HashSet::new(), parents: HashMap::new() };
		for c in jar {
			h.in_jar.insert(c.name.clone());
			let e = h.parents.entry(c.name.clone()).or_default();
			if let Some(s) = &c.super_class { if *s != object() { e.push(s.clone()); } }
			e.extend(c.interfaces.iter().cloned());
		}
		h
	}
	/// all proper ancestors (transitive closure, with a visited set)
	pub fn ancestors(&self, c: &S) -> BTreeSet<S> {
		let mut seen = BTreeSet::new();
		let mut todo = vec![c.clone()];
		while let Some(x) = todo.pop() {
			for p in self.parents.get(&x).into_iter().flatten() {
				if seen.insert(p.clone()) { todo.push(p.clone()); }
			}
		}
		seen
	}
	pub fn compatible(&self, tb: &[u32], ts: &[u32]) -> bool {
		if tb == ts { return true; }
		match (obj_name(tb), obj_name(ts)) {
			(Some(b), Some(s)) => {
				b == &object()[..] || !self.in_jar.contains(b)
					|| self.ancestors(&s.to_vec()).iter().any(|a| &a[..] == b || !self.in_jar.contains(a))
			}
			_ => false,
		}
	}
	pub fn potential(&self, b: &AMeth, s: &MRef) -> bool {
		if b.is(ACC_PRIVATE) || b.is(ACC_STATIC) || b.is(ACC_FINAL) { return false; }
		let (Some((pb, rb)), Some((ps, rs))) = (split_desc(&b.desc), split_desc(&s.desc)) else { return false };
		if pb.len() != ps.len() { return false; }
		if !pb.iter().zip(&ps).all(|(x, y)| self.compatible(x, y)) { return false; }
		let v = vec!['V' as u32];
		if rb == v || rs == v { return rb == rs; }
		self.compatible(&rb, &rs)
	}
}

/// distinct names / keys: the jars the reference speaks about
pub fn jar_wf(jar: &[AClass]) -> bool {
	let mut names = HashSet::new();
	for c in jar {
		if !names.insert(&c.name) { return false; }
		let mut keys = HashSet::new();
		for m in &c.methods { if !keys.insert((&m.name, &m.desc)) { return false; } }
	}
	true
}

pub fn distinct_obj_calls(m: &AMeth) -> Option<Vec<MRef>> {
	let calls = m.calls.as_ref()?;
	let mut out: Vec<MRef> = vec![];
	for c in calls {
		if c.kind == CallKind::Dynamic { continue; }                     // invokedynamic: not a method invocation the rule counts
		if c.target.class.first() == Some(&('[' as u32)) { continue; }   // a method of an array class: dropped
		if !out.contains(&c.target) { out.push(c.target.clone()); }
	}
	Some(out)
}

/// why a method is (not) a bridge, for the distribution counts
pub fn classify(h: &Hier, m: &AMeth) -> (&'static str, Option<MRef>) {
	if !m.is(ACC_SYNTHETIC) { return ("not-synthetic", None); }
	let Some(calls) = distinct_obj_calls(m) else { return ("synthetic-no-code", None) };
	if calls.is_empty() { return ("synthetic-zero-callees", None); }
	if calls.len() > 1 { return ("synthetic-several-callees", None); }
	let s = calls[0].clone();
	if m.is(ACC_BRIDGE) { return ("bridge-flagged", Some(s)); }
	if m.is(ACC_PRIVATE) || m.is(ACC_STATIC) || m.is(ACC_FINAL) { return ("unflagged-private-static-final", None); }
	if let (Some((pb, _)), Some((ps, _))) = (split_desc(&m.desc), split_desc(&s.desc)) { if pb.len() != ps.len() { return ("unflagged-arity-mismatch", None); } }
	if h.potential(m, &s) { ("bridge-unflagged-compatible", Some(s)) } else { ("unflagged-incompatible-types", None) }
}

/// the expected (bridge, delegate) pairs in visiting order
pub fn ref_pairs(jar: &[AClass]) -> Vec<(MRef, MRef)> {
	let h = Hier::new(jar);
	let mut out = vec![];
	for c in jar { for m in &c.methods { if let (_, Some(s)) = classify(&h, m) { out.push((m.mref(&c.name), s)); } } }
	out
}

// ---------- the remapping part ----------
/// false since /repo d5b20d9 ("fix: remapper searches the super types of an owner class that has
/// no mapping"): the super types are searched whether or not the owner has a class entry
pub const OWNER_GATE: bool = false;

pub struct Look<'a> { pub m: &'a MMappings, pub from: usize, pub to: usize, pub supers: &'a dyn Fn(&S) -> Option<Vec<S>>,
	/// set when a search through the super types came back to a class it was searching the super types of: the documented
	/// behaviour of the remapper on cyclic inheritance information is an error
	pub cyclic: std::cell::Cell<bool>,
	/// (owner, name, descriptor) searched to the end without a hit: a later search of the same key through another path
	/// need not look there again (keeps the reference linear on stacked diamonds; no influence on any answer)
	pub failed: std::cell::RefCell<HashSet<(S, S, S)>> }
impl<'a> Look<'a> {
	fn class_entry(&self, c: &S) -> Option<&'a MClass> {
		self.m.classes.iter().rev().find(|k| k.names[self.from].as_ref() == Some(c) && k.names[self.to].is_some())
	}
	pub fn class(&self, c: &S) -> S { self.class_entry(c).and_then(|k| k.names[self.to].clone()).unwrap_or_else(|| c.clone()) }
	fn class0(&self, ns: usize, c: &S) -> S {
		self.m.classes.iter().rev().find(|k| k.names[0].as_ref() == Some(c) && k.names[ns].is_some()).and_then(|k| k.names[ns].clone()).unwrap_or_else(|| c.clone())
	}
	fn desc_with(&self, d: &S, f: &dyn Fn(&S) -> S) -> S {
		let mut out = vec![];
		let mut i = 0;
		while i < d.len() {
			out.push(d[i]);
			if d[i] == 'L' as u32 {
				let end = (i + 1..d.len()).find(|&j| d[j] == ';' as u32).unwrap_or(d.len());
				out.extend(f(&d[i + 1..end].to_vec()));
				if end < d.len() { out.push(';' as u32); }
				i = end + 1;
			} else { i += 1; }
		}
		out
	}
	pub fn desc(&self, d: &S) -> S { self.desc_with(d, &|c| self.class(c)) }
	fn method_fail(&self, owner: &S, name: &S, desc: &S, path: &mut Vec<S>) -> Option<(S, S)> {
		if self.cyclic.get() { return None; }
		if path.contains(owner) { self.cyclic.set(true); return None; }
		let memo = (owner.clone(), name.clone(), desc.clone());
		if self.failed.borrow().contains(&memo) { return None; }
		let entry = self.class_entry(owner);
		if let Some(k) = entry {
			for me in k.methods.iter().rev() {
				if let (Some(a), Some(b)) = (&me.names[self.from], &me.names[self.to]) {
					if a == name && &self.desc_with(&me.desc, &|c| self.class0(self.from, c)) == desc {
						return Some((b.clone(), self.desc_with(&me.desc, &|c| self.class0(self.to, c))));
					}
				}
			}
		} else if OWNER_GATE { return None; }
		path.push(owner.clone());
		for s in (self.supers)(owner).unwrap_or_default() {
			if let Some(r) = self.method_fail(&s, name, desc, path) { path.pop(); return Some(r); }
			if self.cyclic.get() { break; }
		}
		path.pop();
		if !self.cyclic.get() { self.failed.borrow_mut().insert(memo); }
		None
	}
	pub fn mref(&self, r: &MRef) -> MRef {
		let (name, desc) = self.method_fail(&r.class, &r.name, &r.desc, &mut vec![]).unwrap_or_else(|| (r.name.clone(), self.desc(&r.desc)));
		MRef { class: self.class(&r.class), name, desc }
	}
}

pub fn jar_supers(jars: &[&[AClass]], c: &S) -> Option<Vec<S>> {
	for j in jars {
		if let Some(k) = j.iter().rev().find(|k| &k.name == c) {
			let mut v: Vec<S> = vec![];
			for s in k.super_class.iter().chain(k.interfaces.iter()) { if !v.contains(s) { v.push(s.clone()); } }
			return Some(v);
		}
	}
	None
}

pub struct Expect { pub class: S, pub key: (S, S), pub names: NamesRow, pub alternatives: Vec<NamesRow> }

/// What the produced mappings must contain, and a checker for a produced tree.
/// Returns the list of deviations (empty = the property holds on this input).  `got` = None: the implementation
/// returned an error, which is what is expected exactly when one of the inheritance lookups runs into a cycle.
pub fn check_add(jar: &[AClass], libs: &[Vec<AClass>], cal: &MMappings, maps: &MMappings, got: Option<&MMappings>) -> Vec<String> {
	let mut jars: Vec<&[AClass]> = vec![jar];
	for l in libs { jars.push(l); }
	let sup_off = |c: &S| jar_supers(&jars, c);
	let lc = Look { m: cal, from: 0, to: 1, supers: &sup_off, cyclic: Default::default(), failed: Default::default() };
	// the provider re-expressed in intermediary names
	let mut inter: Vec<Vec<(S, Vec<S>)>> = vec![];
	for j in &jars {
		let mut p: Vec<(S, Vec<S>)> = vec![];
		for k in j.iter() {
			let mut v: Vec<S> = vec![];
			for s in k.super_class.iter().chain(k.interfaces.iter()) { let n = lc.class(s); if !v.contains(&n) { v.push(n); } }
			let n = lc.class(&k.name);
			if let Some(e) = p.iter_mut().find(|e| e.0 == n) { e.1 = v; } else { p.push((n, v)); }
		}
		inter.push(p);
	}
	let sup_int = |c: &S| inter.iter().find_map(|p| p.iter().find(|e| &e.0 == c).map(|e| e.1.clone()));
	let ln = Look { m: maps, from: 0, to: 1, supers: &sup_int, cyclic: Default::default(), failed: Default::default() };

	// expected entries, the last bridge of a (class, delegate) winning
	let mut pairs: Vec<(MRef, MRef)> = vec![];
	for (b, s) in ref_pairs(jar) {
		let (b2, s2) = (lc.mref(&b), lc.mref(&s));
		if let Some(e) = pairs.iter_mut().find(|e| e.0 == b2) { e.1 = s2; } else { pairs.push((b2, s2)); }
	}
	let mut expect: BTreeMap<(S, S, S), (NamesRow, Vec<NamesRow>)> = BTreeMap::new();
	for (b, s) in &pairs {
		let row = vec![Some(s.name.clone()), Some(ln.mref(b).name)];
		let e = expect.entry((b.class.clone(), s.name.clone(), s.desc.clone())).or_insert_with(|| (row.clone(), vec![]));
		e.0 = row.clone();
		e.1.push(row);
	}

	let mut dev = vec![];
	let cyclic = lc.cyclic.get() || ln.cyclic.get();
	let got = match (got, cyclic) {
		(None, true) => return dev,
		(None, false) => { dev.push("returned an error although every inheritance lookup of a bridge / delegate ends".to_string()); return dev; }
		(Some(_), true) => { dev.push("returned mappings although a lookup through the super types of a bridge / delegate runs into cyclic inheritance (documented: an error)".to_string()); return dev; }
		(Some(g), false) => g,
	};
	if got.ns != maps.ns || got.doc != maps.doc { dev.push("namespaces or top-level javadoc changed".to_string()); }
	if got.classes.len() != maps.classes.len() { dev.push(format!("{} classes became {}", maps.classes.len(), got.classes.len())); return dev; }
	// The property is about which entries exist, not about their iteration order: classes are matched by
	// their names row (every class of the input exactly once in the result), method entries as multisets.
	let mut used = vec![false; got.classes.len()];
	for c0 in &maps.classes {
		let cname = c0.names[0].clone().unwrap_or_default();
		let Some(j) = (0..got.classes.len()).find(|&j| !used[j] && got.classes[j].names == c0.names) else {
			dev.push(format!("class {}: no class with these names in the result", show(&cname))); continue;
		};
		used[j] = true;
		let c1 = &got.classes[j];
		if c0.doc != c1.doc || !same_multiset(&c0.fields, &c1.fields) { dev.push(format!("class {}: javadoc or fields changed", show(&cname))); continue; }
		let is_delegate = |m: &MMeth| expect.contains_key(&(cname.clone(), m.names[0].clone().unwrap_or_default(), m.desc.clone()));
		// entries not keyed by a delegate: the same entries (in any order)
		let keep0: Vec<MMeth> = c0.methods.iter().filter(|m| !is_delegate(m)).cloned().collect();
		let keep1: Vec<MMeth> = c1.methods.iter().filter(|m| !is_delegate(m)).cloned().collect();
		if !same_multiset(&keep0, &keep1) { dev.push(format!("class {}: a method entry that is not keyed by a delegate was changed, added or removed", show(&cname))); }
		// entries keyed by a delegate
		for ((ec, en, ed), (row, alts)) in &expect {
			if *ec != cname { continue; }
			let found: Vec<&MMeth> = c1.methods.iter().filter(|m| m.names[0].as_ref() == Some(en) && m.desc == *ed).collect();
			if found.len() != 1 { dev.push(format!("class {}: {} entries for delegate {}{}", show(&cname), found.len(), show(en), show(ed))); continue; }
			let old = c0.methods.iter().find(|m| m.names[0].as_ref() == Some(en) && m.desc == *ed);
			let ok_row = if alts.len() == 1 { found[0].names == *row } else { alts.contains(&found[0].names) };
			if !ok_row { dev.push(format!("class {}: delegate {}{} has names {:?}, expected {:?}", show(&cname), show(en), show(ed), show_row(&found[0].names), show_row(row))); }
			let (doc, params) = match old { Some(o) => (o.doc.clone(), o.params.clone()), None => (None, vec![]) };
			if found[0].doc != doc || !same_multiset(&found[0].params, &params) { dev.push(format!("class {}: javadoc or parameters of delegate {}{} changed", show(&cname), show(en), show(ed))); }
		}
	}
	dev
}

// ---------- SpecializedMethods: the tie-break of specialized_to_bridge and `remap` ----------
impl Hier {
	/// all proper descendants (transitive closure over the same edges, with a visited set)
	pub fn descendants(&self, c: &S) -> BTreeSet<S> {
		let mut seen = BTreeSet::new();
		let mut todo = vec![c.clone()];
		while let Some(x) = todo.pop() {
			for (k, ps) in &self.parents {
				if ps.contains(&x) && seen.insert(k.clone()) { todo.push(k.clone()); }
			}
		}
		seen
	}
}

/// specialized_to_bridge by the documented rule ("we already have a bridge for this method, so we keep the one higher in
/// the hierarchy"): one entry per delegate, in the order the delegates are first seen; a later bridge replaces the
/// recorded one exactly when the recorded bridge's class is a (transitive) subtype of the later bridge's class.
pub fn ref_s2b(jar: &[AClass], pairs: &[(MRef, MRef)]) -> Vec<(MRef, MRef)> {
	let h = Hier::new(jar);
	let mut out: Vec<(MRef, MRef)> = vec![];
	for (b, s) in pairs {
		match out.iter_mut().find(|e| e.0 == *s) {
			Some(e) => { if h.descendants(&b.class).contains(&e.1.class) { e.1 = b.clone(); } }
			None => out.push((s.clone(), b.clone())),
		}
	}
	out
}

/// `SpecializedMethods::remap(calamus remapper)` on one of its two tables, by the documented rule: both components of
/// every pair re-expressed in intermediary names (own row, else through the super types of the jars), collected into a
/// map keyed by the first component — a later pair with an equal key replaces the value, the position of the first
/// stays.  None = one of the lookups runs into cyclic inheritance (documented: an error).
pub fn ref_remap(jar: &[AClass], libs: &[Vec<AClass>], cal: &MMappings, pairs: &[(MRef, MRef)]) -> Option<Vec<(MRef, MRef)>> {
	let mut jars: Vec<&[AClass]> = vec![jar];
	for l in libs { jars.push(l); }
	let sup_off = |c: &S| jar_supers(&jars, c);
	let lc = Look { m: cal, from: 0, to: 1, supers: &sup_off, cyclic: Default::default(), failed: Default::default() };
	let mut out: Vec<(MRef, MRef)> = vec![];
	for (a, b) in pairs {
		let (a2, b2) = (lc.mref(a), lc.mref(b));
		if let Some(e) = out.iter_mut().find(|e| e.0 == a2) { e.1 = b2; } else { out.push((a2, b2)); }
	}
	if lc.cyclic.get() { None } else { Some(out) }
}

/// equality of two lists as multisets
fn same_multiset<T: PartialEq>(a: &[T], b: &[T]) -> bool {
	if a.len() != b.len() { return false; }
	let mut used = vec![false; b.len()];
	a.iter().all(|x| match (0..b.len()).find(|&j| !used[j] && b[j] == *x) { Some(j) => { used[j] = true; true } None => false })
}

pub fn show_row(r: &NamesRow) -> String { format!("[{}]", r.iter().map(|o| o.as_ref().map(|s| show(s)).unwrap_or("-".into())).collect::<Vec<_>>().join(", ")) }
