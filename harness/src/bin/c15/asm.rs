//! A minimal class-file assembler for C15: builds a class file from the abstract description the
//! model sees (name, super class, interfaces, methods with access flags and the ordered list of
//! invoke instructions of the body).  Nothing of /repo is used here; the bytes follow JVMS 4.
use crate::spec::{AClass, AMeth, Call, CallKind, S};
use fbh::prng::Rng;
use std::collections::HashMap;

/// modified UTF-8 of a sequence of code points (no lone surrogates are generated)
pub fn mutf8(s: &[u32]) -> Vec<u8> {
	let mut out = vec![];
	let mut unit = |u: u32, out: &mut Vec<u8>| {
		if u != 0 && u < 0x80 { out.push(u as u8); }
		else if u < 0x800 { out.push(0xC0 | (u >> 6) as u8); out.push(0x80 | (u & 0x3F) as u8); }
		else { out.push(0xE0 | (u >> 12) as u8); out.push(0x80 | ((u >> 6) & 0x3F) as u8); out.push(0x80 | (u & 0x3F) as u8); }
	};
	for &c in s {
		if c >= 0x10000 {
			let v = c - 0x10000;
			unit(0xD800 + (v >> 10), &mut out);
			unit(0xDC00 + (v & 0x3FF), &mut out);
		} else { unit(c, &mut out); }
	}
	out
}

#[derive(Clone, PartialEq, Eq, Hash)]
enum Cp { Utf8(Vec<u8>), Class(u16), NameAndType(u16, u16), Methodref(u16, u16), IMethodref(u16, u16), Fieldref(u16, u16), Int(i32), MethodHandle(u8, u16), InvokeDynamic(u16, u16) }

#[derive(Default)]
struct Pool { entries: Vec<Cp>, index: HashMap<Cp, u16>,
	/// the BootstrapMethods table: one method handle per entry, no static arguments
	bsms: Vec<u16> }
impl Pool {
	fn add(&mut self, e: Cp) -> u16 {
		if let Some(&i) = self.index.get(&e) { return i; }
		self.entries.push(e.clone());
		let i = self.entries.len() as u16; // entries are numbered from 1; no long/double entries are used
		self.index.insert(e, i);
		i
	}
	fn utf8(&mut self, s: &[u32]) -> u16 { self.add(Cp::Utf8(mutf8(s))) }
	fn ascii(&mut self, s: &str) -> u16 { self.add(Cp::Utf8(s.as_bytes().to_vec())) }
	fn class(&mut self, s: &[u32]) -> u16 { let n = self.utf8(s); self.add(Cp::Class(n)) }
	fn nat(&mut self, n: &[u32], d: &[u32]) -> u16 { let a = self.utf8(n); let b = self.utf8(d); self.add(Cp::NameAndType(a, b)) }
	fn mref(&mut self, c: &[u32], n: &[u32], d: &[u32], iface: bool) -> u16 {
		let ci = self.class(c); let nt = self.nat(n, d);
		self.add(if iface { Cp::IMethodref(ci, nt) } else { Cp::Methodref(ci, nt) })
	}
	/// CONSTANT_InvokeDynamic for a call site `name desc` whose bootstrap method is the static method
	/// `owner.bootstrap(Lookup, String, MethodType)CallSite` (REF_invokeStatic)
	fn indy(&mut self, owner: &[u32], n: &[u32], d: &[u32]) -> u16 {
		let bdesc = fbh::gal::cps_str("(Ljava/lang/invoke/MethodHandles$Lookup;Ljava/lang/String;Ljava/lang/invoke/MethodType;)Ljava/lang/invoke/CallSite;");
		let m = self.mref(owner, &fbh::gal::cps_str("bootstrap"), &bdesc, false);
		let h = self.add(Cp::MethodHandle(6, m));
		let b = match self.bsms.iter().position(|&x| x == h) { Some(i) => i, None => { self.bsms.push(h); self.bsms.len() - 1 } } as u16;
		let nt = self.nat(n, d);
		self.add(Cp::InvokeDynamic(b, nt))
	}
	fn bytes(&self) -> Vec<u8> {
		let mut o = vec![];
		o.extend(((self.entries.len() + 1) as u16).to_be_bytes());
		for e in &self.entries {
			match e {
				Cp::Utf8(b) => { o.push(1); o.extend((b.len() as u16).to_be_bytes()); o.extend(b); }
				Cp::Int(v) => { o.push(3); o.extend(v.to_be_bytes()); }
				Cp::Class(n) => { o.push(7); o.extend(n.to_be_bytes()); }
				Cp::Fieldref(c, n) => { o.push(9); o.extend(c.to_be_bytes()); o.extend(n.to_be_bytes()); }
				Cp::Methodref(c, n) => { o.push(10); o.extend(c.to_be_bytes()); o.extend(n.to_be_bytes()); }
				Cp::IMethodref(c, n) => { o.push(11); o.extend(c.to_be_bytes()); o.extend(n.to_be_bytes()); }
				Cp::NameAndType(n, d) => { o.push(12); o.extend(n.to_be_bytes()); o.extend(d.to_be_bytes()); }
				Cp::MethodHandle(k, r) => { o.push(15); o.push(*k); o.extend(r.to_be_bytes()); }
				Cp::InvokeDynamic(b, n) => { o.push(18); o.extend(b.to_be_bytes()); o.extend(n.to_be_bytes()); }
			}
		}
		o
	}
}

/// the parameter and return kinds of a (valid) method descriptor: one char per parameter
/// ('L' for references and arrays, else the primitive letter), and the return kind ('V' for void)
pub fn desc_kinds(d: &[u32]) -> (Vec<char>, char) {
	let mut ps = vec![];
	let mut i = 1; // after '('
	let ch = |i: usize| d.get(i).and_then(|&c| char::from_u32(c)).unwrap_or('V');
	let mut one = |i: &mut usize| -> char {
		let mut arr = false;
		while ch(*i) == '[' { arr = true; *i += 1; }
		let c = ch(*i);
		if c == 'L' { while *i < d.len() && ch(*i) != ';' { *i += 1; } }
		*i += 1;
		if arr || c == 'L' { 'L' } else { c }
	};
	while i < d.len() && ch(i) != ')' { ps.push(one(&mut i)); }
	i += 1;
	let r = if ch(i) == 'V' { 'V' } else { one(&mut i) };
	(ps, r)
}

fn push_default(code: &mut Vec<u8>, k: char) {
	code.push(match k { 'L' => 0x01, 'J' => 0x09, 'F' => 0x0b, 'D' => 0x0e, _ => 0x03 });
}

fn body(pool: &mut Pool, me: &AMeth, calls: &[Call], rng: &mut Rng, this: &[u32]) -> (Vec<u8>, u16, u16) {
	let mut code = vec![];
	let mut max_stack = 2u16;
	let noise = |code: &mut Vec<u8>, pool: &mut Pool, rng: &mut Rng| {
		match rng.below(8) {
			0 => code.push(0x00),                                         // nop
			1 => { code.push(0x03); code.push(0x57); }                    // iconst_0; pop
			2 => { code.push(0x10); code.push(rng.below(100) as u8); code.push(0x57); } // bipush n; pop
			3 => { let f = { let c = pool.class(this); let nt = pool.nat(&[102], &[73]); pool.add(Cp::Fieldref(c, nt)) }; // getstatic this.f:I; pop
				code.push(0xb2); code.extend(f.to_be_bytes()); code.push(0x57); }
			4 => { let i = pool.add(Cp::Int(rng.below(1000) as i32 + 70000)); if i < 256 { code.push(0x12); code.push(i as u8); } else { code.push(0x13); code.extend(i.to_be_bytes()); } code.push(0x57); } // ldc; pop
			_ => {}
		}
	};
	for c in calls {
		noise(&mut code, pool, rng);
		let (ps, r) = desc_kinds(&c.target.desc);
		if c.kind != CallKind::Static && c.kind != CallKind::Dynamic { code.push(0x2a); } // aload_0
		let mut depth = 1u16;
		for &p in &ps {
			push_default(&mut code, p);
			depth += if p == 'J' || p == 'D' { 2 } else { 1 };
			if p == 'L' && rng.chance(1, 3) { let ci = pool.class(&fbh::gal::cps_str("java/lang/Object")); code.push(0xc0); code.extend(ci.to_be_bytes()); } // checkcast
		}
		max_stack = max_stack.max(depth + 2);
		let idx = if c.kind == CallKind::Dynamic { pool.indy(&c.target.class, &c.target.name, &c.target.desc) } else { pool.mref(&c.target.class, &c.target.name, &c.target.desc, c.iface_ref) };
		match c.kind {
			CallKind::Dynamic => { code.push(0xba); code.extend(idx.to_be_bytes()); code.push(0); code.push(0); }
			CallKind::Virtual => { code.push(0xb6); code.extend(idx.to_be_bytes()); }
			CallKind::Special => { code.push(0xb7); code.extend(idx.to_be_bytes()); }
			CallKind::Static => { code.push(0xb8); code.extend(idx.to_be_bytes()); }
			CallKind::Interface => { code.push(0xb9); code.extend(idx.to_be_bytes()); code.push(depth.min(255) as u8); code.push(0); }
		}
		match r { 'V' => {}, 'J' | 'D' => code.push(0x58), _ => code.push(0x57) }
	}
	noise(&mut code, pool, rng);
	let (ps, r) = desc_kinds(&me.desc);
	match r {
		'V' => code.push(0xb1),
		'L' => { code.push(0x01); code.push(0xb0); }
		'J' => { code.push(0x09); code.push(0xad); }
		'F' => { code.push(0x0b); code.push(0xae); }
		'D' => { code.push(0x0e); code.push(0xaf); }
		_ => { code.push(0x03); code.push(0xac); }
	}
	let max_locals = 1 + ps.iter().map(|&p| if p == 'J' || p == 'D' { 2 } else { 1 }).sum::<u16>();
	(code, max_stack + 2, max_locals)
}

/// The class file of `c`.  `rng` only chooses noise instructions between the invokes.
pub fn assemble(c: &AClass, rng: &mut Rng) -> Vec<u8> {
	let mut pool = Pool::default();
	let this = pool.class(&c.name);
	let sup = match &c.super_class { Some(s) => pool.class(s), None => 0 };
	let ifs: Vec<u16> = c.interfaces.iter().map(|i| pool.class(i)).collect();
	let code_name = pool.ascii("Code");
	let mut methods = vec![];
	for m in &c.methods {
		let mut o = vec![];
		o.extend(m.flags.to_be_bytes());
		o.extend(pool.utf8(&m.name).to_be_bytes());
		o.extend(pool.utf8(&m.desc).to_be_bytes());
		match &m.calls {
			None => o.extend(0u16.to_be_bytes()),
			Some(calls) => {
				let (code, max_stack, max_locals) = body(&mut pool, m, calls, rng, &c.name);
				o.extend(1u16.to_be_bytes());
				o.extend(code_name.to_be_bytes());
				o.extend(((12 + code.len()) as u32).to_be_bytes());
				o.extend(max_stack.to_be_bytes());
				o.extend(max_locals.to_be_bytes());
				o.extend((code.len() as u32).to_be_bytes());
				o.extend(&code);
				o.extend(0u16.to_be_bytes()); // exception table
				o.extend(0u16.to_be_bytes()); // attributes
			}
		}
		methods.push(o);
	}
	// the attribute name must be in the pool before the pool is written
	let bsm_name = if pool.bsms.is_empty() { 0 } else { pool.ascii("BootstrapMethods") };
	let mut out = vec![0xCA, 0xFE, 0xBA, 0xBE, 0, 0, 0, 52];
	out.extend(pool.bytes());
	out.extend(c.flags.to_be_bytes());
	out.extend(this.to_be_bytes());
	out.extend(sup.to_be_bytes());
	out.extend((ifs.len() as u16).to_be_bytes());
	for i in ifs { out.extend(i.to_be_bytes()); }
	out.extend(0u16.to_be_bytes()); // fields
	out.extend((methods.len() as u16).to_be_bytes());
	for m in methods { out.extend(m); }
	if pool.bsms.is_empty() { out.extend(0u16.to_be_bytes()); } // attributes
	else {
		out.extend(1u16.to_be_bytes());
		out.extend(bsm_name.to_be_bytes());
		out.extend(((2 + 4 * pool.bsms.len()) as u32).to_be_bytes());
		out.extend((pool.bsms.len() as u16).to_be_bytes());
		for h in &pool.bsms { out.extend(h.to_be_bytes()); out.extend(0u16.to_be_bytes()); }
	}
	out
}

#[allow(dead_code)]
pub fn s(x: &str) -> S { fbh::gal::cps_str(x) }
