//! Deterministic inputs of C15 (no randomness in WHAT is built; the assembler's noise instructions are the
//! only random part): the hierarchy shapes and body shapes a random generator hits too rarely.
//!
//!  1. diamond / multi-parent hierarchies with every order of every parent list, the bridge's type an in-jar
//!     class or interface that the delegate's type reaches only through the second or later entry of a parent
//!     list, at a parameter, at the return type, at both; without and with the bridge flag;
//!  2. array element covariance as a (rejected) candidate;
//!  3. several bridges — in a super class, a subclass, an unrelated class, in every jar order — invoking the
//!     IDENTICAL delegate reference (the get_higher_method tie-break of specialized_to_bridge);
//!  4. the bridge's key named differently in two super types of the bridge's class (parent-list order,
//!     depth-first search of the remapper), with hand-built mapping sets;
//!  5. bodies containing invokedynamic instructions.
use crate::gen::JarGen;
use crate::oracle::object;
use crate::spec::*;
use fbh::gal::cps_str;
use fbh::mapmodel::*;

pub struct DetCase { pub label: String, pub g: JarGen, pub maps: Vec<(MMappings, MMappings)> }

fn s(x: &str) -> S { cps_str(x) }
fn class(name: &str, sup: Option<&str>, ifs: &[&str]) -> AClass {
	AClass { name: s(name), flags: ACC_PUBLIC | ACC_SUPER, super_class: Some(sup.map(s).unwrap_or_else(object)), interfaces: ifs.iter().map(|i| s(i)).collect(), methods: vec![] }
}
fn meth(flags: u16, name: &str, desc: &str, calls: Option<Vec<Call>>) -> AMeth { AMeth { name: s(name), desc: s(desc), flags, calls } }
fn inv(kind: CallKind, c: &str, n: &str, d: &str) -> Call { Call { kind, iface_ref: kind == CallKind::Interface, target: MRef { class: s(c), name: s(n), desc: s(d) } } }

fn permutations<T: Clone>(xs: &[T]) -> Vec<Vec<T>> {
	if xs.len() <= 1 { return vec![xs.to_vec()]; }
	let mut out = vec![];
	for i in 0..xs.len() {
		let mut rest = xs.to_vec();
		let x = rest.remove(i);
		for mut p in permutations(&rest) { p.insert(0, x.clone()); out.push(p); }
	}
	out
}

/// parents as (super class, interfaces): either all interfaces, or the first one the super class
fn as_parents(ps: &[&str], first_is_super: bool) -> (Option<String>, Vec<String>) {
	if first_is_super && !ps.is_empty() { (Some(ps[0].to_string()), ps[1..].iter().map(|x| x.to_string()).collect()) } else { (None, ps.iter().map(|x| x.to_string()).collect()) }
}
fn class_p(name: &str, ps: &[&str], first_is_super: bool) -> AClass {
	let (sup, ifs) = as_parents(ps, first_is_super);
	let ifs: Vec<&str> = ifs.iter().map(|x| &x[..]).collect();
	class(name, sup.as_deref(), &ifs)
}

// names of the string pool of coq/C15/Run.v: I = Shared, J = Bound, A = Left, B = Right, C = Item, D = Holder,
// E = ItemHolder, p/F = a further leaf interface
fn diamonds(out: &mut Vec<DetCase>) {
	let left_sets: [&[&str]; 2] = [&["I", "J"], &["I", "J", "p/F"]];
	for set in left_sets {
		for left in permutations(set) {
			for item in permutations(&["A", "B"]) {
				for item_super in [false, true] {
					for pos in ["param", "return", "both", "second-param"] {
						for flagged in [false, true] {
							// the flagged variant is a control: one position and one order are enough
							if flagged && (pos != "param" || item_super) { continue; }
							let mut jar = vec![
								class("I", None, &[]), class("J", None, &[]), class("p/F", None, &[]),
								class_p("A", &left, false),
								class("B", None, &["I"]),
								class_p("C", &item, item_super),
								class("D", None, &[]),
								class("E", Some("D"), &[]),
							];
							let (bd, sd) = match pos {
								"param" => ("(LJ;)V", "(LC;)V"),
								"return" => ("()LJ;", "()LC;"),
								"both" => ("(LJ;)LJ;", "(LC;)LC;"),
								_ => ("(ILJ;)V", "(ILC;)V"),
							};
							jar[6].methods.push(meth(ACC_PUBLIC, "a", bd, Some(vec![])));
							jar[7].methods.push(meth(ACC_PUBLIC, "a", sd, Some(vec![])));
							jar[7].methods.push(meth(ACC_PUBLIC | ACC_SYNTHETIC | if flagged { ACC_BRIDGE } else { 0 }, "a", bd, Some(vec![inv(CallKind::Virtual, "E", "a", sd)])));
							// the seeded demonstration's mapping sets: Holder.a is m_1 / accept, ItemHolder.a(Item) is m_2
							let cal = MMappings { ns: vec![s("official"), s("intermediary")], doc: None, classes: vec![
								MClass { names: vec![Some(s("D")), Some(s("D"))], doc: None, fields: vec![], methods: vec![MMeth { desc: s(bd), names: vec![Some(s("a")), Some(s("m_1"))], doc: None, params: vec![] }] },
								MClass { names: vec![Some(s("E")), Some(s("E"))], doc: None, fields: vec![], methods: vec![MMeth { desc: s(sd), names: vec![Some(s("a")), Some(s("m_2"))], doc: None, params: vec![] }] },
							] };
							let maps = MMappings { ns: vec![s("intermediary"), s("named")], doc: None, classes: vec![
								MClass { names: vec![Some(s("D")), Some(s("D"))], doc: None, fields: vec![], methods: vec![MMeth { desc: s(bd), names: vec![Some(s("m_1")), Some(s("named1"))], doc: None, params: vec![] }] },
								MClass { names: vec![Some(s("E")), Some(s("E"))], doc: None, fields: vec![], methods: vec![] },
							] };
							out.push(DetCase { label: format!("diamond left={} item={}{} at={pos}{}", left.join(","), item.join(","), if item_super { " (first = super class)" } else { "" }, if flagged { " flagged" } else { "" }),
								g: JarGen { classes: jar, libs: vec![] }, maps: vec![(cal, maps)] });
						}
					}
				}
			}
		}
	}
	// deeper: the bound two levels up, shared ancestors on both levels, every order of the two upper parent lists
	for top in permutations(&["I", "J"]) {
		for mid in permutations(&["A", "I", "B"]) {
			// I = Shared (root), J = Bound (root), A extends <top>, B extends I, C extends <mid>; E.a(C) bridged as a(J)
			let mut jar = vec![class("I", None, &[]), class("J", None, &[]), class_p("A", &top, false), class("B", None, &["I"]), class_p("C", &mid, false), class("E", None, &[])];
			jar[5].methods.push(meth(ACC_PUBLIC, "get", "()LC;", Some(vec![])));
			jar[5].methods.push(meth(ACC_PUBLIC | ACC_SYNTHETIC, "get", "()LJ;", Some(vec![inv(CallKind::Virtual, "E", "get", "()LC;")])));
			out.push(DetCase { label: format!("two-level diamond A:{} C:{}", top.join(","), mid.join(",")), g: JarGen { classes: jar, libs: vec![] }, maps: vec![] });
		}
	}
}

fn arrays(out: &mut Vec<DetCase>) {
	let pairs = [
		("([Ljava/lang/Object;)V", "([LA;)V"), ("()[Ljava/lang/Object;", "()[LA;"), ("([[Ljava/lang/Object;)V", "([[LA;)V"),
		("([LB;)V", "([LA;)V"), ("(Ljava/lang/Object;)V", "([LA;)V"), ("([Ljava/lang/Object;)V", "([[LA;)V"), ("([LA;)V", "(LA;)V"),
		("([I)V", "([J)V"), ("(Ljava/lang/Object;)V", "([I)V"),
	];
	for (bd, sd) in pairs {
		for flagged in [false, true] {
			let mut jar = vec![class("B", None, &[]), class("A", Some("B"), &[]), class("C", None, &[])];
			jar[2].methods.push(meth(ACC_PUBLIC, "set", sd, Some(vec![])));
			jar[2].methods.push(meth(ACC_PUBLIC | ACC_SYNTHETIC | if flagged { ACC_BRIDGE } else { 0 }, "set", bd, Some(vec![inv(CallKind::Virtual, "C", "set", sd)])));
			out.push(DetCase { label: format!("array candidate {bd} for {sd}{}", if flagged { " flagged" } else { "" }), g: JarGen { classes: jar, libs: vec![] }, maps: vec![] });
		}
	}
}

fn shared_delegate(out: &mut Vec<DetCase>) {
	// A.m(LI;)V is the delegate; bridges m(Object)V in A (super class), B extends A, C extends B, D (unrelated) all invoke A.m(LI;)V
	let holders: [&[&str]; 7] = [&["A", "B"], &["B", "A"], &["A", "D"], &["D", "A"], &["A", "B", "C"], &["C", "A", "B"], &["B", "D", "C"]];
	for hs in holders {
		for order in permutations(&["A", "B", "C", "D"]).into_iter().step_by(5) {
			let mut jar: Vec<AClass> = order.iter().map(|n| match *n { "A" => class("A", None, &[]), "B" => class("B", Some("A"), &[]), "C" => class("C", Some("B"), &["I"]), _ => class("D", None, &[]) }).collect();
			jar.push(class("I", None, &[]));
			let ai = jar.iter().position(|c| c.name == s("A")).unwrap();
			jar[ai].methods.push(meth(ACC_PUBLIC, "m", "(LI;)V", Some(vec![])));
			for (k, hname) in hs.iter().enumerate() {
				let hi = jar.iter().position(|c| c.name == s(hname)).unwrap();
				let kind = if *hname == "A" { CallKind::Virtual } else { CallKind::Special };
				// bridge flag on every second one, the others are found by the signature rule
				jar[hi].methods.push(meth(ACC_PUBLIC | ACC_SYNTHETIC | if k % 2 == 0 { ACC_BRIDGE } else { 0 }, "m", "(Ljava/lang/Object;)V", Some(vec![inv(kind, "A", "m", "(LI;)V")])));
			}
			// every holder class has a row; the bridge key is named in A only (inherited by B and C), D names it itself;
			// a second set with rows for the holders only and no calamus renaming
			let bd = "(Ljava/lang/Object;)V"; let sd = "(LI;)V";
			let ns_c = vec![s("official"), s("intermediary")]; let ns_n = vec![s("intermediary"), s("named")];
			let maps = vec![
				(MMappings { ns: ns_c.clone(), doc: None, classes: vec![mclass("A", "net/C_1", vec![mmeth(bd, "m", "m_1"), mmeth(sd, "m", "m_3")]), mclass("B", "net/C_2", vec![]), mclass("C", "net/C_3", vec![]), mclass("D", "net/C_4", vec![mmeth(bd, "m", "m_9")]), mclass("I", "net/C_5", vec![])] },
				 MMappings { ns: ns_n.clone(), doc: None, classes: vec![mclass("net/C_1", "pkg/Base", vec![mmeth(bd, "m_1", "accept")]), mclass("net/C_2", "pkg/Derived", vec![]), mclass("net/C_3", "pkg/Leaf", vec![]), mclass("net/C_4", "pkg/Other", vec![mmeth(bd, "m_9", "take")])] }),
				(MMappings { ns: ns_c.clone(), doc: None, classes: vec![] },
				 MMappings { ns: ns_n.clone(), doc: None, classes: hs.iter().map(|h| mclass(h, h, if *h == "A" { vec![mmeth(bd, "m", "accept")] } else { vec![] })).collect() }),
			];
			out.push(DetCase { label: format!("bridges in {} share the delegate A.m(LI;)V, jar order {}", hs.join(","), order.join(",")), g: JarGen { classes: jar, libs: vec![] }, maps });
		}
	}
}

fn mclass(from: &str, to: &str, methods: Vec<MMeth>) -> MClass { MClass { names: vec![Some(s(from)), Some(s(to))], doc: None, fields: vec![], methods } }
fn mmeth(desc: &str, from: &str, to: &str) -> MMeth { MMeth { desc: s(desc), names: vec![Some(s(from)), Some(s(to))], doc: None, params: vec![] } }

fn two_supers(out: &mut Vec<DetCase>) {
	// C's super types S1 = A (which extends S0 = D) and S2 = B all declare m(Object)V; C overrides it with a bridge to m(LI;)V
	let bd = "(Ljava/lang/Object;)V"; let sd = "(LI;)V";
	for parents in permutations(&["A", "B"]) {
		for first_is_super in [false, true] {
			let mut jar = vec![class("I", None, &[]), class("D", None, &[]), class("A", Some("D"), &[]), class("B", None, &[]), class_p("C", &parents, first_is_super)];
			for k in 1..4 { jar[k].methods.push(meth(ACC_PUBLIC, "m", bd, Some(vec![]))); }
			jar[4].methods.push(meth(ACC_PUBLIC, "m", sd, Some(vec![])));
			jar[4].methods.push(meth(ACC_PUBLIC | ACC_SYNTHETIC | ACC_BRIDGE, "m", bd, Some(vec![inv(CallKind::Virtual, "C", "m", sd)])));
			let ns_c = vec![s("official"), s("intermediary")]; let ns_n = vec![s("intermediary"), s("named")];
			let c_row = |ms: Vec<MMeth>| mclass("C", "C", ms);
			let mut maps = vec![];
			// (a) no calamus method rows; the key is named in A and in B (different names): the first super type wins
			maps.push((MMappings { ns: ns_c.clone(), doc: None, classes: vec![] },
				MMappings { ns: ns_n.clone(), doc: None, classes: vec![mclass("A", "A", vec![mmeth(bd, "m", "fromA")]), mclass("B", "B", vec![mmeth(bd, "m", "fromB")]), c_row(vec![])] }));
			// (b) A has no row for the key but A's super class D has: depth first, D (through A) against B
			maps.push((MMappings { ns: ns_c.clone(), doc: None, classes: vec![] },
				MMappings { ns: ns_n.clone(), doc: None, classes: vec![mclass("B", "B", vec![mmeth(bd, "m", "fromB")]), mclass("D", "D", vec![mmeth(bd, "m", "fromD")]), mclass("A", "A", vec![]), c_row(vec![mmeth(sd, "m", "old")])] }));
			// (c) the intermediary names differ in A and B; the named rows exist under both intermediary names
			maps.push((MMappings { ns: ns_c.clone(), doc: None, classes: vec![mclass("A", "net/C_0", vec![mmeth(bd, "m", "m_1")]), mclass("B", "net/C_1", vec![mmeth(bd, "m", "m_2")]), mclass("C", "net/C_2", vec![mmeth(sd, "m", "m_3")])] },
				MMappings { ns: ns_n.clone(), doc: None, classes: vec![
					mclass("net/C_0", "named/N0", vec![mmeth(bd, "m_1", "fromA1"), mmeth(bd, "m_2", "fromA2")]),
					mclass("net/C_1", "named/N1", vec![mmeth(bd, "m_1", "fromB1"), mmeth(bd, "m_2", "fromB2")]),
					mclass("net/C_2", "named/N2", vec![])] }));
			// (d) the bridge gets an intermediary name but the mappings give that key no name: the delegate's named name
			//     is the bridge's intermediary name
			maps.push((MMappings { ns: ns_c.clone(), doc: None, classes: vec![mclass("B", "B", vec![mmeth(bd, "m", "m_2")]), mclass("A", "A", vec![mmeth(bd, "m", "m_1")])] },
				MMappings { ns: ns_n.clone(), doc: None, classes: vec![mclass("C", "named/N0", vec![]), mclass("B", "B", vec![mmeth(bd, "m", "unrelatedNamed")])] }));
			// (e) the bridge's class has no row in the mappings: nothing is inserted
			maps.push((MMappings { ns: ns_c.clone(), doc: None, classes: vec![] },
				MMappings { ns: ns_n.clone(), doc: None, classes: vec![mclass("A", "A", vec![mmeth(bd, "m", "fromA")]), mclass("B", "B", vec![mmeth(bd, "m", "fromB")])] }));
			out.push(DetCase { label: format!("bridge key named in two super types, C: {}{}", parents.join(","), if first_is_super { " (first = super class)" } else { "" }), g: JarGen { classes: jar, libs: vec![] }, maps });
		}
	}
}

fn indy(out: &mut Vec<DetCase>) {
	let bd = "(Ljava/lang/Object;)V"; let sd = "(LA;)V";
	let t = || inv(CallKind::Virtual, "C", "set", sd);
	let d1 = || inv(CallKind::Dynamic, "C", "run", "()Ljava/lang/Runnable;");
	let d2 = || inv(CallKind::Dynamic, "java/lang/invoke/LambdaMetafactory", "apply", "(Ljava/lang/Object;)Ljava/util/function/Function;");
	let other = || inv(CallKind::Virtual, "C", "other", sd);
	let bodies: Vec<(&str, Vec<Call>)> = vec![
		("indy then invoke", vec![d1(), t()]), ("invoke then indy", vec![t(), d2()]), ("indy, invoke, indy", vec![d1(), t(), d2()]),
		("only indy", vec![d1()]), ("two indys", vec![d1(), d2()]), ("indy and two invokes", vec![d1(), t(), other()]),
		("indy whose call site has the delegate's name and descriptor", vec![inv(CallKind::Dynamic, "C", "set", sd), t()]),
		("only an indy whose call site has the delegate's name and descriptor", vec![inv(CallKind::Dynamic, "C", "set", sd)]),
	];
	for (what, body) in bodies {
		for flagged in [false, true] {
			let mut jar = vec![class("A", None, &[]), class("C", None, &[])];
			jar[1].methods.push(meth(ACC_PUBLIC, "set", sd, Some(vec![])));
			jar[1].methods.push(meth(ACC_PUBLIC, "other", sd, Some(vec![])));
			jar[1].methods.push(meth(ACC_PUBLIC | ACC_SYNTHETIC | if flagged { ACC_BRIDGE } else { 0 }, "set", bd, Some(body.clone())));
			out.push(DetCase { label: format!("body: {what}{}", if flagged { " flagged" } else { "" }), g: JarGen { classes: jar, libs: vec![] }, maps: vec![] });
		}
	}
}

/// k diamonds on top of each other (coq/C15/Theory3.v `tower`): 2^(k+2) - 3 paths start at the top class although the
/// table has 4k edges; get_ancestors has no visited set and walks every path.  The bound of the bridge is the bottom class.
fn towers(out: &mut Vec<DetCase>) {
	for (k, order) in [(3usize, 0usize), (6, 1), (9, 0), (9, 2), (40, 0), (64, 1)] {
		let t = |i: usize| format!("p/T{i}"); let l = |i: usize| format!("p/L{i}"); let r = |i: usize| format!("p/R{i}");
		let mut jar = vec![];
		for i in 0..k {
			let (lt, rt) = (l(i), r(i));
			jar.push(match order { 0 => class(&t(i), Some(&lt), &[&rt]), 1 => class(&t(i), None, &[&rt, &lt]), _ => class(&t(i), Some(&rt), &[&lt]) });
			jar.push(class(&lt, Some(&t(i + 1)), &[]));
			jar.push(class(&rt, None, &[&t(i + 1)]));
		}
		jar.push(class(&t(k), None, &[]));
		if order == 2 { jar.reverse(); }
		let (sd, bd) = (format!("(L{};)V", t(0)), format!("(L{};)V", t(k)));
		let ti = jar.iter().position(|c| c.name == s(&t(0))).unwrap();
		jar[ti].methods.push(meth(ACC_PUBLIC, "m", &sd, Some(vec![])));
		jar[ti].methods.push(meth(ACC_PUBLIC | ACC_SYNTHETIC, "m", &bd, Some(vec![inv(CallKind::Virtual, &t(0), "m", &sd)])));
		// a second unflagged synthetic whose bound is not an ancestor: the whole hierarchy is walked without a hit
		jar.push(class("A", None, &[]));
		jar[ti].methods.push(meth(ACC_PUBLIC | ACC_SYNTHETIC, "get", "(LA;)V", Some(vec![inv(CallKind::Virtual, &t(0), "m", &sd)])));
		out.push(DetCase { label: format!("{} of {k} diamonds, order {order}", if k > 9 { "tall tower" } else { "tower" }), g: JarGen { classes: jar, libs: vec![] }, maps: vec![] });
	}
}

/// Cyclic hierarchies.  A class file is free to name any class as its super class or interface — itself, or a class
/// that names it back: legal bytes for every reader, although no JVM would link them.  The hierarchy work-lists
/// (get_ancestors for the type test of an unflagged synthetic, get_descendants for the tie-break between two bridges of
/// one delegate) must answer on them, with the transitive closure: a class on a cycle is its own ancestor.
/// The delegate's parameter type is `start`; the bound of the unflagged synthetic is an in-jar class that is / is not
/// reachable, so the whole reachable part is walked.
fn cycles(out: &mut Vec<DetCase>) {
	// (label, classes as (name, super, interfaces), start of the walk)
	let shapes: Vec<(&str, Vec<(&str, Option<&str>, Vec<&str>)>, &str)> = vec![
		("self loop (super class)", vec![("A", Some("A"), vec![])], "A"),
		("self loop (interface)", vec![("A", None, vec!["A"])], "A"),
		("two classes extending each other", vec![("A", Some("B"), vec![]), ("B", Some("A"), vec![])], "A"),
		("two interfaces extending each other", vec![("I", None, vec!["J"]), ("J", None, vec!["I"])], "I"),
		("cycle of three, mixed edges", vec![("A", Some("B"), vec![]), ("B", None, vec!["C"]), ("C", Some("A"), vec!["I"]), ("I", None, vec![])], "B"),
		("cycle below the start", vec![("C", Some("A"), vec![]), ("A", Some("B"), vec![]), ("B", Some("A"), vec!["I"]), ("I", None, vec![])], "C"),
		("cycle reached through the second parent", vec![("C", Some("I"), vec!["A"]), ("I", None, vec![]), ("A", Some("B"), vec![]), ("B", None, vec!["A", "J"]), ("J", None, vec![])], "C"),
		("two cycles sharing a class", vec![("A", Some("B"), vec!["C"]), ("B", Some("A"), vec![]), ("C", None, vec!["A", "J"]), ("J", None, vec![])], "A"),
		("cycle through a class outside the jar", vec![("A", Some("x/Lib"), vec![]), ("B", Some("A"), vec![])], "B"),
		("cycle with a diamond inside", vec![("A", Some("B"), vec!["C"]), ("B", None, vec!["I"]), ("C", None, vec!["I"]), ("I", None, vec!["A"])], "A"),
	];
	for (label, classes, start) in shapes {
		for reversed in [false, true] {
			let mut jar: Vec<AClass> = classes.iter().map(|(n, sup, ifs)| class(n, *sup, ifs)).collect();
			if reversed { jar.reverse(); }
			// bounds: every in-jar class of the pool that is not the start (reachable ones are hits, D never is), and the start itself
			jar.push(class("D", None, &[]));
			jar.push(class("E", None, &[]));
			let ei = jar.len() - 1;
			let sd = format!("(L{start};)V");
			jar[ei].methods.push(meth(ACC_PUBLIC, "m", &sd, Some(vec![])));
			let bounds: Vec<String> = jar.iter().map(|c| fbh::gal::show(&c.name)).filter(|n| n != "E").collect();
			for (k, b) in bounds.iter().enumerate() {
				let bd = format!("(L{b};)V");
				if bd == sd { // the start as its own bound: equal types; take the return position with another delegate instead
					jar[ei].methods.push(meth(ACC_PUBLIC, "get", &format!("()L{start};"), Some(vec![])));
					continue;
				}
				jar[ei].methods.push(meth(ACC_PUBLIC | ACC_SYNTHETIC, &format!("m{k}"), &bd, Some(vec![inv(CallKind::Virtual, "E", "m", &sd)])));
			}
			// the tie-break: bridges for one delegate in two classes of the hierarchy (get_descendants over the children table)
			let names: Vec<String> = classes.iter().map(|c| c.0.to_string()).collect();
			for (k, n) in names.iter().enumerate().take(3) {
				let i = jar.iter().position(|c| c.name == s(n)).unwrap();
				jar[i].methods.push(meth(ACC_PUBLIC | ACC_SYNTHETIC | ACC_BRIDGE, "call", "(Ljava/lang/Object;)V", Some(vec![inv(if k == 0 { CallKind::Virtual } else { CallKind::Special }, &names[0], "call", "(LD;)V")])));
			}
			let i0 = jar.iter().position(|c| c.name == s(&names[0])).unwrap();
			jar[i0].methods.push(meth(ACC_PUBLIC, "call", "(LD;)V", Some(vec![])));
			out.push(DetCase { label: format!("cycle: {label}{}", if reversed { ", jar order reversed" } else { "" }), g: JarGen { classes: jar, libs: vec![] }, maps: vec![] });
		}
	}
}

/// What "invokes exactly one distinct method" counts (C15_invoked_insn / C15_one_callee_count): every one of the four
/// invoke opcodes, with a Methodref or an InterfaceMethodref constant; one target through several instructions or
/// several opcodes once; the same name and descriptor on another owner as another method; references whose owner is an
/// array class not at all — even with the delegate's name and descriptor; invokedynamic never.
fn invoke_kinds(out: &mut Vec<DetCase>) {
	let bd = "(Ljava/lang/Object;)V"; let sd = "(LA;)V";
	let k4 = [CallKind::Virtual, CallKind::Special, CallKind::Static, CallKind::Interface];
	// JVMS 6.5: invokeinterface takes an InterfaceMethodref, invokevirtual a Methodref, invokespecial / invokestatic either
	// (duke's reader refuses the other combinations: C01's subject)
	let t = |kind: CallKind, iface: bool| Call { kind, iface_ref: match kind { CallKind::Interface => true, CallKind::Virtual => false, _ => iface }, target: MRef { class: s("C"), name: s("set"), desc: s(sd) } };
	let on = |kind: CallKind, owner: &str| inv(kind, owner, "set", sd);
	let mut bodies: Vec<(String, Vec<Call>)> = vec![];
	for k in k4 { for iface in [false, true] { bodies.push((format!("one {k:?}, interface constant {iface}"), vec![t(k, iface)])); } }
	for a in k4 { for b in k4 { if a != b { bodies.push((format!("the same target by {a:?} and {b:?}"), vec![t(a, false), t(b, b == CallKind::Interface)])); } } }
	bodies.push(("the same target four times, all opcodes".into(), k4.iter().map(|&k| t(k, false)).collect()));
	for k in k4 {
		bodies.push((format!("{k:?}: the delegate's name and descriptor on another owner too"), vec![t(CallKind::Virtual, false), on(k, "A")]));
		bodies.push((format!("{k:?}: the delegate's name and descriptor on an array class too"), vec![on(k, "[LC;"), t(CallKind::Virtual, false)]));
		bodies.push((format!("{k:?}: only on an array class"), vec![on(k, "[[I")]));
	}
	bodies.push(("array owner, then another owner, then the delegate".into(), vec![on(CallKind::Virtual, "[LA;"), on(CallKind::Virtual, "java/lang/Object"), t(CallKind::Virtual, false)]));
	bodies.push(("same owner and name, other descriptor".into(), vec![t(CallKind::Virtual, false), inv(CallKind::Virtual, "C", "set", "(LA;)I")]));
	bodies.push(("same owner and descriptor, other name".into(), vec![t(CallKind::Virtual, false), inv(CallKind::Virtual, "C", "set2", sd)]));
	bodies.push(("invokedynamic with the delegate's name and descriptor between two invokes of the delegate".into(), vec![t(CallKind::Special, false), inv(CallKind::Dynamic, "C", "set", sd), t(CallKind::Static, true)]));
	for (what, body) in bodies {
		for flagged in [false, true] {
			let mut jar = vec![class("A", None, &[]), class("C", None, &[])];
			jar[1].methods.push(meth(ACC_PUBLIC, "set", sd, Some(vec![])));
			jar[1].methods.push(meth(ACC_PUBLIC | ACC_SYNTHETIC | if flagged { ACC_BRIDGE } else { 0 }, "set", bd, Some(body.clone())));
			out.push(DetCase { label: format!("invoke kinds: {what}{}", if flagged { " flagged" } else { "" }), g: JarGen { classes: jar, libs: vec![] }, maps: vec![] });
		}
	}
}

/// Arity: an unflagged synthetic whose parameter list is a proper prefix / extension of the delegate's, every common
/// position and the return type compatible (equal, Object, an in-jar ancestor): no bridge in either direction, down to
/// zero parameters.  The flagged variant is the control (the flag alone decides).
fn arities(out: &mut Vec<DetCase>) {
	// (bridge descriptor, delegate descriptor)
	let pairs = [
		("()V", "(LA;)V"), ("(LA;)V", "()V"), ("()LB;", "(LA;)LA;"), ("(Ljava/lang/Object;)V", "(LA;LA;)V"), ("(Ljava/lang/Object;Ljava/lang/Object;)V", "(LA;)V"),
		("(LB;)V", "(LA;I)V"), ("(LB;I)V", "(LA;)V"), ("(I)I", "(II)I"), ("(II)I", "(I)I"), ("(LA;LA;LA;)LB;", "(LA;LA;)LA;"), ("(LA;LA;)LB;", "(LA;LA;LA;)LA;"),
		("(J)V", "(JJ)V"), ("([LA;)V", "([LA;[LA;)V"),
		// same arity, as the positive control of the same shapes
		("(LB;)V", "(LA;)V"), ("(Ljava/lang/Object;LB;)LB;", "(LA;LA;)LA;"),
	];
	for (bd, sd) in pairs {
		for flagged in [false, true] {
			for same_name in [true, false] {
				let mut jar = vec![class("B", None, &[]), class("A", Some("B"), &[]), class("C", None, &[])];
				let dname = if same_name { "m" } else { "call" };
				jar[2].methods.push(meth(ACC_PUBLIC, dname, sd, Some(vec![])));
				jar[2].methods.push(meth(ACC_PUBLIC | ACC_SYNTHETIC | if flagged { ACC_BRIDGE } else { 0 }, "m", bd, Some(vec![inv(CallKind::Virtual, "C", dname, sd)])));
				out.push(DetCase { label: format!("arity: {bd} forwards to {dname}{sd}{}", if flagged { " flagged" } else { "" }), g: JarGen { classes: jar, libs: vec![] }, maps: vec![] });
			}
		}
	}
}

/// The delegate is a method of ANOTHER class than the bridge's (visibility bridges `invokespecial Base.a()`, interface
/// and static forwarders): the entry goes into the bridge's class, keyed by the delegate's name and descriptor, and the
/// delegate's own class is left alone.  Hand-built mapping sets with rows for both classes.
fn foreign_owner(out: &mut Vec<DetCase>) {
	let bd = "()Ljava/lang/Object;"; let sd = "()LA;";
	// (owner of the delegate, opcode, the owner is a class of the jar)
	let owners = [("B", CallKind::Special, true), ("I", CallKind::Interface, true), ("D", CallKind::Static, true), ("D", CallKind::Virtual, true),
		("x/Lib", CallKind::Special, false), ("x/Lib", CallKind::Static, false), ("java/lang/Object", CallKind::Special, false)];
	for (owner, kind, in_jar) in owners {
		for flagged in [true, false] {
			for with_lib in [false, true] {
				if with_lib && owner != "x/Lib" { continue; }
				// C extends B implements I (or extends x/Lib); D unrelated
				let sup = if owner == "x/Lib" { "x/Lib" } else { "B" };
				let mut jar = vec![class("A", None, &[]), class("B", None, &[]), class("I", None, &[]), class("D", None, &[]), class("C", Some(sup), &["I"])];
				if in_jar { let oi = jar.iter().position(|c| c.name == s(owner)).unwrap(); jar[oi].methods.push(meth(ACC_PUBLIC | if kind == CallKind::Static { ACC_STATIC } else { 0 }, "a", sd, Some(vec![]))); }
				jar[4].methods.push(meth(ACC_PUBLIC | ACC_SYNTHETIC | if flagged { ACC_BRIDGE } else { 0 }, "a", bd, Some(vec![inv(kind, owner, "a", sd)])));
				let libs = if with_lib { vec![vec![AClass { name: s("x/Lib"), flags: ACC_PUBLIC | ACC_SUPER, super_class: Some(object()), interfaces: vec![], methods: vec![meth(ACC_PUBLIC, "a", sd, Some(vec![]))] }]] } else { vec![] };
				let ns_c = vec![s("official"), s("intermediary")]; let ns_n = vec![s("intermediary"), s("named")];
				let mut maps = vec![];
				// (a) both classes have rows; the bridge is named in its own class, the delegate in its owner's class
				maps.push((MMappings { ns: ns_c.clone(), doc: None, classes: vec![mclass("C", "net/C_0", vec![mmeth(bd, "a", "m_1")]), mclass(owner, "net/C_1", vec![mmeth(sd, "a", "m_2")])] },
					MMappings { ns: ns_n.clone(), doc: None, classes: vec![mclass("net/C_0", "named/N0", vec![mmeth(bd, "m_1", "bridgeNamed")]), mclass("net/C_1", "named/N1", vec![mmeth(sd, "m_2", "delegateNamed")])] }));
				// (b) identity class names, the delegate already has an entry (with another name) in BOTH classes
				maps.push((MMappings { ns: ns_c.clone(), doc: None, classes: vec![] },
					MMappings { ns: ns_n.clone(), doc: None, classes: vec![mclass("C", "C", vec![mmeth(bd, "a", "bridgeNamed"), mmeth(sd, "a", "oldInBridgeClass")]), mclass(owner, owner, vec![mmeth(sd, "a", "oldInOwner")])] }));
				// (c) only the delegate's owner has a row: nothing may change
				maps.push((MMappings { ns: ns_c.clone(), doc: None, classes: vec![] },
					MMappings { ns: ns_n.clone(), doc: None, classes: vec![mclass(owner, owner, vec![mmeth(sd, "a", "oldInOwner"), mmeth(bd, "a", "bridgeNamedInOwner")])] }));
				// (d) the bridge's name comes from the delegate's owner (a super type of C when owner = B / I / x/Lib)
				maps.push((MMappings { ns: ns_c.clone(), doc: None, classes: vec![] },
					MMappings { ns: ns_n.clone(), doc: None, classes: vec![mclass("C", "C", vec![]), mclass(owner, owner, vec![mmeth(bd, "a", "inheritedName")])] }));
				out.push(DetCase { label: format!("foreign owner: C.a{bd} forwards by {kind:?} to {owner}.a{sd}{}{}", if flagged { " flagged" } else { "" }, if with_lib { ", library jar present" } else { "" }), g: JarGen { classes: jar, libs }, maps });
			}
		}
	}
}

fn mmeth_opt(desc: &str, from: &str, to: Option<&str>) -> MMeth { MMeth { desc: s(desc), names: vec![Some(s(from)), to.map(s)], doc: None, params: vec![] } }

/// Several bridges of ONE class invoke the same delegate: the two covariant bridges javac emits for
/// `Integer get()` overriding `Number get()` overriding `Object get()` (and the parameter-side analogue).  Both pairs
/// are detected, both survive `remap`, specialized_to_bridge keeps one entry; the names the mappings give the two
/// bridges differ, one of them names the delegate.
fn covariant_bridges(out: &mut Vec<DetCase>) {
	for (label, d_desc, b1, b2) in [
		("return", "()Ljava/lang/Integer;", "()Ljava/lang/Object;", "()Ljava/lang/Number;"),
		("parameter", "(Ljava/lang/Integer;)V", "(Ljava/lang/Object;)V", "(Ljava/lang/Number;)V"),
		("in-jar bound", "()LC;", "()Ljava/lang/Object;", "()LB;"),
	] {
		for swap in [false, true] {
			for flagged in [true, false] {
				// I declares the Object variant, A (super class of E) the other one; C extends B
				let mut jar = vec![class("I", None, &[]), class("A", None, &[]), class("B", None, &[]), class("C", Some("B"), &[]), class("E", Some("A"), &["I"])];
				jar[0].methods.push(meth(ACC_PUBLIC | ACC_ABSTRACT, "get", b1, None));
				jar[1].methods.push(meth(ACC_PUBLIC, "get", b2, Some(vec![])));
				let f = ACC_PUBLIC | ACC_SYNTHETIC | if flagged { ACC_BRIDGE } else { 0 };
				let mut ms = vec![meth(f, "get", b1, Some(vec![inv(CallKind::Virtual, "E", "get", d_desc)])), meth(f, "get", b2, Some(vec![inv(CallKind::Virtual, "E", "get", d_desc)]))];
				if swap { ms.reverse(); }
				jar[4].methods.push(meth(ACC_PUBLIC, "get", d_desc, Some(vec![])));
				jar[4].methods.extend(ms);
				let ns_c = vec![s("official"), s("intermediary")]; let ns_n = vec![s("intermediary"), s("named")];
				let maps = vec![
					// the two bridge keys are named in the super types only, under different names
					(MMappings { ns: ns_c.clone(), doc: None, classes: vec![mclass("I", "net/C_1", vec![mmeth(b1, "get", "m_1")]), mclass("A", "net/C_2", vec![mmeth(b2, "get", "m_2")]), mclass("E", "net/C_3", vec![mmeth(d_desc, "get", "m_3")])] },
					 MMappings { ns: ns_n.clone(), doc: None, classes: vec![mclass("net/C_1", "pkg/Source", vec![mmeth(b1, "m_1", "getObject")]), mclass("net/C_2", "pkg/Base", vec![mmeth(b2, "m_2", "getNumber")]), mclass("net/C_3", "pkg/Impl", vec![])] }),
					// no renaming; one bridge key named in E itself, the other inherited
					(MMappings { ns: ns_c.clone(), doc: None, classes: vec![] },
					 MMappings { ns: ns_n.clone(), doc: None, classes: vec![mclass("E", "E", vec![mmeth(b1, "get", "own")]), mclass("A", "A", vec![mmeth(b2, "get", "inherited")])] }),
				];
				out.push(DetCase { label: format!("bridges: two covariant bridges of one class ({label}){}{}", if swap { ", declared in the other order" } else { "" }, if flagged { "" } else { " unflagged" }), g: JarGen { classes: jar, libs: vec![] }, maps });
			}
		}
	}
}

/// Entries WITHOUT a name in the target namespace (legal tiny v2: an entry that only carries a parameter name or a
/// javadoc).  Such an entry names nothing: the lookup goes on to the super types.  Sub extends Mid extends Base, the
/// bridge Sub.m(Object)V forwards to Sub.m(Integer)V; the real name of m(Object)V is on Base.
fn nameless_entries(out: &mut Vec<DetCase>) {
	let bd = "(Ljava/lang/Object;)V"; let sd = "(Ljava/lang/Integer;)V";
	for flagged in [true, false] {
		let mut jar = vec![class("Base", None, &[]), class("Mid", Some("Base"), &[]), class("Sub", Some("Mid"), &[])];
		jar[0].methods.push(meth(ACC_PUBLIC, "m", bd, Some(vec![])));
		jar[2].methods.push(meth(ACC_PUBLIC, "m", sd, Some(vec![])));
		jar[2].methods.push(meth(ACC_PUBLIC | ACC_SYNTHETIC | if flagged { ACC_BRIDGE } else { 0 }, "m", bd, Some(vec![inv(CallKind::Virtual, "Sub", "m", sd)])));
		let ns_c = vec![s("official"), s("intermediary")]; let ns_n = vec![s("intermediary"), s("named")];
		let cal_full = MMappings { ns: ns_c.clone(), doc: None, classes: vec![mclass("Base", "net/C_1", vec![mmeth(bd, "m", "m_1")]), mclass("Mid", "net/C_2", vec![]), mclass("Sub", "net/C_3", vec![mmeth(sd, "m", "m_2")])] };
		let with_param = |mut me: MMeth| { me.params.push(MParam { index: 1, names: vec![None, Some(s("value"))], doc: None }); me.doc = Some(s("doc")); me };
		let mut maps = vec![];
		// (a) named: the bridge's own class has a name-less entry for the bridge, the name is on Base
		maps.push((cal_full.clone(), MMappings { ns: ns_n.clone(), doc: None, classes: vec![mclass("net/C_1", "pkg/Base", vec![mmeth(bd, "m_1", "setData")]), mclass("net/C_2", "pkg/Mid", vec![]), mclass("net/C_3", "pkg/Sub", vec![with_param(mmeth_opt(bd, "m_1", None))])] }));
		// (b) named: the name-less entry sits in the class between
		maps.push((cal_full.clone(), MMappings { ns: ns_n.clone(), doc: None, classes: vec![mclass("net/C_3", "pkg/Sub", vec![]), mclass("net/C_2", "pkg/Mid", vec![mmeth_opt(bd, "m_1", None)]), mclass("net/C_1", "pkg/Base", vec![mmeth(bd, "m_1", "setData")])] }));
		// (c) named: name-less entries in Sub AND Mid, and one for the delegate in Sub (replaced: info only, parameters stay)
		maps.push((cal_full.clone(), MMappings { ns: ns_n.clone(), doc: None, classes: vec![mclass("net/C_1", "pkg/Base", vec![mmeth(bd, "m_1", "setData")]), mclass("net/C_2", "pkg/Mid", vec![mmeth_opt(bd, "m_1", None)]), mclass("net/C_3", "pkg/Sub", vec![mmeth_opt(bd, "m_1", None), with_param(mmeth_opt(sd, "m_2", None))])] }));
		// (d) calamus: the bridge's own class has an entry without intermediary name for the bridge; the intermediary name is on Base
		maps.push((MMappings { ns: ns_c.clone(), doc: None, classes: vec![mclass("Base", "net/C_1", vec![mmeth(bd, "m", "m_1")]), mclass("Mid", "net/C_2", vec![mmeth_opt(bd, "m", None)]), mclass("Sub", "net/C_3", vec![mmeth_opt(bd, "m", None), mmeth(sd, "m", "m_2")])] },
			MMappings { ns: ns_n.clone(), doc: None, classes: vec![mclass("net/C_1", "pkg/Base", vec![mmeth(bd, "m_1", "setData")]), mclass("net/C_3", "pkg/Sub", vec![])] }));
		// (e) calamus: the DELEGATE has an entry without intermediary name: it keeps its official name
		maps.push((MMappings { ns: ns_c.clone(), doc: None, classes: vec![mclass("Base", "net/C_1", vec![mmeth(bd, "m", "m_1")]), mclass("Sub", "net/C_3", vec![mmeth_opt(sd, "m", None)])] },
			MMappings { ns: ns_n.clone(), doc: None, classes: vec![mclass("net/C_1", "pkg/Base", vec![mmeth(bd, "m_1", "setData")]), mclass("net/C_3", "pkg/Sub", vec![mmeth(sd, "m", "old")])] }));
		// (f) name-less everywhere: the bridge has no name at all, the delegate's named name is the bridge's intermediary name
		maps.push((cal_full.clone(), MMappings { ns: ns_n.clone(), doc: None, classes: vec![mclass("net/C_1", "pkg/Base", vec![mmeth_opt(bd, "m_1", None)]), mclass("net/C_3", "pkg/Sub", vec![mmeth_opt(bd, "m_1", None)])] }));
		// (g) a name-less CLASS row for the bridge's class (no named class name): its member entries do not count either
		maps.push((cal_full.clone(), MMappings { ns: ns_n.clone(), doc: None, classes: vec![mclass("net/C_1", "pkg/Base", vec![mmeth(bd, "m_1", "setData")]), MClass { names: vec![Some(s("net/C_3")), None], doc: None, fields: vec![], methods: vec![mmeth(bd, "m_1", "shadow")] }] }));
		out.push(DetCase { label: format!("bridge: name-less entries on the way to the inherited name{}", if flagged { "" } else { " (unflagged)" }), g: JarGen { classes: jar, libs: vec![] }, maps });
	}
}

/// Bridge CHAINS: a synthetic bridge whose delegate is itself a synthetic bridge (A -> B -> C ...), in one class and
/// across class / subclass, every link with its own, different, name in the GIVEN mappings, in both method orders.
/// Each delegate receives the name the given mappings give to ITS bridge — never a name written earlier in the same
/// call: C gets named(B), not named(A).
fn chains(out: &mut Vec<DetCase>) {
	// return types from the most special to the most general; link k has descriptor descs[k], link 0 is the real method
	let descs = ["()Ljava/lang/Integer;", "()Ljava/lang/Number;", "()Ljava/lang/Comparable;", "()Ljava/io/Serializable;", "()Ljava/lang/Object;"];
	for len in 2..=4usize {
		for heads_first in [true, false] {
			for flagged in [true, false] {
				for split in [false, true] {
					// split: the real method and the first bridge live in the super class S, the rest of the chain in E extends S
					// (E redeclares the first bridge, forwarding to S's real method with invokespecial)
					let mut jar = vec![class("I", None, &[]), class("S", None, &[]), class("E", Some("S"), &["I"])];
					let f = ACC_PUBLIC | ACC_SYNTHETIC | if flagged { ACC_BRIDGE } else { 0 };
					let home = if split { "S" } else { "E" };
					let mut e_methods = vec![];
					let hi = if split { 1 } else { 2 };
					jar[hi].methods.push(meth(ACC_PUBLIC, "get", descs[0], Some(vec![])));
					if split { jar[1].methods.push(meth(f, "get", descs[1], Some(vec![inv(CallKind::Virtual, "S", "get", descs[0])]))); }
					for k in 1..=len {
						let (owner, kind) = if k == 1 { (home, if split { CallKind::Special } else { CallKind::Virtual }) } else { ("E", CallKind::Virtual) };
						e_methods.push(meth(f, "get", descs[k], Some(vec![inv(kind, owner, "get", descs[k - 1])])));
					}
					if heads_first { e_methods.reverse(); }
					jar[2].methods.extend(e_methods);
					// the most general link is declared by the interface I (its name there is inherited by nothing else)
					jar[0].methods.push(meth(ACC_PUBLIC | ACC_ABSTRACT, "get", descs[len], None));
					let ns_c = vec![s("official"), s("intermediary")]; let ns_n = vec![s("intermediary"), s("named")];
					let e_cal: Vec<MMeth> = (0..=len).filter(|k| !(split && *k == 0)).map(|k| mmeth(descs[k], "get", &format!("m_{k}"))).collect();
					let s_cal: Vec<MMeth> = if split { vec![mmeth(descs[0], "get", "m_0"), mmeth(descs[1], "get", "m_1")] } else { vec![] };
					let mut maps = vec![];
					// (a) every link named differently in E's own row
					maps.push((MMappings { ns: ns_c.clone(), doc: None, classes: vec![mclass("E", "net/C_1", e_cal.clone()), mclass("S", "net/C_2", s_cal.clone()), mclass("I", "net/C_3", vec![mmeth(descs[len], "get", &format!("m_{len}"))])] },
						MMappings { ns: ns_n.clone(), doc: None, classes: vec![mclass("net/C_1", "pkg/Impl", (0..=len).filter(|k| !(split && *k == 0)).map(|k| mmeth(descs[k], &format!("m_{k}"), &format!("name{k}"))).collect()), mclass("net/C_2", "pkg/Base", vec![])] }));
					// (b) no renaming by calamus; only the bridges are named (the real method has no entry yet)
					maps.push((MMappings { ns: ns_c.clone(), doc: None, classes: vec![] },
						MMappings { ns: ns_n.clone(), doc: None, classes: vec![mclass("E", "E", (1..=len).map(|k| mmeth(descs[k], "get", &format!("name{k}"))).collect()), mclass("S", "S", vec![])] }));
					// (c) the top link is named only in the interface (inherited), the links between in E's row, the first bridge not at all
					maps.push((MMappings { ns: ns_c.clone(), doc: None, classes: vec![] },
						MMappings { ns: ns_n.clone(), doc: None, classes: vec![mclass("I", "I", vec![mmeth(descs[len], "get", "fromInterface")]), mclass("E", "E", (2..len).map(|k| mmeth(descs[k], "get", &format!("name{k}"))).collect())] }));
					out.push(DetCase { label: format!("bridges: chain of {len} bridges{}{}{}", if split { " across S and its subclass E" } else { " in one class" }, if heads_first { ", most general first" } else { ", most special first" }, if flagged { "" } else { " unflagged" }), g: JarGen { classes: jar, libs: vec![] }, maps });
				}
			}
		}
	}
}

pub fn det_cases() -> Vec<DetCase> {
	let mut out = vec![];
	diamonds(&mut out);
	arrays(&mut out);
	shared_delegate(&mut out);
	two_supers(&mut out);
	covariant_bridges(&mut out);
	chains(&mut out);
	nameless_entries(&mut out);
	indy(&mut out);
	invoke_kinds(&mut out);
	arities(&mut out);
	foreign_owner(&mut out);
	cycles(&mut out);
	towers(&mut out);
	out
}
