//! C11 — Mappings::extend_inner_class_names / contract_inner_class_names.
//!
//! For every generated mapping set the real quill code is run (extend, contract, contract after
//! extend) and compared (a) by the property oracle below against an independent, iterative
//! reference extension / contraction written here, and against the inverse law on inputs with
//! simple names, (b) as correspondence cases against the Coq model (coq/C11/Model.v).
use fbh::gal::*;
use fbh::mapmodel::*;
use fbh::prng::Rng;
use fbh::report::{crumb, guarded, Report};
use fbh::Ctx;
use duke::tree::class::{ObjClassName, ObjClassNameSlice};
use quill::tree::mappings::Mappings;
use std::collections::HashMap;
use std::panic::AssertUnwindSafe;

const DOLLAR: u32 = '$' as u32;
const SLASH: u32 = '/' as u32;

// ---------------------------------------------------------------------------------------------
// implementation side

/// Err(..) = the call panicked; Ok(None) = the call returned Err; Ok(Some(m)) = result
type Answer = Result<Option<MMappings>, String>;

struct Outcome {
	extend: Answer,
	contract: Answer,
	/// contract applied to the implementation's own extend result (None when extend failed)
	contract_of_extend: Option<Answer>,
	desync: Vec<String>,
}

fn run_n<const N: usize>(m: &MMappings, ns_name: &str) -> anyhow::Result<Outcome> {
	let q: Mappings<N, NsAny> = to_quill(m)?;
	let mut desync = vec![];
	let ext = guarded(AssertUnwindSafe(|| q.extend_inner_class_names(ns_name).ok()));
	let con = guarded(AssertUnwindSafe(|| q.contract_inner_class_names(ns_name).ok()));
	let contract_of_extend = match &ext {
		Ok(Some(e)) => Some(guarded(AssertUnwindSafe(|| e.contract_inner_class_names(ns_name).ok()))
			.map(|o| o.map(|x| from_quill(&x, &mut desync)))),
		_ => None,
	};
	let extend = ext.map(|o| o.map(|x| from_quill(&x, &mut desync)));
	let contract = con.map(|o| o.map(|x| from_quill(&x, &mut desync)));
	Ok(Outcome { extend, contract, contract_of_extend, desync })
}

/// Err = the mirror value cannot be built as a quill tree (not well-formed): nothing to run
fn run_impl(m: &MMappings, ns_name: &str) -> anyhow::Result<Outcome> {
	match m.ns.len() {
		1 => run_n::<1>(m, ns_name),
		2 => run_n::<2>(m, ns_name),
		3 => run_n::<3>(m, ns_name),
		4 => run_n::<4>(m, ns_name),
		5 => run_n::<5>(m, ns_name),
		n => Err(anyhow::anyhow!("no dispatch for {n} namespaces")),
	}
}

fn impl_join(p: &S, i: &S) -> Result<S, String> {
	let (pj, ij) = (jstring(p), jstring(i));
	guarded(move || {
		// SAFETY: the harness deliberately feeds arbitrary strings, as the mapping tree does
		let parent = unsafe { ObjClassName::from_inner_unchecked(pj) };
		let inner = unsafe { ObjClassNameSlice::from_inner_unchecked(&ij) };
		cps(ObjClassName::from_inner_class(parent, inner).as_inner())
	})
}
fn impl_inner(s: &S) -> Result<(Option<S>, Option<S>), String> {
	let js = jstring(s);
	guarded(move || {
		let n = unsafe { ObjClassNameSlice::from_inner_unchecked(&js) };
		(n.get_inner_class_parent().map(|p| cps(p.as_inner())), n.get_inner_class_name().map(|p| cps(p.as_inner())))
	})
}

/// ObjClassName::check_valid (is_valid_obj_class_name), and as_class_name() keeps the text
fn impl_valid(s: &S) -> Result<bool, String> {
	let js = jstring(s);
	guarded(move || {
		let ok = ObjClassName::check_valid(&js).is_ok();
		let n = unsafe { ObjClassNameSlice::from_inner_unchecked(&js) };
		assert!(n.as_class_name().as_inner() == n.as_inner(), "as_class_name changed the text");
		ok
	})
}
/// the JVMS binary-name grammar: `/`-separated non-empty parts without . ; [ /
fn ref_valid(s: &[u32]) -> bool {
	s.split(|&c| c == SLASH).all(|part| !part.is_empty() && !part.iter().any(|&c| c == '.' as u32 || c == ';' as u32 || c == '[' as u32))
}
fn column_valid(m: &MMappings, ns: usize) -> bool {
	m.classes.iter().all(|c| match c.names.get(ns) { Some(Some(b)) => impl_valid(b) == Ok(true), _ => true })
}

fn impl_simple(s: &S) -> Result<S, String> {
	let js = jstring(s);
	guarded(move || {
		let n = unsafe { ObjClassNameSlice::from_inner_unchecked(&js) };
		cps(n.get_simple_name().as_inner())
	})
}

// ---------------------------------------------------------------------------------------------
// the oracle: independent reference (iterative, over a hash index of source names)

/// the documented split: last `$`; both sides non-empty; the outer part does not end with `/`;
/// the inner part has no `/`
fn o_split(s: &[u32]) -> Option<(&[u32], &[u32])> {
	let pos = s.iter().rposition(|&c| c == DOLLAR)?;
	let (p, i) = (&s[..pos], &s[pos + 1..]);
	if p.is_empty() || i.is_empty() || p.last() == Some(&SLASH) || i.contains(&SLASH) { None } else { Some((p, i)) }
}

fn ns_position(m: &MMappings, name: &[u32]) -> Option<usize> { m.ns.iter().position(|n| n == name) }

/// What the property demands of `extend_inner_class_names`.
enum WantExt {
	/// exactly this answer (None = must fail)
	Must(Option<MMappings>),
	/// the FIRST namespace on a set without classes: the property only speaks of a target namespace at a
	/// non-first index.  The code at present answers Ok(unchanged); refusing it (as `contract` does since
	/// 4d8ec0a) would be just as good.  Accepted: Err, or Ok(the input unchanged).
	FirstNamespaceNoClasses,
}
impl WantExt {
	fn accepts(&self, got: &Option<MMappings>, input: &MMappings) -> bool {
		match self { WantExt::Must(w) => got == w, WantExt::FirstNamespaceNoClasses => got.as_ref().map_or(true, |g| g == input) }
	}
	/// the reference answer to print in a replay
	fn shown(&self, input: &MMappings) -> String {
		match self { WantExt::Must(w) => show_answer(w), WantExt::FirstNamespaceNoClasses => format!("Err, or unchanged:\n{}", show_mappings(input)) }
	}
}
fn want_extend(m: &MMappings, name: &[u32]) -> WantExt {
	match ns_position(m, name) {
		// the names of the first namespace are the map keys: with classes present the call must fail rather than guess
		Some(0) => if m.classes.is_empty() { WantExt::FirstNamespaceNoClasses } else { WantExt::Must(None) },
		_ => WantExt::Must(ref_extend(m, name)),
	}
}

/// None = must fail  (target namespace at a non-first index; the first namespace is decided by `want_extend`)
fn ref_extend(m: &MMappings, name: &[u32]) -> Option<MMappings> {
	let ns = ns_position(m, name)?;
	if ns == 0 { return None; }
	let mut index: HashMap<&[u32], Option<&S>> = HashMap::new();
	for c in &m.classes {
		if let Some(Some(k)) = c.names.first() { index.entry(k.as_slice()).or_insert(c.names.get(ns).and_then(|o| o.as_ref())); }
	}
	let mut out = m.clone();
	for c in &mut out.classes {
		if c.names.len() < 2 { return None; }
		let Some(b) = c.names.get(ns).cloned().flatten() else { continue };
		let src = c.names[0].clone()?;
		// names of all outer classes, innermost first
		let mut parts: Vec<S> = vec![b];
		let mut cur: &[u32] = &src;
		while let Some((p, _)) = o_split(cur) {
			match index.get(p) {
				None | Some(None) => return None,
				Some(Some(mp)) => parts.push((*mp).clone()),
			}
			cur = p;
		}
		parts.reverse();
		c.names[ns] = Some(parts.join(&DOLLAR));
	}
	Some(out)
}

fn ref_contract(m: &MMappings, name: &[u32]) -> Option<MMappings> {
	let ns = ns_position(m, name)?;
	if ns == 0 { return None; } // the names of the first namespace are the map keys
	let mut out = m.clone();
	for c in &mut out.classes {
		if let Some(Some(b)) = c.names.get(ns) {
			if let Some((_, i)) = o_split(b) { let i = i.to_vec(); c.names[ns] = Some(i); }
		}
	}
	Some(out)
}

/// the hypothesis of `contract_extend`, evaluated here (the Coq side evaluates its own and the two are compared)
fn simple_names(m: &MMappings, ns: usize) -> bool {
	m.classes.iter().all(|c| {
		let (Some(Some(b)), Some(Some(src))) = (c.names.get(ns), c.names.first()) else { return true };
		if b.is_empty() { return false; }
		if o_split(src).is_some() { !b.contains(&DOLLAR) && !b.contains(&SLASH) }
		else { o_split(b).is_none() && b.last() != Some(&SLASH) }
	})
}

/// `wf` of coq/Quill/Mappings.v
fn wf(m: &MMappings) -> bool {
	fn nodup<T: PartialEq>(v: &[T]) -> bool { (0..v.len()).all(|i| !v[i + 1..].contains(&v[i])) }
	let n = m.ns.len();
	let names_ok = |r: &NamesRow| r.len() == n && r.iter().all(|o| o.as_ref().map_or(true, |s| !s.is_empty()));
	let first = |r: &NamesRow| r.first().cloned().flatten();
	n >= 2 && m.ns.iter().all(|s| !s.is_empty())
		&& m.classes.iter().all(|c| {
			names_ok(&c.names) && first(&c.names).is_some()
				&& c.fields.iter().all(|f| names_ok(&f.names) && first(&f.names).is_some())
				&& nodup(&c.fields.iter().map(|f| (first(&f.names), f.desc.clone())).collect::<Vec<_>>())
				&& c.methods.iter().all(|me| names_ok(&me.names) && first(&me.names).is_some()
					&& me.params.iter().all(|p| names_ok(&p.names)) && nodup(&me.params.iter().map(|p| p.index).collect::<Vec<_>>()))
				&& nodup(&c.methods.iter().map(|me| (first(&me.names), me.desc.clone())).collect::<Vec<_>>())
		})
		&& nodup(&m.classes.iter().map(|c| first(&c.names)).collect::<Vec<_>>())
}

// ---------------------------------------------------------------------------------------------
// replay text

fn show_row(r: &NamesRow) -> String {
	r.iter().map(|o| match o { Some(s) => format!("{:?}", show(s)), None => "-".into() }).collect::<Vec<_>>().join("  ")
}
fn show_mappings(m: &MMappings) -> String {
	let mut t = format!("namespaces: {}\n", m.ns.iter().map(|s| format!("{:?}", show(s))).collect::<Vec<_>>().join(" "));
	for c in &m.classes {
		t.push_str(&format!("class  {}   ({} fields, {} methods{})\n", show_row(&c.names), c.fields.len(), c.methods.len(), if c.doc.is_some() { ", comment" } else { "" }));
	}
	t
}
fn replay(what: &str, m: &MMappings, name: &[u32], extra: &str) -> String {
	format!("property C11\nwhat: {what}\ncall: namespace {:?}\ninput mapping set (one class per line, one column per namespace, - = no name):\n{}{extra}input as Gallina term: {}\n",
		show(name), show_mappings(m), g_mappings(m))
}
fn show_answer(a: &Option<MMappings>) -> String {
	match a { None => "Err\n".into(), Some(m) => show_mappings(m) }
}

// ---------------------------------------------------------------------------------------------
// one input through everything

/// distinct names that occurred (in inputs and in extended results), for the split / join / simple-name / validity cases
#[derive(Default)]
struct Seen { strings: Vec<S>, set: std::collections::HashSet<S> }
impl Seen { fn add(&mut self, s: &S) { if self.strings.len() < 4000 && self.set.insert(s.clone()) { self.strings.push(s.clone()); } } }

/// the column of class names in namespace `ns`, if `got` is exactly `m` with that column replaced
fn column_of(m: &MMappings, ns: usize, got: &MMappings) -> Option<Vec<Option<S>>> {
	if got.classes.len() != m.classes.len() { return None; }
	let mut back = got.clone();
	let mut col = vec![];
	for (c, o) in back.classes.iter_mut().zip(&m.classes) {
		if ns >= c.names.len() || c.names.len() != o.names.len() { return None; }
		col.push(c.names[ns].clone());
		c.names[ns] = o.names[ns].clone();
	}
	if back == *m { Some(col) } else { None }
}
fn g_col(c: &[Option<S>]) -> String { glist(c.iter().map(|o| gopt(o.as_ref().map(|s| gstr(s))))) }

fn through(r: &mut Report, seen: &mut Seen, stream: &str, m: &MMappings, name: &[u32], full: bool) {
	let name_s: String = match name.iter().map(|&c| char::from_u32(c)).collect::<Option<String>>() { Some(s) => s, None => { r.count("skipped_namespace_not_scalar"); return; } };
	// `map` recurses along the chain of outer classes: should the process die in there (stack overflow, endless
	// recursion killed by the timeout), `check` reports this text as the failing input
	crumb(&replay("the harness process died inside extend_inner_class_names / contract_inner_class_names on this input (unbounded recursion in the parent lookup?)", m, name, ""));
	let out = match run_impl(m, &name_s) {
		Ok(o) => o,
		Err(_) => { r.count(&format!("not_constructible:{stream}")); return; }
	};
	let ns = ns_position(m, name);
	let nested_named = ns.map_or(0, |ns| m.classes.iter().filter(|c| c.names.get(ns).map_or(false, |o| o.is_some())
		&& c.names.first().cloned().flatten().map_or(false, |s| o_split(&s).is_some())).count());
	let canon = format!("{}|{}", gstr(name), g_mappings(m));
	r.eval(&canon, nested_named > 0);
	let depth = m.classes.iter().filter_map(|c| c.names.first().cloned().flatten()).map(|s| { let mut d = 0; let mut cur: &[u32] = &s; while let Some((p, _)) = o_split(cur) { d += 1; cur = p; } d }).max().unwrap_or(0);
	r.count(&format!("max_depth:{}", depth.min(6)));
	r.count(&format!("namespaces:{}", m.ns.len()));
	match ns { Some(i) => r.count(&format!("target_index:{i}")), None => r.count("target_index:unknown") }
	r.count(&format!("classes:{}", match m.classes.len() { 0 => "0", 1..=3 => "1-3", 4..=8 => "4-8", _ => "9+" }));

	for d in &out.desync { r.violation(format!("IndexMap key out of sync with node info after the call: {d}"), replay("after extend/contract the map key of a class differs from the first-namespace name stored in its node", m, name, "")); }

	// ---- extend ----
	let want = want_extend(m, name);
	if matches!(want, WantExt::FirstNamespaceNoClasses) { r.count("extend:first namespace on a set without classes (unspecified by the property: Err and Ok-unchanged both accepted)"); }
	let mut ext_col: Option<Option<Vec<Option<S>>>> = None; // Some(None) = Err
	match &out.extend {
		Err(p) => r.violation(format!("extend_inner_class_names panicked: {p}"), replay("panic in extend_inner_class_names", m, name, "")),
		Ok(got) => {
			r.count(if got.is_some() { "extend:ok" } else { "extend:err" });
			if !want.accepts(got, m) {
				let what = match (got, &want) {
					(None, WantExt::Must(Some(_))) => "extend_inner_class_names failed although every outer class is present and named",
					(Some(_), WantExt::Must(None)) => "extend_inner_class_names succeeded although an outer class is missing or unnamed (or the namespace is the first, with classes present, or unknown)",
					(Some(_), WantExt::FirstNamespaceNoClasses) => "extend_inner_class_names(<first namespace>) on a set without classes changed the set",
					_ => "extend_inner_class_names result differs from the reference extension (something other than the stated rewrite changed, or the rewrite is wrong)",
				};
				r.violation(what.into(), replay(what, m, name, &format!("implementation:\n{}reference:\n{}", show_answer(got), want.shown(m))));
			}
			ext_col = match (got, ns) { (None, _) => Some(None), (Some(g), Some(ns)) => column_of(m, ns, g).map(Some), (Some(_), None) => None };
			if full || ext_col.is_none() { r.case(stream, format!("CExtend {} {} {}", g_mappings(m), gstr(name), gres(got.as_ref().map(g_mappings)))); }
		}
	}
	// ---- contract on the input itself ----
	let wantc = ref_contract(m, name);
	let mut con_col: Option<Option<Vec<Option<S>>>> = None;
	match &out.contract {
		Err(p) => r.violation(format!("contract_inner_class_names panicked: {p}"), replay("panic in contract_inner_class_names", m, name, "")),
		Ok(got) => {
			r.count(if got.is_some() { "contract:ok" } else { "contract:err" });
			if *got != wantc {
				let what = "contract_inner_class_names result differs from the reference (innermost simple name in the chosen non-first namespace only; Err for the first or an unknown namespace)";
				r.violation(what.into(), replay(what, m, name, &format!("implementation:\n{}reference:\n{}", show_answer(got), show_answer(&wantc))));
			}
			con_col = match (got, ns) { (None, _) => Some(None), (Some(g), Some(ns)) => column_of(m, ns, g).map(Some), (Some(_), None) => None };
			if full || con_col.is_none() { r.case(stream, format!("CContract {} {} {}", g_mappings(m), gstr(name), gres(got.as_ref().map(g_mappings)))); }
			// contraction is idempotent, and what it leaves is never splittable again
			if let Some(g) = got {
				if g != m {
					match run_impl(g, &name_s).map(|o| o.contract) {
						Ok(Ok(Some(g2))) if g2 == *g => r.count("contract:idempotent"),
						other => {
							let what = "contract_inner_class_names is not idempotent (contracting the contracted set changes it again or fails)";
							r.violation(what.into(), replay(what, m, name, &format!("contracted once:\n{}contracted twice: {}\n", show_mappings(g), match other { Ok(Ok(Some(x))) => format!("\n{}", show_mappings(&x)), Ok(Ok(None)) => "Err".into(), Ok(Err(p)) => format!("panic {p}"), Err(e) => format!("not constructible: {e}") })));
						}
					}
				}
				if let Some(ns) = ns { for c in &g.classes { if let Some(Some(b)) = c.names.get(ns) { if o_split(b).is_some() {
					let what = "contract_inner_class_names left a name that is still an inner class name (Outer$Inner)";
					r.violation(what.into(), replay(what, m, name, &format!("contracted:\n{}", show_mappings(g))));
					break;
				} } } }
			}
		}
	}
	// ---- contract ∘ extend ----
	let simple = ns.map_or(true, |ns| simple_names(m, ns));
	let wellformed = wf(m);
	r.count(if simple { "hypothesis:simple_names" } else { "hypothesis:simple_names_violated" });
	let mut conext_col: Option<Option<Vec<Option<S>>>> = None;
	match (&out.extend, &out.contract_of_extend) {
		(Ok(Some(e)), Some(Err(p))) => r.violation(format!("contract_inner_class_names panicked on the extended set: {p}"), replay("panic in contract after extend", e, name, "")),
		(Ok(Some(e)), Some(Ok(back))) => {
			// the contraction of the extended set must itself be the reference contraction
			let wantb = ref_contract(e, name);
			if *back != wantb {
				let what = "contract_inner_class_names on an extended set differs from the reference contraction";
				r.violation(what.into(), replay(what, e, name, &format!("implementation:\n{}reference:\n{}", show_answer(back), show_answer(&wantb))));
			}
			let same = back.as_ref() == Some(m);
			let in_domain = ns.map_or(false, |ns| ns != 0);
			if in_domain {
				r.count(if same { "round_trip:identity" } else if simple { "round_trip:DIFFERS_on_simple_names" } else { "round_trip:differs_outside_hypothesis" });
				if simple && !same {
					let what = "contract(extend(M)) differs from M although all names in the (non-first) namespace are simple";
					r.violation(what.into(), replay(what, m, name, &format!("extended:\n{}contracted again:\n{}", show_mappings(e), show_answer(back))));
				}
			} else { r.count("round_trip:first_namespace_no_classes"); }
			conext_col = match (back, ns) { (None, _) => Some(None), (Some(g), Some(ns)) => column_of(m, ns, g).map(Some), (Some(_), None) => None };
			if full || conext_col.is_none() { r.case(stream, format!("CContract {} {} {}", g_mappings(e), gstr(name), gres(back.as_ref().map(g_mappings)))); }
		}
		(Ok(None), _) => conext_col = Some(None),
		_ => {}
	}
	if let (Some(a), Some(b), Some(c)) = (&ext_col, &con_col, &conext_col) {
		let g = |x: &Option<Vec<Option<S>>>| gres(x.as_ref().map(|c| g_col(c)));
		r.case(stream, format!("CRun {} {} {} {} {} {} {}", g_mappings(m), gstr(name), g(a), g(b), g(c), gbool(simple), gbool(wellformed)));
	} else { r.count("compact_form_not_applicable"); }
	// valid object class names in, valid object class names out (the unsafe from_inner_unchecked of the helpers relies on it)
	if let Some(ns) = ns {
		if column_valid(m, ns) {
			r.count("valid_names:in");
			for (what, res) in [("extend_inner_class_names", &out.extend), ("contract_inner_class_names", &out.contract)] {
				if let Ok(Some(g)) = res {
					if !column_valid(g, ns) {
						let w = format!("{what} produced a name that is not a valid object class name although every name it was given is one");
						r.violation(w.clone(), replay(&w, m, name, &format!("result:\n{}", show_mappings(g))));
					}
				}
			}
		} else { r.count("valid_names:input has an invalid name (nothing demanded)"); }
	}
	// strings for the split / join cases
	if seen.strings.len() < 4000 {
		for c in &m.classes { for o in &c.names { if let Some(s) = o { seen.add(s); } } }
		if let Ok(Some(e)) = &out.extend { if let Some(ns) = ns { for c in &e.classes { if let Some(Some(s)) = c.names.get(ns) { seen.add(s); } } } }
	}
}

// ---------------------------------------------------------------------------------------------
// generators

const SIMPLE: [&str; 12] = ["A", "B", "Foo", "Bar", "a", "b", "C_1", "x", "Ab", "L", "Baz", "Q"];
const UNI: [&str; 4] = ["Ü", "π", "\u{10400}", "名"];
const PKGS: [&str; 6] = ["", "", "net/minecraft/", "a/b/", "net/minecraft/unmapped/", "p/"];
const NSNAMES: [&str; 6] = ["official", "intermediary", "named", "extra", "ns", "ñ"];

fn simple(rng: &mut Rng) -> S {
	if rng.chance(1, 8) { cps_str(*rng.pick(&UNI[..])) } else if rng.chance(1, 6) { cps_str(&rng.range(1, 12).to_string()) } else { cps_str(*rng.pick(&SIMPLE[..])) }
}
fn top_name(rng: &mut Rng) -> S { let mut p = cps_str(*rng.pick(&PKGS[..])); p.extend(simple(rng)); p }

/// distinct source names forming a forest: roots (possibly in packages) and `$`-children down to `max_depth`;
/// parents always precede their children in the returned order
fn gen_forest(rng: &mut Rng, count: usize, max_depth: usize) -> Vec<(S, usize)> {
	let mut v: Vec<(S, usize)> = vec![];
	let mut tries = 0;
	while v.len() < count && tries < 300 {
		tries += 1;
		let candidates: Vec<usize> = (0..v.len()).filter(|&i| v[i].1 < max_depth).collect();
		let item = if !candidates.is_empty() && rng.chance(3, 5) {
			// prefer the most recent candidate: long chains
			let pi = if rng.chance(1, 2) { *candidates.last().unwrap() } else { *rng.pick(&candidates[..]) };
			let mut p = v[pi].0.clone(); p.push(DOLLAR); p.extend(simple(rng));
			(p, v[pi].1 + 1)
		} else { (top_name(rng), 0) };
		if !v.iter().any(|(s, _)| *s == item.0) { v.push(item); }
	}
	v
}

struct Cfg { n: usize, classes: usize, max_depth: usize, absent_12: usize, members: bool }

/// a mapping set inside all hypotheses: well-formed, simple names in every non-first namespace,
/// and in namespace `target` no named class under an unnamed or missing outer class
fn gen_ok(rng: &mut Rng, cfg: &Cfg, target: usize) -> MMappings {
	let forest = gen_forest(rng, cfg.classes, cfg.max_depth);
	let pool = if cfg.members { let mut g = GenCfg::new(cfg.n); g.nested = false; g.max_classes = 4; gen_mappings(rng, &g).classes } else { vec![] };
	let mut classes: Vec<MClass> = vec![];
	for (k, (src, depth)) in forest.iter().enumerate() {
		let mut names: NamesRow = vec![Some(src.clone())];
		for j in 1..cfg.n {
			let mut absent = rng.below(12) < cfg.absent_12;
			if j == target && *depth > 0 {
				// the outer class is earlier in `classes`
				let (p, _) = o_split(src).expect("nested by construction");
				let parent = classes.iter().find(|c| c.names[0].as_deref() == Some(p)).expect("parent generated before child");
				if parent.names[j].is_none() { absent = true; }
			}
			names.push(if absent { None } else if *depth > 0 { Some(simple(rng)) } else { Some(top_name(rng)) });
		}
		let (doc, fields, methods) = if pool.is_empty() { (None, vec![], vec![]) } else { let p = &pool[k % pool.len()]; (p.doc.clone(), p.fields.clone(), p.methods.clone()) };
		classes.push(MClass { names, doc, fields, methods });
	}
	rng.shuffle(&mut classes);
	let mut nsn: Vec<&str> = NSNAMES.to_vec(); rng.shuffle(&mut nsn);
	MMappings { ns: nsn[..cfg.n].iter().map(|s| cps_str(s)).collect(), doc: if rng.chance(1, 5) { Some(cps_str("top comment")) } else { None }, classes }
}

fn pick_cfg(rng: &mut Rng, thorough: bool) -> (Cfg, usize) {
	let n = rng.range(2, 4);
	let target = rng.range(1, n - 1);
	let cfg = Cfg { n, classes: rng.range(0, if thorough { 14 } else { 9 }), max_depth: rng.range(0, 4), absent_12: *rng.pick(&[0, 2, 4, 7][..]), members: rng.chance(1, 3) };
	(cfg, target)
}

/// indices of the classes that are nested and named in `ns`
fn nested_named(m: &MMappings, ns: usize) -> Vec<usize> {
	(0..m.classes.len()).filter(|&i| m.classes[i].names[ns].is_some() && m.classes[i].names[0].as_ref().map_or(false, |s| o_split(s).is_some())).collect()
}

/// break the chain above one nested, named class: remove an outer class or take its name away
fn break_chain(rng: &mut Rng, m: &mut MMappings, ns: usize) -> Option<&'static str> {
	let cands = nested_named(m, ns);
	if cands.is_empty() { return None; }
	let victim = m.classes[*rng.pick(&cands[..])].names[0].clone().unwrap();
	let mut ancestors: Vec<S> = vec![];
	let mut cur: &[u32] = &victim;
	while let Some((p, _)) = o_split(cur) { ancestors.push(p.to_vec()); cur = p; }
	let a = rng.pick(&ancestors[..]).clone();
	let pos = m.classes.iter().position(|c| c.names[0].as_ref() == Some(&a))?;
	if rng.chance(1, 2) { m.classes.remove(pos); Some("outer-class-removed") } else { m.classes[pos].names[ns] = None; Some("outer-class-unnamed") }
}

/// violate `simple_names` in namespace ns
fn unsimplify(rng: &mut Rng, m: &mut MMappings, ns: usize) -> Option<&'static str> {
	let named: Vec<usize> = (0..m.classes.len()).filter(|&i| m.classes[i].names[ns].is_some()).collect();
	if named.is_empty() { return None; }
	let i = *rng.pick(&named[..]);
	let nested = o_split(m.classes[i].names[0].as_ref().unwrap()).is_some();
	let (tag, name): (&'static str, &str) = match (nested, rng.below(4)) {
		(true, 0) => ("nested-name-with-dollar", "X$Y"),
		(true, 1) => ("nested-name-with-package", "pkg/Inner"),
		(true, 2) => ("nested-name-with-package-and-dollar", "pkg/O$I"),
		(true, _) => ("nested-name-dollar-at-end", "Y$"),
		(false, 0) => ("top-level-name-splittable", "Outer$Inner"),
		(false, 1) => ("top-level-name-splittable-in-package", "q/Outer$Inner"),
		(false, 2) => ("top-level-name-ends-with-slash", "q/"),
		(false, _) => ("top-level-name-with-harmless-dollar", "q$/R"),
	};
	m.classes[i].names[ns] = Some(cps_str(name));
	Some(tag)
}

/// all proper outer class names of a source name, innermost first
fn ancestors(s: &[u32]) -> Vec<S> { let mut v = vec![]; let mut cur = s; while let Some((p, _)) = o_split(cur) { v.push(p.to_vec()); cur = p; } v }

/// Frame oracle on the implementation alone: the extended name of a class depends only on its OUTER classes.  A class that
/// is nobody's outer class is removed / unnamed / renamed / moved to the front, or an unrelated class is added: extension
/// must still succeed and every other class must come out exactly as before.
fn frame_probe(r: &mut Report, rng: &mut Rng, m: &MMappings, name: &[u32]) {
	let Some(ns) = ns_position(m, name) else { return };
	if ns == 0 || m.classes.is_empty() { return; }
	let Some(name_s) = name.iter().map(|&c| char::from_u32(c)).collect::<Option<String>>() else { return };
	let Ok(base) = run_impl(m, &name_s) else { return };
	let Ok(Some(e)) = base.extend else { return };
	let keys: Vec<S> = m.classes.iter().filter_map(|c| c.names[0].clone()).collect();
	let leaves: Vec<usize> = (0..m.classes.len()).filter(|&i| m.classes[i].names[0].as_ref().map_or(false, |k| !keys.iter().any(|s| ancestors(s).contains(k)))).collect();
	if leaves.is_empty() { return; }
	let i = *rng.pick(&leaves[..]);
	let leaf_key = m.classes[i].names[0].clone();
	let mut m2 = m.clone();
	let (tag, skip): (&str, Option<S>) = match rng.below(5) {
		0 => { m2.classes.remove(i); ("removed", leaf_key.clone()) }
		1 => { m2.classes[i].names[ns] = None; ("unnamed", leaf_key.clone()) }
		// (renaming a class that had no name would make the call depend on ITS outer classes being named: only named ones)
		2 if m.classes[i].names[ns].is_some() => { m2.classes[i].names[ns] = Some(cps_str("Renamed$X")); ("renamed", leaf_key.clone()) }
		3 => { let c = m2.classes.remove(i); m2.classes.insert(0, c); ("moved to the front", None) }
		_ => {
			let key = cps_str("zz/Unrelated");
			if keys.contains(&key) { return; }
			let mut names: NamesRow = vec![None; m.ns.len()]; names[0] = Some(key.clone()); names[ns] = Some(cps_str("Any$Name"));
			let at = rng.below(m2.classes.len() + 1);
			m2.classes.insert(at, MClass { names, doc: None, fields: vec![], methods: vec![] });
			("added", Some(key))
		}
	};
	r.count(&format!("frame_probe:{tag}"));
	crumb(&replay("the harness process died inside extend_inner_class_names on this input", &m2, name, ""));
	let what = format!("extend_inner_class_names: the result for a class changed although only a class that is NOT one of its outer classes was {tag}");
	match run_impl(&m2, &name_s).map(|o| o.extend) {
		Ok(Ok(Some(e2))) => {
			for c2 in &e2.classes {
				if c2.names[0] == skip { continue; }
				let before = e.classes.iter().find(|c| c.names[0] == c2.names[0]);
				if before != Some(c2) {
					r.violation(what.clone(), replay(&what, m, name, &format!("the class {} was {tag}; extension of the original:\n{}extension of the changed set:\n{}", skip.as_ref().or(leaf_key.as_ref()).map_or("?".into(), |k| show(k)), show_mappings(&e), show_mappings(&e2))));
					return;
				}
			}
		}
		other => r.violation(what.clone(), replay(&what, m, name, &format!("the class {} was {tag}; the original extends fine, the changed set gives {}\nchanged set:\n{}", skip.as_ref().or(leaf_key.as_ref()).map_or("?".into(), |k| show(k)),
			match other { Ok(Ok(None)) => "Err".to_string(), Ok(Err(p)) => format!("panic {p}"), Err(e) => format!("not constructible {e}"), _ => String::new() }, show_mappings(&m2)))),
	}
}

/// run the implementation's own extension through everything once more (extension of an already extended set: never
/// fails, prepends the outer names again; contracting it still gives the innermost simple names)
fn again(r: &mut Report, seen: &mut Seen, m: &MMappings, name: &[u32]) {
	let Some(name_s) = name.iter().map(|&c| char::from_u32(c)).collect::<Option<String>>() else { return };
	if let Ok(Outcome { extend: Ok(Some(e)), .. }) = run_impl(m, &name_s) {
		if e != *m {
			through(r, seen, "extended-again", &e, name, false);
			// second extension must succeed (all outer classes are still there and named)
			match run_impl(&e, &name_s).map(|o| o.extend) {
				Ok(Ok(Some(e2))) => { r.count(if e2 == e { "extended-again:fixpoint" } else { "extended-again:grows" }); }
				_ => { let what = "extend_inner_class_names fails on (or cannot digest) its own result"; r.violation(what.into(), replay(what, &e, name, "")); }
			}
		}
	}
}

/// k branches R_j, R_j$L1, R_j$L1$L2, ... whose classes have, level by level, the SAME names in the target namespace
/// (only the roots' target names differ — or, with `same_roots`, not even those); depth >= 3
fn gen_twins(rng: &mut Rng, n: usize, target: usize) -> MMappings {
	let k = rng.range(2, 3); let depth = rng.range(2, 4);
	let same_roots = rng.chance(1, 4);
	let level_src: Vec<S> = (0..depth).map(|_| simple(rng)).collect();
	let level_tgt: Vec<S> = (0..depth).map(|_| simple(rng)).collect();
	let root_tgt = top_name(rng);
	let mut classes = vec![];
	let mut used: Vec<S> = vec![];
	for j in 0..k {
		let mut src = top_name(rng);
		while used.contains(&src) { src.push('x' as u32); }
		used.push(src.clone());
		for d in 0..=depth {
			let mut names: NamesRow = vec![Some(src.clone())];
			for col in 1..n {
				names.push(if col == target {
					Some(if d == 0 { if same_roots { root_tgt.clone() } else { let mut t = root_tgt.clone(); t.extend(cps_str(&j.to_string())); t } } else { level_tgt[d - 1].clone() })
				} else if rng.chance(1, 3) { None } else { Some(simple(rng)) });
			}
			classes.push(MClass { names, doc: None, fields: vec![], methods: vec![] });
			if d < depth { src.push(DOLLAR); src.extend(level_src[d].clone()); }
		}
	}
	match rng.below(3) { 0 => {} 1 => classes.reverse(), _ => rng.shuffle(&mut classes) }
	let mut nsn: Vec<&str> = NSNAMES.to_vec(); rng.shuffle(&mut nsn);
	MMappings { ns: nsn[..n].iter().map(|s| cps_str(s)).collect(), doc: None, classes }
}

/// source names that are NOT nested (flat, or with `$` only where the split refuses it), target names that ARE
const FLAT_SRC: [&str; 12] = ["a", "b", "c", "net/minecraft/C_12", "$B", "a/$B", "a$b/C", "A$", "$", "x/y/Z", "a$b/c$/D", "Ü"];
const NESTED_TGT: [&str; 12] = ["org/example/Outer$Inner", "O$I$J", "p/O$I", "Outer$1", "a$b/C$D", "O$I", "Ü$名", "O$$I", "$I", "O$", "p/$I", "a/b$/C"];
fn gen_flat_nested(rng: &mut Rng, n: usize, target: usize) -> MMappings {
	let mut classes: Vec<MClass> = vec![];
	for _ in 0..rng.range(1, 6) {
		let src = cps_str(*rng.pick(&FLAT_SRC[..]));
		if classes.iter().any(|c| c.names[0].as_ref() == Some(&src)) { continue; }
		let mut names: NamesRow = vec![Some(src)];
		for col in 1..n { names.push(if col == target || rng.chance(1, 2) { Some(cps_str(*rng.pick(&NESTED_TGT[..]))) } else { None }); }
		classes.push(MClass { names, doc: if rng.chance(1, 4) { Some(cps_str("doc")) } else { None }, fields: vec![], methods: vec![] });
	}
	// now and then a really nested class beside them, so that both kinds meet in one set
	if rng.chance(1, 2) {
		let a = cps_str("Q"); let mut b = a.clone(); b.push(DOLLAR); b.extend(cps_str("R"));
		for (src, t) in [(a, "q/Outer$Q"), (b, "In$R")] {
			let mut names: NamesRow = vec![Some(src)];
			for col in 1..n { names.push(if col == target { Some(cps_str(t)) } else { None }); }
			classes.push(MClass { names, doc: None, fields: vec![], methods: vec![] });
		}
	}
	rng.shuffle(&mut classes);
	let mut nsn: Vec<&str> = NSNAMES.to_vec(); rng.shuffle(&mut nsn);
	MMappings { ns: nsn[..n].iter().map(|s| cps_str(s)).collect(), doc: None, classes }
}

/// one long chain A$a$b$..., listed innermost first, every class named in the target namespace
fn gen_deep_chain(depth: usize, tail_unnamed: bool) -> MMappings {
	let mut classes = vec![];
	let mut src = cps_str("pkg/Deep");
	for d in 0..=depth {
		let t = if d == 0 { cps_str("q/Root") } else { cps_str(&format!("n{d}")) };
		classes.push(MClass { names: vec![Some(src.clone()), if tail_unnamed && d == 1 { None } else { Some(t) }], doc: None, fields: vec![], methods: vec![] });
		src.push(DOLLAR); src.push('a' as u32 + (d % 26) as u32);
	}
	classes.reverse();
	MMappings { ns: vec![cps_str("official"), cps_str("named")], doc: None, classes }
}

/// Round 5: `n` namespaces, target index `t`: a fixed forest (classes in packages, a chain of depth 2, siblings, a
/// second tree) in which every non-first column holds names that differ from column to column, so that reading the
/// outer class's name from, or writing the result into, ANOTHER column than the chosen one is visible.  Variants:
/// 0 all names present; 1 every column except `t` absent on the nested classes; 2 column `t` absent on a leaf;
/// 3 column `t` absent on an outer class (must fail) while every other column has it; 4 the same as 0, innermost
/// first; 5 top-level target names whose simple name starts with `$` (com/sun/proxy/$Proxy7, $Proxy8: NOT inner
/// class names - contraction must leave them alone).
fn gen_grid(n: usize, t: usize, v: usize) -> MMappings {
	const SRC: [&str; 8] = ["p/A", "p/A$B", "p/A$B$C", "p/A$D", "q/E", "F", "F$G", "F$G$1"];
	let mut classes: Vec<MClass> = vec![];
	for (k, src) in SRC.iter().enumerate() {
		let nested = src.contains('$');
		let mut names: NamesRow = vec![Some(cps_str(src))];
		for j in 1..n {
			let name = if nested { format!("c{j}k{k}") } else if v == 5 && j == t { if k % 2 == 0 { format!("com/sun/proxy/$Proxy{k}") } else { format!("$Proxy{k}") } } else { format!("r{j}/T{j}k{k}") };
			let absent = match v { 1 => nested && j != t, 2 => j == t && *src == "p/A$B$C", 3 => j == t && *src == "p/A", _ => false };
			names.push(if absent { None } else { Some(cps_str(&name)) });
		}
		classes.push(MClass { names, doc: None, fields: vec![], methods: vec![] });
	}
	if v == 4 { classes.reverse(); }
	MMappings { ns: NSNAMES[..n].iter().map(|s| cps_str(s)).collect(), doc: None, classes }
}

const WEIRD_SRC: [&str; 16] = ["A$", "$B", "A$$B", "a/$B", "a$b/C", "A$B$", "$", "$$", "a/b$c/D$E", "A$B/C$D", "/A$B", "A/", "A$1", "A$1$2", "a/A$B$C", "A$ $B"];

// ---------------------------------------------------------------------------------------------

fn fixture() -> MMappings {
	// quill/tests/extend_inner_class_names_input.tiny (class rows; members abbreviated)
	let row = |a: &str, b: &str| vec![Some(cps_str(a)), Some(cps_str(b))];
	let f = MField { desc: cps_str("LA;"), names: vec![Some(cps_str("untouched")), Some(cps_str("field"))], doc: None };
	let me = MMeth { desc: cps_str("(LA$B;)LA$B$C;"), names: vec![Some(cps_str("untouched")), Some(cps_str("method"))], doc: Some(cps_str("Untouched method comment")),
		params: vec![MParam { index: 0, names: vec![Some(cps_str("untouched")), Some(cps_str("parameter"))], doc: Some(cps_str("Untouched parameter comment")) }] };
	MMappings { ns: vec![cps_str("namespaceA"), cps_str("namespaceB")], doc: None, classes: vec![
		MClass { names: row("A", "a"), doc: None, fields: vec![f.clone()], methods: vec![] },
		MClass { names: row("A$B", "b"), doc: None, fields: vec![], methods: vec![me.clone()] },
		MClass { names: row("A$B$C", "c"), doc: Some(cps_str("Untouched comment")), fields: vec![], methods: vec![] },
		MClass { names: row("Outer", "MappedOuter"), doc: None, fields: vec![], methods: vec![me] },
		MClass { names: row("Outer$Inner", "MappedInner"), doc: None, fields: vec![f], methods: vec![] },
	] }
}

pub fn run(ctx: &Ctx) -> anyhow::Result<Report> {
	let mut r = Report::new("C11", "C11.Run");
	r.shard_size = 120;
	let mut rng = Rng::new(ctx.seed);
	let mut seen = Seen::default();
	r.rule = "Mapping sets with 1..5 namespaces (mostly 2..4), target namespace at every index (non-first for the valid streams), source names forming forests of $-nested classes of depth 0..4 (deeper in the exhaustive chain), outer classes in packages, absent names in every non-first namespace, with and without members/comments, classes in shuffled insertion order. Streams: exhaustive (every sub-chain of A, A$B, .. A$B$C$D$E x every assignment of {absent, simple, package+dollar name} to the second namespace), ok (all hypotheses), broken (an outer class removed or unnamed), nonsimple (simple_names violated), weird-src (source names with misplaced $ and /), ns0 (first namespace), unknown-ns / duplicate namespace names, n1 (one namespace), mapmodel (shared generator, names with packages), fixture (the repository's test); round 5: ns-grid (n = 2, 3, 4 namespaces x EVERY chosen non-first index, in both tiers: a fixed forest whose columns carry pairwise different names, all present / only the chosen column present on nested classes / chosen column absent on a leaf / absent on an outer class (must fail although the other columns have it) / innermost first / top-level target names with a leading `$` in the simple name such as com/sun/proxy/$Proxy7); round 4: twin-branches (2-3 branches of depth 3-5 whose classes carry level by level EQUAL names in the target namespace, roots' target names differing or equal too, listed outer-first / inner-first / shuffled), flat-source-nested-target (source names that are not nested — flat, leading `$`, `$` in the package part — under target names that are: org/example/Outer$Inner, O$I$J, $I, O$ ...), extended-again (the implementation's own extension extended once more: must succeed), deep-chain (one chain of depth 24..56, thorough 96, innermost class first; a crumb is written before every call so that a death inside the recursive parent lookup is reported with its input), frame probes (a class that is nobody's outer class removed / unnamed / renamed / moved / an unrelated class added: every other class must come out as before), contraction applied twice (idempotent, result never splittable), valid object class names in => valid names out (ObjClassName::check_valid on the chosen column before and after both calls), get_simple_name / check_valid / as_class_name on every name seen. Oracle on the implementation: independent iterative reference extension and contraction, failure iff the reference fails (extend on the FIRST namespace: must fail when there are classes; on a set without classes Err and Ok-unchanged are both accepted — outside the property's quantifier), contract(extend(M)) == M whenever simple_names holds, IndexMap keys still in sync. An input is non-trivial when at least one class with a nested source name has a name in the target namespace; distinct by (namespace, canonical Gallina text).".into();

	r.notes.push("contract_inner_class_names on the FIRST namespace used to rewrite the node names and leave the IndexMap keys stale (found by the key-sync oracle of this harness on the repository's own fixture); repaired by /repo commit 4d8ec0a (`fix: contract_inner_class_names refuses the first namespace`), the model follows the repaired code; the ns0 stream re-checks it on every run".into());
	r.notes.push("correspondence cases are sent in compact form (CRun): the harness verifies cell by cell that the implementation's result is the input with only the chosen namespace column of the class rows replaced, sends that column, and Coq rebuilds the full mapping set and compares it in full with the model's result; every 8th-10th input and every input where that verification fails is sent in full (CExtend/CContract)".into());

	// 0. the repository's fixture
	let fx = fixture();
	through(&mut r, &mut seen, "fixture", &fx, &cps_str("namespaceB"), true);
	through(&mut r, &mut seen, "fixture", &fx, &cps_str("namespaceA"), true);

	// 1. exhaustive: chain A, A$B, A$B$C, A$B$C$D, A$B$C$D$E; each class absent from the set or present with
	//    one of the name choices in the second namespace
	let chain: Vec<S> = ["A", "A$B", "A$B$C", "A$B$C$D", "A$B$C$D$E"].iter().map(|s| cps_str(s)).collect();
	let choices: Vec<Option<S>> = if ctx.thorough { vec![None, Some(cps_str("x")), Some(cps_str("p/y$z")), Some(cps_str("q/w"))] } else { vec![None, Some(cps_str("x")), Some(cps_str("p/y$z"))] };
	let k = choices.len() + 1; // + not in the set
	let total = k.pow(chain.len() as u32);
	for code in 0..total {
		let mut c = code;
		let mut classes = vec![];
		for src in &chain {
			let d = c % k; c /= k;
			if d == 0 { continue; }
			classes.push(MClass { names: vec![Some(src.clone()), choices[d - 1].clone()], doc: None, fields: vec![], methods: vec![] });
		}
		// innermost first in the IndexMap: the order must not matter for lookups
		if code % 2 == 1 { classes.reverse(); }
		let m = MMappings { ns: vec![cps_str("a"), cps_str("b")], doc: None, classes };
		through(&mut r, &mut seen, "exhaustive-chain", &m, &cps_str("b"), false);
	}
	r.count_n("exhaustive_chain_inputs", total as u64);

	// 2. random streams
	let n_ok = if ctx.thorough { 1300 } else { 260 };
	for i in 0..n_ok {
		let (cfg, target) = pick_cfg(&mut rng, ctx.thorough);
		let m = gen_ok(&mut rng, &cfg, target);
		let name = m.ns[target].clone();
		through(&mut r, &mut seen, "ok", &m, &name, i % 10 == 0);
		// hypothesis-violating variants of the same input
		let mut b = m.clone();
		if let Some(tag) = break_chain(&mut rng, &mut b, target) { r.count(&format!("broken:{tag}")); through(&mut r, &mut seen, "broken", &b, &name, false); }
		let mut u = m.clone();
		if let Some(tag) = unsimplify(&mut rng, &mut u, target) { r.count(&format!("nonsimple:{tag}")); through(&mut r, &mut seen, "nonsimple", &u, &name, false); }
		if i % 5 == 0 { through(&mut r, &mut seen, "ns0", &m, &m.ns[0].clone(), false); }
		if i % 7 == 0 { through(&mut r, &mut seen, "unknown-ns", &m, &cps_str("nope"), false); }
		if i % 9 == 0 {
			// duplicate namespace names: get_namespace answers the first index
			let mut d = m.clone();
			let j = rng.below(d.ns.len()); let kx = rng.below(d.ns.len());
			d.ns[j] = d.ns[kx].clone();
			let nm = d.ns[j].clone();
			through(&mut r, &mut seen, "duplicate-ns", &d, &nm, false);
		}
	}
	// 3. weird source names
	for _ in 0..(if ctx.thorough { 400 } else { 90 }) {
		let (cfg, target) = pick_cfg(&mut rng, ctx.thorough);
		let mut m = gen_ok(&mut rng, &cfg, target);
		for _ in 0..rng.range(1, 4) {
			let src = cps_str(*rng.pick(&WEIRD_SRC[..]));
			if m.classes.iter().any(|c| c.names[0].as_ref() == Some(&src)) { continue; }
			let mut names: NamesRow = vec![Some(src)];
			for _ in 1..cfg.n { names.push(if rng.chance(1, 4) { None } else { Some(simple(&mut rng)) }); }
			let at = rng.below(m.classes.len() + 1);
			m.classes.insert(at, MClass { names, doc: None, fields: vec![], methods: vec![] });
		}
		let name = m.ns[target].clone();
		through(&mut r, &mut seen, "weird-src", &m, &name, rng.chance(1, 6));
	}
	// 4. one namespace; five namespaces
	for _ in 0..(if ctx.thorough { 60 } else { 12 }) {
		let cfg = Cfg { n: 1, classes: rng.range(0, 4), max_depth: 2, absent_12: 0, members: false };
		let m = gen_ok(&mut rng, &cfg, 0);
		through(&mut r, &mut seen, "n1", &m, &m.ns[0].clone(), false);
		let cfg = Cfg { n: 5, classes: rng.range(0, 6), max_depth: 4, absent_12: 3, members: false };
		let t = rng.range(1, 4);
		let m = gen_ok(&mut rng, &cfg, t);
		through(&mut r, &mut seen, "n5", &m, &m.ns[t].clone(), false);
	}
	// 5. the shared generator (members, comments, names with packages: usually outside simple_names)
	for _ in 0..(if ctx.thorough { 400 } else { 100 }) {
		let n = rng.range(2, 4);
		let mut g = GenCfg::new(n); g.absent_12 = *rng.pick(&[0, 1, 4][..]); g.max_classes = 7;
		let m = gen_mappings(&mut rng, &g);
		let m = if rng.chance(1, 2) { shuffled(&mut rng, &m) } else { m };
		let t = rng.below(n);
		let full = rng.chance(1, 8);
		through(&mut r, &mut seen, "mapmodel", &m, &m.ns[t].clone(), full);
	}
	// 5a. round 4: separate generator state, so that the streams above stay what they were
	{
		let mut rng4 = Rng::new(ctx.seed ^ 0xC11_0004);
		// two or three branches with level-by-level EQUAL target names, depth >= 3 (a result remembered under the
		// outer class's TARGET name instead of its source name would leak from one branch into the other)
		for i in 0..(if ctx.thorough { 300 } else { 60 }) {
			let n = rng4.range(2, 4); let t = rng4.range(1, n - 1);
			let m = gen_twins(&mut rng4, n, t);
			let name = m.ns[t].clone();
			through(&mut r, &mut seen, "twin-branches", &m, &name, i % 12 == 0);
			if i % 3 == 0 { again(&mut r, &mut seen, &m, &name); }
			if i % 2 == 0 { frame_probe(&mut r, &mut rng4, &m, &name); }
		}
		// flat source names under nested target names: contraction must look at the TARGET name only
		for i in 0..(if ctx.thorough { 300 } else { 60 }) {
			let n = rng4.range(2, 4); let t = rng4.range(1, n - 1);
			let m = gen_flat_nested(&mut rng4, n, t);
			let name = m.ns[t].clone();
			through(&mut r, &mut seen, "flat-source-nested-target", &m, &name, i % 12 == 0);
		}
		// extension of extended sets, frame probes on the ordinary forests
		for i in 0..(if ctx.thorough { 400 } else { 80 }) {
			let (cfg, target) = pick_cfg(&mut rng4, ctx.thorough);
			let m = gen_ok(&mut rng4, &cfg, target);
			let name = m.ns[target].clone();
			if i % 2 == 0 { again(&mut r, &mut seen, &m, &name); }
			frame_probe(&mut r, &mut rng4, &m, &name);
		}
		// long chains (the parent lookup recurses once per level), innermost class first
		for (depth, tail) in [(24usize, false), (40, false), (if ctx.thorough { 96 } else { 56 }, false), (33, true)] {
			let m = gen_deep_chain(depth, tail);
			through(&mut r, &mut seen, "deep-chain", &m, &cps_str("named"), false);
		}
	}
	// 5b. round 5: every (number of namespaces, chosen namespace index) with n = 2, 3, 4 - in BOTH tiers - on the grid forest
	for n in 2..=4usize { for t in 1..n { for v in 0..6usize {
		let m = gen_grid(n, t, v);
		let name = m.ns[t].clone();
		r.count(&format!("grid:namespaces={n},target_index={t}"));
		through(&mut r, &mut seen, "ns-grid", &m, &name, v == 0 || v == 3);
		if v == 0 { again(&mut r, &mut seen, &m, &name); }
	} } }
	// 6. split / join on the names that occurred
	seen.strings.sort(); seen.strings.dedup();
	rng.shuffle(&mut seen.strings);
	let take = if ctx.thorough { 1500 } else { 300 };
	let strings: Vec<S> = seen.strings.iter().take(take).cloned().chain(WEIRD_SRC.iter().map(|s| cps_str(s))).collect();
	for s in &strings {
		match impl_inner(s) {
			Err(p) => r.violation(format!("get_inner_class_parent/name panicked: {p}"), format!("property C11\nname: {}\n", show(s))),
			Ok((p, i)) => {
				let want = o_split(s).map(|(p, i)| (p.to_vec(), i.to_vec()));
				if (p.clone().zip(i.clone())) != want || p.is_some() != i.is_some() {
					r.violation("get_inner_class_parent / get_inner_class_name differ from the documented split".into(), format!("property C11\nname: {}\nparent: {:?}\ninner: {:?}\n", show(s), p.as_ref().map(|x| show(x)), i.as_ref().map(|x| show(x))));
				}
				if let (Some(p), Some(i)) = (&p, &i) {
					match impl_join(p, i) {
						Ok(j) if j == *s => r.case("split-join", format!("CJoin {} {} {}", gstr(p), gstr(i), gstr(&j))),
						other => r.violation(format!("from_inner_class(parent, inner) = {other:?} does not give the name back"), format!("property C11\nname: {}\n", show(s))),
					}
				}
				r.case("split-join", format!("CInner {} {} {}", gstr(s), gopt(p.map(|x| gstr(&x))), gopt(i.map(|x| gstr(&x)))));
			}
		}
		match impl_valid(s) {
			Ok(b) => {
				if b != ref_valid(s) { r.violation("ObjClassName::check_valid differs from the binary-name grammar".into(), format!("property C11\nname: {}\ncheck_valid: {}\n", show(s), b)); }
				r.case("valid-name", format!("CValid {} {}", gstr(s), gbool(b)));
			}
			Err(p) => r.violation(format!("ObjClassName::check_valid / as_class_name panicked: {p}"), format!("property C11\nname: {}\n", show(s))),
		}
		// get_simple_name (the part after the last `/`), the third helper of duke/src/tree/class.rs on these names
		match impl_simple(s) {
			Ok(g) => {
				let want: S = match s.iter().rposition(|&c| c == SLASH) { Some(p) => s[p + 1..].to_vec(), None => s.clone() };
				if g != want { r.violation("get_simple_name differs from `the part after the last /`".into(), format!("property C11\nname: {}\nget_simple_name: {}\n", show(s), show(&g))); }
				r.case("simple-name", format!("CSimple {} {}", gstr(s), gstr(&g)));
			}
			Err(p) => r.violation(format!("get_simple_name panicked: {p}"), format!("property C11\nname: {}\n", show(s))),
		}
	}
	Ok(r)
}

fn main() -> anyhow::Result<()> { fbh::main_with(run) }
