//! Classes with one `invokeinterface` whose method descriptor is chosen by the generator: the count
//! operand is not part of the tree, the writer recomputes it from the descriptor
//! (MethodDescriptorSlice::get_arguments_size).  Independent of duke: the class file is assembled here,
//! the reference count is computed here from the JVMS 4.3.3 grammar.
use fbh::classfile::facts::JStr;
use fbh::prng::Rng;

fn u2(v: &mut Vec<u8>, x: u16) { v.extend_from_slice(&x.to_be_bytes()); }
fn u4(v: &mut Vec<u8>, x: u32) { v.extend_from_slice(&x.to_be_bytes()); }
fn utf8(v: &mut Vec<u8>, b: &[u8]) { v.push(1); u2(v, b.len() as u16); v.extend_from_slice(b); }

/// class A { static void m() { aconst_null; invokeinterface I.call:<desc> count 0; return } }
/// `desc` = code points of the descriptor; `count` = the count operand in the file (the reader ignores it)
pub fn build(desc: &[u32], count: u8) -> Vec<u8> {
	let d = JStr::from_code_points(desc).to_mutf8();
	let mut v = vec![0xCA, 0xFE, 0xBA, 0xBE, 0, 0, 0, 52];
	u2(&mut v, 14);
	utf8(&mut v, b"A"); v.push(7); u2(&mut v, 1);
	utf8(&mut v, b"java/lang/Object"); v.push(7); u2(&mut v, 3);
	utf8(&mut v, b"m"); utf8(&mut v, b"()V"); utf8(&mut v, b"Code");
	utf8(&mut v, b"I"); v.push(7); u2(&mut v, 8);
	utf8(&mut v, b"call"); utf8(&mut v, &d);
	v.push(12); u2(&mut v, 10); u2(&mut v, 11);
	v.push(11); u2(&mut v, 9); u2(&mut v, 12);
	u2(&mut v, 0x0021); u2(&mut v, 2); u2(&mut v, 4); u2(&mut v, 0); u2(&mut v, 0);
	u2(&mut v, 1);
	u2(&mut v, 0x0009); u2(&mut v, 5); u2(&mut v, 6); u2(&mut v, 1);
	let code = [1u8, 185, 0, 13, count, 0, 177];
	u2(&mut v, 7); u4(&mut v, 2 + 2 + 4 + code.len() as u32 + 2 + 2);
	u2(&mut v, 600); u2(&mut v, 0); u4(&mut v, code.len() as u32); v.extend_from_slice(&code);
	u2(&mut v, 0); u2(&mut v, 0);
	u2(&mut v, 0);
	v
}

/// JVMS 4.3.3, written from the specification: Some(argument slots) for a descriptor of the grammar
/// (long and double count two, everything else — arrays of long/double too — one), None otherwise
pub fn reference_slots(d: &[u32]) -> Option<u32> {
	fn field(d: &[u32], mut i: usize) -> Option<(usize, u32)> {
		let mut dims = 0;
		while d.get(i) == Some(&('[' as u32)) { dims += 1; i += 1; if dims > 255 { return None; } }
		let c = char::from_u32(*d.get(i)?)?;
		match c {
			'B' | 'C' | 'F' | 'I' | 'S' | 'Z' => Some((i + 1, 1)),
			'D' | 'J' => Some((i + 1, if dims == 0 { 2 } else { 1 })),
			'L' => {
				let start = i + 1; let mut j = start;
				while *d.get(j)? != ';' as u32 { j += 1; }
				// ClassName: non-empty unqualified names separated by '/', none of . ; [ / inside
				let name = &d[start..j];
				if name.is_empty() { return None; }
				for part in name.split(|c| *c == '/' as u32) { if part.is_empty() || part.iter().any(|c| *c == '.' as u32 || *c == '[' as u32) { return None; } }
				Some((j + 1, 1))
			}
			_ => None,
		}
	}
	if d.first() != Some(&('(' as u32)) { return None; }
	let (mut i, mut slots) = (1usize, 0u32);
	while *d.get(i)? != ')' as u32 { let (n, s) = field(d, i)?; i = n; slots += s; }
	i += 1;
	if d.get(i) == Some(&('V' as u32)) { i += 1; } else { i = field(d, i)?.0; }
	if i == d.len() { Some(slots) } else { None }
}

fn cps(s: &str) -> Vec<u32> { s.chars().map(|c| c as u32).collect() }

fn class_name(rng: &mut Rng) -> Vec<u32> {
	let alphabet: [u32; 12] = ['a' as u32, 'Z' as u32, '$' as u32, '_' as u32, '9' as u32, 'D' as u32, 'J' as u32, 'L' as u32, 0xE9, 0x4E2D, 0x1F600, ')' as u32];
	let mut v = vec![];
	for p in 0..rng.range(1, 3) {
		if p > 0 { v.push('/' as u32); }
		for _ in 0..rng.range(1, 4) { v.push(*rng.pick(&alphabet)); }
	}
	v
}
/// (descriptor text of one field type, its argument slots)
fn field_type(rng: &mut Rng) -> (Vec<u32>, u32) {
	let mut v = vec![];
	let dims = match rng.below(10) { 0..=5 => 0, 6 | 7 => 1, 8 => rng.range(2, 4), _ => *rng.pick(&[254usize, 255]) };
	for _ in 0..dims { v.push('[' as u32); }
	let slots = match rng.below(10) {
		0 | 1 => { v.push('J' as u32); if dims == 0 { 2 } else { 1 } }
		2 | 3 => { v.push('D' as u32); if dims == 0 { 2 } else { 1 } }
		4 | 5 | 6 => { v.push('L' as u32); v.extend(class_name(rng)); v.push(';' as u32); 1 }
		_ => { v.push(*rng.pick(&['B' as u32, 'C' as u32, 'F' as u32, 'I' as u32, 'S' as u32, 'Z' as u32])); 1 }
	};
	(v, slots)
}
fn ret_type(rng: &mut Rng) -> Vec<u32> { if rng.chance(1, 2) { cps("V") } else { field_type(rng).0 } }

/// valid descriptors: random small ones, and parameter lists whose slots land on 252..257 (count 253..258)
pub fn valid(rng: &mut Rng, n_random: usize) -> Vec<(String, Vec<u32>)> {
	let mut out: Vec<(String, Vec<u32>)> = vec![];
	for s in ["()V", "(J)V", "(D)V", "([J)V", "([[D)V", "([[DI[Ljava/lang/String;J)V", "(IDLjava/lang/Thread;)Ljava/lang/Object;", "(BCDFIJLjava/lang/Thread;SZ)Ljava/lang/Object;", "(LD;LJ;[LJ;)J", "()J", "()[D"] {
		out.push((format!("fixed {s}"), cps(s)));
	}
	for i in 0..n_random {
		let mut d = cps("(");
		for _ in 0..rng.below(9) { d.extend(field_type(rng).0); }
		d.push(')' as u32); d.extend(ret_type(rng));
		out.push((format!("random #{i}"), d));
	}
	// boundaries of the u8 count: total argument slots 252..=257 reached with different mixtures
	for target in 252u32..=257 {
		for mix in 0..4 {
			let mut d = cps("("); let mut slots = 0u32;
			while slots < target {
				let (t, s) = match mix {
					0 => (cps("I"), 1), 1 => if target - slots >= 2 { (cps("J"), 2) } else { (cps("[J"), 1) },
					2 => if target - slots >= 2 && rng.chance(1, 2) { (cps("D"), 2) } else { (cps("[[D"), 1) },
					_ => { let (t, s) = field_type(rng); if slots + s > target { (cps("Z"), 1) } else { (t, s) } }
				};
				d.extend(t); slots += s;
			}
			d.push(')' as u32); d.extend(ret_type(rng));
			out.push((format!("boundary slots {target} mixture {mix}"), d));
		}
	}
	out
}

/// strings the reader accepts as a method descriptor (it does not check them) but that are outside the grammar
pub fn malformed(rng: &mut Rng, n_random: usize) -> Vec<(String, Vec<u32>)> {
	let mut out: Vec<(String, Vec<u32>)> = vec![];
	for s in ["", "(", "()", ")", "I)V", "(I", "(L", "(La", "(La;", "([", "([[", "([)V", "(V)V", "(\u{e9})V", "(\u{4e2d}J)V", "(\u{1F600})V", "(\u{1F600}\u{1F600}D)V", "(L;)V", "(IJ", "(\0)V", "([\u{e9}[\u{1F600})V", "(()V", "(;)V", "(LL;;)V", "(D[J[)V"] {
		out.push((format!("fixed {s:?}"), cps(s)));
	}
	let mut deep = cps("("); for _ in 0..300 { deep.push('[' as u32); } deep.extend(cps("I)V"));
	out.push(("300 array dimensions".into(), deep));
	// an unpaired surrogate (the JavaStr holds it as one char)
	out.push(("unpaired high surrogate".into(), vec!['(' as u32, 0xD83D, ')' as u32, 'V' as u32]));
	out.push(("unpaired low surrogate".into(), vec!['(' as u32, 0xDE00, 'J' as u32, ')' as u32, 'V' as u32]));
	let alphabet: [u32; 14] = ['(' as u32, ')' as u32, '[' as u32, 'L' as u32, ';' as u32, 'D' as u32, 'J' as u32, 'I' as u32, 'V' as u32, '/' as u32, 0xE9, 0x4E2D, 0x1F600, 0];
	for i in 0..n_random {
		let mut d = if rng.chance(4, 5) { cps("(") } else { vec![] };
		for _ in 0..rng.below(10) { d.push(*rng.pick(&alphabet)); }
		out.push((format!("random garbage #{i}"), d));
	}
	out
}
