//! Class files whose tables add up to a count at the edge of a u16 field although every single attribute of
//! the file is legal: a Code attribute may carry several LineNumberTable / LocalVariableTable /
//! LocalVariableTypeTable attributes (JVMS 4.7.12-14); duke's reader concatenates them into one table, the
//! writer emits one attribute whose count is the sum.  Independent of duke.

fn u2(v: &mut Vec<u8>, x: u16) { v.extend_from_slice(&x.to_be_bytes()); }
fn u4(v: &mut Vec<u8>, x: u32) { v.extend_from_slice(&x.to_be_bytes()); }
fn utf8(v: &mut Vec<u8>, s: &str) { v.push(1); u2(v, s.len() as u16); v.extend_from_slice(s.as_bytes()); }

/// class `A` (version 49) with one static method `m()V` whose code is `nop; return` and whose Code attribute has one
/// LineNumberTable attribute per element of `lnt` (every entry: start_pc 0, line 7), one
/// LocalVariableTable per element of `lvt` and one LocalVariableTypeTable per element of `lvtt` (every entry:
/// start_pc 0, length 2, name `x`, descriptor `I` / signature `TT;`, index 0)
pub fn build(lnt: &[usize], lvt: &[usize], lvtt: &[usize]) -> Vec<u8> {
	let mut v = vec![]; u4(&mut v, 0xCAFEBABE); u2(&mut v, 0); u2(&mut v, 49);
	u2(&mut v, 14);
	utf8(&mut v, "A"); v.push(7); u2(&mut v, 1);                      // 1, 2
	utf8(&mut v, "java/lang/Object"); v.push(7); u2(&mut v, 3);       // 3, 4
	utf8(&mut v, "m"); utf8(&mut v, "()V"); utf8(&mut v, "Code");     // 5 6 7
	utf8(&mut v, "LineNumberTable"); utf8(&mut v, "LocalVariableTable"); utf8(&mut v, "LocalVariableTypeTable"); // 8 9 10
	utf8(&mut v, "x"); utf8(&mut v, "I"); utf8(&mut v, "TT;");        // 11 12 13
	u2(&mut v, 0x21); u2(&mut v, 2); u2(&mut v, 4); u2(&mut v, 0);
	u2(&mut v, 0); // fields
	u2(&mut v, 1); // methods
	let mut attrs: Vec<u8> = vec![]; let mut n_attrs = 0u16;
	for &n in lnt {
		assert!(n <= 65535);
		n_attrs += 1; u2(&mut attrs, 8); u4(&mut attrs, (2 + 4 * n) as u32); u2(&mut attrs, n as u16);
		for _ in 0..n { u2(&mut attrs, 0); u2(&mut attrs, 7); }
	}
	for (name, desc, list) in [(9u16, 12u16, lvt), (10, 13, lvtt)] {
		for &n in list {
			assert!(n <= 65535);
			n_attrs += 1; u2(&mut attrs, name); u4(&mut attrs, (2 + 10 * n) as u32); u2(&mut attrs, n as u16);
			for _ in 0..n { u2(&mut attrs, 0); u2(&mut attrs, 2); u2(&mut attrs, 11); u2(&mut attrs, desc); u2(&mut attrs, 0); }
		}
	}
	let code = [0u8, 177];
	u2(&mut v, 0x9); u2(&mut v, 5); u2(&mut v, 6); u2(&mut v, 1);
	u2(&mut v, 7); u4(&mut v, (12 + code.len() + attrs.len()) as u32);
	u2(&mut v, 0); u2(&mut v, 256);
	u4(&mut v, code.len() as u32); v.extend_from_slice(&code);
	u2(&mut v, 0);
	u2(&mut v, n_attrs); v.extend_from_slice(&attrs);
	u2(&mut v, 0);
	v
}
