//! A duke tree as a Gallina term of type `(N -> list N) -> cclass` (coq/C02/Class.v): strings are
//! interned into a table of modified-UTF-8 byte strings (encoded by the harness' own `JStr::to_mutf8`,
//! not by duke) and referenced as `(s k)`; flag structs become their JVMS bit values through
//! `facts_duke` (not through duke's `From<..> for u16`).  Public fields are read from the tree;
//! crate-private parts (version, module, record-component attributes, type paths) come from
//! `facts_from_duke`, which reads them through `{:?}`.
use std::collections::HashMap;

use duke::tree::class::ClassFile;
use duke::tree::field::{ConstantValue, Field, FieldRef};
use duke::tree::method::code::{Code, ConstantDynamic, Handle, Instruction, InvokeDynamic, Label, LabelRange, Loadable};
use duke::tree::method::{Method, MethodRef};
use duke::tree::type_annotation::{TargetInfoCode, TypeAnnotation};
use duke::visitor::method::code::{StackMapData, VerificationTypeInfo};
use fbh::classfile::facts::*;
use fbh::classfile::facts_duke::{class_access, field_access, inner_class_flags, method_access, parameter_flags};
use java_string::JavaStr;

/// what a table entry is: a string (with its characters when one of them is outside 1..127), or bytes that are not a
/// string (attribute content)
#[derive(Clone, Debug, PartialEq)]
pub enum Kind { Ascii, Chars(Vec<u32>), Raw }
pub struct Tbl { map: HashMap<(bool, Vec<u8>), usize>, pub list: Vec<Vec<u8>>, pub kinds: Vec<Kind> }
impl Tbl {
	pub fn new() -> Tbl { Tbl { map: HashMap::new(), list: vec![], kinds: vec![] } }
	fn put(&mut self, b: &[u8], kind: Kind) -> String {
		let key = (kind == Kind::Raw, b.to_vec());
		let k = match self.map.get(&key) { Some(k) => *k, None => { let k = self.list.len(); self.list.push(b.to_vec()); self.kinds.push(kind); self.map.insert(key, k); k } };
		format!("(s {k})")
	}
	/// bytes that are not a string
	pub fn b(&mut self, b: &[u8]) -> String { self.put(b, Kind::Raw) }
	/// a string: its modified UTF-8 bytes from the harness' own encoder; the model checks them against JVMS 4.4.7
	pub fn j(&mut self, s: &JStr) -> String {
		let b = s.to_mutf8();
		let cps = s.code_points();
		let kind = if cps.iter().all(|c| (1..128).contains(c)) { Kind::Ascii } else { Kind::Chars(cps) };
		self.put(&b, kind)
	}
	/// the `uni` argument of a CClass case
	pub fn uni(kinds: &[Kind]) -> String {
		let v: Vec<String> = kinds.iter().enumerate().filter_map(|(k, kind)| match kind {
			Kind::Ascii => None,
			Kind::Raw => Some(format!("({k}, None)")),
			Kind::Chars(c) => Some(format!("({k}, Some [{}])", c.iter().map(|x| x.to_string()).collect::<Vec<_>>().join(";"))),
		}).collect();
		format!("[{}]", v.join(";"))
	}
	pub fn js(&mut self, s: &JavaStr) -> String { self.j(&JStr::from_java(s)) }
}

/// 7 bytes per primitive integer literal, most significant byte first
pub fn pack(b: &[u8]) -> String {
	let ws: Vec<String> = b.chunks(7).map(|c| { let mut w: u64 = 0; for x in c { w = (w << 8) | *x as u64; } w.to_string() }).collect();
	format!("({}, [{}]%uint63)", b.len(), ws.join(";"))
}

fn z(x: i64) -> String { if x < 0 { format!("({x})%Z") } else { format!("{x}%Z") } }
fn zu(x: u64) -> String { format!("{x}%Z") }
fn opt(o: Option<String>) -> String { match o { Some(x) => format!("(Some {x})"), None => "None".into() } }
/// a list; runs of 16 or more equal elements are printed as `rep n (x)` (coq/C02/Run.v), so that a table of 65536 equal
/// entries stays small as text (coqc elaborates a list literal of that length very slowly or not at all)
fn list(v: Vec<String>) -> String {
	if v.len() < 16 { return format!("[{}]", v.join("; ")); }
	let mut parts: Vec<String> = vec![]; let mut cur: Vec<&str> = vec![]; let mut k = 0;
	while k < v.len() {
		let mut j = k + 1; while j < v.len() && v[j] == v[k] { j += 1; }
		if j - k >= 16 {
			if !cur.is_empty() { parts.push(format!("[{}]", cur.join("; "))); cur.clear(); }
			parts.push(format!("rep {} ({})", j - k, v[k]));
		} else { for x in &v[k..j] { cur.push(x); } }
		k = j;
	}
	if !cur.is_empty() { parts.push(format!("[{}]", cur.join("; "))); }
	if parts.len() == 1 && parts[0].starts_with('[') { return parts.pop().unwrap(); }
	format!("({})", parts.join(" ++ "))
}
fn nums(s: &str) -> Vec<u64> {
	let mut v = vec![]; let mut cur: Option<u64> = None;
	for ch in s.chars() { if let Some(d) = ch.to_digit(10) { cur = Some(cur.unwrap_or(0) * 10 + d as u64); } else if let Some(c) = cur.take() { v.push(c); } }
	if let Some(c) = cur { v.push(c); }
	v
}
fn lid(l: &Label) -> u64 { nums(&format!("{l:?}"))[0] }
fn rid(r: &LabelRange) -> (u64, u64) { let n = nums(&format!("{r:?}")); (n[0], n[1]) }

// ---- constants ----
fn fref(t: &mut Tbl, r: &FieldRef) -> String { format!("(Build_memberref {} {} {})", t.js(r.class.as_inner()), t.js(r.name.as_inner()), t.js(r.desc.as_inner())) }
fn mref(t: &mut Tbl, r: &MethodRef) -> String { format!("(Build_memberref {} {} {})", t.js(r.class.as_inner()), t.js(r.name.as_inner()), t.js(r.desc.as_inner())) }
fn handle(t: &mut Tbl, h: &Handle) -> String {
	let (k, r, i) = match h {
		Handle::GetField(r) => (1, fref(t, r), false), Handle::GetStatic(r) => (2, fref(t, r), false), Handle::PutField(r) => (3, fref(t, r), false), Handle::PutStatic(r) => (4, fref(t, r), false),
		Handle::InvokeVirtual(r) => (5, mref(t, r), false), Handle::InvokeStatic(r, i) => (6, mref(t, r), *i), Handle::InvokeSpecial(r, i) => (7, mref(t, r), *i),
		Handle::NewInvokeSpecial(r) => (8, mref(t, r), false), Handle::InvokeInterface(r) => (9, mref(t, r), false),
	};
	format!("(Build_handle {k}%Z {r} {i})")
}
fn loadable(t: &mut Tbl, l: &Loadable) -> String {
	match l {
		Loadable::Integer(x) => format!("(LInt {})", z(*x as i64)), Loadable::Float(x) => format!("(LFloat {})", zu(x.to_bits() as u64)),
		Loadable::Long(x) => format!("(LLong {})", z(*x)), Loadable::Double(x) => format!("(LDouble {})", zu(x.to_bits())),
		Loadable::Class(c) => format!("(LClass {})", t.js(c.as_inner())), Loadable::String(s) => format!("(LString {})", t.js(s)),
		Loadable::MethodHandle(h) => format!("(LHandle {})", handle(t, h)), Loadable::MethodType(d) => format!("(LMethodType {})", t.js(d.as_inner())),
		Loadable::Dynamic(ConstantDynamic { name, descriptor, handle: h, arguments }) => {
			let (n, d, hh) = (t.js(name.as_inner()), t.js(descriptor.as_inner()), handle(t, h));
			let a = list(arguments.iter().map(|x| loadable(t, x)).collect());
			format!("(LDynamic {n} {d} {hh} {a})")
		}
	}
}

// ---- annotations (from the facts) ----
fn elem(t: &mut Tbl, e: &ElementValueFacts) -> String {
	let c = |tag: u8, k: String| format!("(EConst {tag} {k})");
	match e {
		ElementValueFacts::Byte(x) => c(b'B', format!("(ECInt {})", z(*x as i64))), ElementValueFacts::Char(x) => c(b'C', format!("(ECInt {})", z(*x as i64))),
		ElementValueFacts::Short(x) => c(b'S', format!("(ECInt {})", z(*x as i64))), ElementValueFacts::Int(x) => c(b'I', format!("(ECInt {})", z(*x as i64))),
		ElementValueFacts::Boolean(x) => c(b'Z', format!("(ECInt {})", z(*x as i64))), ElementValueFacts::Long(x) => c(b'J', format!("(ECLong {})", z(*x))),
		ElementValueFacts::Float(x) => c(b'F', format!("(ECFloat {})", zu(x.0 as u64))), ElementValueFacts::Double(x) => c(b'D', format!("(ECDouble {})", zu(x.0))),
		ElementValueFacts::String(s) => { let k = t.j(s); c(b's', format!("(ECUtf8 {k})")) }
		ElementValueFacts::Enum { type_desc, const_name } => format!("(EEnum {} {})", t.j(type_desc), t.j(const_name)),
		ElementValueFacts::Class(d) => format!("(EClass {})", t.j(d)),
		ElementValueFacts::Annotation(a) => { let ty = t.j(&a.type_desc); format!("(EAnnot {ty} {})", pairs(t, &a.pairs)) }
		ElementValueFacts::Array(v) => format!("(EArray {})", list(v.iter().map(|x| elem(t, x)).collect())),
	}
}
fn pairs(t: &mut Tbl, p: &[(JStr, ElementValueFacts)]) -> String { list(p.iter().map(|(n, v)| { let k = t.j(n); format!("({k}, {})", elem(t, v)) }).collect()) }
fn annotation(t: &mut Tbl, a: &AnnotationFacts) -> String { let ty = t.j(&a.type_desc); format!("({ty}, {})", pairs(t, &a.pairs)) }
fn path(p: &[PathStep]) -> String {
	list(p.iter().map(|s| match s { PathStep::Array => "(0%Z, 0%Z)".into(), PathStep::Nested => "(1%Z, 0%Z)".into(), PathStep::Wildcard => "(2%Z, 0%Z)".into(), PathStep::TypeArgument(i) => format!("(3%Z, {i}%Z)") }).collect())
}
fn target(tf: &TargetFacts) -> String {
	let ty = tf.target_type();
	match tf {
		TargetFacts::ClassTypeParameter(i) | TargetFacts::MethodTypeParameter(i) => format!("(TTypeParameter {ty} {i}%Z)"),
		TargetFacts::Supertype(i) => format!("(TSupertype {ty} {i}%Z)"),
		TargetFacts::ClassTypeParameterBound { param, bound } | TargetFacts::MethodTypeParameterBound { param, bound } => format!("(TTypeParameterBound {ty} {param}%Z {bound}%Z)"),
		TargetFacts::Field | TargetFacts::Return | TargetFacts::Receiver => format!("(TEmpty {ty})"),
		TargetFacts::FormalParameter(i) => format!("(TFormalParameter {ty} {i}%Z)"),
		TargetFacts::Throws(i) => format!("(TThrows {ty} {i}%Z)"),
	}
}
fn type_annotation(t: &mut Tbl, a: &TypeAnnotationFacts) -> String {
	let ty = t.j(&a.annotation.type_desc);
	format!("(Build_type_annotation {} {} {ty} {})", target(&a.target), path(&a.path), pairs(t, &a.annotation.pairs))
}
fn annots(t: &mut Tbl, v: &[AnnotationFacts], i: &[AnnotationFacts], tv: &[TypeAnnotationFacts], ti: &[TypeAnnotationFacts]) -> String {
	format!("(Build_annots {} {} {} {})", list(v.iter().map(|a| annotation(t, a)).collect()), list(i.iter().map(|a| annotation(t, a)).collect()),
		list(tv.iter().map(|a| type_annotation(t, a)).collect()), list(ti.iter().map(|a| type_annotation(t, a)).collect()))
}
fn unknown(t: &mut Tbl, v: &[duke::tree::attribute::Attribute]) -> String { list(v.iter().map(|a| { let n = t.js(&a.name); format!("({n}, {})", t.b(&a.bytes)) }).collect()) }
fn unknown_f(t: &mut Tbl, v: &[UnknownAttr]) -> String { list(v.iter().map(|a| { let n = t.j(&a.name); format!("({n}, {})", t.b(&a.bytes)) }).collect()) }

// ---- code ----
fn bytes(b: &[u8]) -> String { format!("[{}]", b.iter().map(|x| x.to_string()).collect::<Vec<_>>().join(";")) }
fn vti(t: &mut Tbl, v: &VerificationTypeInfo) -> String {
	match v {
		VerificationTypeInfo::Top => "CVSimple 0".into(), VerificationTypeInfo::Integer => "CVSimple 1".into(), VerificationTypeInfo::Float => "CVSimple 2".into(),
		VerificationTypeInfo::Double => "CVSimple 3".into(), VerificationTypeInfo::Long => "CVSimple 4".into(), VerificationTypeInfo::Null => "CVSimple 5".into(),
		VerificationTypeInfo::UninitializedThis => "CVSimple 6".into(),
		VerificationTypeInfo::Object(c) => format!("CVObject {}", t.js(c.as_inner())),
		VerificationTypeInfo::Uninitialized(l) => format!("CVUninit {}", lid(l)),
	}
}
fn vtis(t: &mut Tbl, v: &[VerificationTypeInfo]) -> String { list(v.iter().map(|x| vti(t, x)).collect()) }
fn frame(t: &mut Tbl, f: &StackMapData) -> String {
	match f {
		StackMapData::Same => "CFSame".into(),
		StackMapData::SameLocals1StackItem { stack } => format!("(CFSame1 ({}))", vti(t, stack)),
		StackMapData::Chop { k } => format!("(CFChop {k}%Z)"),
		StackMapData::Append { locals } => format!("(CFAppend {})", vtis(t, locals)),
		StackMapData::Full { locals, stack } => format!("(CFFull {} {})", vtis(t, locals), vtis(t, stack)),
	}
}
/// `plain` = the bytes the writer emits for the instruction when it is not label-carrying (from the probe)
fn insn(t: &mut Tbl, i: &Instruction, plain: &[u8]) -> Result<String, String> {
	use Instruction as I;
	let cp = |k: String| -> Result<String, String> {
		if plain.len() < 3 { return Err("probe bytes too short for a pool instruction".into()); }
		Ok(format!("(ICp {} {k} {})", bytes(&plain[..1]), bytes(&plain[3..])))
	};
	let lab = |l: &Label| lid(l);
	let c = |op: u8, inv: u8, l: &Label| Ok(format!("(IBr (KCond {op} {inv}) {})", lab(l)));
	match i {
		I::Ldc(l) => Ok(format!("(ILdc {})", loadable(t, l))),
		I::GetStatic(r) | I::PutStatic(r) | I::GetField(r) | I::PutField(r) => { let k = fref(t, r); cp(format!("(KField {k})")) }
		I::InvokeVirtual(r) => { let k = mref(t, r); cp(format!("(KMethod {k})")) }
		I::InvokeSpecial(r, itf) | I::InvokeStatic(r, itf) => { let k = mref(t, r); cp(format!("({} {k})", if *itf { "KIMethod" } else { "KMethod" })) }
		I::InvokeInterface(r) => { let k = mref(t, r); Ok(format!("(IIface {k})")) }
		I::InvokeDynamic(InvokeDynamic { name, descriptor, handle: h, arguments }) => {
			let (n, d, hh) = (t.js(name.as_inner()), t.js(descriptor.as_inner()), handle(t, h));
			let a = list(arguments.iter().map(|x| loadable(t, x)).collect());
			cp(format!("(KIndy {n} {d} {hh} {a})"))
		}
		I::New(cn) | I::ANewArray(cn) | I::CheckCast(cn) | I::InstanceOf(cn) | I::MultiANewArray(cn, _) => { let k = t.js(cn.as_inner()); cp(format!("(KClass {k})")) }
		I::IfEq(l) => c(153, 154, l), I::IfNe(l) => c(154, 153, l), I::IfLt(l) => c(155, 156, l), I::IfGe(l) => c(156, 155, l), I::IfGt(l) => c(157, 158, l), I::IfLe(l) => c(158, 157, l),
		I::IfICmpEq(l) => c(159, 160, l), I::IfICmpNe(l) => c(160, 159, l), I::IfICmpLt(l) => c(161, 162, l), I::IfICmpGe(l) => c(162, 161, l), I::IfICmpGt(l) => c(163, 164, l), I::IfICmpLe(l) => c(164, 163, l),
		I::IfACmpEq(l) => c(165, 166, l), I::IfACmpNe(l) => c(166, 165, l), I::IfNull(l) => c(198, 199, l), I::IfNonNull(l) => c(199, 198, l),
		I::Goto(l) => Ok(format!("(IBr (KJump 167 200) {})", lab(l))), I::Jsr(l) => Ok(format!("(IBr (KJump 168 201) {})", lab(l))),
		I::TableSwitch { default, low, high, table } => Ok(format!("(ITSwitch {} {} {} [{}])", lab(default), z(*low as i64), z(*high as i64), table.iter().map(|l| lab(l).to_string()).collect::<Vec<_>>().join(";"))),
		I::LookupSwitch { default, pairs } => Ok(format!("(ILSwitch {} [{}])", lab(default), pairs.iter().map(|(k, l)| format!("({}, {})", z(*k as i64), lab(l))).collect::<Vec<_>>().join(";"))),
		_ => Ok(format!("(IRaw {})", bytes(plain))),
	}
}
fn code_target(tr: &TargetInfoCode) -> String {
	let tab = |ty: u8, table: &Vec<(LabelRange, duke::tree::method::code::LvIndex)>| format!("(TLocalVar {ty} [{}])", table.iter().map(|(r, i)| { let (a, b) = rid(r); format!("({a}, {b}, {}%Z)", i.index) }).collect::<Vec<_>>().join(";"));
	match tr {
		TargetInfoCode::LocalVariable { table } => tab(0x40, table), TargetInfoCode::ResourceVariable { table } => tab(0x41, table),
		TargetInfoCode::ExceptionParameter { index } => format!("(TCatch 66 {index}%Z)"),
		TargetInfoCode::InstanceOf(l) => format!("(TOffset 67 {})", lid(l)), TargetInfoCode::New(l) => format!("(TOffset 68 {})", lid(l)),
		TargetInfoCode::ConstructorReference(l) => format!("(TOffset 69 {})", lid(l)), TargetInfoCode::MethodReference(l) => format!("(TOffset 70 {})", lid(l)),
		TargetInfoCode::Cast { label, index } => format!("(TTypeArgument 71 {} {index}%Z)", lid(label)),
		TargetInfoCode::ConstructorInvocationTypeArgument { label, index } => format!("(TTypeArgument 72 {} {index}%Z)", lid(label)),
		TargetInfoCode::MethodInvocationTypeArgument { label, index } => format!("(TTypeArgument 73 {} {index}%Z)", lid(label)),
		TargetInfoCode::ConstructorReferenceTypeArgument { label, index } => format!("(TTypeArgument 74 {} {index}%Z)", lid(label)),
		TargetInfoCode::MethodReferenceTypeArgument { label, index } => format!("(TTypeArgument 75 {} {index}%Z)", lid(label)),
	}
}
fn code_tas(t: &mut Tbl, v: &[TypeAnnotation<TargetInfoCode>], f: &[CodeTypeAnnotationG<usize>]) -> Result<String, String> {
	if v.len() != f.len() { return Err("code type annotations: tree and facts differ in length".into()); }
	Ok(list(v.iter().zip(f).map(|(a, fa)| { let ty = t.j(&fa.annotation.type_desc); format!("(Build_type_annotation {} {} {ty} {})", code_target(&a.type_reference), path(&fa.path), pairs(t, &fa.annotation.pairs)) }).collect()))
}
fn code(t: &mut Tbl, c: &Code, cf: &CodeFacts, plain: &[Vec<u8>]) -> Result<String, String> {
	if plain.len() != c.instructions.len() { return Err("probe: instruction count differs".into()); }
	let max = match (c.max_stack, c.max_locals) { (Some(a), Some(b)) => format!("(Some ({a}%Z, {b}%Z))"), _ => "None".into() };
	let mut is = vec![];
	for (e, p) in c.instructions.iter().zip(plain) {
		let fr = opt(e.frame.as_ref().map(|f| frame(t, f)));
		is.push(format!("({}, {fr}, {})", opt(e.label.as_ref().map(|l| lid(l).to_string())), insn(t, &e.instruction, p)?));
	}
	let exc = list(c.exception_table.iter().map(|x| { let ct = opt(x.catch.as_ref().map(|k| t.js(k.as_inner()))); format!("(Build_cexception {} {} {} {ct})", lid(&x.start), lid(&x.end), lid(&x.handler)) }).collect());
	let lines = opt(c.line_numbers.as_ref().map(|v| list(v.iter().map(|(l, n)| format!("({}, {n}%Z)", lid(l))).collect())));
	let locals = opt(c.local_variables.as_ref().map(|v| list(v.iter().map(|lv| {
		let (a, b) = rid(&lv.range);
		let (n, d, s) = (t.js(lv.name.as_inner()), opt(lv.descriptor.as_ref().map(|d| t.js(d.as_inner()))), opt(lv.signature.as_ref().map(|d| t.js(d.as_inner()))));
		format!("(Build_clocalvar {a} {b} {n} {d} {s} {}%Z)", lv.index.index)
	}).collect())));
	let tv = code_tas(t, &c.runtime_visible_type_annotations, &cf.visible_type_annotations)?;
	let ti = code_tas(t, &c.runtime_invisible_type_annotations, &cf.invisible_type_annotations)?;
	Ok(format!("(Build_ccode {max} {} {} {exc} {lines} {locals} {tv} {ti} {})", list(is), opt(c.last_label.as_ref().map(|l| lid(l).to_string())), unknown(t, &c.attributes)))
}

fn field(t: &mut Tbl, f: &Field, ff: &FieldFacts) -> String {
	let cv = opt(f.constant_value.as_ref().map(|c| match c {
		ConstantValue::Integer(x) => format!("(CVInt {})", z(*x as i64)), ConstantValue::Float(x) => format!("(CVFloat {})", zu(x.to_bits() as u64)),
		ConstantValue::Long(x) => format!("(CVLong {})", z(*x)), ConstantValue::Double(x) => format!("(CVDouble {})", zu(x.to_bits())),
		ConstantValue::String(s) => format!("(CVString {})", t.js(s)),
	}));
	let (n, d, sg) = (t.js(f.name.as_inner()), t.js(f.descriptor.as_inner()), opt(f.signature.as_ref().map(|s| t.js(s.as_inner()))));
	format!("(Build_cfield {}%Z {n} {d} {} {} {cv} {sg} {} {})", field_access(&f.access), f.has_deprecated_attribute, f.has_synthetic_attribute,
		annots(t, &ff.visible_annotations, &ff.invisible_annotations, &ff.visible_type_annotations, &ff.invisible_type_annotations), unknown(t, &f.attributes))
}
fn method(t: &mut Tbl, m: &Method, mf: &MethodFacts, plain: Option<&Vec<Vec<u8>>>) -> Result<String, String> {
	let c = match (&m.code, &mf.code) {
		(Some(c), Some(cf)) => { let Some(p) = plain else { return Err("no probe bytes for a method with code".into()) }; format!("(Some {})", code(t, c, cf, p)?) }
		(None, None) => "None".into(),
		_ => return Err("tree and facts differ in Code presence".into()),
	};
	let (n, d) = (t.js(m.name.as_inner()), t.js(m.descriptor.as_inner()));
	let ex = opt(m.exceptions.as_ref().map(|v| list(v.iter().map(|x| t.js(x.as_inner())).collect())));
	let sg = opt(m.signature.as_ref().map(|s| t.js(s.as_inner())));
	let an = annots(t, &mf.visible_annotations, &mf.invisible_annotations, &mf.visible_type_annotations, &mf.invisible_type_annotations);
	let df = opt(mf.annotation_default.as_ref().map(|e| elem(t, e)));
	let ps = opt(m.method_parameters.as_ref().map(|v| list(v.iter().map(|p| { let nm = opt(p.name.as_ref().map(|x| t.js(x.as_inner()))); format!("({nm}, {}%Z)", parameter_flags(&p.flags)) }).collect())));
	Ok(format!("(Build_cmethod {}%Z {n} {d} {} {} {c} {ex} {sg} {an} {df} {ps} {})", method_access(&m.access), m.has_deprecated_attribute, m.has_synthetic_attribute, unknown(t, &m.attributes)))
}
fn module(t: &mut Tbl, m: &ModuleFacts) -> String {
	let names = |t: &mut Tbl, v: &[JStr]| list(v.iter().map(|x| t.j(x)).collect());
	let rq = list(m.requires.iter().map(|r| { let (n, v) = (t.j(&r.module), opt(r.version.as_ref().map(|x| t.j(x)))); format!("(Build_mrequires {n} {}%Z {v})", r.flags) }).collect());
	let ex = |t: &mut Tbl, v: &[ModuleExportsFacts]| list(v.iter().map(|e| { let n = t.j(&e.package); let to = names(t, &e.to); format!("(Build_mexports {n} {}%Z {to})", e.flags) }).collect());
	let (e1, e2) = (ex(t, &m.exports), ex(t, &m.opens));
	let us = names(t, &m.uses);
	let pv = list(m.provides.iter().map(|p| { let n = t.j(&p.service); let w = names(t, &p.with); format!("(Build_mprovides {n} {w})") }).collect());
	let (n, v) = (t.j(&m.name), opt(m.version.as_ref().map(|x| t.j(x))));
	format!("(Build_cmodule {n} {}%Z {v} {rq} {e1} {e2} {us} {pv})", m.flags)
}

/// the tree as `fun s => Build_cclass …` and the string table; `plain[mi]` = probe bytes of method mi
pub fn class_term(c: &ClassFile, plain: &[Option<Vec<Vec<u8>>>]) -> Result<(String, Vec<Vec<u8>>, String), String> {
	let tf = facts_from_duke(c);
	let mut t = Tbl::new();
	let t = &mut t;
	if tf.fields.len() != c.fields.len() || tf.methods.len() != c.methods.len() || plain.len() != c.methods.len() { return Err("member counts differ".into()); }
	let (name, sup) = (t.js(c.name.as_inner()), opt(c.super_class.as_ref().map(|x| t.js(x.as_inner()))));
	let ifs = list(c.interfaces.iter().map(|x| t.js(x.as_inner())).collect());
	let fields = list(c.fields.iter().zip(&tf.fields).map(|(f, ff)| field(t, f, ff)).collect());
	let mut ms = vec![];
	for ((m, mf), p) in c.methods.iter().zip(&tf.methods).zip(plain) { ms.push(method(t, m, mf, p.as_ref())?); }
	let inner = opt(c.inner_classes.as_ref().map(|v| list(v.iter().map(|i| {
		let (a, b, n) = (t.js(i.inner_class.as_inner()), opt(i.outer_class.as_ref().map(|x| t.js(x.as_inner()))), opt(i.inner_name.as_ref().map(|x| t.js(x))));
		format!("(Build_cinner {a} {b} {n} {}%Z)", inner_class_flags(&i.flags))
	}).collect())));
	let encl = opt(c.enclosing_method.as_ref().map(|e| { let k = t.js(e.class.as_inner()); let m = opt(e.method.as_ref().map(|m| format!("({}, {})", t.js(m.name.as_inner()), t.js(m.desc.as_inner())))); format!("({k}, {m})") }));
	let sg = opt(c.signature.as_ref().map(|s| t.js(s.as_inner())));
	let sf = opt(c.source_file.as_ref().map(|s| t.js(s)));
	let sd = opt(c.source_debug_extension.as_ref().map(|s| t.js(s)));
	let an = annots(t, &tf.visible_annotations, &tf.invisible_annotations, &tf.visible_type_annotations, &tf.invisible_type_annotations);
	let md = opt(tf.module.as_ref().map(|m| module(t, m)));
	let names = |t: &mut Tbl, v: &Vec<JStr>| list(v.iter().map(|x| t.j(x)).collect());
	let mp = opt(tf.module_packages.as_ref().map(|v| names(t, v)));
	let mm = opt(tf.module_main_class.as_ref().map(|x| t.j(x)));
	let nh = opt(tf.nest_host.as_ref().map(|x| t.j(x)));
	let nm = opt(tf.nest_members.as_ref().map(|v| names(t, v)));
	let ps = opt(tf.permitted_subclasses.as_ref().map(|v| names(t, v)));
	let mut rec = vec![];
	for r in tf.record.iter().flatten() {
		// the facts sort unknown attributes; with two or more the order of the tree is not recoverable through Debug
		if r.unknown_attributes.len() > 1 { return Err("record component with several unknown attributes".into()); }
		let (n, d, s) = (t.j(&r.name), t.j(&r.desc), opt(r.signature.as_ref().map(|x| t.j(x))));
		let a = annots(t, &r.visible_annotations, &r.invisible_annotations, &r.visible_type_annotations, &r.invisible_type_annotations);
		rec.push(format!("(Build_crecord {n} {d} {s} {a} {})", unknown_f(t, &r.unknown_attributes)));
	}
	let term = format!("(fun s => Build_cclass {}%Z {}%Z {}%Z {name} {sup} {ifs} {fields} {} {} {} {inner} {encl} {sg} {sf} {sd} {an} {md} {mp} {mm} {nh} {nm} {ps} {} {})",
		tf.version.minor, tf.version.major, class_access(&c.access), list(ms), c.has_deprecated_attribute, c.has_synthetic_attribute, list(rec), unknown(t, &c.attributes));
	let strings = std::mem::take(&mut t.list);
	let uni = Tbl::uni(&t.kinds);
	Ok((term, strings, uni))
}
