//! A small assembler for class files with one or more methods whose bodies are given as item
//! lists with symbolic targets.  Deterministic constructions for the boundary cases of C02
//! (distances around +-32767/32768, switches at all alignments, code lengths 65533..65535,
//! constant-pool indices around 255/256).  Independent of duke.

#[derive(Clone, Debug)]
pub enum It {
	/// already encoded non-branching instruction(s)
	Bytes(Vec<u8>),
	/// n times `nop`
	Nops(usize),
	/// branch with 16-bit offset (`wide` = goto_w/jsr_w for opcodes 167/168); `to` = item index
	Br { op: u8, to: usize, wide: bool },
	/// `inv +8; goto_w to` — how a far conditional must be written in a class file
	Tramp { inv: u8, to: usize },
	TSwitch { default: usize, low: i32, targets: Vec<usize> },
	LSwitch { default: usize, pairs: Vec<(i32, usize)> },
	/// ldc of the String constant (narrow form, pool index <= 255 in the file we build)
	LdcStr,
	/// ldc_w of the String constant
	LdcStrW,
	/// ldc2_w of the Long constant
	LdcLong,
	/// ldc of the Integer constant
	LdcInt,
}

#[derive(Clone, Debug, Default)]
pub struct MiniMethod {
	pub items: Vec<It>,
	/// (start, end, handler) as item indices (items.len() = end of code); catch type = none
	pub exc: Vec<(usize, usize, usize)>,
	/// line number entries: item index
	pub lines: Vec<usize>,
	/// local variable table entries: (start item, end item)
	pub lvt: Vec<(usize, usize)>,
	pub max_locals: u16,
}

#[derive(Clone, Debug, Default)]
pub struct MiniClass {
	/// number of int fields f0.. (each costs one Utf8 in the written pool before the methods' constants)
	pub n_fields: usize,
	pub methods: Vec<MiniMethod>,
}

fn u2(v: &mut Vec<u8>, x: u16) { v.extend_from_slice(&x.to_be_bytes()); }
fn u4(v: &mut Vec<u8>, x: u32) { v.extend_from_slice(&x.to_be_bytes()); }
fn utf8(v: &mut Vec<u8>, s: &str) { v.push(1); u2(v, s.len() as u16); v.extend_from_slice(s.as_bytes()); }

pub fn item_size(it: &It, pos: usize) -> usize {
	let pad = |pos: usize| (4 - (pos + 1) % 4) % 4;
	match it {
		It::Bytes(b) => b.len(),
		It::Nops(n) => *n,
		It::Br { wide, .. } => if *wide { 5 } else { 3 },
		It::Tramp { .. } => 8,
		It::TSwitch { targets, .. } => 1 + pad(pos) + 12 + 4 * targets.len(),
		It::LSwitch { pairs, .. } => 1 + pad(pos) + 8 + 8 * pairs.len(),
		It::LdcStr | It::LdcInt => 2,
		It::LdcStrW | It::LdcLong => 3,
	}
}

/// positions of the items (the last element is the code length)
pub fn layout(items: &[It]) -> Vec<usize> {
	let mut pos = vec![0usize; items.len() + 1];
	for (k, it) in items.iter().enumerate() { pos[k + 1] = pos[k] + item_size(it, pos[k]); }
	pos
}

pub const IDX_STR: u16 = 6;
pub const IDX_INT: u16 = 11;
pub const IDX_LONG: u16 = 12;

/// encode the items; Err when a 16-bit offset does not fit (a generator must not ask for that)
pub fn assemble(items: &[It]) -> Result<Vec<u8>, String> {
	let pos = layout(items);
	let mut c: Vec<u8> = Vec::with_capacity(pos[items.len()]);
	for (k, it) in items.iter().enumerate() {
		let p = pos[k] as i64;
		debug_assert_eq!(c.len() as i64, p);
		match it {
			It::Bytes(b) => c.extend_from_slice(b),
			It::Nops(n) => c.resize(c.len() + n, 0),
			It::Br { op, to, wide } => {
				let off = pos[*to] as i64 - p;
				if *wide {
					let wop = match op { 167 => 200u8, 168 => 201u8, _ => return Err(format!("opcode {op} has no wide form")) };
					c.push(wop); c.extend_from_slice(&(off as i32).to_be_bytes());
				} else {
					let o = i16::try_from(off).map_err(|_| format!("item {k}: offset {off} does not fit 16 bits"))?;
					c.push(*op); c.extend_from_slice(&o.to_be_bytes());
				}
			}
			It::Tramp { inv, to } => {
				c.push(*inv); c.extend_from_slice(&8i16.to_be_bytes());
				c.push(200); c.extend_from_slice(&((pos[*to] as i64 - (p + 3)) as i32).to_be_bytes());
			}
			It::TSwitch { default, low, targets } => {
				c.push(170); while c.len() % 4 != 0 { c.push(0); }
				c.extend_from_slice(&((pos[*default] as i64 - p) as i32).to_be_bytes());
				c.extend_from_slice(&low.to_be_bytes());
				c.extend_from_slice(&(low + targets.len() as i32 - 1).to_be_bytes());
				for t in targets { c.extend_from_slice(&((pos[*t] as i64 - p) as i32).to_be_bytes()); }
			}
			It::LSwitch { default, pairs } => {
				c.push(171); while c.len() % 4 != 0 { c.push(0); }
				c.extend_from_slice(&((pos[*default] as i64 - p) as i32).to_be_bytes());
				c.extend_from_slice(&(pairs.len() as i32).to_be_bytes());
				for (key, t) in pairs { c.extend_from_slice(&key.to_be_bytes()); c.extend_from_slice(&((pos[*t] as i64 - p) as i32).to_be_bytes()); }
			}
			It::LdcStr => { c.push(18); c.push(IDX_STR as u8); }
			It::LdcInt => { c.push(18); c.push(IDX_INT as u8); }
			It::LdcStrW => { c.push(19); u2(&mut c, IDX_STR); }
			It::LdcLong => { c.push(20); u2(&mut c, IDX_LONG); }
		}
	}
	Ok(c)
}

/// the class file
pub fn build(cl: &MiniClass) -> Result<Vec<u8>, String> {
	let mut v = vec![]; u4(&mut v, 0xCAFEBABE); u2(&mut v, 0); u2(&mut v, 49); // 49: no StackMapTable needed
	let fixed = 17usize; // indices 1..=16 below, 12/13 is the Long
	let n_m = cl.methods.len();
	u2(&mut v, (fixed + n_m + cl.n_fields) as u16);
	utf8(&mut v, "A"); v.push(7); u2(&mut v, 1);                          // 1, 2
	utf8(&mut v, "java/lang/Object"); v.push(7); u2(&mut v, 3);           // 3, 4
	utf8(&mut v, "s"); v.push(8); u2(&mut v, 5);                          // 5, 6
	utf8(&mut v, "LineNumberTable"); utf8(&mut v, "()V"); utf8(&mut v, "Code"); utf8(&mut v, "I"); // 7 8 9 10
	v.push(3); u4(&mut v, 123456);                                        // 11
	v.push(5); u4(&mut v, 1); u4(&mut v, 2);                              // 12 (13)
	utf8(&mut v, "LocalVariableTable"); utf8(&mut v, "x"); utf8(&mut v, "unused");   // 14 15 16
	for i in 0..n_m { utf8(&mut v, &format!("m{i}")); }                    // 17..
	for i in 0..cl.n_fields { utf8(&mut v, &format!("f{i}")); }
	u2(&mut v, 0x21); u2(&mut v, 2); u2(&mut v, 4); u2(&mut v, 0);
	u2(&mut v, cl.n_fields as u16);
	for i in 0..cl.n_fields { u2(&mut v, 0); u2(&mut v, (fixed + n_m + i) as u16); u2(&mut v, 10); u2(&mut v, 0); }
	u2(&mut v, n_m as u16);
	for (i, m) in cl.methods.iter().enumerate() {
		let code = assemble(&m.items)?;
		if code.is_empty() || code.len() > 65535 { return Err(format!("code length {}", code.len())); }
		let pos = layout(&m.items);
		let mut attrs: Vec<u8> = vec![]; let mut n_attrs = 0u16;
		if !m.lines.is_empty() {
			n_attrs += 1; u2(&mut attrs, 7); u4(&mut attrs, (2 + 4 * m.lines.len()) as u32); u2(&mut attrs, m.lines.len() as u16);
			for (j, l) in m.lines.iter().enumerate() { u2(&mut attrs, pos[*l] as u16); u2(&mut attrs, (j + 1) as u16); }
		}
		if !m.lvt.is_empty() {
			n_attrs += 1; u2(&mut attrs, 14); u4(&mut attrs, (2 + 10 * m.lvt.len()) as u32); u2(&mut attrs, m.lvt.len() as u16);
			for (j, (s, e)) in m.lvt.iter().enumerate() {
				u2(&mut attrs, pos[*s] as u16); u2(&mut attrs, (pos[*e] - pos[*s]) as u16); u2(&mut attrs, 15); u2(&mut attrs, 10); u2(&mut attrs, j as u16);
			}
		}
		u2(&mut v, 0x9); u2(&mut v, (fixed + i) as u16); u2(&mut v, 8); u2(&mut v, 1);
		u2(&mut v, 9); u4(&mut v, (12 + code.len() + 8 * m.exc.len() + attrs.len()) as u32);
		u2(&mut v, 4); u2(&mut v, m.max_locals.max(m.lvt.len() as u16));
		u4(&mut v, code.len() as u32); v.extend_from_slice(&code);
		u2(&mut v, m.exc.len() as u16);
		for (s, e, h) in &m.exc { u2(&mut v, pos[*s] as u16); u2(&mut v, pos[*e] as u16); u2(&mut v, pos[*h] as u16); u2(&mut v, 0); }
		u2(&mut v, n_attrs); v.extend_from_slice(&attrs);
	}
	u2(&mut v, 0);
	Ok(v)
}
