//! C02 — duke's class writer: class bytes -> duke::read_class -> duke::write_class; the output is
//! parsed by the independent strict parser, compared with the tree, and every method body is
//! abstracted to the layout level and compared with the Coq model of write_code.
mod mini;
mod lenient;
mod tree;
mod iface;
mod limits;

use std::collections::HashMap;
use std::io::Cursor;
use std::panic::AssertUnwindSafe;

use duke::tree::class::ClassFile;
use duke::tree::method::code::{Code, Instruction, Label, LabelRange};
use duke::tree::type_annotation::TargetInfoCode;
use duke::visitor::method::code::{StackMapData, VerificationTypeInfo};
use fbh::classfile::asm::{assemble, try_assemble, Enc, Knobs};
use fbh::classfile::facts::{facts_from_duke, facts_from_raw, ClassFacts, CodeFacts, FrameG, FrameKindG, InsnG, JStr, OperandG, VTypeG};
use fbh::classfile::gen::{self, gen_class, GenCfg};
use fbh::classfile::raw::{self, AttrInfo, Operands, TargetInfo};
use fbh::prng::Rng;
use fbh::report::{crumb, guarded, Report};
use fbh::Ctx;
use mini::{It, MiniClass, MiniMethod};

// ------------------------------------------------------------------------------------------
// labels: duke keeps Label.id and LabelRange's bounds crate-private; Debug prints them
// ------------------------------------------------------------------------------------------
fn nums(s: &str) -> Vec<u64> {
	let mut v = vec![]; let mut cur: Option<u64> = None;
	for ch in s.chars() {
		if let Some(d) = ch.to_digit(10) { cur = Some(cur.unwrap_or(0) * 10 + d as u64); } else if let Some(c) = cur.take() { v.push(c); }
	}
	if let Some(c) = cur { v.push(c); }
	v
}
fn lid(l: &Label) -> u64 { nums(&format!("{l:?}"))[0] }
fn rid(r: &LabelRange) -> (u64, u64) { let n = nums(&format!("{r:?}")); (n[0], n[1]) }

// ------------------------------------------------------------------------------------------
// abstraction of a method body to the layout level
// ------------------------------------------------------------------------------------------
#[derive(Clone, Debug, PartialEq)]
enum Ent {
	Plain(Vec<u8>),
	Cond { op: u8, inv: u8, l: u64 },
	Jump { op: u8, wop: u8, l: u64 },
	TS { d: u64, low: i32, high: i32, ts: Vec<u64> },
	LS { d: u64, ps: Vec<(i32, u64)> },
}

/// the opcode pair of a label-carrying instruction (JVMS 6.5, written from the specification)
fn branch_of(i: &Instruction) -> Option<Ent> {
	use Instruction::*;
	let c = |op: u8, inv: u8, l: &Label| Some(Ent::Cond { op, inv, l: lid(l) });
	match i {
		IfEq(l) => c(153, 154, l), IfNe(l) => c(154, 153, l), IfLt(l) => c(155, 156, l), IfGe(l) => c(156, 155, l),
		IfGt(l) => c(157, 158, l), IfLe(l) => c(158, 157, l),
		IfICmpEq(l) => c(159, 160, l), IfICmpNe(l) => c(160, 159, l), IfICmpLt(l) => c(161, 162, l), IfICmpGe(l) => c(162, 161, l),
		IfICmpGt(l) => c(163, 164, l), IfICmpLe(l) => c(164, 163, l), IfACmpEq(l) => c(165, 166, l), IfACmpNe(l) => c(166, 165, l),
		IfNull(l) => c(198, 199, l), IfNonNull(l) => c(199, 198, l),
		Goto(l) => Some(Ent::Jump { op: 167, wop: 200, l: lid(l) }),
		Jsr(l) => Some(Ent::Jump { op: 168, wop: 201, l: lid(l) }),
		TableSwitch { default, low, high, table } => Some(Ent::TS { d: lid(default), low: *low, high: *high, ts: table.iter().map(lid).collect() }),
		LookupSwitch { default, pairs } => Some(Ent::LS { d: lid(default), ps: pairs.iter().map(|(k, l)| (*k, lid(l))).collect() }),
		_ => None,
	}
}

#[derive(Clone, Debug, Default, PartialEq)]
struct Tables { exc: Vec<(u64, u64, u64)>, offs: Vec<u64>, ranges: Vec<(u64, u64)> }

fn ta_labels(code: &Code, t: &mut Tables) {
	for list in [&code.runtime_visible_type_annotations, &code.runtime_invisible_type_annotations] {
		for a in list {
			match &a.type_reference {
				TargetInfoCode::LocalVariable { table } | TargetInfoCode::ResourceVariable { table } => for (r, _) in table { t.ranges.push(rid(r)); },
				TargetInfoCode::ExceptionParameter { .. } => {}
				TargetInfoCode::InstanceOf(l) | TargetInfoCode::New(l) | TargetInfoCode::ConstructorReference(l) | TargetInfoCode::MethodReference(l) => t.offs.push(lid(l)),
				TargetInfoCode::Cast { label, .. } | TargetInfoCode::ConstructorInvocationTypeArgument { label, .. } | TargetInfoCode::MethodInvocationTypeArgument { label, .. }
				| TargetInfoCode::ConstructorReferenceTypeArgument { label, .. } | TargetInfoCode::MethodReferenceTypeArgument { label, .. } => t.offs.push(lid(label)),
			}
		}
	}
}

/// the label-carrying tables of a Code in the order write_code resolves them
fn tables_of(code: &Code) -> Tables {
	let mut t = Tables::default();
	for e in &code.exception_table { t.exc.push((lid(&e.start), lid(&e.end), lid(&e.handler))); }
	if let Some(ln) = &code.line_numbers { for (l, _) in ln { t.offs.push(lid(l)); } }
	if let Some(lv) = &code.local_variables {
		for v in lv { if v.descriptor.is_some() { t.ranges.push(rid(&v.range)); } }
		for v in lv { if v.signature.is_some() { t.ranges.push(rid(&v.range)); } }
	}
	ta_labels(code, &mut t);
	t
}

/// what the written Code attribute says at the same places, in the same order
fn tables_of_raw(c: &raw::CodeAttr) -> Tables {
	let mut t = Tables::default();
	for e in &c.exception_table { t.exc.push((e.start_pc as u64, e.end_pc as u64, e.handler_pc as u64)); }
	for a in &c.attributes { if let AttrInfo::LineNumberTable(v) = &a.info { for l in v { t.offs.push(l.start_pc as u64); } } }
	for a in &c.attributes { if let AttrInfo::LocalVariableTable(v) = &a.info { for l in v { t.ranges.push((l.start_pc as u64, l.length as u64)); } } }
	for a in &c.attributes { if let AttrInfo::LocalVariableTypeTable(v) = &a.info { for l in v { t.ranges.push((l.start_pc as u64, l.length as u64)); } } }
	for vis in [true, false] {
		for a in &c.attributes {
			let v = match (&a.info, vis) { (AttrInfo::RuntimeVisibleTypeAnnotations(v), true) | (AttrInfo::RuntimeInvisibleTypeAnnotations(v), false) => v, _ => continue };
			for ta in v {
				match &ta.target {
					TargetInfo::LocalVar(tab) => for (s, l, _) in tab { t.ranges.push((*s as u64, *l as u64)); },
					TargetInfo::Offset(o) | TargetInfo::TypeArgument(o, _) => t.offs.push(*o as u64),
					_ => {}
				}
			}
		}
	}
	t
}

struct Abs { ents: Vec<(Option<u64>, Ent)>, last: Option<u64>, tables: Tables, hasmax: bool, frames: Vec<(usize, String)> }

/// pool index of every CONSTANT_Class of a written class, by the modified-UTF-8 bytes of its name
type ClassIdx = HashMap<Vec<u8>, u16>;
fn class_indices(rc: &raw::RawClass) -> ClassIdx {
	let mut m = HashMap::new();
	for (i, c) in rc.pool.iter().enumerate() { if let Some(raw::Const::Class(n)) = c { if let Ok(b) = rc.utf8_bytes(*n) { m.entry(b.to_vec()).or_insert(i as u16); } } }
	m
}
/// a verification type at the layout level: Object(class) enters with the index put_class gave it
fn g_vti(v: &VerificationTypeInfo, cls: &ClassIdx) -> String {
	match v {
		VerificationTypeInfo::Top => "VSimple 0".into(), VerificationTypeInfo::Integer => "VSimple 1".into(), VerificationTypeInfo::Float => "VSimple 2".into(),
		VerificationTypeInfo::Double => "VSimple 3".into(), VerificationTypeInfo::Long => "VSimple 4".into(), VerificationTypeInfo::Null => "VSimple 5".into(),
		VerificationTypeInfo::UninitializedThis => "VSimple 6".into(),
		VerificationTypeInfo::Object(c) => format!("VObject {}%Z", cls.get(&JStr::from_java(c.as_inner()).to_mutf8()).copied().unwrap_or(0)),
		VerificationTypeInfo::Uninitialized(l) => format!("VUninit {}", lid(l)),
	}
}
fn g_vtis(v: &[VerificationTypeInfo], cls: &ClassIdx) -> String { format!("[{}]", v.iter().map(|t| g_vti(t, cls)).collect::<Vec<_>>().join(";")) }
fn g_frame(f: &StackMapData, cls: &ClassIdx) -> String {
	match f {
		StackMapData::Same => "FSame".into(),
		StackMapData::SameLocals1StackItem { stack } => format!("FSame1 ({})", g_vti(stack, cls)),
		StackMapData::Chop { k } => format!("FChop {k}%Z"),
		StackMapData::Append { locals } => format!("FAppend {}", g_vtis(locals, cls)),
		StackMapData::Full { locals, stack } => format!("FFull {} {}", g_vtis(locals, cls), g_vtis(stack, cls)),
	}
}

/// `plain[k]` = the bytes the writer emits for instruction k when it is not label-carrying
fn abstract_code(code: &Code, plain: &[Vec<u8>], cls: &ClassIdx) -> Abs {
	let ents = code.instructions.iter().enumerate().map(|(k, e)| {
		(e.label.as_ref().map(lid), branch_of(&e.instruction).unwrap_or_else(|| Ent::Plain(plain[k].clone())))
	}).collect();
	let frames = code.instructions.iter().enumerate().filter_map(|(k, e)| e.frame.as_ref().map(|f| (k, g_frame(f, cls)))).collect();
	Abs { ents, last: code.last_label.as_ref().map(lid), tables: tables_of(code), hasmax: code.max_stack.is_some() && code.max_locals.is_some(), frames }
}

// ---------- Gallina printing ----------
fn gz(x: i64) -> String { if x < 0 { format!("({x})%Z") } else { format!("{x}%Z") } }
fn gnl(v: &[u64]) -> String { format!("[{}]", v.iter().map(|x| x.to_string()).collect::<Vec<_>>().join(";")) }
fn gbytes(v: &[u8]) -> String { format!("[{}]", v.iter().map(|x| x.to_string()).collect::<Vec<_>>().join(";")) }
fn g_ent(e: &Ent) -> String {
	match e {
		Ent::Plain(b) => format!("Plain {}", gbytes(b)),
		Ent::Cond { op, inv, l } => format!("Br (KCond {op} {inv}) {l}"),
		Ent::Jump { op, wop, l } => format!("Br (KJump {op} {wop}) {l}"),
		Ent::TS { d, low, high, ts } => format!("TSwitch {d} {} {} {}", gz(*low as i64), gz(*high as i64), gnl(ts)),
		Ent::LS { d, ps } => format!("LSwitch {d} [{}]", ps.iter().map(|(k, l)| format!("({}, {l})", gz(*k as i64))).collect::<Vec<_>>().join(";")),
	}
}
fn g_le(le: &(Option<u64>, Ent)) -> String {
	format!("({}, {})", match le.0 { Some(l) => format!("Some {l}"), None => "None".into() }, g_ent(&le.1))
}
fn g_body(ents: &[(Option<u64>, Ent)]) -> String {
	let mut out = vec![]; let mut k = 0;
	while k < ents.len() {
		let mut j = k + 1;
		if ents[k].0.is_none() { while j < ents.len() && ents[j] == ents[k] { j += 1; } }
		if j - k > 1 { out.push(format!("Rep {} {}", j - k, g_le(&ents[k]))); } else { out.push(format!("One {}", g_le(&ents[k]))); }
		k = j;
	}
	format!("[{}]", out.join("; "))
}
fn g_rle_bytes(b: &[u8]) -> String {
	let mut out = vec![]; let mut k = 0;
	while k < b.len() { let mut j = k + 1; while j < b.len() && b[j] == b[k] { j += 1; } out.push(format!("({},{})", j - k, b[k])); k = j; }
	format!("[{}]", out.join(";"))
}
fn g_tables(ctor: &str, t: &Tables) -> String {
	format!("({ctor} [{}] {} [{}])",
		t.exc.iter().map(|(a, b, c)| format!("({a},{b},{c})")).collect::<Vec<_>>().join(";"),
		gnl(&t.offs),
		t.ranges.iter().map(|(a, b)| format!("({a},{b})")).collect::<Vec<_>>().join(";"))
}
enum Answer { Ok(Vec<u8>, Tables, Option<Vec<u8>>), Err, Panic }
fn g_case(a: &Abs, ans: &Answer) -> String {
	let r = match ans {
		Answer::Ok(code, t, _) => format!("(IOk {} {})", g_rle_bytes(code), g_tables("Build_itables", t)),
		Answer::Err => "IErr".into(),
		Answer::Panic => "IPanic".into(),
	};
	let last = match a.last { Some(l) => format!("(Some {l})"), None => "None".into() };
	if a.frames.is_empty() && !matches!(ans, Answer::Ok(_, _, Some(_))) {
		format!("CWrite {} {} {} {} {}", a.hasmax, g_body(&a.ents), last, g_tables("Build_tables", &a.tables), r)
	} else {
		// a method with stack map frames: the frames and the body of the written StackMapTable attribute
		let sm = match ans { Answer::Ok(_, _, Some(b)) => format!("(Some {})", gbytes(b)), _ => "None".into() };
		let fs = a.frames.iter().map(|(k, f)| format!("({k}, {f})")).collect::<Vec<_>>().join(";");
		format!("CWriteF {} {} {} {} [{}] {} {}", a.hasmax, g_body(&a.ents), last, g_tables("Build_tables", &a.tables), fs, r, sm)
	}
}

// ------------------------------------------------------------------------------------------
// implementation calls
// ------------------------------------------------------------------------------------------
fn impl_read(bytes: &[u8]) -> Result<Result<ClassFile, String>, String> {
	guarded(AssertUnwindSafe(|| duke::read_class(&mut Cursor::new(bytes)).map_err(|e| format!("{e:#}"))))
}
fn impl_write(tree: &ClassFile) -> Result<Result<Vec<u8>, String>, String> {
	guarded(AssertUnwindSafe(|| { let mut out = vec![]; duke::write_class(&mut out, tree).map(|_| out).map_err(|e| format!("{e:#}")) }))
}

/// the same tree with every label-carrying instruction replaced by `nop`: the constants are put
/// in the same order, so the bytes of every other instruction (ldc vs ldc_w!) can be read off
fn probe_of(tree: &ClassFile, drop_iface: bool) -> ClassFile {
	let mut t = tree.clone();
	for m in &mut t.methods {
		if let Some(c) = &mut m.code {
			for e in &mut c.instructions {
				if branch_of(&e.instruction).is_some() || (drop_iface && matches!(e.instruction, Instruction::InvokeInterface(_))) { e.instruction = Instruction::Nop; }
			}
		}
	}
	t
}

/// a minimal class that holds only the instructions of the methods (no labels, frames, tables, attributes; label-carrying
/// instructions and invokeinterface as nops; a one-letter class name): the opcode and trailing bytes the whole-class term
/// takes from the probe do not depend on anything else, and this probe can be written when the tree itself cannot
fn probe_minimal(tree: &ClassFile) -> ClassFile {
	use duke::tree::class::ObjClassName;
	use duke::tree::method::Method;
	let name = unsafe { ObjClassName::from_inner_unchecked(java_string::JavaString::from("P")) };
	let mut t = ClassFile::new(tree.version, tree.access, name, None, vec![]);
	for m in &tree.methods {
		let mut pm = Method::new(m.access, m.name.clone(), m.descriptor.clone());
		if let Some(c) = &m.code {
			let instructions = c.instructions.iter().map(|e| duke::tree::method::code::InstructionListEntry { label: None, frame: None,
				instruction: if branch_of(&e.instruction).is_some() || matches!(e.instruction, Instruction::InvokeInterface(_)) { Instruction::Nop } else { e.instruction.clone() } }).collect();
			pm.code = Some(Code { max_stack: Some(0), max_locals: Some(0), instructions, exception_table: vec![], last_label: None, line_numbers: None, local_variables: None,
				runtime_visible_type_annotations: vec![], runtime_invisible_type_annotations: vec![], attributes: vec![] });
		}
		t.methods.push(pm);
	}
	t
}

fn code_of(m: &raw::Member) -> Option<&raw::CodeAttr> {
	m.attributes.iter().find_map(|a| if let AttrInfo::Code(c) = &a.info { Some(c) } else { None })
}

/// per method: the bytes of every instruction of the probe
fn plain_bytes(tree: &ClassFile) -> Result<Vec<Option<Vec<Vec<u8>>>>, String> { plain_bytes_with(tree, false) }
/// `drop_iface`: invokeinterface instructions are nops in the probe too (their descriptor can make the write fail; the
/// whole-class term does not take their bytes from the probe, and the opcode / trailing bytes it takes for the other
/// instructions do not depend on pool indices)
fn plain_bytes_with(tree: &ClassFile, drop_iface: bool) -> Result<Vec<Option<Vec<Vec<u8>>>>, String> { plain_bytes_of(probe_of(tree, drop_iface)) }
fn plain_bytes_of(probe: ClassFile) -> Result<Vec<Option<Vec<Vec<u8>>>>, String> {
	let bytes = match impl_write(&probe) { Ok(Ok(b)) => b, Ok(Err(e)) => return Err(format!("probe write failed: {e}")), Err(p) => return Err(format!("probe write panicked: {p}")) };
	// the code arrays of the probe: through the strict parser, or (when it rejects the probe for a reason that is not the
	// layout of the code, e.g. an operand of the wrong kind) through the extraction that checks bounds only
	let codes: Vec<Option<Vec<u8>>> = match raw::parse(&bytes) {
		Ok(rc) => rc.methods.iter().map(|rm| code_of(rm).map(|c| c.code.clone())).collect(),
		Err(e) => match lenient::codes(&bytes) { Some(v) => v.into_iter().map(|c| c.map(|c| c.code)).collect(), None => return Err(format!("probe does not parse: {e}")) },
	};
	if codes.len() != probe.methods.len() { return Err("probe: method count differs".into()); }
	let mut out = vec![];
	for (m, code) in probe.methods.iter().zip(codes.iter()) {
		match (&m.code, code) {
			(Some(c), Some(code)) => {
				let insns = raw::decode_code(code)?;
				if insns.len() != c.instructions.len() { return Err(format!("probe: {} instructions decoded, tree has {}", insns.len(), c.instructions.len())); }
				let mut v = vec![];
				for (k, (o, _)) in insns.iter().enumerate() {
					let end = if k + 1 < insns.len() { insns[k + 1].0 as usize } else { code.len() };
					v.push(code[*o as usize..end].to_vec());
				}
				out.push(Some(v));
			}
			(None, None) => out.push(None),
			_ => return Err("probe: Code attribute presence differs".into()),
		}
	}
	Ok(out)
}

// ------------------------------------------------------------------------------------------
// property oracle on the implementation alone
// ------------------------------------------------------------------------------------------
/// every branch, switch arm, exception range and table entry of the written method designates
/// the image of the same instruction of the tree
fn sem_check(code: &Code, rc: &raw::CodeAttr) -> Result<Vec<u32>, String> {
	let insns = raw::decode_code(&rc.code)?;
	let n = code.instructions.len();
	let mut pos: Vec<u32> = Vec::with_capacity(n + 1);
	let mut refs: Vec<(usize, u64, u32)> = vec![]; // (instruction, label, decoded absolute target)
	let mut j = 0usize;
	for (k, e) in code.instructions.iter().enumerate() {
		let (p, ins) = insns.get(j).ok_or_else(|| format!("instruction {k}: output has no more instructions"))?;
		pos.push(*p);
		match branch_of(&e.instruction) {
			None => {
				if matches!(ins.operands, Operands::Branch(_) | Operands::TableSwitch { .. } | Operands::LookupSwitch { .. }) { return Err(format!("instruction {k} at {p}: output has a branch where the tree has {:?}", e.instruction)); }
				j += 1;
			}
			Some(Ent::Cond { op, inv, l }) => {
				match (&ins.operands, ins.opcode) {
					(Operands::Branch(t), o) if o == op => { refs.push((k, l, *t)); j += 1; }
					(Operands::Branch(t), o) if o == inv && *t == p + 8 => {
						let (p2, g) = insns.get(j + 1).ok_or("trampoline without goto_w")?;
						match (&g.operands, g.opcode) { (Operands::Branch(t2), 200) if *p2 == p + 3 => refs.push((k, l, *t2)), _ => return Err(format!("instruction {k} at {p}: inverted condition not followed by goto_w")) }
						j += 2;
					}
					_ => return Err(format!("instruction {k} at {p}: expected conditional {op}, found opcode {}", ins.opcode)),
				}
			}
			Some(Ent::Jump { op, wop, l }) => {
				match (&ins.operands, ins.opcode) { (Operands::Branch(t), o) if o == op || o == wop => refs.push((k, l, *t)), _ => return Err(format!("instruction {k} at {p}: expected jump {op}, found opcode {}", ins.opcode)) }
				j += 1;
			}
			Some(Ent::TS { d, low, high, ts }) => {
				match &ins.operands {
					Operands::TableSwitch { default, low: lo, high: hi, targets } if *lo == low && *hi == high && targets.len() == ts.len() => {
						refs.push((k, d, *default)); for (l, t) in ts.iter().zip(targets) { refs.push((k, *l, *t)); }
					}
					_ => return Err(format!("instruction {k} at {p}: tableswitch differs")),
				}
				j += 1;
			}
			Some(Ent::LS { d, ps }) => {
				match &ins.operands {
					Operands::LookupSwitch { default, pairs } if pairs.len() == ps.len() && pairs.iter().zip(&ps).all(|(a, b)| a.0 == b.0) => {
						refs.push((k, d, *default)); for (a, b) in ps.iter().zip(pairs) { refs.push((k, a.1, b.1)); }
					}
					_ => return Err(format!("instruction {k} at {p}: lookupswitch differs")),
				}
				j += 1;
			}
			Some(Ent::Plain(_)) => unreachable!(),
		}
	}
	if j != insns.len() { return Err(format!("output has {} instructions more than the tree accounts for", insns.len() - j)); }
	pos.push(rc.code.len() as u32);
	let mut idx: HashMap<u64, usize> = HashMap::new();
	for (k, e) in code.instructions.iter().enumerate() { if let Some(l) = &e.label { idx.insert(lid(l), k); } }
	if let Some(l) = &code.last_label { idx.insert(lid(l), n); }
	let at = |l: u64| -> Result<u32, String> { idx.get(&l).map(|k| pos[*k]).ok_or_else(|| format!("label {l} is on no instruction")) };
	for (k, l, t) in refs { if at(l)? != t { return Err(format!("instruction {k}: target decodes to {t}, the labelled instruction is at {}", at(l)?)); } }
	let want = tables_of(code); let got = tables_of_raw(rc);
	if want.exc.len() != got.exc.len() || want.offs.len() != got.offs.len() || want.ranges.len() != got.ranges.len() { return Err(format!("table sizes differ: tree {:?}/{:?}/{:?}, output {:?}/{:?}/{:?}", want.exc.len(), want.offs.len(), want.ranges.len(), got.exc.len(), got.offs.len(), got.ranges.len())); }
	for (w, g) in want.exc.iter().zip(&got.exc) { if (at(w.0)? as u64, at(w.1)? as u64, at(w.2)? as u64) != *g { return Err(format!("exception entry {g:?} does not designate the labelled instructions")); } }
	for (w, g) in want.offs.iter().zip(&got.offs) { if at(*w)? as u64 != *g { return Err(format!("table pc {g} does not designate the labelled instruction (at {})", at(*w)?)); } }
	for (w, g) in want.ranges.iter().zip(&got.ranges) { let (s, e) = (at(w.0)? as u64, at(w.1)? as u64); if (s, e.wrapping_sub(s)) != *g { return Err(format!("range {g:?} does not designate the labelled instructions ({s}..{e})")); } }
	Ok(pos)
}

fn opposite_name(op: &str) -> Option<&'static str> {
	Some(match op {
		"ifeq" => "ifne", "ifne" => "ifeq", "iflt" => "ifge", "ifge" => "iflt", "ifgt" => "ifle", "ifle" => "ifgt",
		"if_icmpeq" => "if_icmpne", "if_icmpne" => "if_icmpeq", "if_icmplt" => "if_icmpge", "if_icmpge" => "if_icmplt",
		"if_icmpgt" => "if_icmple", "if_icmple" => "if_icmpgt", "if_acmpeq" => "if_acmpne", "if_acmpne" => "if_acmpeq",
		"ifnull" => "ifnonnull", "ifnonnull" => "ifnull", _ => return None,
	})
}

/// The property allows a conditional whose offset no longer fits 16 bits to be written as the
/// inverted condition over a `goto_w`.  Where the tree has conditional `c T` and the written code
/// has `opposite(c) -> (the instruction after the next); goto T'`, contract the pair back to
/// `c T'` and renumber every position of the written method accordingly.  A position that
/// designates the inner goto cannot be renumbered: that is an error.
fn contract_trampolines(tree: &CodeFacts, out: &CodeFacts) -> Result<CodeFacts, String> {
	let n = out.insns.len();
	let mut map: Vec<Option<usize>> = vec![None; n + 1];
	let mut insns: Vec<InsnG<usize>> = Vec::with_capacity(tree.insns.len());
	let (mut j, mut k) = (0usize, 0usize);
	while j < n {
		let o = &out.insns[j];
		let is_tramp = match (tree.insns.get(k), out.insns.get(j + 1)) {
			(Some(t), Some(g)) => opposite_name(t.op) == Some(o.op) && matches!(t.arg, OperandG::Branch(_)) && o.arg == OperandG::Branch(j + 2) && g.op == "goto" && matches!(g.arg, OperandG::Branch(_)),
			_ => false,
		};
		map[j] = Some(k);
		if is_tramp {
			insns.push(InsnG { op: tree.insns[k].op, arg: out.insns[j + 1].arg.clone() });
			j += 2;
		} else { insns.push(o.clone()); j += 1; }
		k += 1;
	}
	map[n] = Some(k);
	let mut c = out.clone();
	c.insns = insns;
	c.map_pos(&mut |p: &usize| map.get(*p).copied().flatten().ok_or_else(|| format!("position {p} of the written method designates the goto_w inside a trampoline")))
}
fn contract_class(tree: &ClassFacts, out: &ClassFacts) -> Result<ClassFacts, String> {
	let mut o = out.clone();
	for (tm, om) in tree.methods.iter().zip(o.methods.iter_mut()) {
		if let (Some(tc), Some(oc)) = (&tm.code, &om.code) { if tc.insns.len() != oc.insns.len() { om.code = Some(contract_trampolines(tc, oc)?); } }
	}
	Ok(o)
}

fn has_frames(code: &Code) -> bool { code.instructions.iter().any(|e| e.frame.is_some()) }
fn unique_labels(code: &Code) -> bool {
	let mut seen = std::collections::HashSet::new();
	code.instructions.iter().filter_map(|e| e.label.as_ref()).chain(code.last_label.as_ref()).all(|l| seen.insert(lid(l)))
}

fn hex(b: &[u8]) -> String { b.iter().map(|x| format!("{x:02x}")).collect() }
fn replay_text(what: &str, desc: &str, orig: &[u8]) -> String {
	let shown = if orig.len() <= 4096 { hex(orig) } else { format!("{}… ({} bytes; regenerate from the description)", hex(&orig[..512]), orig.len()) };
	format!("property C02\nwhat: {what}\ninput: {desc}\nclass file (hex): {shown}\nsteps: duke::read_class(bytes) -> duke::write_class(tree) -> strict parse / compare\n")
}

/// how a tree is judged.  `oracle`: the tree lies inside the property's quantifier (read by duke, possibly renamed or edited
/// into another description the reader could have produced) — the implementation-only oracle applies to whatever
/// write_class answers: no panic, and an Ok output must pass the strict parser and read back to the facts of the tree.
/// `dec`: the whole-class case asks the model for cclass_ok / cclass_np and decoder = facts.  `layout`: the method-by-method
/// layout-level cases are printed (not for trees whose error is one of a count or length, which that model does not hold).
/// `nopanic`: a panic of write_class is a violation of the property (the tree is one the reader produced or could produce).
#[derive(Clone, Copy)]
struct Mode { oracle: bool, dec: bool, layout: bool, nopanic: bool }
const READ: Mode = Mode { oracle: true, dec: true, layout: true, nopanic: true };
const OUTSIDE: Mode = Mode { oracle: false, dec: false, layout: true, nopanic: false };
const SIZES: Mode = Mode { oracle: true, dec: true, layout: false, nopanic: true };
/// a tree exactly as duke read it, but from a class file the strict parser would not accept as input either (a descriptor
/// outside the grammar): the reader produced it, so writing must not panic; an Ok output is compared with the model only
const READ_LENIENT: Mode = Mode { oracle: false, dec: false, layout: true, nopanic: true };

struct Run<'a> { r: &'a mut Report, cases_left: usize, per_stream: HashMap<String, usize>, cap: usize, pool_left: usize, ldc_left: usize, rename_left: usize, bsm_left: usize, class_left: usize, class_per_stream: HashMap<String, usize>, class_cap: usize, pool_per_stream: HashMap<String, usize>, ldc_per_stream: HashMap<String, usize> }

/// one class through everything.  `mutate` may modify the tree after reading (hypothesis-violating streams).
fn through(run: &mut Run, stream: &str, desc: &str, orig: &[u8], mutate: Option<&dyn Fn(&mut ClassFile)>) {
	// the reader recurses over bootstrap arguments, the writer over nested dynamic constants and annotation values and
	// loops until the wide set is stable: a stack overflow / abort / endless loop is not catchable by `guarded`
	crumb(&replay_text(&format!("harness process died while reading or writing this class (stream {stream})"), desc, orig));
	let mut tree = match impl_read(orig) {
		Ok(Ok(t)) => t,
		Ok(Err(_)) => { run.r.count("reader_rejected"); return; }
		Err(_) => { run.r.count("reader_panicked"); return; }
	};
	if let Some(f) = mutate { f(&mut tree); }
	through_tree(run, stream, desc, orig, &tree, if mutate.is_none() { READ } else { OUTSIDE });
	// the same class after a simple renaming of the class, its fields and its methods
	if mutate.is_none() && run.rename_left > 0 {
		run.rename_left -= 1;
		let renamed = rename(&tree);
		through_tree(run, &format!("{stream}+renamed"), &format!("{desc} (class, field and method names renamed)"), orig, &renamed, READ);
	}
}

/// a tree edited after reading in a way that keeps the hypotheses of the theorems (unique labels, well-formed
/// switches): the full oracle applies
fn through_edited(run: &mut Run, stream: &str, desc: &str, orig: &[u8], edit: &dyn Fn(&mut ClassFile)) { through_mode(run, stream, desc, orig, edit, READ) }
fn through_mode(run: &mut Run, stream: &str, desc: &str, orig: &[u8], edit: &dyn Fn(&mut ClassFile), mode: Mode) {
	crumb(&replay_text(&format!("harness process died while reading or writing this class (stream {stream})"), desc, orig));
	let mut tree = match impl_read(orig) { Ok(Ok(t)) => t, _ => { run.r.count("reader_rejected"); return; } };
	edit(&mut tree);
	through_tree(run, stream, desc, orig, &tree, mode);
}

fn rename(t: &ClassFile) -> ClassFile {
	use duke::tree::class::ObjClassName;
	use duke::tree::field::FieldName;
	use duke::tree::method::MethodName;
	let mut t = t.clone();
	let js = |s: &java_string::JavaStr, suffix: &str| { let mut o = s.to_owned(); o.push_str(suffix); o };
	if t.name.as_inner() != java_string::JavaStr::from_str("module-info") {
		t.name = unsafe { ObjClassName::from_inner_unchecked(js(t.name.as_inner(), "_R")) };
	}
	for f in &mut t.fields { f.name = unsafe { FieldName::from_inner_unchecked(js(f.name.as_inner(), "_r")) }; }
	for m in &mut t.methods {
		if !m.name.as_inner().starts_with('<') { m.name = unsafe { MethodName::from_inner_unchecked(js(m.name.as_inner(), "_r")) }; }
	}
	t
}

fn through_tree(run: &mut Run, stream: &str, desc: &str, orig: &[u8], tree: &ClassFile, mode: Mode) {
	let t0 = std::time::Instant::now();
	through_tree_(run, stream, desc, orig, tree, mode);
	let dt = t0.elapsed().as_millis() as u64;
	run.r.count_n(&format!("ms_{}", stream.split('+').next().unwrap_or(stream)), dt);
}
fn through_tree_(run: &mut Run, stream: &str, desc: &str, orig: &[u8], tree: &ClassFile, mode: Mode) {
	let r = &mut *run.r;
	let from_reading = mode.dec;
	let n_code = tree.methods.iter().filter(|m| m.code.is_some()).count();
	let new = r.eval(&format!("{stream}:{desc}:{}", hex(&orig[..orig.len().min(64)])), n_code > 0);
	let _ = new;
	crumb(&replay_text(&format!("harness process died in duke::write_class (or in the probe write) of this tree (stream {stream})"), desc, orig));
	let res = impl_write(tree);
	let mut parsed: Option<raw::RawClass> = None;
	if !mode.oracle {
		// outside the property's quantifier: only the correspondence with the model is checked
		match &res {
			Err(p) => {
				r.count("mutated_write_panicked"); r.notes.push(format!("mutated tree ({desc}): write_class panicked: {p}"));
				if mode.nopanic { r.violation(format!("duke::write_class panicked ({p}) on a tree the reader produced — writing must succeed or fail cleanly"), replay_text(&format!("write_class panicked: {p}"), desc, orig)); }
			}
			Ok(Err(_)) => r.count("mutated_write_err"),
			Ok(Ok(out)) => { r.count("mutated_write_ok"); parsed = raw::parse(out).ok(); }
		}
	} else {
	match &res {
		Err(p) => {
			r.count("write_panicked");
			r.violation(format!("duke::write_class panicked ({p}) — writing must succeed or fail cleanly"), replay_text(&format!("write_class panicked: {p}"), desc, orig));
		}
		Ok(Err(_)) => { r.count("write_err"); }
		Ok(Ok(out)) => {
			r.count("write_ok");
			match raw::parse(out) {
				Err(e) => r.violation(format!("written class is not a structurally valid class file: {e}"), replay_text(&format!("strict parser rejects the output: {e}"), desc, orig)),
				Ok(rc) => {
					if rc.methods.len() != tree.methods.len() { r.violation("method count differs".into(), replay_text("method count differs", desc, orig)); }
					for (mi, (m, rm)) in tree.methods.iter().zip(rc.methods.iter()).enumerate() {
						match (&m.code, code_of(rm)) {
							(Some(c), Some(rcode)) => {
								if let Err(e) = sem_check(c, rcode) {
									r.violation(format!("method {mi}: {e}"), replay_text(&format!("method {mi}: {e}"), desc, orig));
								}
								if has_frames(c) {
									let written = rcode.attributes.iter().map(|a| if let AttrInfo::StackMapTable(v) = &a.info { v.len() } else { 0 }).sum::<usize>();
									r.count("methods_with_frames"); r.count_n("frames_in_tree", c.instructions.iter().filter(|e| e.frame.is_some()).count() as u64); r.count_n("frames_written", written as u64);
								}
							}
							(None, None) => {}
							_ => r.violation(format!("method {mi}: Code attribute presence differs"), replay_text("Code attribute presence differs", desc, orig)),
						}
					}
					// the facts of the tree and the facts an independent parser reads back
					let tf = facts_from_duke(tree);
					match facts_from_raw(&rc) {
						Err(e) => r.violation(format!("written class: {e}"), replay_text(&format!("facts of the written class cannot be built: {e}"), desc, orig)),
						Ok(of) => {
							let of = match contract_class(&tf, &of) { Ok(x) => x, Err(e) => { r.violation(format!("written class: {e}"), replay_text(&e, desc, orig)); of } };
							if tf != of {
								let groups = tf.differing_groups(&of);
								let lines = tf.diff(&of);
								let shown: Vec<String> = lines.iter().take(6).cloned().collect();
								r.violation(format!("facts read back from the written class differ from the tree (tree != written): {}", shown.join(" | ")),
									replay_text(&format!("facts differ in groups {:?}: {}", groups, shown.join(" | ")), desc, orig));
							} else {
								r.count("facts_equal");
								if tf.methods.iter().any(|m| m.code.as_ref().map_or(false, |c| c.frames.is_some())) { r.count("facts_equal_with_frames"); }
							}
						}
					}
					parsed = Some(rc);
				}
			}
		}
	}
	}
	// correspondence of the whole class: the tree as a term of the model's tree type, the written file byte for byte
	let n_insns: usize = tree.methods.iter().filter_map(|m| m.code.as_ref()).map(|c| c.instructions.len()).sum();
	let mut plain_cache: Option<Result<Vec<Option<Vec<Vec<u8>>>>, String>> = None;
	let class_stream = stream.split('+').next().unwrap_or(stream).to_string();
	// the assembled boundary constructions differ only in their code (covered method by method below): a few of each
	let class_cap = match class_stream.as_str() { "generated" | "corpus" | "frames-mutated" | "frames-restart" | "frames-delta" | "iface-args" | "iface-malformed" | "error-sites" | "count-limits" | "near-equal-strings" | "flag-bits" => run.class_cap, "not-from-reading" | "shared-boundary" => run.class_cap / 8, _ => run.class_cap / 16 };
	if run.class_left > 0 && n_insns <= 3000 && *run.class_per_stream.get(&class_stream).unwrap_or(&0) < class_cap {
		let pl = if n_code == 0 { Ok(vec![None; tree.methods.len()]) } else { plain_bytes(tree) };
		let has_iface = tree.methods.iter().filter_map(|m| m.code.as_ref()).any(|c| c.instructions.iter().any(|e| matches!(e.instruction, Instruction::InvokeInterface(_))));
		let mut pl_class = if pl.is_err() && has_iface { plain_bytes_with(tree, true) } else { pl.clone() };
		if pl_class.is_err() { pl_class = plain_bytes_of(probe_minimal(tree)); if pl_class.is_ok() { r.count("class_case_minimal_probe"); } }
		match &pl_class {
			Ok(p) => match tree::class_term(tree, p) {
				Ok((term, strings, uni)) => {
					let ans = match &res { Ok(Ok(out)) => format!("(KOk {})", tree::pack(out)), Ok(Err(_)) => "KErr".into(), Err(_) => "KPanic".into() };
					let total: usize = strings.iter().map(|b| b.len()).sum::<usize>() + match &res { Ok(Ok(out)) => out.len(), _ => 0 };
					if total <= 140_000 && term.len() <= 300_000 {
						run.class_left -= 1;
						*run.class_per_stream.entry(class_stream.clone()).or_insert(0) += 1;
						r.count("class_cases"); r.count(match &res { Ok(Ok(_)) => "class_answer_ok", Ok(Err(_)) => "class_answer_err", Err(_) => "class_answer_panic" });
						r.count_n("class_case_bytes", match &res { Ok(Ok(out)) => out.len() as u64, _ => 0 });
						if uni.contains("Some") { r.count("class_cases_with_non_ascii_strings"); }
							r.case(&format!("class-{class_stream}"), format!("CClass [{}] {uni} {term} {ans} {from_reading}", strings.iter().map(|b| tree::pack(b)).collect::<Vec<_>>().join(";")));
					} else { r.count("class_case_too_large"); }
				}
				Err(e) => { r.count("class_term_failed"); r.notes.push(format!("class term ({stream}): {e}")); r.notes.truncate(20); }
			},
			Err(_) => r.count("class_case_probe_failed"),
		}
		if n_code > 0 { plain_cache = Some(pl); }
	}
	// correspondence, method by method (names do not enter the layout-level model: not repeated for the renamed tree)
	if n_code == 0 || run.cases_left == 0 || stream.ends_with("+renamed") || !mode.layout { return; }
	if *run.per_stream.get(stream).unwrap_or(&0) >= run.cap { return; }
	let cls: ClassIdx = parsed.as_ref().map(class_indices).unwrap_or_default();
	let lcodes = match &res { Ok(Ok(out)) => lenient::codes(out), _ => None };
	let sm_of = |mi: usize| -> Option<Vec<u8>> { lcodes.as_ref().and_then(|v| v.get(mi)).and_then(|c| c.as_ref()).and_then(|c| c.stack_map.clone()) };
	let plain = match plain_cache.unwrap_or_else(|| plain_bytes(tree)) { Ok(p) => p, Err(e) => { r.count("probe_failed"); r.notes.push(format!("probe failed ({stream}): {}", e.chars().take(300).collect::<String>())); r.notes.truncate(20); return; } };
	// when the write failed as a whole we can attribute the failure to a method only if exactly one method has code
	for (mi, m) in tree.methods.iter().enumerate() {
		let Some(c) = &m.code else { continue };
		let Some(pl) = &plain[mi] else { continue };
		if from_reading && !unique_labels(c) { r.count("hypothesis_unique_labels_violated_by_reader"); }
		let a = abstract_code(c, pl, &cls);
		let ans = match (&res, &parsed) {
			(Ok(Ok(_)), Some(rc)) => match code_of(&rc.methods[mi]) { Some(rcode) => Answer::Ok(rcode.code.clone(), tables_of_raw(rcode), sm_of(mi)), None => continue },
			(Ok(Ok(out)), None) => match lenient::codes(out).and_then(|mut v| if mi < v.len() { v.swap_remove(mi) } else { None }) {
				Some(lc) => {
					let mut t = Tables::default();
					for e in &lc.exc { t.exc.push((e.0 as u64, e.1 as u64, e.2 as u64)); }
					for l in &lc.lines { t.offs.push(*l as u64); }
					for (a, b) in lc.lvt.iter().chain(lc.lvtt.iter()) { t.ranges.push((*a as u64, *b as u64)); }
					r.count("answer_from_lenient_extraction");
					let sm = lc.stack_map.clone();
					Answer::Ok(lc.code, t, sm)
				}
				None => continue,
			},
			(Ok(Err(_)), _) if n_code == 1 => Answer::Err,
			(Err(_), _) if n_code == 1 => Answer::Panic,
			_ => continue,
		};
		if run.cases_left == 0 { break; }
		run.cases_left -= 1;
		*run.per_stream.entry(stream.to_string()).or_insert(0) += 1;
		r.count(&format!("case_insns_{}", match c.instructions.len() { 0..=9 => "1-9", 10..=99 => "10-99", 100..=999 => "100-999", 1000..=9999 => "1k-10k", _ => "10k+" }));
		r.count(match ans { Answer::Ok(..) => "answer_ok", Answer::Err => "answer_err", Answer::Panic => "answer_panic" });
		if !a.frames.is_empty() { r.count("cases_with_frames"); r.count_n("frames_in_cases", a.frames.len() as u64); }
		let widened = a.ents.iter().filter(|e| matches!(e.1, Ent::Cond { .. } | Ent::Jump { .. })).count();
		r.count_n("branches_in_cases", widened as u64);
		r.case(stream, g_case(&a, &ans));
	}
	// the pool of the written class: no duplicates, count = 1 + slots; ldc forms
	if let Some(rc) = &parsed {
		let mut seen = std::collections::HashSet::new();
		let mut es = vec![];
		for c in rc.pool.iter().flatten() {
			let key = format!("{c:?}");
			if !seen.insert(key.clone()) { r.violation(format!("constant pool of the written class holds {key} twice"), replay_text("duplicate pool entry", desc, orig)); }
			es.push(format!("(Build_pentry {} {})", c.is_two_slot(), gbytes(key.as_bytes())));
		}
		if let Some(bm) = rc.bootstrap_methods() {
			let mut seen = std::collections::HashSet::new();
			let keys: Vec<String> = bm.iter().map(|b| format!("{b:?}")).collect();
			for k in &keys { if mode.oracle && !seen.insert(k.clone()) { r.violation(format!("BootstrapMethods table of the written class holds {k} twice"), replay_text("duplicate bootstrap method", desc, orig)); } }
			if run.bsm_left > 0 && !keys.is_empty() && keys.len() <= 200 { run.bsm_left -= 1; r.case("bootstrap", format!("CBsm [{}]", keys.iter().map(|k| gbytes(k.as_bytes())).collect::<Vec<_>>().join(";"))); }
		}
		let pps = run.pool_per_stream.entry(stream.to_string()).or_insert(0);
		if run.pool_left > 0 && es.len() <= 400 && *pps < 8 { *pps += 1; run.pool_left -= 1; r.case("pool", format!("CPool [{}] {}", es.join(";"), rc.pool.len())); }
		for m in &rc.methods {
			if let Some(c) = code_of(m) {
				if let Ok(insns) = raw::decode_code(&c.code) {
					for (_, i) in insns.iter().take(50) {
						if let (Operands::Pool(x), 18..=20) = (&i.operands, i.opcode) {
							let two = i.opcode == 20;
							if !two && (i.opcode == 18) != (*x <= 255) { r.violation(format!("ldc form {} for pool index {x}", i.opcode), replay_text("ldc threshold", desc, orig)); }
							let lps = run.ldc_per_stream.entry(stream.to_string()).or_insert(0);
							if run.ldc_left > 0 && *lps < 14 { *lps += 1; run.ldc_left -= 1; r.case("ldc", format!("CLdc {two} {x} {}", i.opcode)); }
						}
					}
				}
			}
		}
	}
}

// ------------------------------------------------------------------------------------------
// generators
// ------------------------------------------------------------------------------------------
const RET: u8 = 177;
fn bytes(b: &[u8]) -> It { It::Bytes(b.to_vec()) }

/// forward conditional/goto whose distance is d0 in the file and d0 + g after the writer turns
/// g `ldc` into `ldc_w` (class with > 246 fields)
fn gen_forward(op: u8, d0: usize, g: usize, lead: usize) -> MiniMethod {
	let mut items = vec![It::Nops(lead), It::Br { op, to: 0, wide: false }];
	for _ in 0..g { items.push(It::LdcStr); items.push(bytes(&[87])); }
	let used = 3 + 3 * g;
	items.push(It::Nops(d0 - used));
	let t = items.len(); items.push(bytes(&[RET]));
	if let It::Br { to, .. } = &mut items[1] { *to = t; }
	MiniMethod { items, ..Default::default() }
}
fn gen_backward(op: u8, d0: usize, g: usize, lead: usize, tail: usize) -> MiniMethod {
	let mut items = vec![It::Nops(lead), bytes(&[0])];
	for _ in 0..g { items.push(It::LdcStr); items.push(bytes(&[87])); }
	items.push(It::Nops(d0 - 1 - 3 * g));
	items.push(It::Br { op, to: 1, wide: false });
	items.push(It::Nops(tail)); items.push(bytes(&[RET]));
	MiniMethod { items, ..Default::default() }
}
/// c2 at 0 -> T2 (+32767), c1 inside c2's span -> T1 (+32767); one growing ldc only inside c1's span
fn gen_cascade(op: u8, y: usize, g: usize) -> MiniMethod {
	// layout: c2 | nops | c1 | nops | T2: nop | ldc*g | nops | T1: return
	let mut items = vec![It::Br { op, to: 0, wide: false }, It::Nops(y - 3), It::Br { op, to: 0, wide: false }];
	items.push(It::Nops(32767 - y - 3));
	let t2 = items.len(); items.push(bytes(&[0]));
	for _ in 0..g { items.push(It::LdcStr); items.push(bytes(&[87])); }
	items.push(It::Nops(y - 1 - 3 * g));
	let t1 = items.len(); items.push(bytes(&[RET]));
	if let It::Br { to, .. } = &mut items[0] { *to = t2; }
	if let It::Br { to, .. } = &mut items[2] { *to = t1; }
	MiniMethod { items, ..Default::default() }
}
fn gen_switch_align(a: usize, table: bool, n: usize, g: usize) -> MiniMethod {
	let mut items = vec![It::Nops(a)];
	for _ in 0..g { items.push(It::LdcStr); items.push(bytes(&[87])); }
	items.push(bytes(&[3])); // iconst_0
	let sw = items.len();
	let first_target = sw + 1;
	let targets: Vec<usize> = (0..n).map(|k| first_target + k).collect();
	if table { items.push(It::TSwitch { default: first_target + n, low: -1, targets }); }
	else { items.push(It::LSwitch { default: first_target + n, pairs: targets.iter().enumerate().map(|(k, t)| (k as i32 * 7 - 3, *t)).collect() }); }
	for _ in 0..n { items.push(bytes(&[0])); }
	items.push(bytes(&[RET]));
	MiniMethod { items, exc: vec![(sw, first_target, first_target + n)], lines: vec![0, sw, first_target + n], lvt: vec![(sw, first_target + n + 1)], max_locals: 1 }
}
/// a method of exactly `len` bytes ending in a backward jump over `back` bytes, with g growing ldc
fn gen_size(len: usize, g: usize, far_back: bool) -> MiniMethod {
	let mut items = vec![bytes(&[0])];
	for _ in 0..g { items.push(It::LdcStr); items.push(bytes(&[87])); }
	let used = 1 + 3 * g;
	if far_back {
		// target at len-3-32768 so that the final conditional is at distance -32768
		let tpos = len - 3 - 32768;
		items.push(It::Nops(tpos - used));
		let t = items.len(); items.push(bytes(&[0]));
		items.push(It::Nops(32768 - 1));
		items.push(It::Br { op: 153, to: t, wide: false });
	} else {
		items.push(It::Nops(len - used - 1));
		items.push(bytes(&[RET]));
	}
	MiniMethod { items, ..Default::default() }
}

fn random_method(rng: &mut Rng, big: bool) -> MiniMethod {
	// a few jumps whose spans are close to the 16-bit limit, growing ldc's, switches, wide locals
	let n_items = rng.range(4, 14);
	let mut items: Vec<It> = vec![];
	let mut sizes_budget = if big { 65000usize } else { 300 };
	for _ in 0..n_items {
		match rng.below(10) {
			0 | 1 => items.push(It::Br { op: *rng.pick(&[153u8, 154, 159, 165, 198, 199, 167, 168, 167]), to: 0, wide: false }),
			2 => items.push(It::LdcStr),
			3 => items.push(rng.pick(&[It::LdcInt, It::LdcLong, It::LdcStrW]).clone()),
			4 => { let n = rng.range(1, 4); items.push(It::TSwitch { default: 0, low: rng.range(0, 5) as i32 - 2, targets: vec![0; n] }); }
			5 => { let n = rng.range(0, 3); items.push(It::LSwitch { default: 0, pairs: (0..n).map(|k| (k as i32 * 3 - 1, 0)).collect() }); }
			6 => { let opts: [Vec<u8>; 7] = [vec![196u8, 21, 0, 5], vec![21, 200], vec![196, 21, 1, 0], vec![132, 1, 1], vec![196, 132, 0, 1, 0, 1], vec![16, 7], vec![17, 1, 2]]; items.push(It::Bytes(rng.pick(&opts[..]).clone())); }
			_ => {
				let n = if big && rng.chance(1, 2) { let n = rng.range(32740, 32790).min(sizes_budget); sizes_budget -= n; n } else { rng.range(1, 9) };
				items.push(It::Nops(n.max(1)));
			}
		}
	}
	items.push(bytes(&[RET]));
	let n = items.len();
	// targets: any item that is not in the middle of nothing (all items are instruction starts)
	for k in 0..n {
		let pick = |rng: &mut Rng| rng.below(n);
		match &mut items[k] {
			It::Br { to, .. } => *to = pick(rng),
			It::TSwitch { default, targets, .. } => { *default = pick(rng); for t in targets { *t = pick(rng); } }
			It::LSwitch { default, pairs } => { *default = pick(rng); for p in pairs { p.1 = pick(rng); } }
			_ => {}
		}
	}
	// make every 16-bit branch encodable in the file: goto/jsr get the wide form, conditionals the trampoline
	for _ in 0..n {
		let pos = mini::layout(&items);
		let mut changed = false;
		for k in 0..n {
			if let It::Br { op, to, wide: false } = items[k].clone() {
				let off = pos[to] as i64 - pos[k] as i64;
				if i16::try_from(off).is_err() {
					items[k] = if op == 167 || op == 168 { It::Br { op, to, wide: true } } else { It::Tramp { inv: op, to } };
					changed = true; break;
				}
			}
		}
		if !changed { break; }
	}
	let mut m = MiniMethod { items, max_locals: 300, ..Default::default() };
	if rng.chance(1, 2) { let (a, b) = (rng.below(n), rng.below(n)); m.exc.push((a.min(b), a.max(b).max(a.min(b) + 1).min(n), rng.below(n))); }
	for _ in 0..rng.below(3) { m.lines.push(rng.below(n)); }
	if rng.chance(1, 3) { let (a, b) = (rng.below(n + 1), rng.below(n + 1)); m.lvt.push((a.min(b), a.max(b))); }
	m
}

pub fn run(ctx: &Ctx) -> anyhow::Result<Report> {
	let mut r = Report::new("C02", "C02.Run");
	r.shard_size = 24;
	let mut rng = Rng::new(ctx.seed);
	r.rule = "class files (assembled boundary constructions, random near-boundary methods, javac corpus) -> duke::read_class -> duke::write_class; oracle: the independent strict parser must accept the output and every branch/switch arm/exception range/table pc must designate the image of the same tree instruction; correspondence: every method body abstracted to the layout level (plain instruction bytes taken from a probe write in which label-carrying instructions are nops) and the Coq model of write_code compared byte for byte with the written code array and tables. Whole classes additionally as terms of the whole-class model (byte-for-byte, decoder = facts). Streams iface-args / iface-malformed: one invokeinterface per class with a generated descriptor (inside the JVMS grammar incl. multi-byte and supplementary characters in class names, arrays of long/double, 252..257 argument slots; outside the grammar: truncated, unbalanced, non-ASCII where a type is expected, unpaired surrogates) — oracle: count = 1 + slots of the harness' own reference, more than 255 is a clean error. Stream frames-delta: every frame shape at offset deltas 0, 62, 63, 64, 129. Streams at the limits of the count and length fields, every tree judged by the implementation-only oracle as well (an Ok answer must pass the strict parser and read back to the facts of the tree; a panic is a violation): count-limits (reader-producible: two LineNumberTable / LocalVariableTable / LocalVariableTypeTable attributes in one Code attribute adding up to 65535, exactly 65536, 65537 entries), error-sites (edited trees: 14 u16 count sites at 65535 / 65536, MethodParameters at 255 / 256, Utf8 lengths of 65535..65537 bytes in modified UTF-8 reached with 1-, 2- (NUL, U+00E9), 3- and 6-byte characters as source file, class and field name, the constant pool at constant_pool_count 65535 and one beyond with int fields and with a long in the last two slots). Stream near-equal-strings: two fields and the source file named by strings that differ only in the value of an unpaired surrogate, surrogate against U+FFFD, NUL, letter case, trailing blank, composed / decomposed. Stream flag-bits: every single bit (and all bits) of class, field, method, inner-class and parameter flags. Lists of 16 or more equal elements are printed as rep n x. Non-trivial = the class has at least one method with code; distinct by stream, description and class prefix.".into();
	let mut run = Run { r: &mut r, cases_left: if ctx.thorough { 9000 } else { 1100 }, per_stream: HashMap::new(), cap: if ctx.thorough { 1500 } else { 230 }, pool_left: if ctx.thorough { 300 } else { 60 }, ldc_left: if ctx.thorough { 600 } else { 120 }, rename_left: if ctx.thorough { 4000 } else { 400 }, bsm_left: if ctx.thorough { 300 } else { 60 }, class_left: if ctx.thorough { 3800 } else { 830 }, class_per_stream: HashMap::new(), class_cap: if ctx.thorough { 1300 } else { 200 }, pool_per_stream: HashMap::new(), ldc_per_stream: HashMap::new() };

	let grow = 300usize; // fields: String constant lands beyond index 255 in the written pool
	let one = |m: MiniMethod, nf: usize| MiniClass { n_fields: nf, methods: vec![m] };
	let mut emit = |run: &mut Run, stream: &str, desc: String, cl: MiniClass| {
		match mini::build(&cl) { Ok(b) => through(run, stream, &desc, &b, None), Err(e) => { run.r.count("generator_rejected"); run.r.notes.push(format!("{desc}: {e}")); run.r.notes.truncate(20); } }
	};

	// 1. distances around +-32767/32768 (in the file d0, after growth d0+g)
	let ops: &[u8] = if ctx.thorough { &[153, 154, 166, 198, 167, 168] } else { &[153, 167, 199] };
	for &op in ops {
		for d0 in [32766usize, 32767] {
			for g in 0..=3usize {
				for lead in [0usize, 1] {
					emit(&mut run, "boundary-forward", format!("forward op {op} distance {d0}+{g} lead {lead}"), one(gen_forward(op, d0, g, lead), grow));
				}
			}
		}
		for d0 in [32767usize, 32768] {
			for g in 0..=2usize {
				emit(&mut run, "boundary-backward", format!("backward op {op} distance -{d0}-{g}"), one(gen_backward(op, d0, g, 2, 5), grow));
			}
		}
	}
	// 2. cascades: widening c1 pushes c2 over the limit
	for y in [100usize, 16000, 32000] {
		for g in 0..=2usize {
			emit(&mut run, "cascade", format!("cascade y {y} growth {g}"), one(gen_cascade(153, y, g), grow));
			emit(&mut run, "cascade", format!("cascade goto y {y} growth {g}"), one(gen_cascade(167, y, g), grow));
		}
	}
	// 3. switches at every alignment, with growth before them (padding changes)
	for a in 0..4usize {
		for table in [true, false] {
			for g in 0..=3usize {
				for n in [1usize, 3] {
					emit(&mut run, "switch-align", format!("switch table={table} align {a} growth {g} arms {n}"), one(gen_switch_align(a, table, n, g), grow));
					emit(&mut run, "switch-align", format!("switch table={table} align {a} no growth arms {n}"), one(gen_switch_align(a, table, n, g), 3));
				}
			}
		}
	}
	// 4. code length 65533..65535 and growth beyond the limit
	for len in [65533usize, 65534, 65535] {
		for g in 0..=2usize {
			for far in [false, true] {
				emit(&mut run, "size-limit", format!("code length {len} growth {g} far-backward-conditional {far}"), one(gen_size(len, g, far), grow));
			}
		}
	}
	// 5. pool index of the ldc constant around 255/256
	for nf in 240usize..=252 {
		emit(&mut run, "ldc-255", format!("ldc with {nf} fields"), one(MiniMethod { items: vec![It::LdcStr, It::LdcInt, It::LdcLong, It::LdcStrW, bytes(&[RET])], ..Default::default() }, nf));
	}
	// 5b. invokeinterface: the count operand is recomputed by the writer from the descriptor
	//     (get_arguments_size).  Valid descriptors (oracle: count = 1 + argument slots of the JVMS grammar,
	//     computed by the harness' own reference; more than 255 must be a clean error) and strings outside
	//     the grammar that the reader accepts as descriptors (correspondence with the model only)
	{
		let (nv, nm) = if ctx.thorough { (300, 200) } else { (40, 30) };
		for (name, d) in iface::valid(&mut rng, nv) {
			let slots = iface::reference_slots(&d);
			let count = slots.map_or(1, |s| (s + 1) as u8);
			let b = iface::build(&d, count);
			let desc = format!("invokeinterface descriptor {name}: {:?} (code points {:?})", JStr::from_code_points(&d), d);
			match slots {
				None => { run.r.count("iface_generator_outside_grammar"); run.r.notes.push(format!("iface generator produced a descriptor outside the grammar: {desc}")); run.r.notes.truncate(20); }
				Some(s) => {
					run.r.count(if s + 1 <= 255 { "iface_valid_fits" } else { "iface_valid_too_many_slots" });
					crumb(&replay_text("harness process died while reading or writing this class (stream iface-args)", &desc, &b));
					match impl_read(&b) {
						Ok(Ok(t)) => match impl_write(&t) {
							Ok(Ok(out)) => {
								let got = raw::parse(&out).ok().and_then(|rc| rc.methods.first().and_then(code_of).and_then(|c| raw::decode_code(&c.code).ok()).and_then(|is| is.iter().find_map(|(_, i)| if let Operands::InvokeInterface { count, .. } = i.operands { Some(count) } else { None })));
								if s + 1 > 255 { run.r.violation(format!("invokeinterface with {} argument slots (count would be {}) was written instead of failing cleanly", s, s + 1), replay_text("count does not fit u8 but write_class succeeded", &desc, &b)); }
								else if got != Some((s + 1) as u8) { run.r.violation(format!("invokeinterface count written as {got:?}, the descriptor has {s} argument slots (count {} expected)", s + 1), replay_text(&format!("invokeinterface count {got:?} != 1 + {s}"), &desc, &b)); }
							}
							Ok(Err(e)) => { if s + 1 <= 255 { run.r.violation(format!("write_class failed on a valid invokeinterface descriptor with {s} argument slots: {e}"), replay_text(&format!("write_class failed: {e}"), &desc, &b)); } }
							Err(_) => {} // reported by `through`
						},
						_ => { run.r.violation("reader rejects a class with a valid invokeinterface descriptor".into(), replay_text("reader rejected the class", &desc, &b)); }
					}
					through(&mut run, "iface-args", &desc, &b, None);
				}
			}
		}
		let ident = |_: &mut ClassFile| {};
		for (name, d) in iface::malformed(&mut rng, nm) {
			let b = iface::build(&d, 1);
			let desc = format!("invokeinterface descriptor outside the grammar {name}: code points {:?}", d);
			run.r.count(if iface::reference_slots(&d).is_some() { "iface_malformed_generator_inside_grammar" } else { "iface_malformed" });
			let _ = &ident;
			through_mode(&mut run, "iface-malformed", &desc, &b, &|_| {}, READ_LENIENT);
		}
	}
	// 6. random near-boundary methods
	let n_rand = if ctx.thorough { 1500 } else { 220 };
	for i in 0..n_rand {
		let big = i % 4 == 0;
		let nm = if big { 1 } else { rng.range(1, 3) };
		let cl = MiniClass { n_fields: *rng.pick(&[0usize, 3, 245, 247, 300]), methods: (0..nm).map(|_| random_method(&mut rng, big)).collect() };
		emit(&mut run, if big { "random-big" } else { "random-small" }, format!("random class #{i} seed {}", ctx.seed), cl);
	}
	// 7. trees that reading cannot produce (hypotheses of the theorems violated): unresolved label,
	//    duplicate label, malformed switch, missing max_stack
	for i in 0..(if ctx.thorough { 200 } else { 40 }) {
		let cl = MiniClass { n_fields: 3, methods: vec![random_method(&mut rng, false)] };
		let Ok(b) = mini::build(&cl) else { continue };
		let kind = i % 5;
		let sel = rng.next() as usize;
		let f = move |t: &mut ClassFile| {
			let Some(c) = t.methods.get_mut(0).and_then(|m| m.code.as_mut()) else { return };
			let n = c.instructions.len();
			match kind {
				0 => { if let Some(e) = c.instructions.iter_mut().filter(|e| e.label.is_some()).nth(0) { e.label = None; } }
				1 => { let l = c.instructions.iter().filter_map(|e| e.label).next(); if let Some(l) = l { c.instructions[sel % n].label = Some(l); } }
				2 => { for e in &mut c.instructions { if let Instruction::TableSwitch { low, high, .. } = &mut e.instruction { if sel % 2 == 0 { *high = *low - 1; } else { *high += 1; } } } }
				3 => { c.max_stack = None; }
				_ => { for e in &mut c.instructions { if let Instruction::LookupSwitch { pairs, .. } = &mut e.instruction { pairs.reverse(); } } }
			}
		};
		through(&mut run, "not-from-reading", &format!("mutated tree kind {kind} #{i}"), &b, Some(&f));
	}
	// 7b. descriptions at the limits of the count and length fields of the file format.  Every tree of this stream lies inside
	//     the property's quantifier (a class as read, then edited into another description the reader could have produced, or
	//     renamed): the implementation-only oracle judges whatever write_class answers — a count of exactly 2^16 (2^8) that is
	//     written as 0 instead of being refused is a failing input of the property, not only a disagreement with the model.
	//     Every u16 count site at 65535 / 65536, the u8 site at 255 / 256, Utf8 lengths of 65535 / 65536 / 65537 bytes in
	//     modified UTF-8 reached with 1-, 2- (NUL and U+00E9), 3- and 6-byte characters.
	{
		use duke::tree::annotation::{Annotation, ElementValue, ElementValuePair, Object};
		use duke::tree::class::{ClassName, InnerClass, InnerClassFlags, ObjClassName};
		use duke::tree::field::FieldDescriptor;
		use duke::tree::method::{MethodParameter, ParameterFlags};
		use java_string::JavaString;
		// reader-producible: several LineNumberTable / LocalVariableTable / LocalVariableTypeTable attributes in one Code
		// attribute whose entries add up to 65535, exactly 65536, 65537
		let splits: &[(&str, [usize; 2])] = &[("65535 = 32768 + 32767", [32768, 32767]), ("65536 = 32768 + 32768", [32768, 32768]), ("65536 = 65535 + 1", [65535, 1]), ("65537 = 32768 + 32769", [32768, 32769])];
		for (what, sp) in splits {
			for kind in 0..3usize {
				if !ctx.thorough && kind == 2 && sp[0] == 65535 { continue; }
				let (name, b) = match kind { 0 => ("LineNumberTable", limits::build(sp, &[], &[])), 1 => ("LocalVariableTable", limits::build(&[], sp, &[])), _ => ("LocalVariableTypeTable", limits::build(&[], &[], sp)) };
				let desc = format!("class A, method m()V with code `nop; return`, Code attribute with two {name} attributes of {} and {} entries ({what}; harness/src/bin/c02/limits.rs build)", sp[0], sp[1]);
				through_mode(&mut run, "count-limits", &desc, &b, &|_| {}, SIZES);
			}
		}
		let b = limits::build(&[40000, 25535], &[30000, 35535], &[35535, 30000]);
		through_mode(&mut run, "count-limits", "class A, method m()V, all three tables of 65535 entries in two attributes each", &b, &|_| {}, SIZES);
		let base = mini::build(&MiniClass { n_fields: 2, methods: vec![MiniMethod { items: vec![bytes(&[0]), bytes(&[RET])], exc: vec![(0, 1, 1)], lines: vec![0], lvt: vec![(0, 2)], max_locals: 1 }] });
		if let Ok(b) = base {
			type Edit = Box<dyn Fn(&mut ClassFile)>;
			let mut kinds: Vec<(String, Edit)> = vec![];
			let cn = |s: &str| unsafe { ClassName::from_inner_unchecked(JavaString::from(s)) };
			let fd = |s: &str| unsafe { FieldDescriptor::from_inner_unchecked(JavaString::from(s)) };
			for n in [255usize, 256] {
				kinds.push((format!("{n} method parameters"), Box::new(move |t: &mut ClassFile| { if let Some(m) = t.methods.get_mut(0) {
					m.method_parameters = Some((0..n).map(|_| MethodParameter { name: None, flags: ParameterFlags::from(0u16) }).collect()); } })));
			}
			// strings: (what, unit, bytes of the unit in modified UTF-8, ASCII padding)
			let units: [(&str, &str, usize); 5] = [("ASCII letters", "s", 1), ("NUL characters (two bytes each in modified UTF-8)", "\0", 2), ("U+00E9", "\u{e9}", 2), ("U+4E2D", "\u{4e2d}", 3), ("U+1F600 (a surrogate pair, six bytes)", "\u{1F600}", 6)];
			for (ui, (uname, unit, ub)) in units.iter().enumerate() {
				for n in [65535usize, 65536, 65537] {
					if !ctx.thorough && n == 65537 && ui > 0 { continue; }
					let (k, pad) = (n / ub, n % ub);
					let text = format!("{}{}", unit.repeat(k), "a".repeat(pad));
					let t1 = text.clone();
					kinds.push((format!("source file name of {n} bytes in modified UTF-8: {k} x {uname} and {pad} x 'a'"), Box::new(move |t: &mut ClassFile| { t.source_file = Some(JavaString::from(t1.clone())); })));
					if ui == 0 || ui == 1 || ctx.thorough {
						let t2 = text.clone();
						kinds.push((format!("class renamed to a name of {n} bytes in modified UTF-8: {k} x {uname} and {pad} x 'a'"), Box::new(move |t: &mut ClassFile| { t.name = unsafe { ObjClassName::from_inner_unchecked(JavaString::from(t2.clone())) }; })));
					}
					if ui == 0 {
						let t3 = text.clone();
						kinds.push((format!("first field renamed to a name of {n} bytes"), Box::new(move |t: &mut ClassFile| { if let Some(f) = t.fields.get_mut(0) { f.name = unsafe { duke::tree::field::FieldName::from_inner_unchecked(JavaString::from(t3.clone())) }; } })));
					}
				}
			}
			for n in [65535usize, 65536] {
				kinds.push((format!("{n} interfaces"), Box::new(move |t: &mut ClassFile| { let name = t.name.clone(); t.interfaces = (0..n).map(|_| name.clone()).collect(); })));
				kinds.push((format!("{n} fields (copies of the first)"), Box::new(move |t: &mut ClassFile| { let f = t.fields[0].clone(); t.fields = (0..n).map(|_| f.clone()).collect(); })));
				kinds.push((format!("{n} methods (abstract copies of the first without its code)"), Box::new(move |t: &mut ClassFile| { let mut m = t.methods[0].clone(); m.code = None; m.access.is_static = false; m.access.is_abstract = true; t.methods = (0..n).map(|_| m.clone()).collect(); })));
				kinds.push((format!("{n} inner classes"), Box::new(move |t: &mut ClassFile| { t.inner_classes = Some((0..n).map(|_| InnerClass { inner_class: cn("A$B"), outer_class: Some(cn("A")), inner_name: Some(JavaString::from("B")), flags: InnerClassFlags::from(1u16) }).collect()); })));
				kinds.push((format!("{n} nest members"), Box::new(move |t: &mut ClassFile| { t.nest_members = Some((0..n).map(|_| cn("A$B")).collect()); })));
				kinds.push((format!("{n} permitted subclasses"), Box::new(move |t: &mut ClassFile| { t.permitted_subclasses = Some((0..n).map(|_| cn("B")).collect()); })));
				kinds.push((format!("{n} declared exceptions on the method"), Box::new(move |t: &mut ClassFile| { t.methods[0].exceptions = Some((0..n).map(|_| cn("E")).collect()); })));
				kinds.push((format!("{n} line numbers (copies of the one of the method)"), Box::new(move |t: &mut ClassFile| { if let Some(c) = t.methods[0].code.as_mut() { if let Some(e) = c.line_numbers.as_ref().and_then(|v| v.first().cloned()) { c.line_numbers = Some((0..n).map(|_| (e.0, 7u16)).collect()); } } })));
				kinds.push((format!("{n} local variables (copies of the one of the method)"), Box::new(move |t: &mut ClassFile| { if let Some(c) = t.methods[0].code.as_mut() { if let Some(e) = c.local_variables.as_ref().and_then(|v| v.first().cloned()) { c.local_variables = Some((0..n).map(|_| e.clone()).collect()); } } })));
				kinds.push((format!("{n} exception table entries (copies of the one of the method)"), Box::new(move |t: &mut ClassFile| { if let Some(c) = t.methods[0].code.as_mut() { if let Some(e) = c.exception_table.first().cloned() { c.exception_table = (0..n).map(|_| e.clone()).collect(); } } })));
				kinds.push((format!("{n} runtime-visible annotations on the class"), Box::new(move |t: &mut ClassFile| { t.runtime_visible_annotations = (0..n).map(|_| Annotation::new(fd("LN;"))).collect(); })));
				kinds.push((format!("one runtime-invisible annotation with {n} element-value pairs on the first field"), Box::new(move |t: &mut ClassFile| {
					let mut a = Annotation::new(fd("LN;")); a.element_value_pairs = (0..n).map(|_| ElementValuePair { name: JavaString::from("v"), value: ElementValue::Object(Object::Integer(7)) }).collect();
					t.fields[0].runtime_invisible_annotations = vec![a]; })));
				kinds.push((format!("annotation default that is an array of {n} values"), Box::new(move |t: &mut ClassFile| { t.methods[0].annotation_default = Some(ElementValue::ArrayType((0..n).map(|_| ElementValue::Object(Object::Boolean(true))).collect())); })));
			}
			// the constant pool at its limit: a class without methods whose fields f0.. fill the pool (constant_pool_count = 6 + n
			// with plain fields; = 10 + n when the last field has type J and a long ConstantValue, whose two slots come last): the last
			// counts that fit and the first that do not
			for (with_long, edge) in [(false, 65529usize), (true, 65525)] {
				for n in (edge - 1)..=(edge + 2) {
					if !ctx.thorough && n == edge - 1 { continue; }
					kinds.push((format!("no methods, {n} fields f0.. of type I{} (constant_pool_count would be {})", if with_long { ", the last one of type J with ConstantValue 5" } else { "" }, if with_long { 10 + n } else { 6 + n }),
						Box::new(move |t: &mut ClassFile| {
							t.methods.clear();
							let f = t.fields[0].clone();
							t.fields = (0..n).map(|i| { let mut g = f.clone(); g.name = unsafe { duke::tree::field::FieldName::from_inner_unchecked(JavaString::from(format!("f{i}"))) }; g }).collect();
							if with_long { if let Some(l) = t.fields.last_mut() { l.descriptor = fd("J"); l.constant_value = Some(duke::tree::field::ConstantValue::Long(5)); } }
						})));
				}
			}
			for (what, f) in &kinds { through_mode(&mut run, "error-sites", &format!("edited tree: {what}"), &b, f.as_ref(), SIZES); }
		}
	}
	// 7c. near-equal strings: the two fields of a class renamed to names that a normalising or lossy comparison would call
	//     equal (the writer's pool finds a string that is already there by equality of the JavaStr) — unpaired surrogates that
	//     differ only in their value, a surrogate against U+FFFD, NUL, letter case, trailing blank, composed / decomposed
	{
		use duke::tree::field::FieldName;
		if let Ok(b) = mini::build(&MiniClass { n_fields: 2, methods: vec![MiniMethod { items: vec![bytes(&[RET])], ..Default::default() }] }) {
			let pairs: Vec<(&str, Vec<u32>, Vec<u32>)> = vec![
				("two high surrogates", vec![97, 0xD800], vec![97, 0xD801]),
				("two low surrogates", vec![0xDC00, 97], vec![0xDFFF, 97]),
				("a high against a low surrogate", vec![97, 0xD83D, 98], vec![97, 0xDE00, 98]),
				("an unpaired surrogate against U+FFFD", vec![97, 0xD800], vec![97, 0xFFFD]),
				("a supplementary character against its high surrogate alone", vec![0x1F600], vec![0xD83D]),
				("NUL at the end", vec![97, 0], vec![97]),
				("NUL against the two bytes C0 80 read as characters", vec![0], vec![0xC0, 0x80]),
				("letter case", vec![97, 98], vec![97, 66]),
				("trailing blank", vec![97], vec![97, 32]),
				("composed against decomposed", vec![0xE9], vec![101, 0x301]),
				("Kelvin sign against K", vec![0x212A], vec![75]),
			];
			for (what, x, y) in pairs {
				for swap in [false, true] {
					let (x, y) = if swap { (y.clone(), x.clone()) } else { (x.clone(), y.clone()) };
					let desc = format!("fields renamed to code points {x:?} and {y:?} ({what}); source file name = the second");
					let f = move |t: &mut ClassFile| {
						t.fields[0].name = unsafe { FieldName::from_inner_unchecked(JStr::from_code_points(&x).to_java()) };
						t.fields[1].name = unsafe { FieldName::from_inner_unchecked(JStr::from_code_points(&y).to_java()) };
						t.source_file = Some(JStr::from_code_points(&y).to_java());
					};
					through_edited(&mut run, "near-equal-strings", &desc, &b, &f);
				}
			}
		}
	}
	// 7d. every bit of every flag word on its own: the writer turns the flag structs of the tree into u16 with duke's
	//     `From<…> for u16`; the harness reads the tree's flags with its own table (facts_duke) and the written ones from the bytes
	{
		use duke::tree::class::{ClassAccess, ClassName, InnerClass, InnerClassFlags};
		use duke::tree::field::{FieldAccess, FieldName};
		use duke::tree::method::{MethodAccess, MethodName, MethodParameter, ParameterFlags};
		use java_string::JavaString;
		if let Ok(b) = mini::build(&MiniClass { n_fields: 1, methods: vec![MiniMethod { items: vec![bytes(&[RET])], ..Default::default() }] }) {
			let cn = |s: &str| unsafe { ClassName::from_inner_unchecked(JavaString::from(s)) };
			let members = move |t: &mut ClassFile| {
				t.inner_classes = Some((0..17u32).map(|k| InnerClass { inner_class: cn(&format!("A$I{k}")), outer_class: Some(cn("A")), inner_name: Some(JavaString::from(format!("I{k}"))),
					flags: InnerClassFlags::from(if k == 16 { 0xffffu16 } else { 1u16 << k }) }).collect());
				let f = t.fields[0].clone();
				t.fields = (0..17u32).map(|k| { let mut g = f.clone(); g.name = unsafe { FieldName::from_inner_unchecked(JavaString::from(format!("f{k}"))) };
					g.access = FieldAccess::from(if k == 16 { 0xffffu16 } else { 1u16 << k }); g }).collect();
				let mut m = t.methods[0].clone(); m.code = None;
				m.method_parameters = Some((0..17u32).map(|k| MethodParameter { name: None, flags: ParameterFlags::from(if k == 16 { 0xffffu16 } else { 1u16 << k }) }).collect());
				let first = t.methods[0].clone();
				t.methods = std::iter::once(first).chain((0..17u32).map(|k| { let mut g = m.clone(); g.name = unsafe { MethodName::from_inner_unchecked(JavaString::from(format!("m{k}"))) };
					g.access = MethodAccess::from((if k == 16 { 0xffffu16 } else { 1u16 << k }) | 0x0400); g })).collect();
			};
			through_edited(&mut run, "flag-bits", "one inner class, one field, one abstract method and one method parameter per single flag bit 0x0001 .. 0x8000 (and one with all bits)", &b, &members);
			for k in 0..17u32 {
				let bits = if k == 16 { 0xffffu16 } else { 1u16 << k };
				through_edited(&mut run, "flag-bits", &format!("class access flags read from {bits:#06x}"), &b, &move |t: &mut ClassFile| { t.access = ClassAccess::from(bits); });
			}
		}
	}
	// 8. classes generated by the shared class-file generator (every attribute kind, every constant
	//    kind, every general instruction), assembled under several layouts
	let n_gen = if ctx.thorough { 1200 } else { 160 };
	let cfg = GenCfg::default();
	for i in 0..n_gen {
		let spec = gen_class(&mut rng, &cfg);
		let fam = Knobs::family(ctx.seed ^ i as u64);
		let k = &fam[rng.below(fam.len())];
		match try_assemble(&spec, k) { Ok(b) => through(&mut run, "generated", &format!("gen_class #{i} seed {} knobs {:?}", ctx.seed, k), &b, None), Err(_) => run.r.count("generator_rejected") }
	}
	// 9. the shared boundary constructions
	{
		use gen::boundary as bd;
		let ops: &[&'static str] = if ctx.thorough { &["ifeq", "if_icmplt", "ifnonnull", "goto", "jsr"] } else { &["ifeq", "goto"] };
		for &op in ops {
			for d in [32766i32, 32767, 32768, 32769, 32770, -32766, -32767, -32768, -32769, -32770] {
				let (spec, k) = bd::branch_distance(op, d);
				if let Ok(b) = try_assemble(&spec, &k) { through(&mut run, "shared-boundary", &format!("branch_distance {op} {d}"), &b, None); }
			}
		}
		for kk in [2usize, 5] { let b = assemble(&bd::branch_chain(kk, 32767), &Knobs::default()); through(&mut run, "shared-boundary", &format!("branch_chain {kk} 32767"), &b, None); }
		through(&mut run, "shared-boundary", "switch_alignments", &assemble(&bd::switch_alignments(), &Knobs::default()), None);
		through(&mut run, "shared-boundary", "switch_alignments widest", &assemble(&bd::switch_alignments(), &Knobs { enc: Enc::Widest, ..Default::default() }), None);
		for (j, k) in bd::pool_crossing_knobs().iter().enumerate() { if ctx.thorough || j % 3 == 0 { through(&mut run, "shared-boundary", &format!("pool_crossing 40 knobs #{j}"), &assemble(&bd::pool_crossing(40), k), None); } }
		through(&mut run, "shared-boundary", "locals_crossing", &assemble(&bd::locals_crossing(), &Knobs::default()), None);
		through(&mut run, "shared-boundary", "locals_crossing widest", &assemble(&bd::locals_crossing(), &Knobs { enc: Enc::Widest, ..Default::default() }), None);
		for len in [65533usize, 65534, 65535] { through(&mut run, "shared-boundary", &format!("code_length {len}"), &assemble(&bd::code_length(len), &Knobs::default()), None); }
		through(&mut run, "shared-boundary", "code_length_ending_in_branch", &assemble(&bd::code_length_ending_in_branch(), &Knobs::default()), None);
		through(&mut run, "shared-boundary", "all_instructions", &assemble(&bd::all_instructions(), &Knobs::default()), None);
		through(&mut run, "shared-boundary", "all_instructions widest", &assemble(&bd::all_instructions(), &Knobs { enc: Enc::Widest, ..Default::default() }), None);
		if ctx.thorough {
			let spec = bd::pool_crossing(10);
			for front in [true, false] { if let Ok(k) = bd::pool_full_knobs(&spec, front) { through(&mut run, "shared-boundary", &format!("pool full front={front}"), &assemble(&spec, &k), None); } }
		}
		// the chain with one instruction inserted after reading: every conditional is now one byte too far
		for kk in [2usize, 5] {
			let b = assemble(&bd::branch_chain(kk, 32767), &Knobs::default());
			for at in [kk, kk + 100] {
				let f = move |t: &mut ClassFile| { if let Some(c) = t.methods.get_mut(0).and_then(|m| m.code.as_mut()) {
					c.instructions.insert(at, duke::tree::method::code::InstructionListEntry { label: None, frame: None, instruction: Instruction::Nop }); } };
				through_edited(&mut run, "chain-grown", &format!("branch_chain {kk} 32767 with a nop inserted at instruction {at}"), &b, &f);
			}
		}
	}
	// 9b. frames across restarts: the shared branch chain with frames on its targets; a nop inserted after
	//     reading puts every conditional one byte too far, so the loop starts over (the frames collected by the
	//     abandoned attempts must not be written)
	{
		use gen::boundary as bd;
		use fbh::classfile::asm::LabelId;
		for kk in [2usize, 4] {
			let mut spec = bd::branch_chain(kk, 32767);
			if let Some(c) = spec.methods[0].code.as_mut() {
				c.frames = Some((0..kk).map(|i| FrameG { at: LabelId(i as u32), kind: match i % 4 {
					0 => FrameKindG::Same,
					1 => FrameKindG::Append(vec![VTypeG::Object("java/lang/String".into()), VTypeG::Uninitialized(LabelId(0))]),
					2 => FrameKindG::Full { locals: vec![VTypeG::Integer, VTypeG::Long], stack: vec![VTypeG::Object("corp/gen/BranchChain".into())] },
					_ => FrameKindG::SameLocals1(VTypeG::Null),
				} }).collect());
			}
			let Ok(b) = try_assemble(&spec, &Knobs::default()) else { run.r.count("generator_rejected"); continue };
			through(&mut run, "frames-restart", &format!("branch_chain {kk} 32767 with frames on the targets"), &b, None);
			for at in [kk, kk + 100] {
				let f = move |t: &mut ClassFile| { if let Some(c) = t.methods.get_mut(0).and_then(|m| m.code.as_mut()) {
					c.instructions.insert(at, duke::tree::method::code::InstructionListEntry { label: None, frame: None, instruction: Instruction::Nop }); } };
				through_edited(&mut run, "frames-restart", &format!("branch_chain {kk} 32767 with frames on the targets and a nop inserted at instruction {at}"), &b, &f);
			}
		}
	}
	// 9b'. every frame shape at every offset_delta class: the short forms hold a delta below 64 in the frame type, the
	//      extended forms (same_frame_extended 251, same_locals_1_stack_item_frame_extended 247) a u16; gaps of
	//      1, 63, 64, 65, 130 bytes between the frames (delta = gap - 1), each shape at each gap
	{
		use fbh::classfile::asm::{CodeSpec, LabelId};
		let kinds: Vec<FrameKindG<LabelId>> = vec![
			FrameKindG::Same, FrameKindG::SameLocals1(VTypeG::Null), FrameKindG::SameLocals1(VTypeG::Object("java/lang/String".into())),
			FrameKindG::SameLocals1(VTypeG::Uninitialized(LabelId(0))), FrameKindG::Chop(1), FrameKindG::Chop(3),
			FrameKindG::Append(vec![VTypeG::Integer]), FrameKindG::Append(vec![VTypeG::Long, VTypeG::Object("corp/gen/FramesDelta".into()), VTypeG::Uninitialized(LabelId(1))]),
			FrameKindG::Full { locals: vec![], stack: vec![] }, FrameKindG::Full { locals: vec![VTypeG::Double, VTypeG::UninitializedThis], stack: vec![VTypeG::Float, VTypeG::Top] },
		];
		let gaps_all = [1usize, 63, 64, 65, 130];
		let rounds = if ctx.thorough { 10 } else { 3 };
		for round in 0..rounds {
			// a method with one frame per (kind, gap) pair, in an order that depends on the round
			let mut pairs: Vec<(usize, usize)> = vec![];
			for k in 0..kinds.len() { for g in 0..gaps_all.len() { pairs.push((k, g)); } }
			rng.shuffle(&mut pairs);
			if !ctx.thorough { pairs.truncate(25 + 5 * round); }
			let n = pairs.len();
			let mut c = CodeSpec::new(3, 3);
			for i in 0..n { c.insn(None, "ifeq", OperandG::Branch(LabelId(i as u32))); }
			let mut frames = vec![];
			for (i, (k, g)) in pairs.iter().enumerate() {
				// the first gap is measured from the last ifeq: any position will do for the first frame
				let gap = gaps_all[*g];
				for _ in 1..gap { c.op(None, "nop"); }
				c.op(Some(LabelId(i as u32)), "nop");
				frames.push(FrameG { at: LabelId(i as u32), kind: kinds[*k].clone() });
			}
			c.op(None, "return");
			c.frames = Some(frames);
			let spec = gen::class_with_code("corp/gen/FramesDelta", c);
			match try_assemble(&spec, &Knobs::default()) {
				Ok(b) => through(&mut run, "frames-delta", &format!("every frame shape at gaps 1/63/64/65/130, round {round} seed {}", ctx.seed), &b, None),
				Err(e) => { run.r.count("generator_rejected"); run.r.notes.push(format!("frames-delta: {e}")); run.r.notes.truncate(20); }
			}
		}
	}
	// 9c. frames that reading cannot produce: chop of 0 or 4 locals, append of 4 locals, an uninitialized type whose
	//     label is on no instruction, a frame on an instruction without label, more than 63 bytes between frames
	{
		let cfg = GenCfg::default();
		let want = if ctx.thorough { 120 } else { 24 };
		let (mut got, mut tries) = (0, 0);
		while got < want && tries < 40 * want {
			tries += 1;
			let spec = gen_class(&mut rng, &cfg);
			let Ok(b) = try_assemble(&spec, &Knobs::default()) else { continue };
			let Ok(Ok(t0)) = impl_read(&b) else { continue };
			let Some(mi) = t0.methods.iter().position(|m| m.code.as_ref().map_or(false, has_frames)) else { continue };
			let kind = got % 6; let sel = rng.next() as usize;
			let f = move |t: &mut ClassFile| {
				let Some(c) = t.methods.get_mut(mi).and_then(|m| m.code.as_mut()) else { return };
				let n = c.instructions.len();
				let first = c.instructions.iter().position(|e| e.frame.is_some()).unwrap_or(0);
				match kind {
					0 => c.instructions[first].frame = Some(StackMapData::Chop { k: if sel % 2 == 0 { 0 } else { 4 } }),
					1 => c.instructions[first].frame = Some(StackMapData::Append { locals: vec![VerificationTypeInfo::Integer; if sel % 2 == 0 { 4 } else { 0 }] }),
					2 => { let l = c.instructions.iter().filter_map(|e| e.label).last(); if let Some(l) = l {
						for e in &mut c.instructions { if e.label == Some(l) { e.label = None; } }
						c.instructions[first].frame = Some(StackMapData::SameLocals1StackItem { stack: VerificationTypeInfo::Uninitialized(l) }); } }
					3 => { for e in &mut c.instructions { if e.label.is_none() && e.frame.is_none() { e.frame = Some(StackMapData::Same); break; } } }
					4 => { for _ in 0..70 { c.instructions.insert(first + 1, duke::tree::method::code::InstructionListEntry { label: None, frame: None, instruction: Instruction::Nop }); }
						c.instructions[(first + 71).min(n + 69)].frame = Some(StackMapData::Full { locals: vec![VerificationTypeInfo::Top, VerificationTypeInfo::UninitializedThis], stack: vec![] }); }
					_ => { for e in &mut c.instructions { e.frame = None; } }
				}
			};
			got += 1;
			through(&mut run, "frames-mutated", &format!("gen_class with frames, mutation kind {kind} #{got}"), &b, Some(&f));
		}
	}
	// 10. corpus
	let mut files = fbh::classfile::corpus::corpus_classes();
	let mut extra = vec![]; collect(std::path::Path::new("/verif/corpus/C02"), &mut extra); extra.sort();
	for p in extra { if let Ok(b) = std::fs::read(&p) { files.push((p.display().to_string(), b)); } }
	let take = if ctx.thorough { files.len() } else { files.len().min(190) };
	let step = if ctx.thorough { 1 } else { (files.len() / take.max(1)).max(1) };
	let mut n_corpus = 0u64;
	for (name, b) in files.iter().step_by(step) { through(&mut run, "corpus", name, b, None); n_corpus += 1; }
	r.count_n("corpus_files", n_corpus);
	// spread the 65535-byte methods evenly over the shards
	let mut sh = Rng::new(ctx.seed ^ 0xC02);
	sh.shuffle(&mut r.cases);
	Ok(r)
}

fn collect(dir: &std::path::Path, out: &mut Vec<std::path::PathBuf>) {
	let Ok(rd) = std::fs::read_dir(dir) else { return };
	for e in rd.flatten() {
		let p = e.path();
		if p.is_dir() { collect(&p, out); } else if p.extension().map_or(false, |x| x == "class") { out.push(p); }
	}
}

fn main() -> anyhow::Result<()> { fbh::main_with(run) }
