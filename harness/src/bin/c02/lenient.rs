//! Minimal extraction of the Code attributes of a class file without any validation beyond
//! bounds (used for outputs of trees that reading cannot produce, which the strict parser may
//! reject for reasons that are not the writer's, e.g. an exception range with start >= end).
pub struct LCode { pub code: Vec<u8>, pub exc: Vec<(u16, u16, u16)>, pub lines: Vec<u16>, pub lvt: Vec<(u16, u16)>, pub lvtt: Vec<(u16, u16)>,
	/// the body of the StackMapTable attribute, as it is in the file
	pub stack_map: Option<Vec<u8>> }

struct R<'a> { b: &'a [u8], p: usize }
impl<'a> R<'a> {
	fn take(&mut self, n: usize) -> Option<&'a [u8]> { if self.p + n > self.b.len() { None } else { let s = &self.b[self.p..self.p + n]; self.p += n; Some(s) } }
	fn u1(&mut self) -> Option<u8> { Some(self.take(1)?[0]) }
	fn u2(&mut self) -> Option<u16> { let s = self.take(2)?; Some(u16::from_be_bytes([s[0], s[1]])) }
	fn u4(&mut self) -> Option<u32> { let s = self.take(4)?; Some(u32::from_be_bytes([s[0], s[1], s[2], s[3]])) }
}

pub fn codes(bytes: &[u8]) -> Option<Vec<Option<LCode>>> {
	let mut r = R { b: bytes, p: 0 };
	r.take(8)?;
	let count = r.u2()? as usize;
	let mut utf8: Vec<Option<&[u8]>> = vec![None; count.max(1)];
	let mut i = 1;
	while i < count {
		let tag = r.u1()?;
		match tag {
			1 => { let n = r.u2()? as usize; utf8[i] = Some(r.take(n)?); }
			3 | 4 => { r.take(4)?; }
			5 | 6 => { r.take(8)?; i += 1; }
			7 | 8 | 16 | 19 | 20 => { r.take(2)?; }
			9 | 10 | 11 | 12 | 17 | 18 => { r.take(4)?; }
			15 => { r.take(3)?; }
			_ => return None,
		}
		i += 1;
	}
	r.take(6)?;
	let n_if = r.u2()? as usize; r.take(2 * n_if)?;
	let n_fields = r.u2()?;
	for _ in 0..n_fields { r.take(6)?; let n = r.u2()?; for _ in 0..n { r.take(2)?; let l = r.u4()? as usize; r.take(l)?; } }
	let n_methods = r.u2()?;
	let mut out = vec![];
	for _ in 0..n_methods {
		r.take(6)?;
		let n = r.u2()?;
		let mut found = None;
		for _ in 0..n {
			let name = r.u2()? as usize; let l = r.u4()? as usize; let body = r.take(l)?;
			if utf8.get(name).copied().flatten() == Some(b"Code") {
				let mut c = R { b: body, p: 0 };
				c.take(4)?;
				let cl = c.u4()? as usize; let code = c.take(cl)?.to_vec();
				let ne = c.u2()?; let mut exc = vec![];
				for _ in 0..ne { exc.push((c.u2()?, c.u2()?, c.u2()?)); c.u2()?; }
				let na = c.u2()?;
				let (mut lines, mut lvt, mut lvtt) = (vec![], vec![], vec![]);
				let mut stack_map = None;
				for _ in 0..na {
					let an = c.u2()? as usize; let al = c.u4()? as usize; let ab = c.take(al)?;
					let mut a = R { b: ab, p: 0 };
					match utf8.get(an).copied().flatten() {
						Some(b"StackMapTable") => { stack_map = Some(ab.to_vec()); }
						Some(b"LineNumberTable") => { let k = a.u2()?; for _ in 0..k { lines.push(a.u2()?); a.u2()?; } }
						Some(b"LocalVariableTable") => { let k = a.u2()?; for _ in 0..k { lvt.push((a.u2()?, a.u2()?)); a.take(6)?; } }
						Some(b"LocalVariableTypeTable") => { let k = a.u2()?; for _ in 0..k { lvtt.push((a.u2()?, a.u2()?)); a.take(6)?; } }
						_ => {}
					}
				}
				found = Some(LCode { code, exc, lines, lvt, lvtt, stack_map });
			}
		}
		out.push(found);
	}
	Some(out)
}
