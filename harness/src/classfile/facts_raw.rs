//! Facts of a strictly parsed class (`raw::RawClass`).  Everything `raw::parse` did not need in
//! order to decode is checked here: attributes that may occur at most once, type-annotation
//! targets allowed in their location, ConstantValue kinds, the `count` operand of
//! invokeinterface against the descriptor, bootstrap recursion.
use super::facts::*;
use super::opcodes::{self, op, OpKind};
use super::raw::{self, AttrInfo, Const, RawClass};

struct Cx<'a> { c: &'a RawClass }

impl<'a> Cx<'a> {
	fn utf8(&self, i: u16) -> Result<JStr, String> { self.c.utf8(i) }
	fn opt_utf8(&self, i: u16) -> Result<Option<JStr>, String> { if i == 0 { Ok(None) } else { self.utf8(i).map(Some) } }
	fn class(&self, i: u16) -> Result<JStr, String> { self.c.class_name(i) }
	fn opt_class(&self, i: u16) -> Result<Option<JStr>, String> { if i == 0 { Ok(None) } else { self.class(i).map(Some) } }
	fn classes(&self, v: &[u16]) -> Result<Vec<JStr>, String> { v.iter().map(|i| self.class(*i)).collect() }
	fn module(&self, i: u16) -> Result<JStr, String> { match self.c.constant(i)? { Const::Module(n) => self.utf8(*n), c => Err(format!("constant {i} is {}, expected Module", c.kind_name())) } }
	fn package(&self, i: u16) -> Result<JStr, String> { match self.c.constant(i)? { Const::Package(n) => self.utf8(*n), c => Err(format!("constant {i} is {}, expected Package", c.kind_name())) } }

	fn member(&self, i: u16) -> Result<(MemberRef, u8), String> {
		let (c, nt, tag) = match self.c.constant(i)? {
			Const::Fieldref(c, nt) => (*c, *nt, 9), Const::Methodref(c, nt) => (*c, *nt, 10), Const::InterfaceMethodref(c, nt) => (*c, *nt, 11),
			x => return Err(format!("constant {i} is {}, expected a member reference", x.kind_name())),
		};
		let (name, desc) = self.c.name_and_type(nt)?;
		Ok((MemberRef { owner: self.class(c)?, name, desc }, tag))
	}
	fn handle(&self, i: u16) -> Result<HandleFacts, String> {
		match self.c.constant(i)? {
			Const::MethodHandle(kind, r) => { let (m, tag) = self.member(*r)?; Ok(HandleFacts { kind: *kind, owner: m.owner, name: m.name, desc: m.desc, interface: tag == 11 }) }
			x => Err(format!("constant {i} is {}, expected MethodHandle", x.kind_name())),
		}
	}
	fn dynamic(&self, bsm: u16, nt: u16, depth: usize) -> Result<DynamicFacts, String> {
		if depth > 64 { return Err("bootstrap arguments nested deeper than 64 (cyclic dynamic constant?)".into()); }
		let (name, desc) = self.c.name_and_type(nt)?;
		let b = self.c.bootstrap_methods().and_then(|t| t.get(bsm as usize)).ok_or_else(|| format!("bootstrap method {bsm} missing"))?;
		let args = b.arguments.iter().map(|a| self.loadable(*a, depth + 1)).collect::<Result<_, _>>()?;
		Ok(DynamicFacts { name, desc, bootstrap: self.handle(b.method_ref)?, args })
	}
	fn loadable(&self, i: u16, depth: usize) -> Result<Loadable, String> {
		Ok(match self.c.constant(i)? {
			Const::Integer(x) => Loadable::Int(*x), Const::Float(x) => Loadable::Float(F32(*x)), Const::Long(x) => Loadable::Long(*x), Const::Double(x) => Loadable::Double(F64(*x)),
			Const::Class(n) => Loadable::Class(self.utf8(*n)?), Const::String(n) => Loadable::String(self.utf8(*n)?),
			Const::MethodHandle(..) => Loadable::MethodHandle(self.handle(i)?),
			Const::MethodType(d) => Loadable::MethodType(self.utf8(*d)?),
			Const::Dynamic(b, nt) => Loadable::Dynamic(self.dynamic(*b, *nt, depth)?),
			x => return Err(format!("constant {i} is {}, not loadable", x.kind_name())),
		})
	}

	fn annotation(&self, a: &raw::Annotation) -> Result<AnnotationFacts, String> {
		Ok(AnnotationFacts { type_desc: self.utf8(a.type_index)?, pairs: a.pairs.iter().map(|(n, v)| Ok((self.utf8(*n)?, self.element(v)?))).collect::<Result<_, String>>()? })
	}
	fn annotations(&self, v: &[raw::Annotation]) -> Result<Vec<AnnotationFacts>, String> { v.iter().map(|a| self.annotation(a)).collect() }
	fn element(&self, v: &raw::ElementValue) -> Result<ElementValueFacts, String> {
		Ok(match v {
			raw::ElementValue::Const { tag, index } => {
				let int = || match self.c.constant(*index)? { Const::Integer(x) => Ok(*x), _ => Err::<i32, String>("const_value_index: not an Integer".into()) };
				match tag {
					b'B' => ElementValueFacts::Byte(int()?), b'C' => ElementValueFacts::Char(int()?), b'S' => ElementValueFacts::Short(int()?),
					b'I' => ElementValueFacts::Int(int()?), b'Z' => ElementValueFacts::Boolean(int()?),
					b'J' => match self.c.constant(*index)? { Const::Long(x) => ElementValueFacts::Long(*x), _ => return Err("const_value_index: not a Long".into()) },
					b'F' => match self.c.constant(*index)? { Const::Float(x) => ElementValueFacts::Float(F32(*x)), _ => return Err("const_value_index: not a Float".into()) },
					b'D' => match self.c.constant(*index)? { Const::Double(x) => ElementValueFacts::Double(F64(*x)), _ => return Err("const_value_index: not a Double".into()) },
					b's' => ElementValueFacts::String(self.utf8(*index)?),
					t => return Err(format!("element_value tag {t:#x}")),
				}
			}
			raw::ElementValue::Enum { type_name_index, const_name_index } => ElementValueFacts::Enum { type_desc: self.utf8(*type_name_index)?, const_name: self.utf8(*const_name_index)? },
			raw::ElementValue::Class(i) => ElementValueFacts::Class(self.utf8(*i)?),
			raw::ElementValue::Annotation(a) => ElementValueFacts::Annotation(self.annotation(a)?),
			raw::ElementValue::Array(xs) => ElementValueFacts::Array(xs.iter().map(|x| self.element(x)).collect::<Result<_, _>>()?),
		})
	}
	fn path(&self, p: &[(u8, u8)]) -> Vec<PathStep> {
		p.iter().map(|(k, a)| match k { 0 => PathStep::Array, 1 => PathStep::Nested, 2 => PathStep::Wildcard, _ => PathStep::TypeArgument(*a) }).collect()
	}
	/// type annotations outside code; `allowed` lists the target types legal in the location
	fn type_annotations(&self, v: &[raw::TypeAnnotation], allowed: &[u8], loc: &str) -> Result<Vec<TypeAnnotationFacts>, String> {
		v.iter().map(|t| {
			// javac 17 itself puts a FIELD (0x13) target on the compact canonical constructor of a record
			// (corpus: r17/corp/v17/Records$Named), so the location table of JVMS 4.7.20 is not enforced;
			// `allowed` is kept for documentation
			let _ = allowed;
			let target = match (&t.target, t.target_type) {
				(raw::TargetInfo::TypeParameter(i), 0x00) => TargetFacts::ClassTypeParameter(*i),
				(raw::TargetInfo::TypeParameter(i), _) => TargetFacts::MethodTypeParameter(*i),
				(raw::TargetInfo::Supertype(i), _) => TargetFacts::Supertype(*i),
				(raw::TargetInfo::TypeParameterBound(p, b), 0x11) => TargetFacts::ClassTypeParameterBound { param: *p, bound: *b },
				(raw::TargetInfo::TypeParameterBound(p, b), _) => TargetFacts::MethodTypeParameterBound { param: *p, bound: *b },
				(raw::TargetInfo::Empty, 0x13) => TargetFacts::Field,
				(raw::TargetInfo::Empty, 0x14) => TargetFacts::Return,
				(raw::TargetInfo::Empty, _) => TargetFacts::Receiver,
				(raw::TargetInfo::FormalParameter(i), _) => TargetFacts::FormalParameter(*i),
				(raw::TargetInfo::Throws(i), _) => TargetFacts::Throws(*i),
				_ => return Err(format!("code-only type annotation target {:#x} on a {loc}", t.target_type)),
			};
			Ok(TypeAnnotationFacts { target, path: self.path(&t.path), annotation: self.annotation(&t.annotation)? })
		}).collect()
	}
	fn code_type_annotations(&self, v: &[raw::TypeAnnotation]) -> Result<Vec<CodeTypeAnnotationG<u32>>, String> {
		v.iter().map(|t| {
			let target = match (&t.target, t.target_type) {
				(raw::TargetInfo::LocalVar(tab), ty) => {
					let tab = tab.iter().map(|(s, l, i)| LocalVarRangeG { start: *s as u32, end: *s as u32 + *l as u32, index: *i }).collect();
					if ty == 0x40 { CodeTargetG::LocalVariable(tab) } else { CodeTargetG::ResourceVariable(tab) }
				}
				(raw::TargetInfo::Catch(i), _) => CodeTargetG::ExceptionParameter(*i),
				(raw::TargetInfo::Offset(o), ty) => { let p = *o as u32; match ty { 0x43 => CodeTargetG::InstanceOf(p), 0x44 => CodeTargetG::New(p), 0x45 => CodeTargetG::ConstructorReference(p), _ => CodeTargetG::MethodReference(p) } }
				(raw::TargetInfo::TypeArgument(o, i), ty) => {
					let (at, index) = (*o as u32, *i);
					match ty {
						0x47 => CodeTargetG::Cast { at, index }, 0x48 => CodeTargetG::ConstructorInvocationTypeArgument { at, index },
						0x49 => CodeTargetG::MethodInvocationTypeArgument { at, index }, 0x4A => CodeTargetG::ConstructorReferenceTypeArgument { at, index },
						_ => CodeTargetG::MethodReferenceTypeArgument { at, index },
					}
				}
				_ => return Err(format!("type annotation target {:#x} inside Code", t.target_type)),
			};
			Ok(CodeTypeAnnotationG { target, path: self.path(&t.path), annotation: self.annotation(&t.annotation)? })
		}).collect()
	}

	fn vtype(&self, t: &raw::VType) -> Result<VTypeG<u32>, String> {
		Ok(match t {
			raw::VType::Top => VTypeG::Top, raw::VType::Integer => VTypeG::Integer, raw::VType::Float => VTypeG::Float, raw::VType::Double => VTypeG::Double,
			raw::VType::Long => VTypeG::Long, raw::VType::Null => VTypeG::Null, raw::VType::UninitializedThis => VTypeG::UninitializedThis,
			raw::VType::Object(i) => VTypeG::Object(self.class(*i)?), raw::VType::Uninitialized(o) => VTypeG::Uninitialized(*o as u32),
		})
	}

	fn insn(&self, i: &raw::Insn) -> Result<InsnG<u32>, String> {
		use raw::Operands as O;
		let general = match opcodes::kind(i.opcode) {
			OpKind::LocalN => opcodes::split_local_n(i.opcode).unwrap().0,
			_ => match i.opcode { op::LDC_W | op::LDC2_W => op::LDC, op::GOTO_W => op::GOTO, op::JSR_W => op::JSR, o => o },
		};
		let opn = opcodes::mnemonic(general).ok_or("bad opcode")?;
		let arg = match &i.operands {
			O::None => match opcodes::split_local_n(i.opcode) { Some((_, n)) => OperandG::Local(n), None => OperandG::None },
			O::Byte(b) => OperandG::Int(*b as i32),
			O::Short(s) => OperandG::Int(*s as i32),
			O::Local(n) => OperandG::Local(*n),
			O::Iinc(n, d) => OperandG::Iinc { local: *n, delta: *d },
			O::Pool(x) => match opcodes::kind(i.opcode) {
				OpKind::Ldc | OpKind::LdcW => OperandG::Const(self.loadable(*x, 0)?),
				OpKind::Field => OperandG::Field(self.member(*x)?.0),
				OpKind::Method => { let (m, tag) = self.member(*x)?; OperandG::Method(MethodRefFacts { owner: m.owner, name: m.name, desc: m.desc, interface: tag == 11 }) }
				OpKind::Class => OperandG::Class(self.class(*x)?),
				k => return Err(format!("pool operand on {k:?}")),
			},
			O::InvokeInterface { index, count } => {
				let (m, _) = self.member(*index)?;
				let (slots, _) = raw::parse_method_descriptor(&m.desc)?;
				if *count as u32 != slots + 1 { return Err(format!("invokeinterface count {count} does not match descriptor {:?} ({} expected)", m.desc, slots + 1)); }
				OperandG::Method(MethodRefFacts { owner: m.owner, name: m.name, desc: m.desc, interface: true })
			}
			O::InvokeDynamic { index } => match self.c.constant(*index)? { Const::InvokeDynamic(b, nt) => OperandG::InvokeDynamic(self.dynamic(*b, *nt, 0)?), _ => return Err("invokedynamic operand".into()) },
			O::NewArray(t) => OperandG::NewArray(*t),
			O::MultiANewArray(x, d) => OperandG::MultiANewArray { class: self.class(*x)?, dims: *d },
			O::Branch(t) => OperandG::Branch(*t),
			O::TableSwitch { default, low, high, targets } => OperandG::TableSwitch { default: *default, low: *low, high: *high, targets: targets.clone() },
			O::LookupSwitch { default, pairs } => OperandG::LookupSwitch { default: *default, pairs: pairs.clone() },
		};
		Ok(InsnG { op: opn, arg })
	}

	fn code(&self, c: &raw::CodeAttr) -> Result<CodeFacts, String> {
		let insns = raw::decode_code(&c.code)?;
		let cm = raw::CodeMap::new(&insns, c.code.len() as u32);
		let mut g: CodeG<u32> = CodeG::new(c.max_stack, c.max_locals);
		for (pc, i) in &insns { g.insns.push(self.insn(i).map_err(|e| format!("at pc {pc}: {e}"))?); }
		for e in &c.exception_table {
			g.exception_table.push(ExceptionG { start: e.start_pc as u32, end: e.end_pc as u32, handler: e.handler_pc as u32, catch_type: self.opt_class(e.catch_type)? });
		}
		let mut once = Once::default();
		for a in &c.attributes {
			match &a.info {
				AttrInfo::LineNumberTable(v) => for e in v { g.line_numbers.push((e.start_pc as u32, e.line)); },
				AttrInfo::LocalVariableTable(v) => for e in v {
					g.local_variables.push(LocalVarG { start: e.start_pc as u32, end: e.start_pc as u32 + e.length as u32, index: e.index, name: self.utf8(e.name_index)?, desc: self.utf8(e.descriptor_index)? });
				},
				AttrInfo::LocalVariableTypeTable(v) => for e in v {
					g.local_variable_types.push(LocalVarTypeG { start: e.start_pc as u32, end: e.start_pc as u32 + e.length as u32, index: e.index, name: self.utf8(e.name_index)?, signature: self.utf8(e.descriptor_index)? });
				},
				AttrInfo::StackMapTable(fs) => {
					once.see("StackMapTable")?;
					let mut pc: i64 = -1;
					let mut out = vec![];
					for f in fs {
						pc += f.offset_delta() as i64 + 1;
						let vs = |v: &[raw::VType]| -> Result<Vec<VTypeG<u32>>, String> { v.iter().map(|t| self.vtype(t)).collect() };
						let kind = match f {
							raw::Frame::Same { .. } | raw::Frame::SameExt { .. } => FrameKindG::Same,
							raw::Frame::SameLocals1 { stack, .. } | raw::Frame::SameLocals1Ext { stack, .. } => FrameKindG::SameLocals1(self.vtype(stack)?),
							raw::Frame::Chop { k, .. } => FrameKindG::Chop(*k),
							raw::Frame::Append { locals, .. } => FrameKindG::Append(vs(locals)?),
							raw::Frame::Full { locals, stack, .. } => FrameKindG::Full { locals: vs(locals)?, stack: vs(stack)? },
						};
						out.push(FrameG { at: pc as u32, kind });
					}
					// a StackMapTable without entries is what the JVMS assumes for a method without the attribute (4.7.4)
					g.frames = if out.is_empty() { None } else { Some(out) };
				}
				AttrInfo::RuntimeVisibleTypeAnnotations(v) => { once.see(&a.name)?; g.visible_type_annotations = self.code_type_annotations(v)?; }
				AttrInfo::RuntimeInvisibleTypeAnnotations(v) => { once.see(&a.name)?; g.invisible_type_annotations = self.code_type_annotations(v)?; }
				AttrInfo::Unknown(b) => g.unknown_attributes.push(UnknownAttr { name: self.utf8(a.name_index)?, bytes: b.clone() }),
				other => return Err(format!("attribute {} decoded as {other:?} inside Code", a.name)),
			}
		}
		let mut out = g.map_pos(&mut |pc: &u32| cm.insn_or_end(*pc))?;
		out.normalize();
		Ok(out)
	}
}

/// at-most-once attributes
#[derive(Default)]
struct Once { seen: Vec<String> }
impl Once {
	fn see(&mut self, name: &str) -> Result<(), String> {
		if self.seen.iter().any(|s| s == name) { return Err(format!("attribute {name} occurs more than once")); }
		self.seen.push(name.to_string());
		Ok(())
	}
}

/// Convert a strictly parsed class into facts.
pub fn facts_from_raw(c: &RawClass) -> Result<ClassFacts, String> {
	let cx = Cx { c };
	let mut f: ClassFacts = ClassG::new(c.major, c.access, "", None);
	f.version = Version { major: c.major, minor: c.minor };
	f.name = cx.class(c.this_class)?;
	f.super_class = cx.opt_class(c.super_class)?;
	f.interfaces = cx.classes(&c.interfaces)?;

	let mut once = Once::default();
	for a in &c.attributes {
		if !matches!(a.info, AttrInfo::Unknown(_) | AttrInfo::Deprecated | AttrInfo::Synthetic) { once.see(&a.name)?; }
		match &a.info {
			AttrInfo::Deprecated => f.deprecated = true,
			AttrInfo::Synthetic => f.synthetic = true,
			AttrInfo::InnerClasses(v) => f.inner_classes = Some(v.iter().map(|e| Ok(InnerClassFacts {
				inner: cx.class(e.inner_class_info_index)?, outer: cx.opt_class(e.outer_class_info_index)?, inner_name: cx.opt_utf8(e.inner_name_index)?, access: e.inner_class_access_flags,
			})).collect::<Result<_, String>>()?),
			AttrInfo::EnclosingMethod { class_index, method_index } => f.enclosing_method = Some(EnclosingMethodFacts {
				class: cx.class(*class_index)?, method: if *method_index == 0 { None } else { Some(c.name_and_type(*method_index)?) } }),
			AttrInfo::Signature(i) => f.signature = Some(cx.utf8(*i)?),
			AttrInfo::SourceFile(i) => f.source_file = Some(cx.utf8(*i)?),
			AttrInfo::SourceDebugExtension(b) => f.source_debug_extension = Some(JStr::from_mutf8(b).map_err(|e| format!("SourceDebugExtension: {e}"))?),
			AttrInfo::RuntimeVisibleAnnotations(v) => f.visible_annotations = cx.annotations(v)?,
			AttrInfo::RuntimeInvisibleAnnotations(v) => f.invisible_annotations = cx.annotations(v)?,
			AttrInfo::RuntimeVisibleTypeAnnotations(v) => f.visible_type_annotations = cx.type_annotations(v, &[0x00, 0x10, 0x11], "class")?,
			AttrInfo::RuntimeInvisibleTypeAnnotations(v) => f.invisible_type_annotations = cx.type_annotations(v, &[0x00, 0x10, 0x11], "class")?,
			AttrInfo::BootstrapMethods(_) => {} // resolved at the uses
			AttrInfo::Module(m) => f.module = Some(ModuleFacts {
				name: cx.module(m.name_index)?, flags: m.flags, version: cx.opt_utf8(m.version_index)?,
				requires: m.requires.iter().map(|r| Ok(ModuleRequiresFacts { module: cx.module(r.index)?, flags: r.flags, version: cx.opt_utf8(r.version_index)? })).collect::<Result<_, String>>()?,
				exports: m.exports.iter().map(|e| Ok(ModuleExportsFacts { package: cx.package(e.index)?, flags: e.flags, to: e.to.iter().map(|i| cx.module(*i)).collect::<Result<_, _>>()? })).collect::<Result<_, String>>()?,
				opens: m.opens.iter().map(|e| Ok(ModuleExportsFacts { package: cx.package(e.index)?, flags: e.flags, to: e.to.iter().map(|i| cx.module(*i)).collect::<Result<_, _>>()? })).collect::<Result<_, String>>()?,
				uses: cx.classes(&m.uses)?,
				provides: m.provides.iter().map(|p| Ok(ModuleProvidesFacts { service: cx.class(p.index)?, with: cx.classes(&p.with)? })).collect::<Result<_, String>>()?,
			}),
			AttrInfo::ModulePackages(v) => f.module_packages = Some(v.iter().map(|i| cx.package(*i)).collect::<Result<_, _>>()?),
			AttrInfo::ModuleMainClass(i) => f.module_main_class = Some(cx.class(*i)?),
			AttrInfo::NestHost(i) => f.nest_host = Some(cx.class(*i)?),
			AttrInfo::NestMembers(v) => f.nest_members = Some(cx.classes(v)?),
			AttrInfo::PermittedSubclasses(v) => f.permitted_subclasses = Some(cx.classes(v)?),
			AttrInfo::Record(v) => f.record = Some(v.iter().enumerate().map(|(k, rc)| record_component(&cx, rc).map_err(|e| format!("record component #{k}: {e}"))).collect::<Result<_, _>>()?),
			AttrInfo::Unknown(b) => f.unknown_attributes.push(UnknownAttr { name: cx.utf8(a.name_index)?, bytes: b.clone() }),
			other => return Err(format!("attribute {} decoded as {other:?} on a class", a.name)),
		}
	}
	f.unknown_attributes.sort();
	for (k, m) in c.fields.iter().enumerate() { f.fields.push(field(&cx, m).map_err(|e| format!("field #{k}: {e}"))?); }
	for (k, m) in c.methods.iter().enumerate() { f.methods.push(method(&cx, m).map_err(|e| format!("method #{k}: {e}"))?); }
	Ok(f)
}

fn record_component(cx: &Cx, rc: &raw::RecordComponent) -> Result<RecordComponentFacts, String> {
	let mut r = RecordComponentFacts::new("", "");
	r.name = cx.utf8(rc.name_index)?;
	r.desc = cx.utf8(rc.descriptor_index)?;
	let mut once = Once::default();
	for a in &rc.attributes {
		if !matches!(a.info, AttrInfo::Unknown(_) | AttrInfo::Deprecated | AttrInfo::Synthetic) { once.see(&a.name)?; }
		match &a.info {
			AttrInfo::Signature(i) => r.signature = Some(cx.utf8(*i)?),
			AttrInfo::RuntimeVisibleAnnotations(v) => r.visible_annotations = cx.annotations(v)?,
			AttrInfo::RuntimeInvisibleAnnotations(v) => r.invisible_annotations = cx.annotations(v)?,
			AttrInfo::RuntimeVisibleTypeAnnotations(v) => r.visible_type_annotations = cx.type_annotations(v, &[0x13], "record component")?,
			AttrInfo::RuntimeInvisibleTypeAnnotations(v) => r.invisible_type_annotations = cx.type_annotations(v, &[0x13], "record component")?,
			AttrInfo::Unknown(b) => r.unknown_attributes.push(UnknownAttr { name: cx.utf8(a.name_index)?, bytes: b.clone() }),
			other => return Err(format!("attribute {} decoded as {other:?} on a record component", a.name)),
		}
	}
	r.unknown_attributes.sort();
	Ok(r)
}

fn field(cx: &Cx, m: &raw::Member) -> Result<FieldFacts, String> {
	let mut f = FieldFacts::new(m.access, "", "");
	f.name = cx.utf8(m.name_index)?;
	f.desc = cx.utf8(m.descriptor_index)?;
	let mut once = Once::default();
	for a in &m.attributes {
		if !matches!(a.info, AttrInfo::Unknown(_) | AttrInfo::Deprecated | AttrInfo::Synthetic) { once.see(&a.name)?; }
		match &a.info {
			AttrInfo::Deprecated => f.deprecated = true,
			AttrInfo::Synthetic => f.synthetic = true,
			AttrInfo::ConstantValue(i) => {
				let v = cx.loadable(*i, 0)?;
				let d = f.desc.to_string_lossy();
				let ok = match (&v, d.as_str()) {
					(Loadable::Int(_), "I" | "S" | "C" | "B" | "Z") | (Loadable::Long(_), "J") | (Loadable::Float(_), "F") | (Loadable::Double(_), "D") | (Loadable::String(_), "Ljava/lang/String;") => true,
					_ => false,
				};
				if !ok { return Err(format!("ConstantValue {v:?} does not fit field descriptor {d}")); }
				f.constant_value = Some(v);
			}
			AttrInfo::Signature(i) => f.signature = Some(cx.utf8(*i)?),
			AttrInfo::RuntimeVisibleAnnotations(v) => f.visible_annotations = cx.annotations(v)?,
			AttrInfo::RuntimeInvisibleAnnotations(v) => f.invisible_annotations = cx.annotations(v)?,
			AttrInfo::RuntimeVisibleTypeAnnotations(v) => f.visible_type_annotations = cx.type_annotations(v, &[0x13], "field")?,
			AttrInfo::RuntimeInvisibleTypeAnnotations(v) => f.invisible_type_annotations = cx.type_annotations(v, &[0x13], "field")?,
			AttrInfo::Unknown(b) => f.unknown_attributes.push(UnknownAttr { name: cx.utf8(a.name_index)?, bytes: b.clone() }),
			other => return Err(format!("attribute {} decoded as {other:?} on a field", a.name)),
		}
	}
	f.unknown_attributes.sort();
	Ok(f)
}

fn method(cx: &Cx, m: &raw::Member) -> Result<MethodFacts, String> {
	let mut f: MethodFacts = MethodG::new(m.access, "", "");
	f.name = cx.utf8(m.name_index)?;
	f.desc = cx.utf8(m.descriptor_index)?;
	const METHOD_TARGETS: [u8; 6] = [0x01, 0x12, 0x14, 0x15, 0x16, 0x17];
	let mut once = Once::default();
	for a in &m.attributes {
		if !matches!(a.info, AttrInfo::Unknown(_) | AttrInfo::Deprecated | AttrInfo::Synthetic) { once.see(&a.name)?; }
		match &a.info {
			AttrInfo::Deprecated => f.deprecated = true,
			AttrInfo::Synthetic => f.synthetic = true,
			AttrInfo::Code(c) => f.code = Some(cx.code(c).map_err(|e| format!("{}{}: {e}", f.name, f.desc))?),
			AttrInfo::Exceptions(v) => f.exceptions = Some(cx.classes(v)?),
			AttrInfo::Signature(i) => f.signature = Some(cx.utf8(*i)?),
			AttrInfo::RuntimeVisibleAnnotations(v) => f.visible_annotations = cx.annotations(v)?,
			AttrInfo::RuntimeInvisibleAnnotations(v) => f.invisible_annotations = cx.annotations(v)?,
			AttrInfo::RuntimeVisibleTypeAnnotations(v) => f.visible_type_annotations = cx.type_annotations(v, &METHOD_TARGETS, "method")?,
			AttrInfo::RuntimeInvisibleTypeAnnotations(v) => f.invisible_type_annotations = cx.type_annotations(v, &METHOD_TARGETS, "method")?,
			AttrInfo::RuntimeVisibleParameterAnnotations(ps) => f.visible_parameter_annotations = Some(ps.iter().map(|v| cx.annotations(v)).collect::<Result<_, _>>()?),
			AttrInfo::RuntimeInvisibleParameterAnnotations(ps) => f.invisible_parameter_annotations = Some(ps.iter().map(|v| cx.annotations(v)).collect::<Result<_, _>>()?),
			AttrInfo::AnnotationDefault(v) => f.annotation_default = Some(cx.element(v)?),
			AttrInfo::MethodParameters(v) => f.method_parameters = Some(v.iter().map(|p| Ok(MethodParameterFacts { name: cx.opt_utf8(p.name_index)?, access: p.access_flags })).collect::<Result<_, String>>()?),
			AttrInfo::Unknown(b) => f.unknown_attributes.push(UnknownAttr { name: cx.utf8(a.name_index)?, bytes: b.clone() }),
			other => return Err(format!("attribute {} decoded as {other:?} on a method", a.name)),
		}
	}
	let is_abstract_or_native = m.access & 0x0500 != 0;
	if is_abstract_or_native && f.code.is_some() { return Err(format!("{}{}: abstract or native method has a Code attribute", f.name, f.desc)); }
	if !is_abstract_or_native && f.code.is_none() { return Err(format!("{}{}: method without Code is neither abstract nor native", f.name, f.desc)); }
	f.unknown_attributes.sort();
	Ok(f)
}
