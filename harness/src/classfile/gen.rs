//! Generators of `ClassSpec`s: a random generator of small, feature-rich classes (`gen_class`),
//! and deterministic boundary constructions (`boundary::*`).  The generated classes are
//! structurally valid class files (they pass `raw::parse` and `facts_from_raw`) but not verifiable
//! programs: instruction sequences are random.
use super::asm::*;
use super::facts::*;
use super::opcodes::{self, OpKind};
use crate::prng::Rng;

#[derive(Debug, Clone)]
pub struct GenCfg {
	pub max_fields: usize,
	pub max_methods: usize,
	/// typical upper bound of instructions per method (one in 30 methods gets up to 8 times as many)
	pub max_insns: usize,
	pub min_major: u16,
	pub max_major: u16,
	/// jsr / ret among the instructions
	pub jsr_ret: bool,
	/// module-info, record, annotation-interface flavours (otherwise plain classes and interfaces only)
	pub flavours: bool,
	/// attributes unknown to the JVMS at every level (and predefined names at foreign locations)
	pub unknown_attributes: bool,
	/// strings with NUL, non-BMP characters and lone surrogates; names with non-ASCII characters
	pub exotic_strings: bool,
	/// local variable indices above 255 and up to 65534
	pub big_locals: bool,
	/// the end-of-code label as `end` of exception ranges, local-variable ranges and type-annotation ranges
	pub end_positions: bool,
	/// annotation element values outside the range of their tag: `Byte(300)`, `Boolean(2)`, `Char(0xd800)` is fine, …
	pub out_of_range_elements: bool,
}
impl Default for GenCfg {
	fn default() -> Self { GenCfg { max_fields: 2, max_methods: 3, max_insns: 10, min_major: 49, max_major: 66, jsr_ret: true, flavours: true, unknown_attributes: true, exotic_strings: true, big_locals: true, end_positions: true, out_of_range_elements: false } }
}

const WORDS: [&str; 24] = ["a", "b", "foo", "bar", "Baz", "get", "set", "value", "x1", "this$0", "val$x", "lambda$main$0", "access$000", "of", "Impl", "Util", "Node", "next", "size", "_", "$", "I", "m", "T"];
const PKGS: [&str; 8] = ["java/lang", "java/util", "corp/gen", "a/b/c", "x", "org/example/deep/pkg", "net/minecraft", "p"];

struct G<'a> { r: &'a mut Rng, cfg: &'a GenCfg, major: u16, next_label: u32, plain_floats: bool }

impl<'a> G<'a> {
	fn ch(&mut self, num: usize, den: usize) -> bool { self.r.chance(num, den) }
	fn ident(&mut self) -> JStr {
		let mut s = JStr::new(*self.r.pick(&WORDS));
		if self.ch(1, 4) { s.0.extend(JStr::new(&format!("{}", self.r.below(100))).0); }
		if self.cfg.exotic_strings && self.ch(1, 12) {
			match self.r.below(4) { 0 => s.0.extend(JStr::new("é").0), 1 => s.0.extend(JStr::new("中文").0), 2 => s.0.extend(JStr::new("😀").0), _ => s.0.push(0xD800 + self.r.below(0x800) as u16) }
		}
		s
	}
	fn method_name(&mut self) -> JStr { match self.r.below(10) { 0 => JStr::new("<init>"), 1 => JStr::new("<clinit>"), _ => self.ident() } }
	fn class_name(&mut self) -> JStr {
		let mut s = if self.ch(1, 8) { JStr::new("") } else { let mut p = JStr::new(*self.r.pick(&PKGS)); p.0.push(b'/' as u16); p };
		s.0.extend(self.ident().0);
		if self.ch(1, 4) { s.0.push(b'$' as u16); s.0.extend(self.ident().0); }
		s
	}
	fn package(&mut self) -> JStr { JStr::new(*self.r.pick(&PKGS)) }
	fn module_name(&mut self) -> JStr { JStr::new(&self.r.pick(&PKGS).replace('/', ".")) }
	fn field_type(&mut self) -> JStr {
		let dims = if self.ch(1, 5) { self.r.range(1, 3) } else { 0 };
		let mut s = JStr::new(&"[".repeat(dims));
		match self.r.below(12) {
			0..=7 => s.0.push(b"BCDFIJSZ"[self.r.below(8)] as u16),
			_ => { s.0.push(b'L' as u16); s.0.extend(self.class_name().0); s.0.push(b';' as u16); }
		}
		s
	}
	fn method_desc(&mut self) -> JStr {
		let mut s = JStr::new("(");
		for _ in 0..self.r.below(4) { s.0.extend(self.field_type().0); }
		s.0.push(b')' as u16);
		if self.ch(1, 3) { s.0.push(b'V' as u16); } else { s.0.extend(self.field_type().0); }
		s
	}
	/// class name usable where arrays are allowed (anewarray, checkcast, instanceof, ldc)
	fn class_or_array(&mut self) -> JStr {
		if self.ch(1, 4) { let mut t = self.field_type(); if t.0[0] != b'[' as u16 { let mut a = JStr::new("["); a.0.append(&mut t.0); a } else { t } } else { self.class_name() }
	}
	fn string(&mut self) -> JStr {
		if !self.cfg.exotic_strings { return JStr::new(["", "hello", "a b", "x\"y\\z"][self.r.below(4)]); }
		match self.r.below(12) {
			0 => JStr::new(""), 1 => JStr(vec![0]), 2 => JStr::new("é\u{7ff}\u{800}\u{ffff}"), 3 => JStr::new("😀 smile"), 4 => JStr(vec![0xD800]), 5 => JStr(vec![0xDC00, 0xD800, 0x41]),
			6 => JStr::new("line\nbreak\ttab \"quoted\" back\\slash"), 7 => JStr::new(&"long ".repeat(self.r.range(10, 60))), 8 => JStr(vec![0x7f, 0x80, 0x01]),
			_ => { let mut s = self.ident(); s.0.push(b' ' as u16); s.0.extend(self.ident().0); s }
		}
	}
	fn int(&mut self) -> i32 { *self.r.pick(&[0, 1, -1, 5, 6, 127, 128, -128, -129, 255, 256, 32767, 32768, -32768, -32769, 65535, 65536, i32::MAX, i32::MIN, 0x7A00_0001, 123456789]) }
	fn float(&mut self) -> F32 { F32(*self.r.pick(&[0, 0x8000_0000, 0x3f80_0000, 0x7f80_0000, 0xff80_0000, 0x7fc0_0000, 0x7fc0_0001, 0xffc1_2345, 0x7f7f_ffff, 1, 0x4048_f5c3])) }
	fn long(&mut self) -> i64 { *self.r.pick(&[0, 1, -1, 2, i64::MAX, i64::MIN, 1 << 32, 0x7A00_0000_0001, 1234567890123]) }
	fn double(&mut self) -> F64 { F64(*self.r.pick(&[0, 0x8000_0000_0000_0000, 0x3ff0_0000_0000_0000, 0x7ff0_0000_0000_0000, 0x7ff8_0000_0000_0000, 0x7ff8_0000_0000_0001, 0xfff4_5678_9abc_def0, 1, 0x4009_21fb_5444_2d18])) }

	fn handle(&mut self) -> HandleFacts {
		let kind = self.r.range(1, 9) as u8;
		let owner = self.class_name();
		match kind {
			1..=4 => HandleFacts { kind, owner, name: self.ident(), desc: self.field_type(), interface: false },
			_ => {
				let interface = match kind { 9 => true, 6 | 7 => self.major >= 52 && self.ch(1, 3), _ => false };
				let name = if kind == 8 { JStr::new("<init>") } else { self.ident() };
				HandleFacts { kind, owner, name, desc: self.method_desc(), interface }
			}
		}
	}
	fn dynamic(&mut self, depth: usize, method: bool) -> DynamicFacts {
		let n = self.r.below(4);
		let args = (0..n).map(|_| self.loadable(depth + 1)).collect();
		let bootstrap = HandleFacts { kind: 6, owner: self.class_name(), name: self.ident(), desc: JStr::new("(Ljava/lang/invoke/MethodHandles$Lookup;Ljava/lang/String;Ljava/lang/Object;)Ljava/lang/Object;"), interface: false };
		let bootstrap = if self.ch(1, 3) { self.handle() } else { bootstrap };
		DynamicFacts { name: self.ident(), desc: if method { self.method_desc() } else { self.field_type() }, bootstrap, args }
	}
	fn loadable(&mut self, depth: usize) -> Loadable {
		match self.r.below(if depth >= 2 { 9 } else { 11 }) {
			0 | 1 => Loadable::Int(self.int()), 2 => Loadable::Float(self.float()), 3 => Loadable::Long(self.long()), 4 => Loadable::Double(self.double()),
			5 => Loadable::Class(self.class_or_array()), 6 => Loadable::String(self.string()), 7 => Loadable::MethodHandle(self.handle()), 8 => Loadable::MethodType(self.method_desc()),
			_ => Loadable::Dynamic(self.dynamic(depth, false)),
		}
	}

	fn element(&mut self, depth: usize) -> ElementValueFacts {
		match self.r.below(if depth >= 3 { 11 } else { 13 }) {
			0 => ElementValueFacts::Byte(if self.cfg.out_of_range_elements && self.ch(1, 4) { 300 } else { *self.r.pick(&[0, -128, 127, 1]) }),
			1 => ElementValueFacts::Char(if self.cfg.out_of_range_elements && self.ch(1, 4) { 0x10000 } else { *self.r.pick(&[0, 65, 0xffff, 0xd800]) }),
			2 => ElementValueFacts::Short(if self.cfg.out_of_range_elements && self.ch(1, 4) { 40000 } else { *self.r.pick(&[0, -32768, 32767]) }),
			3 => ElementValueFacts::Int(self.int()),
			4 => ElementValueFacts::Boolean(if self.cfg.out_of_range_elements && self.ch(1, 4) { 2 } else { self.r.below(2) as i32 }),
			5 => ElementValueFacts::Long(self.long()),
			// facts_from_duke reads record components through Debug output, which prints every NaN alike
			6 => ElementValueFacts::Float(if self.plain_floats { F32::of(1.5) } else { self.float() }),
			7 => ElementValueFacts::Double(if self.plain_floats { F64::of(-2.25) } else { self.double() }), 8 => ElementValueFacts::String(self.string()),
			9 => ElementValueFacts::Enum { type_desc: self.obj_desc(), const_name: self.ident() },
			10 => ElementValueFacts::Class(if self.ch(1, 4) { JStr::new("V") } else { self.field_type() }),
			11 => ElementValueFacts::Annotation(self.annotation(depth + 1)),
			_ => { let n = self.r.below(4); ElementValueFacts::Array((0..n).map(|_| self.element(depth + 1)).collect()) }
		}
	}
	fn obj_desc(&mut self) -> JStr { let mut s = JStr::new("L"); s.0.extend(self.class_name().0); s.0.push(b';' as u16); s }
	fn annotation(&mut self, depth: usize) -> AnnotationFacts {
		let n = self.r.below(4);
		AnnotationFacts { type_desc: self.obj_desc(), pairs: (0..n).map(|_| (self.ident(), self.element(depth))).collect() }
	}
	fn annotations(&mut self, p: usize) -> Vec<AnnotationFacts> { if self.ch(p, 100) { let n = self.r.range(1, 3); (0..n).map(|_| self.annotation(0)).collect() } else { vec![] } }
	fn path(&mut self) -> Vec<PathStep> {
		let n = if self.ch(1, 2) { 0 } else { self.r.below(4) };
		(0..n).map(|_| match self.r.below(4) { 0 => PathStep::Array, 1 => PathStep::Nested, 2 => PathStep::Wildcard, _ => PathStep::TypeArgument(*self.r.pick(&[0u8, 1, 255])) }).collect()
	}
	fn type_annotations(&mut self, p: usize, targets: &[u8]) -> Vec<TypeAnnotationFacts> {
		if !self.ch(p, 100) { return vec![]; }
		let n = self.r.range(1, 3);
		(0..n).map(|_| {
			let b = *self.r.pick(&[0u8, 1, 255]);
			let w = *self.r.pick(&[0u16, 1, 65535, 300]);
			let target = match *self.r.pick(targets) {
				0x00 => TargetFacts::ClassTypeParameter(b), 0x01 => TargetFacts::MethodTypeParameter(b), 0x10 => TargetFacts::Supertype(w),
				0x11 => TargetFacts::ClassTypeParameterBound { param: b, bound: 1 }, 0x12 => TargetFacts::MethodTypeParameterBound { param: 0, bound: b },
				0x13 => TargetFacts::Field, 0x14 => TargetFacts::Return, 0x15 => TargetFacts::Receiver, 0x16 => TargetFacts::FormalParameter(b), _ => TargetFacts::Throws(w),
			};
			TypeAnnotationFacts { target, path: self.path(), annotation: self.annotation(1) }
		}).collect()
	}
	fn unknown(&mut self, foreign: &[&str]) -> Vec<UnknownAttr> {
		if !self.cfg.unknown_attributes || !self.ch(1, 6) { return vec![]; }
		let n = self.r.range(1, 2);
		(0..n).map(|_| {
			let name = if self.ch(1, 3) && !foreign.is_empty() { JStr::new(*self.r.pick(foreign)) } else { JStr::new(*self.r.pick(&["Custom", "org.example.Attr", "ScalaSig", "ModuleTarget", "x"])) };
			let len = *self.r.pick(&[0usize, 1, 2, 7, 40]);
			UnknownAttr { name, bytes: (0..len).map(|_| self.r.below(256) as u8).collect() }
		}).collect()
	}

	// ---- code ----

	fn local(&mut self, width: u16) -> u16 {
		let _ = width;
		if self.cfg.big_locals && self.ch(1, 8) { *self.r.pick(&[254u16, 255, 256, 257, 1000, 65533]) } else { self.r.below(6) as u16 }
	}

	fn code(&mut self) -> CodeSpec {
		let big = self.ch(1, 40);
		let n = self.r.range(1, if big { self.cfg.max_insns * 6 } else { self.cfg.max_insns }.max(1));
		// labels: a random subset of instruction positions, with scrambled ids
		let mut at: Vec<Option<LabelId>> = vec![None; n];
		let nl = self.r.range(1, n.min(6));
		for _ in 0..nl { let k = self.r.below(n); if at[k].is_none() { self.next_label += 1 + self.r.below(3) as u32; at[k] = Some(LabelId(self.next_label * 7 % 1000 + self.next_label * 1000)); } }
		let inside: Vec<LabelId> = at.iter().flatten().copied().collect();
		let end = if self.ch(2, 3) { self.next_label += 1; Some(LabelId(900_000 + self.next_label)) } else { None };
		let mut c = CodeSpec::new(*self.r.pick(&[0u16, 1, 2, 10, 65535]), 0);
		c.end_label = end;
		let noargs: Vec<u8> = (0u8..202).filter(|o| opcodes::kind(*o) == OpKind::NoArg).collect();
		let conds: Vec<u8> = (153u8..=166).chain([198, 199]).collect();
		let mut max_local: u32 = 0;
		for k in 0..n {
			let lab = |g: &mut G| *g.r.pick(&inside);
			let (opn, arg): (&'static str, OperandG<LabelId>) = match self.r.below(40) {
				0..=11 => (opcodes::mnemonic(*self.r.pick(&noargs)).unwrap(), OperandG::None),
				12 => ("bipush", OperandG::Int(*self.r.pick(&[0, -1, 127, -128, 6]))),
				13 => ("sipush", OperandG::Int(*self.r.pick(&[0, 128, -129, 32767, -32768]))),
				14..=17 => ("ldc", OperandG::Const(self.loadable(0))),
				18..=21 => {
					let o = *self.r.pick(&["iload", "lload", "fload", "dload", "aload", "istore", "lstore", "fstore", "dstore", "astore"]);
					let w = if o.starts_with('l') || o.starts_with('d') { 2 } else { 1 };
					let x = self.local(w);
					max_local = max_local.max(x as u32 + w as u32);
					(o, OperandG::Local(x))
				}
				22 => { let x = self.local(1); max_local = max_local.max(x as u32 + 1); ("iinc", OperandG::Iinc { local: x, delta: *self.r.pick(&[0i16, 1, -1, 127, -128, 128, -129, 32767, -32768]) }) }
				23..=25 => (opcodes::mnemonic(*self.r.pick(&conds)).unwrap(), OperandG::Branch(lab(self))),
				26 | 27 => ("goto", OperandG::Branch(lab(self))),
				28 if self.cfg.jsr_ret => if self.ch(1, 2) { ("jsr", OperandG::Branch(lab(self))) } else { let x = self.local(1); max_local = max_local.max(x as u32 + 1); ("ret", OperandG::Local(x)) },
				29 => {
					let len = self.r.range(1, 5);
					let low = *self.r.pick(&[0i32, 1, -3, i32::MIN, i32::MAX - len as i32 + 1, 1000]);
					("tableswitch", OperandG::TableSwitch { default: lab(self), low, high: low + (len as i32 - 1), targets: (0..len).map(|_| lab(self)).collect() })
				}
				30 => {
					let mut keys: Vec<i32> = (0..self.r.below(6)).map(|_| self.int()).collect();
					keys.sort(); keys.dedup();
					("lookupswitch", OperandG::LookupSwitch { default: lab(self), pairs: keys.into_iter().map(|k| (k, lab(self))).collect() })
				}
				31 | 32 => (*self.r.pick(&["getstatic", "putstatic", "getfield", "putfield"]), OperandG::Field(MemberRef { owner: self.class_name(), name: self.ident(), desc: self.field_type() })),
				33..=35 => {
					let o = *self.r.pick(&["invokevirtual", "invokespecial", "invokestatic", "invokeinterface"]);
					let interface = match o { "invokevirtual" => false, "invokeinterface" => true, _ => self.ch(1, 3) };
					let owner = if o == "invokevirtual" && self.ch(1, 6) { JStr::new("[I") } else { self.class_name() };
					(o, OperandG::Method(MethodRefFacts { owner, name: if o == "invokespecial" && self.ch(1, 2) { JStr::new("<init>") } else { self.ident() }, desc: self.method_desc(), interface }))
				}
				36 => ("invokedynamic", OperandG::InvokeDynamic(self.dynamic(0, true))),
				37 => { let o = *self.r.pick(&["new", "anewarray", "checkcast", "instanceof"]); (o, OperandG::Class(if o == "new" { self.class_name() } else { self.class_or_array() })) }
				38 => ("newarray", OperandG::NewArray(self.r.range(4, 11) as u8)),
				_ => { let d = self.r.range(1, 3); let mut cl = JStr::new(&"[".repeat(d)); cl.0.extend(self.field_type().0); ("multianewarray", OperandG::MultiANewArray { class: cl, dims: *self.r.pick(&[1u8, d as u8, 255]) }) }
			};
			c.body.push((at[k], InsnG { op: opn, arg }));
		}
		// xload_n forms also need max_locals
		c.max_locals = (max_local.max(self.r.below(4) as u32)).min(65535) as u16;
		let index_of = c.label_map().expect("labels");
		// a range: the start is an instruction, the end may be the end of the code
		let ordered = |g: &mut G| -> (LabelId, LabelId) {
			let (a, b) = (*g.r.pick(&inside), *g.r.pick(&inside));
			let (a, b) = if index_of[&a] <= index_of[&b] { (a, b) } else { (b, a) };
			if let (Some(e), true, true) = (end, g.cfg.end_positions, g.ch(1, 4)) { (a, e) } else { (a, b) }
		};
		if self.ch(2, 5) {
			for _ in 0..self.r.range(1, 3) {
				let (s, e) = ordered(self);
				if index_of[&s] == index_of[&e] { continue; }
				c.exception_table.push(ExceptionG { start: s, end: e, handler: *self.r.pick(&inside), catch_type: if self.ch(1, 3) { None } else { Some(self.class_name()) } });
			}
		}
		if self.ch(3, 5) { for _ in 0..self.r.range(1, 4) { c.line_numbers.push((*self.r.pick(&inside), *self.r.pick(&[0u16, 1, 42, 65535]))); } }
		if self.ch(2, 5) { for _ in 0..self.r.range(1, 3) { let (s, e) = ordered(self); c.local_variables.push(LocalVarG { start: s, end: e, index: self.local(1), name: self.ident_no_slash(), desc: self.field_type() }); } }
		if self.ch(1, 4) { for _ in 0..self.r.range(1, 2) { let (s, e) = ordered(self); c.local_variable_types.push(LocalVarTypeG { start: s, end: e, index: self.local(1), name: self.ident_no_slash(), signature: JStr::new("Ljava/util/List<TT;>;") }); } }
		if self.ch(2, 5) {
			let mut pos: Vec<LabelId> = inside.clone();
			pos.sort_by_key(|l| index_of[l]);
			pos.retain(|_| self.r.chance(2, 3));
			let frames = pos.into_iter().map(|l| {
				let vt = |g: &mut G| -> VTypeG<LabelId> { match g.r.below(10) { 0 => VTypeG::Top, 1 => VTypeG::Integer, 2 => VTypeG::Float, 3 => VTypeG::Long, 4 => VTypeG::Double, 5 => VTypeG::Null, 6 => VTypeG::UninitializedThis, 7 | 8 => VTypeG::Object(g.class_or_array()), _ => VTypeG::Uninitialized(*g.r.pick(&inside)) } };
				let kind = match self.r.below(6) {
					0 | 1 => FrameKindG::Same, 2 => FrameKindG::SameLocals1(vt(self)), 3 => FrameKindG::Chop(self.r.range(1, 3) as u8),
					4 => { let n = self.r.range(1, 3); FrameKindG::Append((0..n).map(|_| vt(self)).collect()) }
					_ => { let (a, b) = (self.r.below(4), self.r.below(3)); FrameKindG::Full { locals: (0..a).map(|_| vt(self)).collect(), stack: (0..b).map(|_| vt(self)).collect() } }
				};
				FrameG { at: l, kind }
			}).collect();
			c.frames = Some(frames);
		}
		for vis in [true, false] {
			if !self.ch(1, 5) { continue; }
			let n = self.r.range(1, 2);
			let list = (0..n).map(|_| {
				let idx = *self.r.pick(&[0u8, 1, 255]);
				let target = match self.r.below(12) {
					0 | 1 => { let m = self.r.range(0, 2); let tab = (0..m).map(|_| { let (s, e) = ordered(self); LocalVarRangeG { start: s, end: e, index: self.local(1) } }).collect(); if self.ch(1, 2) { CodeTargetG::LocalVariable(tab) } else { CodeTargetG::ResourceVariable(tab) } }
					2 if !c.exception_table.is_empty() => CodeTargetG::ExceptionParameter(self.r.below(c.exception_table.len()) as u16),
					2 | 3 => CodeTargetG::InstanceOf(*self.r.pick(&inside)), 4 => CodeTargetG::New(*self.r.pick(&inside)),
					5 => CodeTargetG::ConstructorReference(*self.r.pick(&inside)), 6 => CodeTargetG::MethodReference(*self.r.pick(&inside)),
					7 => CodeTargetG::Cast { at: *self.r.pick(&inside), index: idx }, 8 => CodeTargetG::ConstructorInvocationTypeArgument { at: *self.r.pick(&inside), index: idx },
					9 => CodeTargetG::MethodInvocationTypeArgument { at: *self.r.pick(&inside), index: idx }, 10 => CodeTargetG::ConstructorReferenceTypeArgument { at: *self.r.pick(&inside), index: idx },
					_ => CodeTargetG::MethodReferenceTypeArgument { at: *self.r.pick(&inside), index: idx },
				};
				CodeTypeAnnotationG { target, path: self.path(), annotation: self.annotation(1) }
			}).collect();
			if vis { c.visible_type_annotations = list; } else { c.invisible_type_annotations = list; }
		}
		c.unknown_attributes = self.unknown(&["Code", "Signature", "ConstantValue", "Exceptions"]);
		c
	}
	/// names of locals and parameters must be unqualified names for duke (no `. ; [ /`)
	fn ident_no_slash(&mut self) -> JStr { self.ident() }

	fn field(&mut self) -> FieldFacts {
		let mut f = FieldFacts::new(*self.r.pick(&[0u16, 0x0001, 0x0002, 0x0019, 0x001a, 0x4019, 0x1008, 0x00c4]), "", "");
		f.name = self.ident();
		f.desc = self.field_type();
		if self.ch(1, 3) {
			let (d, v) = match self.r.below(9) { 0 => ("I", Loadable::Int(self.int())), 1 => ("S", Loadable::Int(7)), 2 => ("C", Loadable::Int(65)), 3 => ("B", Loadable::Int(-1)), 4 => ("Z", Loadable::Int(1)),
				5 => ("J", Loadable::Long(self.long())), 6 => ("F", Loadable::Float(self.float())), 7 => ("D", Loadable::Double(self.double())), _ => ("Ljava/lang/String;", Loadable::String(self.string())) };
			f.desc = JStr::new(d); f.constant_value = Some(v);
		}
		f.deprecated = self.ch(1, 10); f.synthetic = self.ch(1, 12);
		if self.ch(1, 4) { f.signature = Some(JStr::new("TT;")); }
		f.visible_annotations = self.annotations(25); f.invisible_annotations = self.annotations(15);
		f.visible_type_annotations = self.type_annotations(15, &[0x13]); f.invisible_type_annotations = self.type_annotations(10, &[0x13]);
		f.unknown_attributes = self.unknown(&["Code", "Exceptions", "SourceFile"]);
		f
	}

	fn method(&mut self, force_abstract: bool, annotation_iface: bool) -> MethodSpec {
		let mut m: MethodSpec = MethodG::new(0, "", "");
		m.name = self.method_name();
		m.desc = self.method_desc();
		let has_code = !force_abstract && !self.ch(1, 6);
		m.access = *self.r.pick(&[0x0001u16, 0x0002, 0x0004, 0x0009, 0x0011, 0x0021, 0x1041, 0x0081, 0x0801, 0x000a]) & !0x0500;
		if has_code { m.code = Some(self.code()); } else { m.access |= if self.ch(1, 4) && !force_abstract { 0x0100 } else { 0x0400 }; }
		if self.ch(3, 10) { let n = self.r.below(3); m.exceptions = Some((0..n).map(|_| self.class_name()).collect()); }
		if self.ch(1, 4) { m.signature = Some(JStr::new("<T:Ljava/lang/Object;>(TT;)V")); }
		m.deprecated = self.ch(1, 10); m.synthetic = self.ch(1, 12);
		m.visible_annotations = self.annotations(25); m.invisible_annotations = self.annotations(15);
		m.visible_type_annotations = self.type_annotations(15, &[0x01, 0x12, 0x14, 0x15, 0x16, 0x17]);
		m.invisible_type_annotations = self.type_annotations(10, &[0x01, 0x12, 0x14, 0x15, 0x16, 0x17]);
		if self.ch(1, 5) { let n = self.r.below(4); m.visible_parameter_annotations = Some((0..n).map(|_| self.annotations(50)).collect()); }
		if self.ch(1, 8) { let n = self.r.below(4); m.invisible_parameter_annotations = Some((0..n).map(|_| self.annotations(50)).collect()); }
		if annotation_iface || self.ch(1, 20) { m.annotation_default = Some(self.element(0)); }
		if self.ch(1, 4) { let n = self.r.below(4); m.method_parameters = Some((0..n).map(|_| MethodParameterFacts { name: if self.ch(1, 4) { None } else { Some(self.ident_no_slash()) }, access: *self.r.pick(&[0u16, 0x0010, 0x1000, 0x8000, 0x9010]) }).collect()); }
		m.unknown_attributes = self.unknown(&["ConstantValue", "SourceFile", "LineNumberTable", "StackMapTable"]);
		m
	}

	fn class(&mut self) -> ClassSpec {
		let flavour = if self.cfg.flavours { self.r.below(14) } else { self.r.below(8) };
		let minor = if self.major == 45 { 3 } else if self.major >= 56 && self.ch(1, 12) { 65535 } else { 0 };
		let mut c: ClassSpec = ClassG::new(self.major, 0x0021, "", Some("java/lang/Object"));
		c.version.minor = minor;
		c.name = self.class_name();
		if flavour == 13 {
			// module-info
			c.access = 0x8000; c.name = JStr::new("module-info"); c.super_class = None;
			let n = |g: &mut G, k: usize| g.r.below(k);
			c.module = Some(ModuleFacts {
				name: self.module_name(), flags: *self.r.pick(&[0u16, 0x0020, 0x1000, 0x8000]), version: if self.ch(1, 2) { Some(JStr::new("1.2.3")) } else { None },
				requires: (0..n(self, 4)).map(|_| ModuleRequiresFacts { module: self.module_name(), flags: *self.r.pick(&[0u16, 0x0020, 0x0040, 0x8000, 0x1000]), version: if self.ch(1, 2) { Some(JStr::new("17")) } else { None } }).collect(),
				exports: (0..n(self, 3)).map(|_| ModuleExportsFacts { package: self.package(), flags: *self.r.pick(&[0u16, 0x1000, 0x8000]), to: (0..n(self, 3)).map(|_| self.module_name()).collect() }).collect(),
				opens: (0..n(self, 3)).map(|_| ModuleExportsFacts { package: self.package(), flags: *self.r.pick(&[0u16, 0x1000, 0x8000]), to: (0..n(self, 3)).map(|_| self.module_name()).collect() }).collect(),
				uses: (0..n(self, 3)).map(|_| self.class_name()).collect(),
				provides: (0..n(self, 3)).map(|_| ModuleProvidesFacts { service: self.class_name(), with: (0..1 + n(self, 2)).map(|_| self.class_name()).collect() }).collect(),
			});
			if self.ch(1, 2) { c.module_packages = Some((0..n(self, 4)).map(|_| self.package()).collect()); }
			if self.ch(1, 2) { c.module_main_class = Some(self.class_name()); }
		} else {
			let iface = flavour == 0 || flavour == 12;
			if iface { c.access = if flavour == 12 { 0x2601 } else { 0x0601 }; }
			if flavour == 1 { c.access = 0x4031; c.super_class = Some(JStr::new("java/lang/Enum")); }
			if flavour == 2 { c.access = 0x0420; }
			if self.ch(1, 10) { c.access |= 0x1000; }
			if !iface && self.ch(1, 5) { c.super_class = Some(self.class_name()); }
			for _ in 0..self.r.below(3) { c.interfaces.push(self.class_name()); }
			for _ in 0..self.r.below(self.cfg.max_fields + 1) { c.fields.push(self.field()); }
			for _ in 0..self.r.below(self.cfg.max_methods + 1) { let abs = iface && self.r.chance(2, 3); c.methods.push(self.method(abs, flavour == 12)); }
			if flavour == 11 || self.ch(1, 25) {
				let n = self.r.below(4);
				self.plain_floats = true;
				c.record = Some((0..n).map(|_| {
					let mut rc = RecordComponentFacts::new("", "");
					rc.name = self.ident(); rc.desc = self.field_type();
					if self.ch(1, 3) { rc.signature = Some(JStr::new("Ljava/util/List<Ljava/lang/String;>;")); }
					rc.visible_annotations = self.annotations(30); rc.invisible_annotations = self.annotations(15);
					rc.visible_type_annotations = self.type_annotations(20, &[0x13]); rc.invisible_type_annotations = self.type_annotations(10, &[0x13]);
					rc.unknown_attributes = self.unknown(&["Code", "Deprecated", "Synthetic"]);
					rc
				}).collect());
				self.plain_floats = false;
				if flavour == 11 { c.access = 0x0031; c.super_class = Some(JStr::new("java/lang/Record")); }
			}
		}
		if self.ch(7, 10) { c.source_file = Some(if self.ch(1, 8) { self.string() } else { JStr::new("Gen.java") }); }
		if self.ch(1, 10) { c.source_debug_extension = Some(if self.ch(1, 2) { JStr::new("SMAP\nGen.java\nJSP\n*S JSP\n*E\n") } else { self.string() }); }
		if self.ch(3, 10) {
			let n = self.r.below(4);
			c.inner_classes = Some((0..n).map(|_| InnerClassFacts { inner: self.class_name(), outer: if self.ch(2, 3) { Some(self.class_name()) } else { None }, inner_name: if self.ch(2, 3) { Some(self.ident()) } else { None }, access: *self.r.pick(&[0u16, 0x0009, 0x000a, 0x0608, 0x4018, 0x1000]) }).collect());
		}
		if self.ch(1, 10) { c.enclosing_method = Some(EnclosingMethodFacts { class: self.class_name(), method: if self.ch(1, 2) { Some((self.method_name(), self.method_desc())) } else { None } }); }
		match self.r.below(7) { 0 => c.nest_host = Some(self.class_name()), 1 => { let n = self.r.below(4); c.nest_members = Some((0..n).map(|_| self.class_name()).collect()); } _ => {} }
		if self.ch(1, 10) { let n = self.r.below(4); c.permitted_subclasses = Some((0..n).map(|_| self.class_name()).collect()); }
		if self.ch(1, 4) { c.signature = Some(JStr::new("<T:Ljava/lang/Object;>Ljava/lang/Object;Ljava/lang/Comparable<TT;>;")); }
		c.deprecated = self.ch(1, 10); c.synthetic = self.ch(1, 20);
		c.visible_annotations = self.annotations(30); c.invisible_annotations = self.annotations(15);
		c.visible_type_annotations = self.type_annotations(20, &[0x00, 0x10, 0x11]); c.invisible_type_annotations = self.type_annotations(10, &[0x00, 0x10, 0x11]);
		c.unknown_attributes = self.unknown(&["Code", "ConstantValue", "LineNumberTable", "AnnotationDefault"]);
		c
	}
}

/// A random class: small (mostly below 1 KB when assembled) but every attribute kind, every
/// constant kind and every general instruction is reachable.
pub fn gen_class(rng: &mut Rng, cfg: &GenCfg) -> ClassSpec {
	let major = rng.range(cfg.min_major as usize, cfg.max_major as usize) as u16;
	let mut g = G { r: rng, cfg, major, next_label: 0, plain_floats: false };
	g.class()
}

/// a class consisting of one static method `m()V` with the given body
pub fn class_with_code(name: &str, code: CodeSpec) -> ClassSpec {
	let mut c: ClassSpec = ClassG::new(52, 0x0021, name, Some("java/lang/Object"));
	let mut m: MethodSpec = MethodG::new(0x0009, "m", "()V");
	m.code = Some(code);
	c.methods.push(m);
	c
}

/// Deterministic constructions at the encoding boundaries (DESIGN §5 C01/C02 "G").
pub mod boundary {
	use super::*;

	fn l(n: u32) -> LabelId { LabelId(n) }

	/// A branch `op` (any conditional, `goto`, `jsr`) whose offset is exactly `distance` (≠ 0) bytes:
	/// forward over `nop`s, or backward to the start.  For `goto`/`jsr` beyond ±32767/32768 the
	/// assembler uses the `_w` form (the filler is sized for it); a conditional that far cannot be
	/// encoded and `try_assemble` reports it.  Assemble with the returned knobs (`Enc::Widest` when the
	/// `_w` form is needed: with `Shortest` the filler sized for `goto_w` would let the narrow form fit).
	pub fn branch_distance(opn: &'static str, distance: i32) -> (ClassSpec, Knobs) {
		let fits = (-32768..=32767).contains(&distance);
		let mut c = CodeSpec::new(2, 1);
		if distance > 0 {
			let size = if fits || (opn != "goto" && opn != "jsr") { 3 } else { 5 };
			c.insn(None, opn, OperandG::Branch(l(1)));
			for _ in 0..(distance - size).max(0) { c.op(None, "nop"); }
			c.op(Some(l(1)), "return");
		} else {
			c.op(Some(l(1)), "nop");
			for _ in 1..(-(distance as i64)) { c.op(None, "nop"); }
			c.insn(None, opn, OperandG::Branch(l(1)));
			c.op(None, "return");
		}
		let wide = !fits && (opn == "goto" || opn == "jsr");
		(class_with_code("corp/gen/BranchDistance", c), Knobs { enc: if wide { Enc::Widest } else { Enc::Shortest }, ..Default::default() })
	}

	/// `k` conditional branches `c_0 … c_{k-1}` at offsets 0, 3, 6, …, each jumping exactly
	/// `distance` bytes forward (default use: 32767), so that every `c_i` jumps over `c_{i+1}`:
	/// lengthening any of them pushes all earlier ones over the limit.
	pub fn branch_chain(k: usize, distance: u32) -> ClassSpec {
		let mut c = CodeSpec::new(2, 1);
		for i in 0..k { c.insn(None, "ifeq", OperandG::Branch(l(i as u32))); }
		// target i sits at offset 3*i + distance
		let first = distance as usize;
		for _ in (3 * k)..first { c.op(None, "nop"); }
		for i in 0..k { c.op(Some(l(i as u32)), "nop"); if i + 1 < k { c.op(None, "nop"); c.op(None, "nop"); } }
		c.op(None, "return");
		class_with_code("corp/gen/BranchChain", c)
	}

	/// eight methods `ts0..ts3`, `ls0..ls3`: a tableswitch / lookupswitch whose opcode sits at offset
	/// 1, 2, 3, 4 (all four paddings 2, 1, 0, 3)
	pub fn switch_alignments() -> ClassSpec {
		let mut cl: ClassSpec = ClassG::new(52, 0x0021, "corp/gen/SwitchAlign", Some("java/lang/Object"));
		for table in [true, false] {
			for a in 0..4u32 {
				let mut c = CodeSpec::new(1, 1);
				for _ in 0..a { c.op(None, "nop"); }
				c.op(None, "iconst_0");
				if table { c.insn(None, "tableswitch", OperandG::TableSwitch { default: l(9), low: -1, high: 1, targets: vec![l(1), l(2), l(9)] }); }
				else { c.insn(None, "lookupswitch", OperandG::LookupSwitch { default: l(9), pairs: vec![(i32::MIN, l(1)), (0, l(2)), (i32::MAX, l(9))] }); }
				c.op(Some(l(1)), "nop"); c.op(Some(l(2)), "nop"); c.op(Some(l(9)), "return");
				let mut m: MethodSpec = MethodG::new(0x0009, &format!("{}{a}", if table { "ts" } else { "ls" }), "()V");
				m.code = Some(c);
				cl.methods.push(m);
			}
		}
		cl
	}

	/// A method loading `n` distinct constants in order (ints, every 5th a string, every 7th a long):
	/// with default knobs the i-th loaded constant gets consecutive pool indices starting at 5
	/// (after this_class, super_class), so `PoolKnobs::pad_front = p` moves the first to `5 + p`;
	/// p around 250 makes the `ldc` index cross 255/256 (narrow `ldc` impossible from 256 on) and
	/// lets two-slot entries straddle the boundary.
	pub fn pool_crossing(n: usize) -> ClassSpec {
		let mut c = CodeSpec::new(2, 1);
		for i in 0..n {
			let k = if i % 7 == 6 { Loadable::Long(1_000_000_000_000 + i as i64) } else if i % 5 == 4 { Loadable::String(JStr::new(&format!("s{i}"))) } else { Loadable::Int(100_000 + i as i32) };
			c.insn(None, "ldc", OperandG::Const(k));
			c.op(None, "pop");
		}
		c.op(None, "return");
		class_with_code("corp/gen/PoolCrossing", c)
	}
	/// knobs for `pool_crossing`: first constant at index 250..=258, with one-slot and two-slot padding, narrow and wide ldc
	pub fn pool_crossing_knobs() -> Vec<Knobs> {
		let mut v = vec![];
		for p in 245..=253 { for enc in [Enc::Shortest, Enc::Widest] { v.push(Knobs { pool: PoolKnobs { pad_front: p, pad_kind: PadKind::Int, ..Default::default() }, enc, ..Default::default() }); } }
		for p in [122, 123, 124, 125, 126] { v.push(Knobs { pool: PoolKnobs { pad_front: p, pad_kind: PadKind::Wide, ..Default::default() }, ..Default::default() }); }
		v
	}
	/// knobs that make `constant_pool_count` exactly 65535 (highest index 65534) for `spec`, with the
	/// real entries at the top end (`front = true`) or at the bottom
	pub fn pool_full_knobs(spec: &ClassSpec, front: bool) -> Result<Knobs, String> {
		let base = assemble_raw(spec, &Knobs::default())?.pool.len();
		if base > 65535 { return Err("pool already full".into()); }
		Ok(if front { Knobs { pool: PoolKnobs { pad_front: 65535 - base, pad_kind: PadKind::Int, ..Default::default() }, ..Default::default() } }
		else { Knobs { pool: PoolKnobs { pad_to_count: Some(65535), ..Default::default() }, ..Default::default() } })
	}

	/// loads, stores, iinc, ret at local indices 3, 4, 254, 255, 256, 257, 65534 (and two-slot types at 254, 255, 65533)
	pub fn locals_crossing() -> ClassSpec {
		let mut c = CodeSpec::new(4, 65535);
		for x in [0u16, 3, 4, 254, 255, 256, 257, 65534] {
			for o in ["iload", "fload", "aload", "istore", "fstore", "astore", "ret"] { c.insn(None, o, OperandG::Local(x)); }
			for d in [0i16, 127, -128, 128, -129, 32767, -32768] { c.insn(None, "iinc", OperandG::Iinc { local: x, delta: d }); }
		}
		for x in [0u16, 3, 4, 254, 255, 256, 65533] { for o in ["lload", "dload", "lstore", "dstore"] { c.insn(None, o, OperandG::Local(x)); } }
		c.op(None, "return");
		class_with_code("corp/gen/LocalsCrossing", c)
	}

	/// a method body of exactly `len` bytes (`nop`s and a final `return`); 65535 is the maximum, 65536 is refused by `try_assemble`
	pub fn code_length(len: usize) -> ClassSpec {
		let mut c = CodeSpec::new(0, 0);
		for _ in 1..len { c.op(None, "nop"); }
		c.op(None, "return");
		class_with_code("corp/gen/CodeLength", c)
	}

	/// a maximal method that ends in a 3-byte (or, with `Enc::Widest`, 5-byte) branch: the last instruction's
	/// operand bytes are the last bytes of a 65535-byte code array
	pub fn code_length_ending_in_branch() -> ClassSpec {
		let mut c = CodeSpec::new(0, 0);
		c.op(Some(l(1)), "return");
		for _ in 1..65532 { c.op(None, "nop"); }
		c.insn(None, "goto", OperandG::Branch(l(2)));
		// the target must be an instruction: jump to itself-adjacent nop at 65531
		c.body[65531].0 = Some(l(2));
		class_with_code("corp/gen/CodeLengthBranch", c)
	}

	/// one method containing every general instruction once (all 201 opcodes are reachable through
	/// the encodings chosen by `Knobs::enc`), with labels, an exception table, and jsr/ret
	pub fn all_instructions() -> ClassSpec {
		let mut c = CodeSpec::new(6, 302);
		let fr = MemberRef { owner: JStr::new("corp/gen/All"), name: JStr::new("f"), desc: JStr::new("I") };
		let mr = |interface: bool| MethodRefFacts { owner: JStr::new(if interface { "java/util/List" } else { "corp/gen/All" }), name: JStr::new("size"), desc: JStr::new("(IJLjava/lang/Object;D)I"), interface };
		let indy = DynamicFacts { name: JStr::new("run"), desc: JStr::new("()Ljava/lang/Runnable;"), bootstrap: HandleFacts { kind: 6, owner: JStr::new("java/lang/invoke/LambdaMetafactory"), name: JStr::new("metafactory"),
			desc: JStr::new("(Ljava/lang/invoke/MethodHandles$Lookup;Ljava/lang/String;Ljava/lang/invoke/MethodType;Ljava/lang/invoke/MethodType;Ljava/lang/invoke/MethodHandle;Ljava/lang/invoke/MethodType;)Ljava/lang/invoke/CallSite;"), interface: false },
			args: vec![Loadable::MethodType(JStr::new("()V")), Loadable::MethodHandle(HandleFacts { kind: 6, owner: JStr::new("corp/gen/All"), name: JStr::new("lambda$0"), desc: JStr::new("()V"), interface: false }), Loadable::MethodType(JStr::new("()V"))] };
		let mut first = true;
		for o in 0u8..202 {
			let Some(m) = opcodes::mnemonic(o) else { continue };
			let label = if first { first = false; Some(l(0)) } else { None };
			let arg = match opcodes::kind(o) {
				OpKind::NoArg => OperandG::None,
				OpKind::Byte => OperandG::Int(-7), OpKind::Short => OperandG::Int(-777),
				OpKind::Ldc => {
					// every loadable kind: long, double, int, float, class, method type, method handle, dynamic (both categories), string
					let condy = |desc: &str| Loadable::Dynamic(DynamicFacts { name: JStr::new("k"), desc: JStr::new(desc), bootstrap: HandleFacts { kind: 6, owner: JStr::new("java/lang/invoke/ConstantBootstraps"), name: JStr::new("invoke"),
						desc: JStr::new("(Ljava/lang/invoke/MethodHandles$Lookup;Ljava/lang/String;Ljava/lang/Class;Ljava/lang/invoke/MethodHandle;[Ljava/lang/Object;)Ljava/lang/Object;"), interface: false },
						args: vec![Loadable::MethodHandle(HandleFacts { kind: 2, owner: JStr::new("corp/gen/All"), name: JStr::new("f"), desc: JStr::new("I"), interface: false }), Loadable::Int(3), Loadable::Double(F64::of(0.5))] });
					for k in [Loadable::Long(77), Loadable::Double(F64::of(-0.0)), Loadable::Int(100000), Loadable::Float(F32(0x7fc00001)), Loadable::Class(JStr::new("[Lcorp/gen/All;")), Loadable::MethodType(JStr::new("(I)V")),
						Loadable::MethodHandle(HandleFacts { kind: 9, owner: JStr::new("java/util/List"), name: JStr::new("size"), desc: JStr::new("()I"), interface: true }), condy("I"), condy("J")] {
						c.insn(None, "ldc", OperandG::Const(k));
					}
					OperandG::Const(Loadable::String(JStr::new("all\u{0}é😀")))
				}
				OpKind::Local => OperandG::Local(if o % 2 == 0 { 2 } else { 299 }),
				OpKind::Iinc => OperandG::Iinc { local: 1, delta: -1 },
				OpKind::Branch16 => OperandG::Branch(l(0)),
				OpKind::TableSwitch => OperandG::TableSwitch { default: l(0), low: 5, high: 6, targets: vec![l(0), l(0)] },
				OpKind::LookupSwitch => OperandG::LookupSwitch { default: l(0), pairs: vec![(-1, l(0)), (9, l(0))] },
				OpKind::Field => OperandG::Field(fr.clone()),
				OpKind::Method => OperandG::Method(mr(false)), OpKind::InvokeInterface => OperandG::Method(mr(true)),
				OpKind::InvokeDynamic => OperandG::InvokeDynamic(indy.clone()),
				OpKind::Class => OperandG::Class(JStr::new("corp/gen/All")),
				OpKind::NewArray => OperandG::NewArray(10), OpKind::MultiANewArray => OperandG::MultiANewArray { class: JStr::new("[[I"), dims: 2 },
				OpKind::LocalN | OpKind::LdcW | OpKind::Branch32 | OpKind::Wide | OpKind::Invalid => continue,
			};
			c.insn(label, m, arg);
		}
		c.end_label = Some(l(99));
		c.exception_table.push(ExceptionG { start: l(0), end: l(99), handler: l(0), catch_type: None });
		let mut cl = class_with_code("corp/gen/All", c);
		cl.fields.push(FieldFacts::new(0x000a, "f", "I"));
		cl
	}
}

/// The hand-crafted part of the vendored corpus (`corpus/classes/crafted/`, written once by
/// `cf_selftest craft`): what javac 17 and the jars on the image do not provide — jsr/ret, nop,
/// swap, jsr_w, forced wide forms, Synthetic and SourceDebugExtension attributes, unknown
/// attributes at every level, predefined attribute names at foreign locations, an exception range
/// ending at code_length, pool indices around 255/256 — plus thirty random `gen_class` outputs.
pub fn crafted() -> Vec<(String, ClassSpec, Knobs)> {
	let d = Knobs::default();
	let l = LabelId;
	let mut v: Vec<(String, ClassSpec, Knobs)> = vec![];
	v.push(("All".into(), boundary::all_instructions(), d.clone()));
	let mut wide = boundary::all_instructions(); wide.name = JStr::new("corp/gen/AllWide");
	v.push(("AllWide".into(), wide, Knobs { enc: Enc::Widest, ..d.clone() }));
	v.push(("SwitchAlign".into(), boundary::switch_alignments(), d.clone()));
	v.push(("LocalsCrossing".into(), boundary::locals_crossing(), d.clone()));
	v.push(("PoolCrossing".into(), boundary::pool_crossing(40), Knobs { pool: PoolKnobs { pad_front: 240, pad_kind: PadKind::Mixed, ..Default::default() }, ..d.clone() }));
	v.push(("BranchChain".into(), boundary::branch_chain(5, 32767), d.clone()));
	let (s, k) = boundary::branch_distance("goto", 32768); v.push(("GotoW".into(), s, k));
	let (s, k) = boundary::branch_distance("jsr", -32769); v.push(("JsrWBack".into(), s, k));

	// an old-style finally block: jsr / astore / ret (class version 47, no StackMapTable)
	let mut c = CodeSpec::new(2, 3);
	c.op(Some(l(0)), "iconst_1"); c.insn(None, "istore", OperandG::Local(0));
	c.insn(None, "jsr", OperandG::Branch(l(2)));
	c.op(Some(l(1)), "return");
	c.insn(Some(l(4)), "astore", OperandG::Local(2)); c.insn(None, "jsr", OperandG::Branch(l(2))); c.insn(None, "aload", OperandG::Local(2)); c.op(None, "athrow");
	c.insn(Some(l(2)), "astore", OperandG::Local(1)); c.insn(None, "iinc", OperandG::Iinc { local: 0, delta: 1 }); c.op(None, "nop"); c.op(None, "iconst_0"); c.op(None, "iconst_1"); c.op(None, "swap"); c.op(None, "pop2");
	c.insn(None, "ret", OperandG::Local(1));
	c.exception_table.push(ExceptionG { start: l(0), end: l(1), handler: l(4), catch_type: None });
	let mut jsr = class_with_code("corp/gen/JsrRet", c);
	jsr.version = Version { major: 47, minor: 0 };
	v.push(("JsrRet".into(), jsr, d.clone()));

	// attributes javac does not write
	let mut c = CodeSpec::new(1, 1);
	c.op(Some(l(0)), "aconst_null"); c.op(Some(l(1)), "athrow");
	c.end_label = Some(l(2));
	c.exception_table.push(ExceptionG { start: l(0), end: l(2), handler: l(1), catch_type: Some(JStr::new("java/lang/Throwable")) });
	c.unknown_attributes.push(UnknownAttr { name: JStr::new("Signature"), bytes: vec![0, 1] });
	c.unknown_attributes.push(UnknownAttr { name: JStr::new("corp.Custom"), bytes: vec![] });
	c.frames = Some(vec![]);
	let mut a = class_with_code("corp/gen/Attrs", c);
	a.synthetic = true; a.deprecated = true;
	a.source_debug_extension = Some(JStr::new("SMAP\nAttrs.java\nJSP\n*S JSP\n*F\n+ 0 attrs.jsp\nattrs.jsp\n*L\n1,5:10\n*E\n"));
	a.source_file = Some(JStr::new("Attrs.java"));
	a.unknown_attributes.push(UnknownAttr { name: JStr::new("Code"), bytes: vec![1, 2, 3] });
	a.unknown_attributes.push(UnknownAttr { name: JStr::new("corp.Custom"), bytes: (0..=255).collect() });
	a.unknown_attributes.push(UnknownAttr { name: JStr::new("corp.Custom"), bytes: vec![7] });
	a.methods[0].synthetic = true; a.methods[0].deprecated = true;
	a.methods[0].unknown_attributes.push(UnknownAttr { name: JStr::new("ConstantValue"), bytes: vec![0, 9] });
	let mut f = FieldFacts::new(0x1019, "F", "I");
	f.synthetic = true; f.deprecated = true; f.constant_value = Some(Loadable::Int(7));
	f.unknown_attributes.push(UnknownAttr { name: JStr::new("Exceptions"), bytes: vec![0, 0] });
	a.fields.push(f);
	a.record = Some(vec![{ let mut r = RecordComponentFacts::new("F", "I"); r.unknown_attributes.push(UnknownAttr { name: JStr::new("Deprecated"), bytes: vec![] }); r }]);
	v.push(("Attrs".into(), a, d.clone()));

	let mut rng = Rng::new(0xC0FFEE);
	let cfg = GenCfg::default();
	for k in 0..30 {
		let spec = gen_class(&mut rng, &cfg);
		let knobs = Knobs::family(k as u64)[k % 16].clone();
		v.push((format!("gen/G{k:02}"), spec, knobs));
	}
	v
}
