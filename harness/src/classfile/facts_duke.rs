//! Facts of a class in duke's tree model (`duke::tree::class::ClassFile`).  The conversion
//! reports what the tree contains and nothing else: no defaulting, no repair.  Named flags are
//! mapped to the JVMS bit values *here* (not through duke's `From<…> for u16`), so a wrong bit
//! assignment inside duke shows up as a difference.
//!
//! Crate-private parts of the tree (`Label.id`, `LabelRange`, `TypePath`, `Version`, `Module`,
//! the attribute fields of `RecordComponent`) are read through their `Debug` rendering (`dbg`).
//! Limitation of that route: a NaN inside an annotation of a *record component* loses its payload
//! (Rust prints every NaN as `NaN`); everywhere else floats are taken bit-exactly.
use std::collections::HashMap;
use super::dbg::{self, Dbg};
use super::facts::*;
use duke::tree::annotation::{Annotation, ElementValue, Object};
use duke::tree::class::{ClassAccess, ClassFile, InnerClassFlags};
use duke::tree::field::{ConstantValue, Field, FieldAccess, FieldRef};
use duke::tree::method::code::{ArrayType, Code, ConstantDynamic, Handle, Instruction, InvokeDynamic, Label, Loadable as DLoadable};
use duke::tree::method::{Method, MethodAccess, MethodRef, ParameterFlags};
use duke::tree::type_annotation::{TargetInfoClass, TargetInfoCode, TargetInfoField, TargetInfoMethod, TypeAnnotation};
use duke::visitor::method::code::{StackMapData, VerificationTypeInfo};
use java_string::JavaStr;

fn js(s: &JavaStr) -> JStr { JStr::from_java(s) }
fn bits(pairs: &[(bool, u16)]) -> u16 { pairs.iter().filter(|(b, _)| *b).fold(0, |a, (_, v)| a | v) }

pub fn class_access(a: &ClassAccess) -> u16 {
	bits(&[(a.is_public, 0x0001), (a.is_final, 0x0010), (a.is_super, 0x0020), (a.is_interface, 0x0200), (a.is_abstract, 0x0400),
		(a.is_synthetic, 0x1000), (a.is_annotation, 0x2000), (a.is_enum, 0x4000), (a.is_module, 0x8000)])
}
pub fn field_access(a: &FieldAccess) -> u16 {
	bits(&[(a.is_public, 0x0001), (a.is_private, 0x0002), (a.is_protected, 0x0004), (a.is_static, 0x0008), (a.is_final, 0x0010),
		(a.is_volatile, 0x0040), (a.is_transient, 0x0080), (a.is_synthetic, 0x1000), (a.is_enum, 0x4000)])
}
pub fn method_access(a: &MethodAccess) -> u16 {
	bits(&[(a.is_public, 0x0001), (a.is_private, 0x0002), (a.is_protected, 0x0004), (a.is_static, 0x0008), (a.is_final, 0x0010),
		(a.is_synchronized, 0x0020), (a.is_bridge, 0x0040), (a.is_varargs, 0x0080), (a.is_native, 0x0100), (a.is_abstract, 0x0400),
		(a.is_strict, 0x0800), (a.is_synthetic, 0x1000)])
}
pub fn inner_class_flags(a: &InnerClassFlags) -> u16 {
	bits(&[(a.is_public, 0x0001), (a.is_private, 0x0002), (a.is_protected, 0x0004), (a.is_static, 0x0008), (a.is_final, 0x0010),
		(a.is_interface, 0x0200), (a.is_abstract, 0x0400), (a.is_synthetic, 0x1000), (a.is_annotation, 0x2000), (a.is_enum, 0x4000)])
}
pub fn parameter_flags(a: &ParameterFlags) -> u16 { bits(&[(a.is_final, 0x0010), (a.is_synthetic, 0x1000), (a.is_mandated, 0x8000)]) }

/// the crate-private id of a label, read from its `Debug` rendering `Label { id: N }`
pub fn label_id(l: &Label) -> u16 {
	let s = format!("{l:?}");
	let digits: String = s.chars().filter(|c| c.is_ascii_digit()).collect();
	digits.parse().unwrap_or_else(|_| panic!("unexpected Debug of Label: {s}"))
}

fn handle(h: &Handle) -> HandleFacts {
	let f = |kind: u8, r: &FieldRef| HandleFacts { kind, owner: js(r.class.as_inner()), name: js(r.name.as_inner()), desc: js(r.desc.as_inner()), interface: false };
	let m = |kind: u8, r: &MethodRef, interface: bool| HandleFacts { kind, owner: js(r.class.as_inner()), name: js(r.name.as_inner()), desc: js(r.desc.as_inner()), interface };
	match h {
		Handle::GetField(r) => f(1, r), Handle::GetStatic(r) => f(2, r), Handle::PutField(r) => f(3, r), Handle::PutStatic(r) => f(4, r),
		Handle::InvokeVirtual(r) => m(5, r, false), Handle::InvokeStatic(r, i) => m(6, r, *i), Handle::InvokeSpecial(r, i) => m(7, r, *i),
		Handle::NewInvokeSpecial(r) => m(8, r, false), Handle::InvokeInterface(r) => m(9, r, true),
	}
}
fn loadable(l: &DLoadable) -> Loadable {
	match l {
		DLoadable::Integer(x) => Loadable::Int(*x), DLoadable::Float(x) => Loadable::Float(F32::of(*x)), DLoadable::Long(x) => Loadable::Long(*x),
		DLoadable::Double(x) => Loadable::Double(F64::of(*x)), DLoadable::Class(c) => Loadable::Class(js(c.as_inner())), DLoadable::String(s) => Loadable::String(js(s)),
		DLoadable::MethodHandle(h) => Loadable::MethodHandle(handle(h)), DLoadable::MethodType(d) => Loadable::MethodType(js(d.as_inner())),
		DLoadable::Dynamic(ConstantDynamic { name, descriptor, handle: h, arguments }) =>
			Loadable::Dynamic(DynamicFacts { name: js(name.as_inner()), desc: js(descriptor.as_inner()), bootstrap: handle(h), args: arguments.iter().map(loadable).collect() }),
	}
}

fn element(v: &ElementValue) -> ElementValueFacts {
	match v {
		ElementValue::Object(o) => match o {
			Object::Byte(x) => ElementValueFacts::Byte(*x as i32), Object::Char(x) => ElementValueFacts::Char(*x as i32), Object::Short(x) => ElementValueFacts::Short(*x as i32),
			Object::Integer(x) => ElementValueFacts::Int(*x), Object::Boolean(x) => ElementValueFacts::Boolean(*x as i32), Object::Long(x) => ElementValueFacts::Long(*x),
			Object::Float(x) => ElementValueFacts::Float(F32::of(*x)), Object::Double(x) => ElementValueFacts::Double(F64::of(*x)), Object::String(s) => ElementValueFacts::String(js(s)),
		},
		ElementValue::Enum { type_name, const_name } => ElementValueFacts::Enum { type_desc: js(type_name.as_inner()), const_name: js(const_name) },
		ElementValue::Class(c) => ElementValueFacts::Class(js(c.as_inner())),
		ElementValue::AnnotationInterface(a) => ElementValueFacts::Annotation(annotation(a)),
		ElementValue::ArrayType(xs) => ElementValueFacts::Array(xs.iter().map(element).collect()),
	}
}
fn annotation(a: &Annotation) -> AnnotationFacts {
	AnnotationFacts { type_desc: js(a.annotation_type.as_inner()), pairs: a.element_value_pairs.iter().map(|p| (js(&p.name), element(&p.value))).collect() }
}
fn annotations(v: &[Annotation]) -> Vec<AnnotationFacts> { v.iter().map(annotation).collect() }

// ---- Debug-tree readers for crate-private parts ----------------------------------------------

fn d_jstr(d: &Dbg) -> JStr {
	match d {
		Dbg::Str(c) => JStr::from_code_points(c),
		Dbg::Named(_, fs) if fs.len() == 1 => d_jstr(&fs[0].1),
		other => panic!("expected a string in Debug output, got {other}"),
	}
}
fn d_opt<'a>(d: &'a Dbg) -> Option<&'a Dbg> { d.option().unwrap_or_else(|| panic!("expected an Option in Debug output, got {d}")) }
fn d_field<'a>(d: &'a Dbg, f: &str) -> &'a Dbg { d.field(f).unwrap_or_else(|| panic!("field {f} missing in Debug output {d}")) }
fn d_list<'a>(d: &'a Dbg) -> &'a [Dbg] { d.list().unwrap_or_else(|| panic!("expected a list in Debug output, got {d}")) }
fn d_num<T: std::str::FromStr>(d: &Dbg) -> T { d.num().unwrap_or_else(|| panic!("expected a number in Debug output, got {d}")) }
fn d_flags(d: &Dbg, table: &[(&str, u16)]) -> u16 {
	let words = d.flags().unwrap_or_else(|| panic!("expected flags in Debug output, got {d}"));
	words.iter().fold(0, |a, w| a | table.iter().find(|(n, _)| n == w).unwrap_or_else(|| panic!("unknown flag word {w}")).1)
}
fn d_type_path(d: &Dbg) -> Vec<PathStep> {
	d_list(d_field(d, "path")).iter().map(|s| match s.name() {
		Some("ArrayDeeper") => PathStep::Array, Some("NestedDeeper") => PathStep::Nested, Some("WildcardBound") => PathStep::Wildcard,
		Some("TypeArgument") => PathStep::TypeArgument(d_num(d_field(s, "index"))),
		_ => panic!("unexpected TypePathKind {s}"),
	}).collect()
}
fn type_path<T: std::fmt::Debug>(p: &T) -> Vec<PathStep> { d_type_path(&dbg::of(p)) }

fn d_element(d: &Dbg) -> ElementValueFacts {
	match d {
		Dbg::Named(n, fs) if n == "Object" && fs.len() == 1 => {
			let o = &fs[0].1;
			let x = o.arg(0).unwrap_or_else(|| panic!("bad Object {o}"));
			match o.name() {
				Some("Byte") => ElementValueFacts::Byte(d_num(x)), Some("Char") => ElementValueFacts::Char(d_num(x)), Some("Short") => ElementValueFacts::Short(d_num(x)),
				Some("Integer") => ElementValueFacts::Int(d_num(x)), Some("Long") => ElementValueFacts::Long(d_num(x)),
				Some("Boolean") => ElementValueFacts::Boolean((x.atom() == Some("true")) as i32),
				Some("Float") => ElementValueFacts::Float(F32::of(d_num::<f32>(x))), Some("Double") => ElementValueFacts::Double(F64::of(d_num::<f64>(x))),
				Some("String") => ElementValueFacts::String(d_jstr(x)),
				_ => panic!("unexpected Object {o}"),
			}
		}
		Dbg::Named(n, _) if n == "Enum" => ElementValueFacts::Enum { type_desc: d_jstr(d_field(d, "type_name")), const_name: d_jstr(d_field(d, "const_name")) },
		Dbg::Named(n, fs) if n == "Class" && fs.len() == 1 => ElementValueFacts::Class(d_jstr(&fs[0].1)),
		Dbg::Named(n, fs) if n == "AnnotationInterface" && fs.len() == 1 => ElementValueFacts::Annotation(d_annotation(&fs[0].1)),
		Dbg::Named(n, fs) if n == "ArrayType" && fs.len() == 1 => ElementValueFacts::Array(d_list(&fs[0].1).iter().map(d_element).collect()),
		other => panic!("unexpected ElementValue {other}"),
	}
}
fn d_annotation(d: &Dbg) -> AnnotationFacts {
	match d {
		Dbg::At(t, pairs) => AnnotationFacts { type_desc: d_jstr(t), pairs: pairs.iter().map(|(k, v)| (d_jstr(k), d_element(v))).collect() },
		other => panic!("unexpected Annotation {other}"),
	}
}
fn d_unknown(d: &Dbg) -> Vec<UnknownAttr> {
	let mut v: Vec<UnknownAttr> = d_list(d).iter().map(|a| UnknownAttr { name: d_jstr(d_field(a, "name")), bytes: d_list(d_field(a, "bytes")).iter().map(d_num::<u8>).collect() }).collect();
	v.sort();
	v
}

fn unknown(v: &[duke::tree::attribute::Attribute]) -> Vec<UnknownAttr> {
	let mut v: Vec<UnknownAttr> = v.iter().map(|a| UnknownAttr { name: js(&a.name), bytes: a.bytes.clone() }).collect();
	v.sort();
	v
}

// ---- type annotations ---------------------------------------------------------------------------

fn ta_class(v: &[TypeAnnotation<TargetInfoClass>]) -> Vec<TypeAnnotationFacts> {
	v.iter().map(|t| TypeAnnotationFacts {
		target: match t.type_reference {
			TargetInfoClass::ClassTypeParameter { index } => TargetFacts::ClassTypeParameter(index),
			TargetInfoClass::Extends => TargetFacts::Supertype(65535),
			TargetInfoClass::Implements { index } => TargetFacts::Supertype(index),
			TargetInfoClass::ClassTypeParameterBound { type_parameter_index, bound_index } => TargetFacts::ClassTypeParameterBound { param: type_parameter_index, bound: bound_index },
		},
		path: type_path(&t.type_path), annotation: annotation(&t.annotation),
	}).collect()
}
fn ta_field(v: &[TypeAnnotation<TargetInfoField>]) -> Vec<TypeAnnotationFacts> {
	v.iter().map(|t| TypeAnnotationFacts { target: match t.type_reference { TargetInfoField::Field => TargetFacts::Field }, path: type_path(&t.type_path), annotation: annotation(&t.annotation) }).collect()
}
fn ta_method(v: &[TypeAnnotation<TargetInfoMethod>]) -> Vec<TypeAnnotationFacts> {
	v.iter().map(|t| TypeAnnotationFacts {
		target: match t.type_reference {
			TargetInfoMethod::MethodTypeParameter { index } => TargetFacts::MethodTypeParameter(index),
			TargetInfoMethod::MethodTypeParameterBound { type_parameter_index, bound_index } => TargetFacts::MethodTypeParameterBound { param: type_parameter_index, bound: bound_index },
			TargetInfoMethod::Return => TargetFacts::Return, TargetInfoMethod::Receiver => TargetFacts::Receiver,
			TargetInfoMethod::FormalParameter { index } => TargetFacts::FormalParameter(index), TargetInfoMethod::Throws { index } => TargetFacts::Throws(index),
		},
		path: type_path(&t.type_path), annotation: annotation(&t.annotation),
	}).collect()
}

// ---- code -------------------------------------------------------------------------------------------

struct Labels { map: HashMap<u16, usize> }
impl Labels {
	fn pos(&self, l: &Label) -> usize { self.map.get(&label_id(l)).copied().unwrap_or(DANGLING) }
	/// a `LabelRange` (crate-private fields) via Debug
	fn range<T: std::fmt::Debug>(&self, r: &T) -> (usize, usize) {
		let d = dbg::of(r);
		let id = |f: &str| -> u16 { d_num(d_field(d_field(&d, f), "id")) };
		(self.map.get(&id("start")).copied().unwrap_or(DANGLING), self.map.get(&id("end")).copied().unwrap_or(DANGLING))
	}
}

fn atype(t: &ArrayType) -> u8 {
	match t { ArrayType::Boolean => 4, ArrayType::Char => 5, ArrayType::Float => 6, ArrayType::Double => 7, ArrayType::Byte => 8, ArrayType::Short => 9, ArrayType::Int => 10, ArrayType::Long => 11 }
}

fn insn(i: &Instruction, l: &Labels) -> InsnFacts {
	use Instruction as I;
	let n = |op: &'static str| InsnG { op, arg: OperandG::None };
	let loc = |op: &'static str, v: &duke::tree::method::code::LvIndex| InsnG { op, arg: OperandG::Local(v.index) };
	let br = |op: &'static str, t: &Label| InsnG { op, arg: OperandG::Branch(l.pos(t)) };
	let fld = |op: &'static str, r: &FieldRef| InsnG { op, arg: OperandG::Field(MemberRef { owner: js(r.class.as_inner()), name: js(r.name.as_inner()), desc: js(r.desc.as_inner()) }) };
	let mth = |op: &'static str, r: &MethodRef, interface: bool| InsnG { op, arg: OperandG::Method(MethodRefFacts { owner: js(r.class.as_inner()), name: js(r.name.as_inner()), desc: js(r.desc.as_inner()), interface }) };
	let cls = |op: &'static str, c: &duke::tree::class::ClassName| InsnG { op, arg: OperandG::Class(js(c.as_inner())) };
	match i {
		I::Nop => n("nop"), I::AConstNull => n("aconst_null"),
		I::IConstM1 => n("iconst_m1"), I::IConst0 => n("iconst_0"), I::IConst1 => n("iconst_1"), I::IConst2 => n("iconst_2"), I::IConst3 => n("iconst_3"), I::IConst4 => n("iconst_4"), I::IConst5 => n("iconst_5"),
		I::LConst0 => n("lconst_0"), I::LConst1 => n("lconst_1"), I::FConst0 => n("fconst_0"), I::FConst1 => n("fconst_1"), I::FConst2 => n("fconst_2"), I::DConst0 => n("dconst_0"), I::DConst1 => n("dconst_1"),
		I::BiPush(x) => InsnG { op: "bipush", arg: OperandG::Int(*x as i32) },
		I::SiPush(x) => InsnG { op: "sipush", arg: OperandG::Int(*x as i32) },
		I::Ldc(c) => InsnG { op: "ldc", arg: OperandG::Const(loadable(c)) },
		I::ILoad(v) => loc("iload", v), I::LLoad(v) => loc("lload", v), I::FLoad(v) => loc("fload", v), I::DLoad(v) => loc("dload", v), I::ALoad(v) => loc("aload", v),
		I::IALoad => n("iaload"), I::LALoad => n("laload"), I::FALoad => n("faload"), I::DALoad => n("daload"), I::AALoad => n("aaload"), I::BALoad => n("baload"), I::CALoad => n("caload"), I::SALoad => n("saload"),
		I::IStore(v) => loc("istore", v), I::LStore(v) => loc("lstore", v), I::FStore(v) => loc("fstore", v), I::DStore(v) => loc("dstore", v), I::AStore(v) => loc("astore", v),
		I::IAStore => n("iastore"), I::LAStore => n("lastore"), I::FAStore => n("fastore"), I::DAStore => n("dastore"), I::AAStore => n("aastore"), I::BAStore => n("bastore"), I::CAStore => n("castore"), I::SAStore => n("sastore"),
		I::Pop => n("pop"), I::Pop2 => n("pop2"), I::Dup => n("dup"), I::DupX1 => n("dup_x1"), I::DupX2 => n("dup_x2"), I::Dup2 => n("dup2"), I::Dup2X1 => n("dup2_x1"), I::Dup2X2 => n("dup2_x2"), I::Swap => n("swap"),
		I::IAdd => n("iadd"), I::LAdd => n("ladd"), I::FAdd => n("fadd"), I::DAdd => n("dadd"), I::ISub => n("isub"), I::LSub => n("lsub"), I::FSub => n("fsub"), I::DSub => n("dsub"),
		I::IMul => n("imul"), I::LMul => n("lmul"), I::FMul => n("fmul"), I::DMul => n("dmul"), I::IDiv => n("idiv"), I::LDiv => n("ldiv"), I::FDiv => n("fdiv"), I::DDiv => n("ddiv"),
		I::IRem => n("irem"), I::LRem => n("lrem"), I::FRem => n("frem"), I::DRem => n("drem"), I::INeg => n("ineg"), I::LNeg => n("lneg"), I::FNeg => n("fneg"), I::DNeg => n("dneg"),
		I::IShl => n("ishl"), I::LShl => n("lshl"), I::IShr => n("ishr"), I::LShr => n("lshr"), I::IUShr => n("iushr"), I::LUShr => n("lushr"),
		I::IAnd => n("iand"), I::LAnd => n("land"), I::IOr => n("ior"), I::LOr => n("lor"), I::IXor => n("ixor"), I::LXor => n("lxor"),
		I::IInc(v, d) => InsnG { op: "iinc", arg: OperandG::Iinc { local: v.index, delta: *d } },
		I::I2L => n("i2l"), I::I2F => n("i2f"), I::I2D => n("i2d"), I::L2I => n("l2i"), I::L2F => n("l2f"), I::L2D => n("l2d"), I::F2I => n("f2i"), I::F2L => n("f2l"), I::F2D => n("f2d"),
		I::D2I => n("d2i"), I::D2L => n("d2l"), I::D2F => n("d2f"), I::I2B => n("i2b"), I::I2C => n("i2c"), I::I2S => n("i2s"),
		I::LCmp => n("lcmp"), I::FCmpL => n("fcmpl"), I::FCmpG => n("fcmpg"), I::DCmpL => n("dcmpl"), I::DCmpG => n("dcmpg"),
		I::IfEq(t) => br("ifeq", t), I::IfNe(t) => br("ifne", t), I::IfLt(t) => br("iflt", t), I::IfGe(t) => br("ifge", t), I::IfGt(t) => br("ifgt", t), I::IfLe(t) => br("ifle", t),
		I::IfICmpEq(t) => br("if_icmpeq", t), I::IfICmpNe(t) => br("if_icmpne", t), I::IfICmpLt(t) => br("if_icmplt", t), I::IfICmpGe(t) => br("if_icmpge", t), I::IfICmpGt(t) => br("if_icmpgt", t), I::IfICmpLe(t) => br("if_icmple", t),
		I::IfACmpEq(t) => br("if_acmpeq", t), I::IfACmpNe(t) => br("if_acmpne", t),
		I::Goto(t) => br("goto", t), I::Jsr(t) => br("jsr", t), I::Ret(v) => loc("ret", v),
		I::TableSwitch { default, low, high, table } => InsnG { op: "tableswitch", arg: OperandG::TableSwitch { default: l.pos(default), low: *low, high: *high, targets: table.iter().map(|t| l.pos(t)).collect() } },
		I::LookupSwitch { default, pairs } => InsnG { op: "lookupswitch", arg: OperandG::LookupSwitch { default: l.pos(default), pairs: pairs.iter().map(|(k, t)| (*k, l.pos(t))).collect() } },
		I::IReturn => n("ireturn"), I::LReturn => n("lreturn"), I::FReturn => n("freturn"), I::DReturn => n("dreturn"), I::AReturn => n("areturn"), I::Return => n("return"),
		I::GetStatic(r) => fld("getstatic", r), I::PutStatic(r) => fld("putstatic", r), I::GetField(r) => fld("getfield", r), I::PutField(r) => fld("putfield", r),
		I::InvokeVirtual(r) => mth("invokevirtual", r, false), I::InvokeSpecial(r, i) => mth("invokespecial", r, *i), I::InvokeStatic(r, i) => mth("invokestatic", r, *i),
		I::InvokeInterface(r) => mth("invokeinterface", r, true),
		I::InvokeDynamic(InvokeDynamic { name, descriptor, handle: h, arguments }) =>
			InsnG { op: "invokedynamic", arg: OperandG::InvokeDynamic(DynamicFacts { name: js(name.as_inner()), desc: js(descriptor.as_inner()), bootstrap: handle(h), args: arguments.iter().map(loadable).collect() }) },
		I::New(c) => cls("new", c), I::NewArray(t) => InsnG { op: "newarray", arg: OperandG::NewArray(atype(t)) }, I::ANewArray(c) => cls("anewarray", c),
		I::ArrayLength => n("arraylength"), I::AThrow => n("athrow"), I::CheckCast(c) => cls("checkcast", c), I::InstanceOf(c) => cls("instanceof", c),
		I::MonitorEnter => n("monitorenter"), I::MonitorExit => n("monitorexit"),
		I::MultiANewArray(c, d) => InsnG { op: "multianewarray", arg: OperandG::MultiANewArray { class: js(c.as_inner()), dims: *d } },
		I::IfNull(t) => br("ifnull", t), I::IfNonNull(t) => br("ifnonnull", t),
	}
}

fn vtype(t: &VerificationTypeInfo, l: &Labels) -> VTypeG<usize> {
	match t {
		VerificationTypeInfo::Top => VTypeG::Top, VerificationTypeInfo::Integer => VTypeG::Integer, VerificationTypeInfo::Float => VTypeG::Float,
		VerificationTypeInfo::Long => VTypeG::Long, VerificationTypeInfo::Double => VTypeG::Double, VerificationTypeInfo::Null => VTypeG::Null,
		VerificationTypeInfo::UninitializedThis => VTypeG::UninitializedThis, VerificationTypeInfo::Object(c) => VTypeG::Object(js(c.as_inner())),
		VerificationTypeInfo::Uninitialized(x) => VTypeG::Uninitialized(l.pos(x)),
	}
}

fn ta_code(v: &[TypeAnnotation<TargetInfoCode>], l: &Labels) -> Vec<CodeTypeAnnotationG<usize>> {
	v.iter().map(|t| {
		let tab = |table: &Vec<(duke::tree::method::code::LabelRange, duke::tree::method::code::LvIndex)>| -> Vec<LocalVarRangeG<usize>> {
			table.iter().map(|(r, i)| { let (start, end) = l.range(r); LocalVarRangeG { start, end, index: i.index } }).collect()
		};
		let target = match &t.type_reference {
			TargetInfoCode::LocalVariable { table } => CodeTargetG::LocalVariable(tab(table)),
			TargetInfoCode::ResourceVariable { table } => CodeTargetG::ResourceVariable(tab(table)),
			TargetInfoCode::ExceptionParameter { index } => CodeTargetG::ExceptionParameter(*index),
			TargetInfoCode::InstanceOf(x) => CodeTargetG::InstanceOf(l.pos(x)), TargetInfoCode::New(x) => CodeTargetG::New(l.pos(x)),
			TargetInfoCode::ConstructorReference(x) => CodeTargetG::ConstructorReference(l.pos(x)), TargetInfoCode::MethodReference(x) => CodeTargetG::MethodReference(l.pos(x)),
			TargetInfoCode::Cast { label, index } => CodeTargetG::Cast { at: l.pos(label), index: *index },
			TargetInfoCode::ConstructorInvocationTypeArgument { label, index } => CodeTargetG::ConstructorInvocationTypeArgument { at: l.pos(label), index: *index },
			TargetInfoCode::MethodInvocationTypeArgument { label, index } => CodeTargetG::MethodInvocationTypeArgument { at: l.pos(label), index: *index },
			TargetInfoCode::ConstructorReferenceTypeArgument { label, index } => CodeTargetG::ConstructorReferenceTypeArgument { at: l.pos(label), index: *index },
			TargetInfoCode::MethodReferenceTypeArgument { label, index } => CodeTargetG::MethodReferenceTypeArgument { at: l.pos(label), index: *index },
		};
		CodeTypeAnnotationG { target, path: type_path(&t.type_path), annotation: annotation(&t.annotation) }
	}).collect()
}

/// Facts of one `Code`.  A label on instruction entry `i` denotes index `i`; `last_label` denotes
/// the number of instructions; a label attached nowhere becomes `DANGLING`.  If two entries carry
/// the same label the first one wins.
pub fn code_facts(c: &Code) -> CodeFacts {
	let mut map = HashMap::new();
	for (k, e) in c.instructions.iter().enumerate() { if let Some(lb) = &e.label { map.entry(label_id(lb)).or_insert(k); } }
	if let Some(lb) = &c.last_label { map.entry(label_id(lb)).or_insert(c.instructions.len()); }
	let l = Labels { map };
	let mut g: CodeFacts = CodeG { max_stack: c.max_stack, max_locals: c.max_locals, insns: vec![], exception_table: vec![], line_numbers: vec![], local_variables: vec![],
		local_variable_types: vec![], frames: None, visible_type_annotations: vec![], invisible_type_annotations: vec![], unknown_attributes: unknown(&c.attributes) };
	let mut frames = vec![];
	for (k, e) in c.instructions.iter().enumerate() {
		g.insns.push(insn(&e.instruction, &l));
		if let Some(f) = &e.frame {
			let kind = match f {
				StackMapData::Same => FrameKindG::Same,
				StackMapData::SameLocals1StackItem { stack } => FrameKindG::SameLocals1(vtype(stack, &l)),
				StackMapData::Chop { k } => FrameKindG::Chop(*k),
				StackMapData::Append { locals } => FrameKindG::Append(locals.iter().map(|t| vtype(t, &l)).collect()),
				StackMapData::Full { locals, stack } => FrameKindG::Full { locals: locals.iter().map(|t| vtype(t, &l)).collect(), stack: stack.iter().map(|t| vtype(t, &l)).collect() },
			};
			frames.push(FrameG { at: k, kind });
		}
	}
	// the tree cannot tell "no StackMapTable" from "StackMapTable without frames"
	if !frames.is_empty() { g.frames = Some(frames); }
	for e in &c.exception_table {
		g.exception_table.push(ExceptionG { start: l.pos(&e.start), end: l.pos(&e.end), handler: l.pos(&e.handler), catch_type: e.catch.as_ref().map(|c| js(c.as_inner())) });
	}
	for (lb, line) in c.line_numbers.iter().flatten() { g.line_numbers.push((l.pos(lb), *line)); }
	for v in c.local_variables.iter().flatten() {
		let (start, end) = l.range(&v.range);
		if let Some(d) = &v.descriptor { g.local_variables.push(LocalVarG { start, end, index: v.index.index, name: js(v.name.as_inner()), desc: js(d.as_inner()) }); }
		if let Some(s) = &v.signature { g.local_variable_types.push(LocalVarTypeG { start, end, index: v.index.index, name: js(v.name.as_inner()), signature: js(s.as_inner()) }); }
	}
	g.visible_type_annotations = ta_code(&c.runtime_visible_type_annotations, &l);
	g.invisible_type_annotations = ta_code(&c.runtime_invisible_type_annotations, &l);
	g.normalize();
	g
}

fn field(f: &Field) -> FieldFacts {
	FieldFacts {
		access: field_access(&f.access), name: js(f.name.as_inner()), desc: js(f.descriptor.as_inner()),
		deprecated: f.has_deprecated_attribute, synthetic: f.has_synthetic_attribute,
		constant_value: f.constant_value.as_ref().map(|c| match c {
			ConstantValue::Integer(x) => Loadable::Int(*x), ConstantValue::Float(x) => Loadable::Float(F32::of(*x)), ConstantValue::Long(x) => Loadable::Long(*x),
			ConstantValue::Double(x) => Loadable::Double(F64::of(*x)), ConstantValue::String(s) => Loadable::String(js(s)),
		}),
		signature: f.signature.as_ref().map(|s| js(s.as_inner())),
		visible_annotations: annotations(&f.runtime_visible_annotations), invisible_annotations: annotations(&f.runtime_invisible_annotations),
		visible_type_annotations: ta_field(&f.runtime_visible_type_annotations), invisible_type_annotations: ta_field(&f.runtime_invisible_type_annotations),
		unknown_attributes: unknown(&f.attributes),
	}
}

fn method(m: &Method) -> MethodFacts {
	MethodG {
		access: method_access(&m.access), name: js(m.name.as_inner()), desc: js(m.descriptor.as_inner()),
		deprecated: m.has_deprecated_attribute, synthetic: m.has_synthetic_attribute,
		code: m.code.as_ref().map(code_facts),
		exceptions: m.exceptions.as_ref().map(|v| v.iter().map(|c| js(c.as_inner())).collect()),
		signature: m.signature.as_ref().map(|s| js(s.as_inner())),
		visible_annotations: annotations(&m.runtime_visible_annotations), invisible_annotations: annotations(&m.runtime_invisible_annotations),
		visible_type_annotations: ta_method(&m.runtime_visible_type_annotations), invisible_type_annotations: ta_method(&m.runtime_invisible_type_annotations),
		// the tree has no place for parameter annotations
		visible_parameter_annotations: None, invisible_parameter_annotations: None,
		annotation_default: m.annotation_default.as_ref().map(element),
		method_parameters: m.method_parameters.as_ref().map(|v| v.iter().map(|p| MethodParameterFacts { name: p.name.as_ref().map(|n| js(n.as_inner())), access: parameter_flags(&p.flags) }).collect()),
		unknown_attributes: unknown(&m.attributes),
	}
}

fn module(m: &duke::tree::module::Module) -> ModuleFacts {
	let d = dbg::of(m);
	const MF: [(&str, u16); 3] = [("open", 0x0020), ("synthetic", 0x1000), ("mandated", 0x8000)];
	const RF: [(&str, u16); 4] = [("transitive", 0x0020), ("static-phase", 0x0040), ("synthetic", 0x1000), ("mandated", 0x8000)];
	const EF: [(&str, u16); 2] = [("synthetic", 0x1000), ("mandated", 0x8000)];
	let names = |x: &Dbg| -> Vec<JStr> { d_list(x).iter().map(d_jstr).collect() };
	ModuleFacts {
		name: d_jstr(d_field(&d, "name")), flags: d_flags(d_field(&d, "flags"), &MF), version: d_opt(d_field(&d, "version")).map(d_jstr),
		requires: d_list(d_field(&d, "requires")).iter().map(|r| ModuleRequiresFacts { module: d_jstr(d_field(r, "name")), flags: d_flags(d_field(r, "flags"), &RF), version: d_opt(d_field(r, "version")).map(d_jstr) }).collect(),
		exports: d_list(d_field(&d, "exports")).iter().map(|e| ModuleExportsFacts { package: d_jstr(d_field(e, "name")), flags: d_flags(d_field(e, "flags"), &EF), to: names(d_field(e, "exports_to")) }).collect(),
		opens: d_list(d_field(&d, "opens")).iter().map(|e| ModuleExportsFacts { package: d_jstr(d_field(e, "name")), flags: d_flags(d_field(e, "flags"), &EF), to: names(d_field(e, "opens_to")) }).collect(),
		uses: names(d_field(&d, "uses")),
		provides: d_list(d_field(&d, "provides")).iter().map(|p| ModuleProvidesFacts { service: d_jstr(d_field(p, "name")), with: names(d_field(p, "provides_with")) }).collect(),
	}
}

fn record_component(r: &duke::tree::record::RecordComponent) -> RecordComponentFacts {
	let d = dbg::of(r);
	let tas = |x: &Dbg| -> Vec<TypeAnnotationFacts> {
		d_list(x).iter().map(|t| TypeAnnotationFacts {
			target: match d_field(t, "type_reference").name() { Some("Field") => TargetFacts::Field, other => panic!("unexpected TargetInfoField {other:?}") },
			path: d_type_path(d_field(t, "type_path")), annotation: d_annotation(d_field(t, "annotation")),
		}).collect()
	};
	RecordComponentFacts {
		name: js(r.name.as_inner()), desc: js(r.descriptor.as_inner()),
		signature: d_opt(d_field(&d, "signature")).map(d_jstr),
		visible_annotations: d_list(d_field(&d, "runtime_visible_annotations")).iter().map(d_annotation).collect(),
		invisible_annotations: d_list(d_field(&d, "runtime_invisible_annotations")).iter().map(d_annotation).collect(),
		visible_type_annotations: tas(d_field(&d, "runtime_visible_type_annotations")),
		invisible_type_annotations: tas(d_field(&d, "runtime_invisible_type_annotations")),
		unknown_attributes: d_unknown(d_field(&d, "attributes")),
	}
}

/// Facts of a class in duke's tree model.
pub fn facts_from_duke(c: &ClassFile) -> ClassFacts {
	let v = dbg::of(&c.version);
	ClassG {
		version: Version { major: d_num(d_field(&v, "major")), minor: d_num(d_field(&v, "minor")) },
		access: class_access(&c.access),
		name: js(c.name.as_inner()),
		super_class: c.super_class.as_ref().map(|s| js(s.as_inner())),
		interfaces: c.interfaces.iter().map(|s| js(s.as_inner())).collect(),
		fields: c.fields.iter().map(field).collect(),
		methods: c.methods.iter().map(method).collect(),
		deprecated: c.has_deprecated_attribute, synthetic: c.has_synthetic_attribute,
		inner_classes: c.inner_classes.as_ref().map(|v| v.iter().map(|i| InnerClassFacts {
			inner: js(i.inner_class.as_inner()), outer: i.outer_class.as_ref().map(|o| js(o.as_inner())), inner_name: i.inner_name.as_ref().map(|n| js(n)), access: inner_class_flags(&i.flags) }).collect()),
		enclosing_method: c.enclosing_method.as_ref().map(|e| EnclosingMethodFacts { class: js(e.class.as_inner()), method: e.method.as_ref().map(|m| (js(m.name.as_inner()), js(m.desc.as_inner()))) }),
		signature: c.signature.as_ref().map(|s| js(s.as_inner())),
		source_file: c.source_file.as_ref().map(|s| js(s)),
		source_debug_extension: c.source_debug_extension.as_ref().map(|s| js(s)),
		visible_annotations: annotations(&c.runtime_visible_annotations), invisible_annotations: annotations(&c.runtime_invisible_annotations),
		visible_type_annotations: ta_class(&c.runtime_visible_type_annotations), invisible_type_annotations: ta_class(&c.runtime_invisible_type_annotations),
		module: c.module.as_ref().map(module),
		module_packages: c.module_packages.as_ref().map(|v| v.iter().map(|p| js(p.as_inner())).collect()),
		module_main_class: c.module_main_class.as_ref().map(|s| js(s.as_inner())),
		nest_host: c.nest_host_class.as_ref().map(|s| js(s.as_inner())),
		nest_members: c.nest_members.as_ref().map(|v| v.iter().map(|s| js(s.as_inner())).collect()),
		permitted_subclasses: c.permitted_subclasses.as_ref().map(|v| v.iter().map(|s| js(s.as_inner())).collect()),
		// the tree cannot tell "no Record attribute" from "Record attribute without components"
		record: if c.record_components.is_empty() { None } else { Some(c.record_components.iter().map(record_component).collect()) },
		unknown_attributes: unknown(&c.attributes),
	}
}
