//! The JVM instruction set (JVMS 6.5 / 7): mnemonic and operand layout of every opcode.
//! Written from the specification's table; shares nothing with duke's `class_constants`.

/// Operand layout of an opcode.
#[derive(Clone, Copy, PartialEq, Eq, Debug)]
pub enum OpKind {
	/// no operand bytes
	NoArg,
	/// no operand bytes, implicit local index 0..=3 (`xload_n`, `xstore_n`)
	LocalN,
	/// `bipush`: i8
	Byte,
	/// `sipush`: i16
	Short,
	/// `ldc`: u8 pool index
	Ldc,
	/// `ldc_w`, `ldc2_w`: u16 pool index
	LdcW,
	/// `xload`, `xstore`, `ret`: u8 local (u16 under `wide`)
	Local,
	/// `iinc`: u8 local, i8 const (u16, i16 under `wide`)
	Iinc,
	/// 16-bit branch offset
	Branch16,
	/// 32-bit branch offset (`goto_w`, `jsr_w`)
	Branch32,
	TableSwitch,
	LookupSwitch,
	/// u16 Fieldref
	Field,
	/// u16 Methodref / InterfaceMethodref (`invokevirtual`, `invokespecial`, `invokestatic`)
	Method,
	/// u16 InterfaceMethodref, u8 count, u8 zero
	InvokeInterface,
	/// u16 InvokeDynamic, u16 zero
	InvokeDynamic,
	/// u16 Class (`new`, `anewarray`, `checkcast`, `instanceof`)
	Class,
	/// u8 atype
	NewArray,
	/// u16 Class, u8 dimensions
	MultiANewArray,
	/// the `wide` prefix
	Wide,
	/// reserved or undefined opcode — not allowed in a class file
	Invalid,
}

pub const MNEMONICS: [&str; 202] = [
	"nop", "aconst_null", "iconst_m1", "iconst_0", "iconst_1", "iconst_2", "iconst_3", "iconst_4", "iconst_5",
	"lconst_0", "lconst_1", "fconst_0", "fconst_1", "fconst_2", "dconst_0", "dconst_1",
	"bipush", "sipush", "ldc", "ldc_w", "ldc2_w",
	"iload", "lload", "fload", "dload", "aload",
	"iload_0", "iload_1", "iload_2", "iload_3", "lload_0", "lload_1", "lload_2", "lload_3",
	"fload_0", "fload_1", "fload_2", "fload_3", "dload_0", "dload_1", "dload_2", "dload_3",
	"aload_0", "aload_1", "aload_2", "aload_3",
	"iaload", "laload", "faload", "daload", "aaload", "baload", "caload", "saload",
	"istore", "lstore", "fstore", "dstore", "astore",
	"istore_0", "istore_1", "istore_2", "istore_3", "lstore_0", "lstore_1", "lstore_2", "lstore_3",
	"fstore_0", "fstore_1", "fstore_2", "fstore_3", "dstore_0", "dstore_1", "dstore_2", "dstore_3",
	"astore_0", "astore_1", "astore_2", "astore_3",
	"iastore", "lastore", "fastore", "dastore", "aastore", "bastore", "castore", "sastore",
	"pop", "pop2", "dup", "dup_x1", "dup_x2", "dup2", "dup2_x1", "dup2_x2", "swap",
	"iadd", "ladd", "fadd", "dadd", "isub", "lsub", "fsub", "dsub", "imul", "lmul", "fmul", "dmul",
	"idiv", "ldiv", "fdiv", "ddiv", "irem", "lrem", "frem", "drem", "ineg", "lneg", "fneg", "dneg",
	"ishl", "lshl", "ishr", "lshr", "iushr", "lushr", "iand", "land", "ior", "lor", "ixor", "lxor",
	"iinc",
	"i2l", "i2f", "i2d", "l2i", "l2f", "l2d", "f2i", "f2l", "f2d", "d2i", "d2l", "d2f", "i2b", "i2c", "i2s",
	"lcmp", "fcmpl", "fcmpg", "dcmpl", "dcmpg",
	"ifeq", "ifne", "iflt", "ifge", "ifgt", "ifle",
	"if_icmpeq", "if_icmpne", "if_icmplt", "if_icmpge", "if_icmpgt", "if_icmple", "if_acmpeq", "if_acmpne",
	"goto", "jsr", "ret", "tableswitch", "lookupswitch",
	"ireturn", "lreturn", "freturn", "dreturn", "areturn", "return",
	"getstatic", "putstatic", "getfield", "putfield",
	"invokevirtual", "invokespecial", "invokestatic", "invokeinterface", "invokedynamic",
	"new", "newarray", "anewarray", "arraylength", "athrow", "checkcast", "instanceof",
	"monitorenter", "monitorexit", "wide", "multianewarray", "ifnull", "ifnonnull", "goto_w", "jsr_w",
];

pub mod op {
	pub const NOP: u8 = 0; pub const ACONST_NULL: u8 = 1; pub const ICONST_M1: u8 = 2; pub const ICONST_0: u8 = 3; pub const ICONST_5: u8 = 8;
	pub const LCONST_0: u8 = 9; pub const FCONST_0: u8 = 11; pub const DCONST_0: u8 = 14; pub const DCONST_1: u8 = 15;
	pub const BIPUSH: u8 = 16; pub const SIPUSH: u8 = 17; pub const LDC: u8 = 18; pub const LDC_W: u8 = 19; pub const LDC2_W: u8 = 20;
	pub const ILOAD: u8 = 21; pub const LLOAD: u8 = 22; pub const FLOAD: u8 = 23; pub const DLOAD: u8 = 24; pub const ALOAD: u8 = 25;
	pub const ILOAD_0: u8 = 26; pub const ALOAD_0: u8 = 42; pub const ALOAD_3: u8 = 45;
	pub const IALOAD: u8 = 46; pub const SALOAD: u8 = 53;
	pub const ISTORE: u8 = 54; pub const LSTORE: u8 = 55; pub const FSTORE: u8 = 56; pub const DSTORE: u8 = 57; pub const ASTORE: u8 = 58;
	pub const ISTORE_0: u8 = 59; pub const ASTORE_3: u8 = 78;
	pub const IASTORE: u8 = 79; pub const POP: u8 = 87; pub const DUP: u8 = 89; pub const SWAP: u8 = 95; pub const IADD: u8 = 96; pub const LXOR: u8 = 131;
	pub const IINC: u8 = 132; pub const I2L: u8 = 133; pub const DCMPG: u8 = 152;
	pub const IFEQ: u8 = 153; pub const IF_ACMPNE: u8 = 166; pub const GOTO: u8 = 167; pub const JSR: u8 = 168; pub const RET: u8 = 169;
	pub const TABLESWITCH: u8 = 170; pub const LOOKUPSWITCH: u8 = 171; pub const IRETURN: u8 = 172; pub const ARETURN: u8 = 176; pub const RETURN: u8 = 177;
	pub const GETSTATIC: u8 = 178; pub const PUTSTATIC: u8 = 179; pub const GETFIELD: u8 = 180; pub const PUTFIELD: u8 = 181;
	pub const INVOKEVIRTUAL: u8 = 182; pub const INVOKESPECIAL: u8 = 183; pub const INVOKESTATIC: u8 = 184; pub const INVOKEINTERFACE: u8 = 185; pub const INVOKEDYNAMIC: u8 = 186;
	pub const NEW: u8 = 187; pub const NEWARRAY: u8 = 188; pub const ANEWARRAY: u8 = 189; pub const ARRAYLENGTH: u8 = 190; pub const ATHROW: u8 = 191;
	pub const CHECKCAST: u8 = 192; pub const INSTANCEOF: u8 = 193; pub const MONITORENTER: u8 = 194; pub const MONITOREXIT: u8 = 195;
	pub const WIDE: u8 = 196; pub const MULTIANEWARRAY: u8 = 197; pub const IFNULL: u8 = 198; pub const IFNONNULL: u8 = 199; pub const GOTO_W: u8 = 200; pub const JSR_W: u8 = 201;
}

/// mnemonic of an opcode (`None` for reserved/undefined opcodes 202..=255)
pub fn mnemonic(opcode: u8) -> Option<&'static str> { MNEMONICS.get(opcode as usize).copied() }

/// opcode of a mnemonic
pub fn opcode_of(mnemonic: &str) -> Option<u8> { MNEMONICS.iter().position(|m| *m == mnemonic).map(|i| i as u8) }

pub fn kind(opcode: u8) -> OpKind {
	use op::*;
	match opcode {
		0..=15 => OpKind::NoArg,
		BIPUSH => OpKind::Byte,
		SIPUSH => OpKind::Short,
		LDC => OpKind::Ldc,
		LDC_W | LDC2_W => OpKind::LdcW,
		21..=25 => OpKind::Local,
		26..=45 => OpKind::LocalN,
		46..=53 => OpKind::NoArg,
		54..=58 => OpKind::Local,
		59..=78 => OpKind::LocalN,
		79..=131 => OpKind::NoArg,
		IINC => OpKind::Iinc,
		133..=152 => OpKind::NoArg,
		153..=168 => OpKind::Branch16,
		RET => OpKind::Local,
		TABLESWITCH => OpKind::TableSwitch,
		LOOKUPSWITCH => OpKind::LookupSwitch,
		172..=177 => OpKind::NoArg,
		178..=181 => OpKind::Field,
		182..=184 => OpKind::Method,
		INVOKEINTERFACE => OpKind::InvokeInterface,
		INVOKEDYNAMIC => OpKind::InvokeDynamic,
		NEW | ANEWARRAY | CHECKCAST | INSTANCEOF => OpKind::Class,
		NEWARRAY => OpKind::NewArray,
		ARRAYLENGTH | ATHROW | MONITORENTER | MONITOREXIT => OpKind::NoArg,
		WIDE => OpKind::Wide,
		MULTIANEWARRAY => OpKind::MultiANewArray,
		IFNULL | IFNONNULL => OpKind::Branch16,
		GOTO_W | JSR_W => OpKind::Branch32,
		_ => OpKind::Invalid,
	}
}

/// For `xload_n` / `xstore_n`: the general opcode and the implicit local index.
pub fn split_local_n(opcode: u8) -> Option<(u8, u16)> {
	match opcode {
		26..=45 => { let s = opcode - 26; Some((op::ILOAD + (s >> 2), (s & 3) as u16)) }
		59..=78 => { let s = opcode - 59; Some((op::ISTORE + (s >> 2), (s & 3) as u16)) }
		_ => None,
	}
}
/// inverse of `split_local_n`
pub fn join_local_n(general: u8, n: u16) -> Option<u8> {
	if n > 3 { return None; }
	match general {
		21..=25 => Some(26 + (general - 21) * 4 + n as u8),
		54..=58 => Some(59 + (general - 54) * 4 + n as u8),
		_ => None,
	}
}

/// newarray atype codes (JVMS Table 6.5.newarray-A)
pub const ATYPES: [(u8, &str); 8] = [(4, "boolean"), (5, "char"), (6, "float"), (7, "double"), (8, "byte"), (9, "short"), (10, "int"), (11, "long")];
