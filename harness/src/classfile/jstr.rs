//! Java strings as UTF-16 code units (`JStr`), modified UTF-8 (JVMS 4.4.7) in both directions,
//! and bit-exact float wrappers.  Independent of duke's `jstring` and of the `java_string` codec
//! (only `from_java`/`to_java` touch `java_string`, to talk to duke's tree).
use std::fmt;

/// A Java string: a sequence of UTF-16 code units (lone surrogates allowed, as in the JVM).
/// This is the canonical form of every name/descriptor/string constant in the facts.
#[derive(Clone, PartialEq, Eq, PartialOrd, Ord, Hash, Default)]
pub struct JStr(pub Vec<u16>);

impl JStr {
	pub fn new(s: &str) -> JStr { JStr(s.encode_utf16().collect()) }
	pub fn units(&self) -> &[u16] { &self.0 }
	pub fn len(&self) -> usize { self.0.len() }
	pub fn is_empty(&self) -> bool { self.0.is_empty() }
	/// lossy rendering (lone surrogates become U+FFFD)
	pub fn to_string_lossy(&self) -> String { String::from_utf16_lossy(&self.0) }
	/// exact if the string is valid UTF-16
	pub fn to_string_exact(&self) -> Option<String> { String::from_utf16(&self.0).ok() }
	/// code points (surrogate pairs combined, lone surrogates kept as 0xD800..=0xDFFF) — the
	/// representation used by `fbh::gal` (`list N`)
	pub fn code_points(&self) -> Vec<u32> {
		let u = &self.0;
		let mut out = Vec::with_capacity(u.len());
		let mut i = 0;
		while i < u.len() {
			let a = u[i] as u32;
			if (0xD800..0xDC00).contains(&a) && i + 1 < u.len() && (0xDC00..0xE000).contains(&(u[i + 1] as u32)) {
				out.push(0x10000 + ((a - 0xD800) << 10) + (u[i + 1] as u32 - 0xDC00));
				i += 2;
			} else { out.push(a); i += 1; }
		}
		out
	}
	pub fn from_code_points(cps: &[u32]) -> JStr {
		let mut v = Vec::with_capacity(cps.len());
		for &c in cps {
			if c >= 0x10000 { let c = c - 0x10000; v.push(0xD800 + (c >> 10) as u16); v.push(0xDC00 + (c & 0x3FF) as u16); }
			else { v.push(c as u16); }
		}
		JStr(v)
	}
	/// modified UTF-8 as stored in CONSTANT_Utf8 (NUL as C0 80, every code unit on its own, so
	/// supplementary characters become two 3-byte sequences)
	pub fn to_mutf8(&self) -> Vec<u8> {
		let mut out = Vec::with_capacity(self.0.len());
		for &c in &self.0 {
			if c != 0 && c < 0x80 { out.push(c as u8); }
			else if c < 0x800 { out.push(0xC0 | (c >> 6) as u8); out.push(0x80 | (c & 0x3F) as u8); }
			else { out.push(0xE0 | (c >> 12) as u8); out.push(0x80 | ((c >> 6) & 0x3F) as u8); out.push(0x80 | (c & 0x3F) as u8); }
		}
		out
	}
	/// strict decoding of modified UTF-8: no zero byte, no byte 0xF0..=0xFF, well-formed 1/2/3-byte
	/// groups.  (Over-long two/three byte forms are accepted, as `DataInput.readUTF` does.)
	pub fn from_mutf8(b: &[u8]) -> Result<JStr, String> {
		let mut out = Vec::with_capacity(b.len());
		let mut i = 0;
		while i < b.len() {
			let x = b[i];
			if x == 0 { return Err(format!("modified UTF-8: zero byte at {i}")); }
			if x < 0x80 { out.push(x as u16); i += 1; }
			else if x & 0xE0 == 0xC0 {
				let y = *b.get(i + 1).ok_or_else(|| format!("modified UTF-8: truncated 2-byte group at {i}"))?;
				if y & 0xC0 != 0x80 { return Err(format!("modified UTF-8: bad continuation at {}", i + 1)); }
				out.push((((x & 0x1F) as u16) << 6) | (y & 0x3F) as u16); i += 2;
			} else if x & 0xF0 == 0xE0 {
				let y = *b.get(i + 1).ok_or_else(|| format!("modified UTF-8: truncated 3-byte group at {i}"))?;
				let z = *b.get(i + 2).ok_or_else(|| format!("modified UTF-8: truncated 3-byte group at {i}"))?;
				if y & 0xC0 != 0x80 || z & 0xC0 != 0x80 { return Err(format!("modified UTF-8: bad continuation after {i}")); }
				out.push((((x & 0x0F) as u16) << 12) | (((y & 0x3F) as u16) << 6) | (z & 0x3F) as u16); i += 3;
			} else { return Err(format!("modified UTF-8: illegal lead byte {x:#x} at {i}")); }
		}
		Ok(JStr(out))
	}
	/// from duke's string type (code points; a lone surrogate code point is one unit)
	pub fn from_java(s: &java_string::JavaStr) -> JStr {
		let cps: Vec<u32> = s.chars().map(|c| c.as_u32()).collect();
		JStr::from_code_points(&cps)
	}
	pub fn to_java(&self) -> java_string::JavaString {
		let mut s = java_string::JavaString::new();
		for c in self.code_points() { s.push_java(java_string::JavaCodePoint::from_u32(c).expect("code point")); }
		s
	}
}

impl From<&str> for JStr { fn from(s: &str) -> JStr { JStr::new(s) } }
impl From<String> for JStr { fn from(s: String) -> JStr { JStr::new(&s) } }

impl fmt::Debug for JStr {
	/// a double-quoted literal; everything outside printable ASCII is escaped as `\u{..}` per
	/// UTF-16 code unit, so the rendering is injective
	fn fmt(&self, f: &mut fmt::Formatter<'_>) -> fmt::Result {
		f.write_str("\"")?;
		for &c in &self.0 {
			match c {
				0x22 => f.write_str("\\\"")?,
				0x5C => f.write_str("\\\\")?,
				0x20..=0x7E => f.write_str(std::str::from_utf8(&[c as u8]).unwrap())?,
				_ => write!(f, "\\u{{{c:x}}}")?,
			}
		}
		f.write_str("\"")
	}
}
impl fmt::Display for JStr {
	fn fmt(&self, f: &mut fmt::Formatter<'_>) -> fmt::Result { f.write_str(&self.to_string_lossy()) }
}

/// f32 compared by bit pattern (NaN payloads and -0.0 are significant in a class file)
#[derive(Clone, Copy, PartialEq, Eq, PartialOrd, Ord, Hash)]
pub struct F32(pub u32);
/// f64 compared by bit pattern
#[derive(Clone, Copy, PartialEq, Eq, PartialOrd, Ord, Hash)]
pub struct F64(pub u64);
impl F32 { pub fn of(x: f32) -> F32 { F32(x.to_bits()) } pub fn get(self) -> f32 { f32::from_bits(self.0) } }
impl F64 { pub fn of(x: f64) -> F64 { F64(x.to_bits()) } pub fn get(self) -> f64 { f64::from_bits(self.0) } }
impl fmt::Debug for F32 { fn fmt(&self, f: &mut fmt::Formatter<'_>) -> fmt::Result { write!(f, "f32({:#010x}={:?})", self.0, self.get()) } }
impl fmt::Debug for F64 { fn fmt(&self, f: &mut fmt::Formatter<'_>) -> fmt::Result { write!(f, "f64({:#018x}={:?})", self.0, self.get()) } }
