//! Field map of a (valid) class file: every primitive item with its byte offset, width, kind and a
//! readable path — the basis for structure-aware mutation (C16: set every length / count / index /
//! offset field to {0, 1, max-1, max, actual±1}; truncate at every item boundary).
//! A second, lenient walker over the format, driven by a small schema per attribute; it does not
//! validate (run `raw::parse` for that).  The spans tile the file: contiguous, in order, no gaps.
use super::raw::{self, AttrLoc};

#[derive(Debug, Clone, Copy, PartialEq, Eq, PartialOrd, Ord, Hash)]
pub enum SpanKind {
	Magic, Version,
	/// u1/u2 number of entries of the table that follows (including constant_pool_count)
	Count,
	/// constant-pool tag
	Tag,
	/// u2 length of a CONSTANT_Utf8
	Utf8Length,
	/// raw bytes: Utf8 content, the code array, unknown attribute content, SourceDebugExtension
	Bytes,
	/// numeric payload of Integer/Float/Long/Double constants
	Value,
	/// u2 constant-pool index (u1 for the operand inside code is not listed: code is one `Bytes` span)
	PoolIndex,
	/// access_flags and the other flag words
	Flags,
	/// u4 attribute_length
	AttrLength,
	/// u4 code_length
	CodeLength,
	/// u2 offset into the code array (start_pc, end_pc, handler_pc, offset targets, Uninitialized offsets)
	Pc,
	/// u2 length relative to a start_pc
	PcLength,
	/// u2 offset_delta of a stack map frame
	OffsetDelta,
	/// u2 local variable index
	Local,
	/// u1 discriminants: frame_type, verification tag, element_value tag, target_type, type_path kind, reference_kind
	Discriminant,
	/// other u1/u2 payload: max_stack, max_locals, line number, type parameter index, bootstrap method index, …
	Plain,
}

#[derive(Debug, Clone, PartialEq, Eq)]
pub struct Span { pub offset: usize, pub len: usize, pub kind: SpanKind, pub path: String }

struct Wk<'a> { b: &'a [u8], p: usize, out: Vec<Span>, utf8: Vec<Option<String>> }

impl<'a> Wk<'a> {
	fn take(&mut self, n: usize, kind: SpanKind, path: &str) -> Result<u64, String> {
		if self.p + n > self.b.len() { return Err(format!("truncated at {} ({path})", self.p)); }
		let mut v: u64 = 0;
		if n <= 8 { for k in 0..n { v = (v << 8) | self.b[self.p + k] as u64; } }
		if n > 0 || kind == SpanKind::Bytes { self.out.push(Span { offset: self.p, len: n, kind, path: path.to_string() }); }
		self.p += n;
		Ok(v)
	}
	fn idx(&mut self, path: &str) -> Result<u64, String> { self.take(2, SpanKind::PoolIndex, path) }
	fn rep(&mut self, width: usize, path: &str, mut f: impl FnMut(&mut Self, &str) -> Result<(), String>) -> Result<(), String> {
		let n = self.take(width, SpanKind::Count, &format!("{path}.count"))?;
		for k in 0..n { f(self, &format!("{path}[{k}]"))?; }
		Ok(())
	}
	fn idxs(&mut self, path: &str) -> Result<(), String> { self.rep(2, path, |w, p| w.idx(p).map(|_| ())) }

	fn annotation(&mut self, path: &str) -> Result<(), String> {
		self.idx(&format!("{path}.type_index"))?;
		self.rep(2, &format!("{path}.pairs"), |w, p| { w.idx(&format!("{p}.name_index"))?; w.element(&format!("{p}.value")) })
	}
	fn element(&mut self, path: &str) -> Result<(), String> {
		let tag = self.take(1, SpanKind::Discriminant, &format!("{path}.tag"))? as u8;
		match tag {
			b'e' => { self.idx(&format!("{path}.type_name_index"))?; self.idx(&format!("{path}.const_name_index")).map(|_| ()) }
			b'@' => self.annotation(&format!("{path}.annotation")),
			b'[' => self.rep(2, &format!("{path}.array"), |w, p| w.element(p)),
			_ => self.idx(&format!("{path}.index")).map(|_| ()),
		}
	}
	fn type_annotation(&mut self, path: &str) -> Result<(), String> {
		let t = self.take(1, SpanKind::Discriminant, &format!("{path}.target_type"))? as u8;
		match t {
			0x00 | 0x01 | 0x16 => { self.take(1, SpanKind::Plain, &format!("{path}.target.index"))?; }
			0x10 | 0x17 | 0x42 => { self.take(2, SpanKind::Plain, &format!("{path}.target.index"))?; }
			0x11 | 0x12 => { self.take(1, SpanKind::Plain, &format!("{path}.target.type_parameter_index"))?; self.take(1, SpanKind::Plain, &format!("{path}.target.bound_index"))?; }
			0x40 | 0x41 => self.rep(2, &format!("{path}.target.table"), |w, p| { w.take(2, SpanKind::Pc, &format!("{p}.start_pc"))?; w.take(2, SpanKind::PcLength, &format!("{p}.length"))?; w.take(2, SpanKind::Local, &format!("{p}.index")).map(|_| ()) })?,
			0x43..=0x46 => { self.take(2, SpanKind::Pc, &format!("{path}.target.offset"))?; }
			0x47..=0x4B => { self.take(2, SpanKind::Pc, &format!("{path}.target.offset"))?; self.take(1, SpanKind::Plain, &format!("{path}.target.type_argument_index"))?; }
			_ => {}
		}
		self.rep(1, &format!("{path}.type_path"), |w, p| { w.take(1, SpanKind::Discriminant, &format!("{p}.kind"))?; w.take(1, SpanKind::Plain, &format!("{p}.argument")).map(|_| ()) })?;
		self.annotation(path)
	}
	fn vtype(&mut self, path: &str) -> Result<(), String> {
		match self.take(1, SpanKind::Discriminant, &format!("{path}.tag"))? { 7 => { self.idx(&format!("{path}.cpool_index"))?; } 8 => { self.take(2, SpanKind::Pc, &format!("{path}.offset"))?; } _ => {} }
		Ok(())
	}
	fn frame(&mut self, path: &str) -> Result<(), String> {
		let t = self.take(1, SpanKind::Discriminant, &format!("{path}.frame_type"))?;
		match t {
			0..=63 => {}
			64..=127 => self.vtype(&format!("{path}.stack[0]"))?,
			247 => { self.take(2, SpanKind::OffsetDelta, &format!("{path}.offset_delta"))?; self.vtype(&format!("{path}.stack[0]"))?; }
			248..=251 => { self.take(2, SpanKind::OffsetDelta, &format!("{path}.offset_delta"))?; }
			252..=254 => { self.take(2, SpanKind::OffsetDelta, &format!("{path}.offset_delta"))?; for k in 0..(t - 251) { self.vtype(&format!("{path}.locals[{k}]"))?; } }
			255 => { self.take(2, SpanKind::OffsetDelta, &format!("{path}.offset_delta"))?; self.rep(2, &format!("{path}.locals"), |w, p| w.vtype(p))?; self.rep(2, &format!("{path}.stack"), |w, p| w.vtype(p))?; }
			_ => return Err(format!("reserved frame type {t}")),
		}
		Ok(())
	}

	fn attributes(&mut self, path: &str, loc: AttrLoc) -> Result<(), String> {
		let n = self.take(2, SpanKind::Count, &format!("{path}.count"))?;
		for k in 0..n {
			let ni = self.p;
			let name_index = ((*self.b.get(ni).ok_or("truncated")? as usize) << 8) | *self.b.get(ni + 1).ok_or("truncated")? as usize;
			let name = self.utf8.get(name_index).cloned().flatten().unwrap_or_else(|| "?".into());
			let p = format!("{path}[{k}:{name}]");
			self.idx(&format!("{p}.name_index"))?;
			let len = self.take(4, SpanKind::AttrLength, &format!("{p}.length"))? as usize;
			let end = self.p + len;
			if end > self.b.len() { return Err(format!("{p}: attribute_length {len} exceeds the file")); }
			if raw::predefined_at(&name, loc) { self.attribute_body(&name, &p, end)?; }
			if self.p > end { return Err(format!("{p}: content longer than attribute_length")); }
			if self.p < end || !raw::predefined_at(&name, loc) { let rest = end - self.p; self.take(rest, SpanKind::Bytes, &format!("{p}.bytes"))?; }
		}
		Ok(())
	}
	fn attribute_body(&mut self, name: &str, p: &str, end: usize) -> Result<(), String> {
		let pc = SpanKind::Pc;
		match name {
			"ConstantValue" | "Signature" | "SourceFile" | "NestHost" | "ModuleMainClass" => { self.idx(&format!("{p}.index"))?; }
			"Exceptions" | "ModulePackages" | "NestMembers" | "PermittedSubclasses" => self.idxs(&format!("{p}.table"))?,
			"InnerClasses" => self.rep(2, &format!("{p}.classes"), |w, q| { w.idx(&format!("{q}.inner_class_info_index"))?; w.idx(&format!("{q}.outer_class_info_index"))?; w.idx(&format!("{q}.inner_name_index"))?; w.take(2, SpanKind::Flags, &format!("{q}.inner_class_access_flags")).map(|_| ()) })?,
			"EnclosingMethod" => { self.idx(&format!("{p}.class_index"))?; self.idx(&format!("{p}.method_index"))?; }
			"Synthetic" | "Deprecated" => {}
			"SourceDebugExtension" => { let n = end - self.p; self.take(n, SpanKind::Bytes, &format!("{p}.debug_extension"))?; }
			"LineNumberTable" => self.rep(2, &format!("{p}.table"), |w, q| { w.take(2, pc, &format!("{q}.start_pc"))?; w.take(2, SpanKind::Plain, &format!("{q}.line_number")).map(|_| ()) })?,
			"LocalVariableTable" | "LocalVariableTypeTable" => self.rep(2, &format!("{p}.table"), |w, q| {
				w.take(2, pc, &format!("{q}.start_pc"))?; w.take(2, SpanKind::PcLength, &format!("{q}.length"))?; w.idx(&format!("{q}.name_index"))?; w.idx(&format!("{q}.descriptor_index"))?; w.take(2, SpanKind::Local, &format!("{q}.index")).map(|_| ()) })?,
			"RuntimeVisibleAnnotations" | "RuntimeInvisibleAnnotations" => self.rep(2, &format!("{p}.annotations"), |w, q| w.annotation(q))?,
			"RuntimeVisibleParameterAnnotations" | "RuntimeInvisibleParameterAnnotations" => self.rep(1, &format!("{p}.parameters"), |w, q| w.rep(2, &format!("{q}.annotations"), |w, r| w.annotation(r)))?,
			"RuntimeVisibleTypeAnnotations" | "RuntimeInvisibleTypeAnnotations" => self.rep(2, &format!("{p}.annotations"), |w, q| w.type_annotation(q))?,
			"AnnotationDefault" => self.element(&format!("{p}.default_value"))?,
			"BootstrapMethods" => self.rep(2, &format!("{p}.methods"), |w, q| { w.idx(&format!("{q}.bootstrap_method_ref"))?; w.idxs(&format!("{q}.arguments")) })?,
			"MethodParameters" => self.rep(1, &format!("{p}.parameters"), |w, q| { w.idx(&format!("{q}.name_index"))?; w.take(2, SpanKind::Flags, &format!("{q}.access_flags")).map(|_| ()) })?,
			"Module" => {
				self.idx(&format!("{p}.module_name_index"))?; self.take(2, SpanKind::Flags, &format!("{p}.module_flags"))?; self.idx(&format!("{p}.module_version_index"))?;
				self.rep(2, &format!("{p}.requires"), |w, q| { w.idx(&format!("{q}.index"))?; w.take(2, SpanKind::Flags, &format!("{q}.flags"))?; w.idx(&format!("{q}.version_index")).map(|_| ()) })?;
				for t in ["exports", "opens"] { self.rep(2, &format!("{p}.{t}"), |w, q| { w.idx(&format!("{q}.index"))?; w.take(2, SpanKind::Flags, &format!("{q}.flags"))?; w.idxs(&format!("{q}.to")) })?; }
				self.idxs(&format!("{p}.uses"))?;
				self.rep(2, &format!("{p}.provides"), |w, q| { w.idx(&format!("{q}.index"))?; w.idxs(&format!("{q}.with")) })?;
			}
			"Record" => self.rep(2, &format!("{p}.components"), |w, q| { w.idx(&format!("{q}.name_index"))?; w.idx(&format!("{q}.descriptor_index"))?; w.attributes(&format!("{q}.attributes"), AttrLoc::RecordComponent) })?,
			"StackMapTable" => self.rep(2, &format!("{p}.entries"), |w, q| w.frame(q))?,
			"Code" => {
				self.take(2, SpanKind::Plain, &format!("{p}.max_stack"))?; self.take(2, SpanKind::Plain, &format!("{p}.max_locals"))?;
				let n = self.take(4, SpanKind::CodeLength, &format!("{p}.code_length"))? as usize;
				self.take(n, SpanKind::Bytes, &format!("{p}.code"))?;
				self.rep(2, &format!("{p}.exception_table"), |w, q| { w.take(2, pc, &format!("{q}.start_pc"))?; w.take(2, pc, &format!("{q}.end_pc"))?; w.take(2, pc, &format!("{q}.handler_pc"))?; w.idx(&format!("{q}.catch_type")).map(|_| ()) })?;
				self.attributes(&format!("{p}.attributes"), AttrLoc::Code)?;
			}
			_ => {}
		}
		Ok(())
	}
}

/// The field map of a class file.  `Err` if the file is too damaged to walk (the spans found so
/// far are lost; use it on valid files and mutate afterwards).
pub fn layout(bytes: &[u8]) -> Result<Vec<Span>, String> {
	let mut w = Wk { b: bytes, p: 0, out: vec![], utf8: vec![None] };
	w.take(4, SpanKind::Magic, "magic")?;
	w.take(2, SpanKind::Version, "minor_version")?;
	w.take(2, SpanKind::Version, "major_version")?;
	let count = w.take(2, SpanKind::Count, "constant_pool_count")? as usize;
	let mut i = 1;
	while i < count {
		let p = format!("constant_pool[{i}]");
		let tag = w.take(1, SpanKind::Tag, &format!("{p}.tag"))?;
		let mut s: Option<String> = None;
		match tag {
			1 => { let n = w.take(2, SpanKind::Utf8Length, &format!("{p}.length"))? as usize; let at = w.p; w.take(n, SpanKind::Bytes, &format!("{p}.bytes"))?; s = Some(String::from_utf8_lossy(&bytes[at..at + n]).into_owned()); }
			3 | 4 => { w.take(4, SpanKind::Value, &format!("{p}.bytes"))?; }
			5 | 6 => { w.take(8, SpanKind::Value, &format!("{p}.bytes"))?; }
			7 | 8 | 16 | 19 | 20 => { w.idx(&format!("{p}.index"))?; }
			9 | 10 | 11 | 12 => { w.idx(&format!("{p}.index1"))?; w.idx(&format!("{p}.index2"))?; }
			17 | 18 => { w.take(2, SpanKind::Plain, &format!("{p}.bootstrap_method_attr_index"))?; w.idx(&format!("{p}.name_and_type_index"))?; }
			15 => { w.take(1, SpanKind::Discriminant, &format!("{p}.reference_kind"))?; w.idx(&format!("{p}.reference_index"))?; }
			t => return Err(format!("{p}: unknown tag {t}")),
		}
		w.utf8.push(s);
		if tag == 5 || tag == 6 { w.utf8.push(None); i += 1; }
		i += 1;
	}
	w.take(2, SpanKind::Flags, "access_flags")?;
	w.idx("this_class")?; w.idx("super_class")?;
	w.idxs("interfaces")?;
	for (what, loc) in [("fields", AttrLoc::Field), ("methods", AttrLoc::Method)] {
		w.rep(2, what, |w, p| { w.take(2, SpanKind::Flags, &format!("{p}.access_flags"))?; w.idx(&format!("{p}.name_index"))?; w.idx(&format!("{p}.descriptor_index"))?; w.attributes(&format!("{p}.attributes"), loc) })?;
	}
	w.attributes("attributes", AttrLoc::Class)?;
	if w.p != bytes.len() { let rest = bytes.len() - w.p; w.take(rest, SpanKind::Bytes, "trailing")?; }
	Ok(w.out)
}

/// The interesting values for a structure-aware mutation of one span (C16): 0, 1, max-1, max,
/// actual-1, actual+1 (wrapping within the width), without the actual value, deduplicated.
pub fn boundary_values(actual: u64, width: usize) -> Vec<u64> {
	let max = if width >= 8 { u64::MAX } else { (1u64 << (8 * width)) - 1 };
	let mut v = vec![0, 1, max - 1, max, actual.wrapping_sub(1) & max, actual.wrapping_add(1) & max];
	v.sort(); v.dedup(); v.retain(|x| *x != actual);
	v
}

/// the bytes with the big-endian value of the span replaced
pub fn with_value(bytes: &[u8], span: &Span, value: u64) -> Vec<u8> {
	let mut b = bytes.to_vec();
	for k in 0..span.len.min(8) { b[span.offset + k] = (value >> (8 * (span.len.min(8) - 1 - k))) as u8; }
	b
}
/// big-endian value of a span of at most 8 bytes
pub fn value_of(bytes: &[u8], span: &Span) -> u64 { bytes[span.offset..span.offset + span.len.min(8)].iter().fold(0u64, |a, b| (a << 8) | *b as u64) }
