//! Class-file infrastructure shared by the class-file properties (C01, C02, C07, C13–C17):
//! an independent strict parser/writer of the JVMS class-file format, an assembler that builds
//! class files from abstract descriptions, and the conversion of duke's tree into comparable
//! "facts".  See README.md in this directory.
pub mod jstr;
pub mod opcodes;
pub mod raw;
pub mod corpus;
pub mod dbg;
pub mod facts;
pub mod facts_raw;
pub mod facts_duke;
