//! Class-file infrastructure shared by the class-file properties (C01, C02, C07, C13–C17):
//! an independent strict parser/writer of the JVMS class-file format (`raw`), a semantic,
//! pool-independent description of a class in normal form with constructors from the independent
//! parser and from duke's tree (`facts`), an assembler that builds class files from abstract
//! descriptions under the knobs of property C01 (`asm`), generators (`gen`), the vendored corpus
//! (`corpus`) and a field map for structure-aware mutation (`layout`).  See README.md in this directory.
pub mod jstr;
pub mod opcodes;
pub mod raw;
pub mod corpus;
pub mod dbg;
pub mod facts;
pub mod facts_raw;
pub mod facts_duke;
pub mod asm;
pub mod gen;
pub mod layout;
