//! Assembler: abstract class description (`ClassSpec`) → class-file bytes, with the description
//! itself as ground truth (`facts_of_spec`).  The knobs are the quantifier of property C01:
//! constant-pool layout (order, padding, duplicates, two-slot entries), the order of every
//! attribute list, and the encoding variant of each instruction.
//!
//! `ClassSpec = ClassG<CodeSpec>`: all the types of `facts` are reused; a `CodeSpec` is a method
//! body over symbolic labels.  Instructions use the *general* mnemonics of the facts
//! (`iload`, `ldc`, `goto` …); which encoding is emitted (`iload_1` / `iload 1` / `wide iload 1`,
//! `ldc` / `ldc_w`, `goto` / `goto_w`) is decided by `Knobs::enc`.
use std::collections::HashMap;
use super::facts::*;
use super::opcodes::{self, op, OpKind};
use super::raw::{self, AttrInfo, AttrLoc, Attribute, Const, RawClass};
use crate::prng::Rng;

// ------------------------------------------------------------------------------------------
// spec types
// ------------------------------------------------------------------------------------------

#[derive(Debug, Clone, Copy, PartialEq, Eq, PartialOrd, Ord, Hash)]
pub struct LabelId(pub u32);

pub type AsmInsn = InsnG<LabelId>;

/// A method body.  `body[i].0` is the label (if any) of instruction `i`; `end_label` denotes the
/// end of the code (instruction index = number of instructions).  Every table refers to labels.
#[derive(Debug, Clone, PartialEq, Eq)]
pub struct CodeSpec {
	pub max_stack: u16,
	pub max_locals: u16,
	pub body: Vec<(Option<LabelId>, AsmInsn)>,
	pub end_label: Option<LabelId>,
	pub exception_table: Vec<ExceptionG<LabelId>>,
	pub line_numbers: Vec<(LabelId, u16)>,
	pub local_variables: Vec<LocalVarG<LabelId>>,
	pub local_variable_types: Vec<LocalVarTypeG<LabelId>>,
	/// must be ordered by strictly increasing position
	pub frames: Option<Vec<FrameG<LabelId>>>,
	pub visible_type_annotations: Vec<CodeTypeAnnotationG<LabelId>>,
	pub invisible_type_annotations: Vec<CodeTypeAnnotationG<LabelId>>,
	pub unknown_attributes: Vec<UnknownAttr>,
}
impl CodeSpec {
	pub fn new(max_stack: u16, max_locals: u16) -> CodeSpec {
		CodeSpec { max_stack, max_locals, body: vec![], end_label: None, exception_table: vec![], line_numbers: vec![], local_variables: vec![], local_variable_types: vec![],
			frames: None, visible_type_annotations: vec![], invisible_type_annotations: vec![], unknown_attributes: vec![] }
	}
	/// append an instruction without operand
	pub fn op(&mut self, label: Option<LabelId>, mnemonic: &'static str) -> &mut Self { self.body.push((label, InsnG { op: mnemonic, arg: OperandG::None })); self }
	pub fn insn(&mut self, label: Option<LabelId>, mnemonic: &'static str, arg: OperandG<LabelId>) -> &mut Self { self.body.push((label, InsnG { op: mnemonic, arg })); self }
	/// label → instruction index
	pub fn label_map(&self) -> Result<HashMap<LabelId, usize>, String> {
		let mut m = HashMap::new();
		for (k, (l, _)) in self.body.iter().enumerate() {
			if let Some(l) = l { if m.insert(*l, k).is_some() { return Err(format!("label {l:?} defined twice")); } }
		}
		if let Some(l) = self.end_label { if m.insert(l, self.body.len()).is_some() { return Err(format!("label {l:?} defined twice")); } }
		Ok(m)
	}
	/// the label-free form (positions = instruction indices), in normal form
	pub fn facts(&self) -> Result<CodeFacts, String> {
		let m = self.label_map()?;
		let g: CodeG<LabelId> = CodeG {
			max_stack: Some(self.max_stack), max_locals: Some(self.max_locals), insns: self.body.iter().map(|(_, i)| i.clone()).collect(),
			exception_table: self.exception_table.clone(), line_numbers: self.line_numbers.clone(), local_variables: self.local_variables.clone(),
			local_variable_types: self.local_variable_types.clone(), frames: self.frames.clone().filter(|f| !f.is_empty()),
			visible_type_annotations: self.visible_type_annotations.clone(), invisible_type_annotations: self.invisible_type_annotations.clone(),
			unknown_attributes: self.unknown_attributes.clone(),
		};
		let mut f = g.map_pos(&mut |l: &LabelId| m.get(l).copied().ok_or_else(|| format!("undefined label {l:?}")))?;
		f.normalize();
		Ok(f)
	}
}
pub type ClassSpec = ClassG<CodeSpec>;
pub type MethodSpec = MethodG<CodeSpec>;

/// Ground truth of a spec: the facts a correct reader must deliver for `assemble(spec, any knobs)`.
pub fn try_facts_of_spec(spec: &ClassSpec) -> Result<ClassFacts, String> {
	let mut f = spec.map_code(&mut |c: &CodeSpec| c.facts())?;
	f.unknown_attributes.sort();
	for x in &mut f.fields { x.unknown_attributes.sort(); }
	for x in &mut f.methods { x.unknown_attributes.sort(); }
	for x in f.record.iter_mut().flatten() { x.unknown_attributes.sort(); }
	Ok(f)
}
/// `try_facts_of_spec`, panicking on an undefined or doubly defined label
pub fn facts_of_spec(spec: &ClassSpec) -> ClassFacts { try_facts_of_spec(spec).expect("facts_of_spec") }

// ------------------------------------------------------------------------------------------
// knobs
// ------------------------------------------------------------------------------------------

/// kind of the filler entries used for constant-pool padding
#[derive(Debug, Clone, Copy, PartialEq, Eq)]
pub enum PadKind { Utf8, Int, /// Long and Double alternating: two slots per entry
	Wide, /// Utf8, Int, Long, String, Class … in rotation
	Mixed }

#[derive(Debug, Clone, PartialEq, Eq)]
pub struct PoolKnobs {
	/// `Some(seed)`: the entries (including duplicates and interleaved unused ones) are shuffled
	pub shuffle: Option<u64>,
	/// number of unused filler entries placed before everything else
	pub pad_front: usize,
	pub pad_kind: PadKind,
	/// every `dup_every`-th entry gets a second, identical copy; uses pick either copy (0 = no duplicates)
	pub dup_every: usize,
	/// number of unused entries mixed in among the real ones
	pub unused: usize,
	/// append Integer fillers until `constant_pool_count` equals this value
	pub pad_to_count: Option<u16>,
}
impl Default for PoolKnobs { fn default() -> Self { PoolKnobs { shuffle: None, pad_front: 0, pad_kind: PadKind::Utf8, dup_every: 0, unused: 0, pad_to_count: None } } }

/// choice of the encoding variant per instruction (and per stack-map frame)
#[derive(Debug, Clone, PartialEq, Eq)]
pub enum Enc {
	/// the shortest legal form everywhere (what javac emits)
	Shortest,
	/// `wide` forms, `ldc_w`, `goto_w`/`jsr_w`, extended frames wherever such a form exists
	Widest,
	/// independent uniform choice among the legal forms
	Seeded(u64),
	/// instruction `i` of every method takes choice `v[i % v.len()] % (number of its legal forms)`,
	/// forms ordered from shortest to widest
	PerInsn(Vec<u8>),
}

#[derive(Debug, Clone, PartialEq, Eq)]
pub struct Knobs {
	pub pool: PoolKnobs,
	/// `Some(seed)`: every attribute list (class, fields, methods, Code, record components) is shuffled
	pub attr_order: Option<u64>,
	pub enc: Enc,
	/// LineNumberTable / LocalVariableTable / LocalVariableTypeTable entries are spread over several
	/// attributes of the same name (the JVMS allows that)
	pub split_tables: bool,
}
impl Default for Knobs { fn default() -> Self { Knobs { pool: PoolKnobs::default(), attr_order: None, enc: Enc::Shortest, split_tables: false } } }

impl Knobs {
	/// a representative family of settings (used by the self-test and handy for consumers):
	/// every knob alone at several values, plus combinations
	pub fn family(seed: u64) -> Vec<Knobs> {
		let d = Knobs::default();
		let mut v = vec![d.clone()];
		v.push(Knobs { enc: Enc::Widest, ..d.clone() });
		v.push(Knobs { enc: Enc::Seeded(seed), ..d.clone() });
		v.push(Knobs { enc: Enc::PerInsn(vec![0, 1, 2, 1]), ..d.clone() });
		v.push(Knobs { attr_order: Some(seed), ..d.clone() });
		v.push(Knobs { attr_order: Some(seed ^ 0x55), split_tables: true, ..d.clone() });
		v.push(Knobs { pool: PoolKnobs { shuffle: Some(seed), ..Default::default() }, ..d.clone() });
		for (front, kind) in [(200, PadKind::Utf8), (250, PadKind::Int), (254, PadKind::Mixed), (127, PadKind::Wide), (300, PadKind::Int)] {
			v.push(Knobs { pool: PoolKnobs { pad_front: front, pad_kind: kind, ..Default::default() }, ..d.clone() });
		}
		v.push(Knobs { pool: PoolKnobs { dup_every: 2, ..Default::default() }, ..d.clone() });
		v.push(Knobs { pool: PoolKnobs { dup_every: 1, unused: 20, shuffle: Some(seed ^ 1), ..Default::default() }, ..d.clone() });
		v.push(Knobs { pool: PoolKnobs { shuffle: Some(seed ^ 2), pad_front: 240, pad_kind: PadKind::Mixed, dup_every: 3, unused: 7, pad_to_count: None }, attr_order: Some(seed ^ 3), enc: Enc::Seeded(seed ^ 4), split_tables: true });
		v.push(Knobs { pool: PoolKnobs { shuffle: Some(seed ^ 5), pad_front: 0, pad_kind: PadKind::Wide, dup_every: 0, unused: 300, pad_to_count: None }, attr_order: Some(seed ^ 6), enc: Enc::Widest, split_tables: false });
		v
	}
}

// ------------------------------------------------------------------------------------------
// constant pool builder
// ------------------------------------------------------------------------------------------

#[derive(Debug, Clone, PartialEq, Eq, Hash)]
enum CKey {
	Utf8(JStr), Int(i32), Float(u32), Long(i64), Double(u64), Class(JStr), Str(JStr),
	Field(MemberRef), Method(MemberRef), IMethod(MemberRef), NameAndType(JStr, JStr),
	Handle(HandleFacts), MethodType(JStr),
	/// symbolic bootstrap index
	Dynamic(usize, JStr, JStr), InvokeDynamic(usize, JStr, JStr),
	Module(JStr), Package(JStr),
}

#[derive(Debug, Clone)]
enum Slot { Key(usize), Pad(Const) }

struct Layout { index_of: Vec<Vec<u16>>, slots: Vec<(u16, Slot)>, count: usize, bsm_final: Vec<u16>, rng: Rng }

struct Pool {
	keys: Vec<CKey>,
	map: HashMap<CKey, usize>,
	bsms: Vec<(HandleFacts, Vec<Loadable>)>,
	bsm_map: HashMap<(HandleFacts, Vec<Loadable>), usize>,
	layout: Option<Layout>,
}

impl Pool {
	fn new() -> Pool { Pool { keys: vec![], map: HashMap::new(), bsms: vec![], bsm_map: HashMap::new(), layout: None } }

	fn children(&mut self, k: &CKey) -> Result<(), String> {
		match k {
			CKey::Utf8(s) => { if s.to_mutf8().len() > 65535 { return Err(format!("Utf8 constant longer than 65535 bytes ({} units)", s.len())); } }
			CKey::Class(n) | CKey::Str(n) | CKey::MethodType(n) | CKey::Module(n) | CKey::Package(n) => { self.idx(CKey::Utf8(n.clone()))?; }
			CKey::Field(m) | CKey::Method(m) | CKey::IMethod(m) => { self.idx(CKey::Class(m.owner.clone()))?; self.idx(CKey::NameAndType(m.name.clone(), m.desc.clone()))?; }
			CKey::NameAndType(n, d) | CKey::Dynamic(_, n, d) | CKey::InvokeDynamic(_, n, d) => {
				if matches!(k, CKey::NameAndType(..)) { self.idx(CKey::Utf8(n.clone()))?; self.idx(CKey::Utf8(d.clone()))?; } else { self.idx(CKey::NameAndType(n.clone(), d.clone()))?; }
			}
			CKey::Handle(h) => { self.idx(Self::handle_target(h)?)?; }
			_ => {}
		}
		Ok(())
	}
	fn handle_target(h: &HandleFacts) -> Result<CKey, String> {
		let m = MemberRef { owner: h.owner.clone(), name: h.name.clone(), desc: h.desc.clone() };
		Ok(match (h.kind, h.interface) {
			(1..=4, false) => CKey::Field(m),
			(5 | 8, false) | (6 | 7, false) => CKey::Method(m),
			(6 | 7, true) | (9, true) => CKey::IMethod(m),
			(k, i) => return Err(format!("method handle of kind {k} with interface = {i} cannot be encoded")),
		})
	}
	/// index of a constant (collect mode: interns it and its children, returns 0)
	fn idx(&mut self, k: CKey) -> Result<u16, String> {
		if let Some(l) = &mut self.layout {
			let sym = *self.map.get(&k).ok_or_else(|| format!("internal: constant {k:?} was not collected in pass 1"))?;
			let c = &l.index_of[sym];
			return Ok(if c.len() == 1 { c[0] } else { c[l.rng.below(c.len())] });
		}
		if !self.map.contains_key(&k) {
			self.children(&k)?;
			self.map.insert(k.clone(), self.keys.len());
			self.keys.push(k);
		}
		Ok(0)
	}
	fn utf8(&mut self, s: &JStr) -> Result<u16, String> { self.idx(CKey::Utf8(s.clone())) }
	fn utf8s(&mut self, s: &str) -> Result<u16, String> { self.idx(CKey::Utf8(JStr::new(s))) }
	fn class(&mut self, s: &JStr) -> Result<u16, String> { self.idx(CKey::Class(s.clone())) }
	fn opt_class(&mut self, s: &Option<JStr>) -> Result<u16, String> { match s { Some(s) => self.class(s), None => Ok(0) } }
	fn opt_utf8(&mut self, s: &Option<JStr>) -> Result<u16, String> { match s { Some(s) => self.utf8(s), None => Ok(0) } }
	fn classes(&mut self, v: &[JStr]) -> Result<Vec<u16>, String> { v.iter().map(|c| self.class(c)).collect() }

	/// bootstrap method index (final) of (handle, args)
	fn bsm(&mut self, h: &HandleFacts, args: &[Loadable]) -> Result<(usize, u16), String> {
		let key = (h.clone(), args.to_vec());
		if let Some(l) = &self.layout {
			let sym = *self.bsm_map.get(&key).ok_or("internal: bootstrap method not collected in pass 1")?;
			return Ok((sym, l.bsm_final[sym]));
		}
		if let Some(s) = self.bsm_map.get(&key) { return Ok((*s, 0)); }
		self.idx(CKey::Handle(h.clone()))?;
		for a in args { self.loadable(a)?; }
		let sym = self.bsms.len();
		self.bsms.push(key.clone());
		self.bsm_map.insert(key, sym);
		Ok((sym, 0))
	}
	fn loadable_key(&mut self, l: &Loadable) -> Result<CKey, String> {
		Ok(match l {
			Loadable::Int(x) => CKey::Int(*x), Loadable::Float(x) => CKey::Float(x.0), Loadable::Long(x) => CKey::Long(*x), Loadable::Double(x) => CKey::Double(x.0),
			Loadable::Class(c) => CKey::Class(c.clone()), Loadable::String(s) => CKey::Str(s.clone()),
			Loadable::MethodHandle(h) => CKey::Handle(h.clone()), Loadable::MethodType(d) => CKey::MethodType(d.clone()),
			Loadable::Dynamic(d) => { let (sym, _) = self.bsm(&d.bootstrap, &d.args)?; CKey::Dynamic(sym, d.name.clone(), d.desc.clone()) }
		})
	}
	fn loadable(&mut self, l: &Loadable) -> Result<u16, String> { let k = self.loadable_key(l)?; self.idx(k) }
	fn invokedynamic(&mut self, d: &DynamicFacts) -> Result<u16, String> {
		let (sym, _) = self.bsm(&d.bootstrap, &d.args)?;
		self.idx(CKey::InvokeDynamic(sym, d.name.clone(), d.desc.clone()))
	}

	/// decide the final layout
	fn finish(&mut self, k: &PoolKnobs) -> Result<(), String> {
		let mut rng = Rng::new(k.shuffle.unwrap_or(0) ^ 0x706f_6f6c);
		let filler = |i: usize, kind: PadKind| -> Const {
			let kind = if kind == PadKind::Mixed { [PadKind::Utf8, PadKind::Int, PadKind::Wide][i % 3] } else { kind };
			match kind {
				PadKind::Utf8 => Const::Utf8(format!("pad{i}").into_bytes()),
				PadKind::Int => Const::Integer(0x7A00_0000 + i as i32),
				_ => if i % 2 == 0 { Const::Long(0x7A00_0000_0000 + i as i64) } else { Const::Double((1.0e100 + i as f64).to_bits()) },
			}
		};
		let mut entries: Vec<Slot> = vec![];
		for sym in 0..self.keys.len() {
			entries.push(Slot::Key(sym));
			if k.dup_every > 0 && sym % k.dup_every == 0 { entries.push(Slot::Key(sym)); }
		}
		for i in 0..k.unused { entries.push(Slot::Pad(filler(100000 + i, PadKind::Mixed))); }
		if k.shuffle.is_some() { rng.shuffle(&mut entries); }
		let mut all: Vec<Slot> = (0..k.pad_front).map(|i| Slot::Pad(filler(i, k.pad_kind))).collect();
		all.extend(entries);
		let mut index_of: Vec<Vec<u16>> = vec![vec![]; self.keys.len()];
		let mut slots = vec![];
		let mut next: usize = 1;
		let two = |s: &Slot, keys: &[CKey]| match s { Slot::Key(sym) => matches!(keys[*sym], CKey::Long(_) | CKey::Double(_)), Slot::Pad(c) => c.is_two_slot() };
		for s in all {
			if next > 65534 { return Err("constant pool exceeds 65535 slots".into()); }
			let w = if two(&s, &self.keys) { 2 } else { 1 };
			if let Slot::Key(sym) = &s { index_of[*sym].push(next as u16); }
			slots.push((next as u16, s));
			next += w;
		}
		if let Some(target) = k.pad_to_count {
			if next > target as usize { return Err(format!("constant_pool_count is already {next}, cannot pad to {target}")); }
			let mut i = 0;
			while next < target as usize { slots.push((next as u16, Slot::Pad(Const::Integer(0x7B00_0000 + i)))); next += 1; i += 1; }
		}
		if next > 65535 { return Err("constant pool exceeds 65535 slots".into()); }
		let mut bsm_final: Vec<u16> = (0..self.bsms.len() as u16).collect();
		if k.shuffle.is_some() { rng.shuffle(&mut bsm_final); }
		self.layout = Some(Layout { index_of, slots, count: next, bsm_final, rng });
		Ok(())
	}

	/// the raw constant pool and the BootstrapMethods table
	fn emit(&mut self) -> Result<(Vec<Option<Const>>, Vec<raw::BootstrapMethod>), String> {
		let (slots, count, bsm_final) = { let l = self.layout.as_ref().ok_or("internal: no layout")?; (l.slots.clone(), l.count, l.bsm_final.clone()) };
		let mut pool: Vec<Option<Const>> = vec![None; count];
		for (i, s) in slots {
			let c = match s {
				Slot::Pad(c) => c,
				Slot::Key(sym) => match self.keys[sym].clone() {
					CKey::Utf8(s) => Const::Utf8(s.to_mutf8()), CKey::Int(x) => Const::Integer(x), CKey::Float(x) => Const::Float(x), CKey::Long(x) => Const::Long(x), CKey::Double(x) => Const::Double(x),
					CKey::Class(n) => Const::Class(self.utf8(&n)?), CKey::Str(n) => Const::String(self.utf8(&n)?), CKey::MethodType(n) => Const::MethodType(self.utf8(&n)?),
					CKey::Module(n) => Const::Module(self.utf8(&n)?), CKey::Package(n) => Const::Package(self.utf8(&n)?),
					CKey::Field(m) => Const::Fieldref(self.class(&m.owner)?, self.idx(CKey::NameAndType(m.name, m.desc))?),
					CKey::Method(m) => Const::Methodref(self.class(&m.owner)?, self.idx(CKey::NameAndType(m.name, m.desc))?),
					CKey::IMethod(m) => Const::InterfaceMethodref(self.class(&m.owner)?, self.idx(CKey::NameAndType(m.name, m.desc))?),
					CKey::NameAndType(n, d) => Const::NameAndType(self.utf8(&n)?, self.utf8(&d)?),
					CKey::Handle(h) => { let t = Self::handle_target(&h)?; Const::MethodHandle(h.kind, self.idx(t)?) }
					CKey::Dynamic(b, n, d) => Const::Dynamic(bsm_final[b], self.idx(CKey::NameAndType(n, d))?),
					CKey::InvokeDynamic(b, n, d) => Const::InvokeDynamic(bsm_final[b], self.idx(CKey::NameAndType(n, d))?),
				},
			};
			pool[i as usize] = Some(c);
		}
		let mut table: Vec<Option<raw::BootstrapMethod>> = vec![None; self.bsms.len()];
		for (sym, (h, args)) in self.bsms.clone().iter().enumerate() {
			let method_ref = self.idx(CKey::Handle(h.clone()))?;
			let arguments = args.iter().map(|a| self.loadable(a)).collect::<Result<_, _>>()?;
			table[bsm_final[sym] as usize] = Some(raw::BootstrapMethod { method_ref, arguments });
		}
		Ok((pool, table.into_iter().map(|b| b.expect("bsm permutation")).collect()))
	}
}

// ------------------------------------------------------------------------------------------
// code assembler
// ------------------------------------------------------------------------------------------

#[derive(Debug, Clone, Copy, PartialEq, Eq)]
enum Form { Only, LocalN, LocalU8, LocalWide, IincNarrow, IincWide, Ldc, LdcW, Ldc2W, B16, B32 }

struct Enc2<'a> { enc: &'a Enc, rng: Rng }
impl<'a> Enc2<'a> {
	fn pick(&mut self, i: usize, n: usize) -> usize {
		match self.enc {
			Enc::Shortest => 0, Enc::Widest => n - 1,
			Enc::Seeded(_) => self.rng.below(n),
			Enc::PerInsn(v) => if v.is_empty() { 0 } else { v[i % v.len()] as usize % n },
		}
	}
}

/// what each general mnemonic expects
fn check_shape(i: &AsmInsn) -> Result<u8, String> {
	let opc = opcodes::opcode_of(i.op).ok_or_else(|| format!("unknown mnemonic {}", i.op))?;
	let bad = || Err(format!("operand {:?} does not fit instruction {}", i.arg, i.op));
	match opcodes::kind(opc) {
		OpKind::NoArg => if !matches!(i.arg, OperandG::None) { return bad(); },
		OpKind::Byte => match i.arg { OperandG::Int(x) if (-128..=127).contains(&x) => {}, _ => return bad() },
		OpKind::Short => match i.arg { OperandG::Int(x) if (-32768..=32767).contains(&x) => {}, _ => return bad() },
		OpKind::Ldc => if !matches!(i.arg, OperandG::Const(_)) { return bad(); },
		OpKind::Local => if !matches!(i.arg, OperandG::Local(_)) { return bad(); },
		OpKind::Iinc => if !matches!(i.arg, OperandG::Iinc { .. }) { return bad(); },
		OpKind::Branch16 => if !matches!(i.arg, OperandG::Branch(_)) { return bad(); },
		OpKind::TableSwitch => match &i.arg {
			OperandG::TableSwitch { low, high, targets, .. } => { if low > high || (*high as i64 - *low as i64 + 1) != targets.len() as i64 { return Err(format!("tableswitch low {low} high {high} with {} targets", targets.len())); } }
			_ => return bad(),
		},
		OpKind::LookupSwitch => match &i.arg {
			OperandG::LookupSwitch { pairs, .. } => { if pairs.windows(2).any(|w| w[0].0 >= w[1].0) { return Err("lookupswitch keys not strictly increasing".into()); } }
			_ => return bad(),
		},
		OpKind::Field => if !matches!(i.arg, OperandG::Field(_)) { return bad(); },
		OpKind::Method => match &i.arg { OperandG::Method(m) => { if opc == op::INVOKEVIRTUAL && m.interface { return Err("invokevirtual needs a Methodref (interface = false)".into()); } } _ => return bad() },
		OpKind::InvokeInterface => match &i.arg { OperandG::Method(m) if m.interface => {}, OperandG::Method(_) => return Err("invokeinterface needs interface = true".into()), _ => return bad() },
		OpKind::InvokeDynamic => if !matches!(i.arg, OperandG::InvokeDynamic(_)) { return bad(); },
		OpKind::Class => if !matches!(i.arg, OperandG::Class(_)) { return bad(); },
		OpKind::NewArray => match i.arg { OperandG::NewArray(t) if (4..=11).contains(&t) => {}, _ => return bad() },
		OpKind::MultiANewArray => match &i.arg { OperandG::MultiANewArray { dims, .. } if *dims > 0 => {}, _ => return bad() },
		OpKind::LocalN | OpKind::LdcW | OpKind::Branch32 | OpKind::Wide | OpKind::Invalid =>
			return Err(format!("{} is an encoding variant; use the general mnemonic and choose the encoding with Knobs::enc", i.op)),
	}
	Ok(opc)
}

fn is_cat2(l: &Loadable) -> bool {
	match l { Loadable::Long(_) | Loadable::Double(_) => true, Loadable::Dynamic(d) => d.desc.0 == [b'J' as u16] || d.desc.0 == [b'D' as u16], _ => false }
}

pub struct AssembledCode { pub bytes: Vec<u8>, /// offset of every instruction, plus the code length as last element
	pub offsets: Vec<u32> }

fn assemble_code(code: &CodeSpec, labels: &HashMap<LabelId, usize>, enc: &mut Enc2, pool: &mut Pool) -> Result<AssembledCode, String> {
	let n = code.body.len();
	if n == 0 { return Err("empty method body".into()); }
	let target = |l: &LabelId| -> Result<usize, String> {
		let t = *labels.get(l).ok_or_else(|| format!("undefined label {l:?}"))?;
		if t >= n { return Err(format!("label {l:?} denotes the end of the code and cannot be a branch target")); }
		Ok(t)
	};
	// per instruction: opcode, pool operand, candidate forms, chosen form
	let mut opc = Vec::with_capacity(n);
	let mut pidx: Vec<u16> = vec![0; n];
	let mut form: Vec<Form> = Vec::with_capacity(n);
	for (k, (_, i)) in code.body.iter().enumerate() {
		let o = check_shape(i).map_err(|e| format!("instruction {k}: {e}"))?;
		opc.push(o);
		let cands: Vec<Form> = match (&i.arg, opcodes::kind(o)) {
			(OperandG::Local(x), _) => {
				let mut v = vec![];
				if *x <= 3 && o != op::RET { v.push(Form::LocalN); }
				if *x <= 255 { v.push(Form::LocalU8); }
				v.push(Form::LocalWide); v
			}
			(OperandG::Iinc { local, delta }, _) => if *local <= 255 && (-128..=127).contains(delta) { vec![Form::IincNarrow, Form::IincWide] } else { vec![Form::IincWide] },
			(OperandG::Const(c), _) => {
				pidx[k] = pool.loadable(c)?;
				if is_cat2(c) { vec![Form::Ldc2W] } else if pidx[k] <= 255 { vec![Form::Ldc, Form::LdcW] } else { vec![Form::LdcW] }
			}
			(OperandG::Branch(_), _) => if o == op::GOTO || o == op::JSR { vec![Form::B16, Form::B32] } else { vec![Form::B16] },
			(OperandG::Field(m), _) => { pidx[k] = pool.idx(CKey::Field(m.clone()))?; vec![Form::Only] }
			(OperandG::Method(m), _) => {
				let r = MemberRef { owner: m.owner.clone(), name: m.name.clone(), desc: m.desc.clone() };
				pidx[k] = pool.idx(if m.interface { CKey::IMethod(r) } else { CKey::Method(r) })?; vec![Form::Only]
			}
			(OperandG::InvokeDynamic(d), _) => { pidx[k] = pool.invokedynamic(d)?; vec![Form::Only] }
			(OperandG::Class(c), _) => { pidx[k] = pool.class(c)?; vec![Form::Only] }
			(OperandG::MultiANewArray { class, .. }, _) => { pidx[k] = pool.class(class)?; vec![Form::Only] }
			_ => vec![Form::Only],
		};
		form.push(cands[enc.pick(k, cands.len())]);
	}
	// layout until stable
	let mut offsets = vec![0u32; n + 1];
	let size = |k: usize, f: Form, at: u32| -> u32 {
		match (&code.body[k].1.arg, f) {
			(_, Form::LocalN) => 1, (_, Form::LocalU8) => 2, (_, Form::LocalWide) => 4, (_, Form::IincNarrow) => 3, (_, Form::IincWide) => 6,
			(_, Form::Ldc) => 2, (_, Form::LdcW) | (_, Form::Ldc2W) => 3, (_, Form::B16) => 3, (_, Form::B32) => 5,
			(OperandG::TableSwitch { targets, .. }, _) => 1 + (3 - at % 4) + 12 + 4 * targets.len() as u32,
			(OperandG::LookupSwitch { pairs, .. }, _) => 1 + (3 - at % 4) + 8 + 8 * pairs.len() as u32,
			_ => match opcodes::kind(opc[k]) {
				OpKind::NoArg => 1, OpKind::Byte | OpKind::NewArray => 2, OpKind::Short | OpKind::Field | OpKind::Method | OpKind::Class => 3,
				OpKind::InvokeInterface | OpKind::InvokeDynamic => 5, OpKind::MultiANewArray => 4, _ => 1,
			},
		}
	};
	for _round in 0..=n + 1 {
		let mut at = 0u32;
		for k in 0..n { offsets[k] = at; at += size(k, form[k], at); }
		offsets[n] = at;
		let mut changed = false;
		for k in 0..n {
			if let (OperandG::Branch(l), Form::B16) = (&code.body[k].1.arg, form[k]) {
				let d = offsets[target(l)?] as i64 - offsets[k] as i64;
				if !(-32768..=32767).contains(&d) {
					if opc[k] == op::GOTO || opc[k] == op::JSR { form[k] = Form::B32; changed = true; }
					else { return Err(format!("instruction {k} ({}): branch offset {d} does not fit in 16 bits", code.body[k].1.op)); }
				}
			}
		}
		if !changed { break; }
	}
	if offsets[n] == 0 || offsets[n] > 65535 { return Err(format!("code length {} not in 1..=65535", offsets[n])); }
	// emit
	let mut b: Vec<u8> = Vec::with_capacity(offsets[n] as usize);
	for k in 0..n {
		let (o, at) = (opc[k], offsets[k] as i64);
		let rel = |l: &LabelId| -> Result<i64, String> { Ok(offsets[target(l)?] as i64 - at) };
		match (&code.body[k].1.arg, form[k]) {
			(OperandG::Local(x), Form::LocalN) => b.push(opcodes::join_local_n(o, *x).ok_or("internal: _n form")?),
			(OperandG::Local(x), Form::LocalU8) => { b.push(o); b.push(*x as u8); }
			(OperandG::Local(x), Form::LocalWide) => { b.push(op::WIDE); b.push(o); b.extend_from_slice(&x.to_be_bytes()); }
			(OperandG::Iinc { local, delta }, Form::IincNarrow) => { b.push(o); b.push(*local as u8); b.push(*delta as i8 as u8); }
			(OperandG::Iinc { local, delta }, Form::IincWide) => { b.push(op::WIDE); b.push(o); b.extend_from_slice(&local.to_be_bytes()); b.extend_from_slice(&delta.to_be_bytes()); }
			(OperandG::Const(_), Form::Ldc) => { b.push(op::LDC); b.push(pidx[k] as u8); }
			(OperandG::Const(_), Form::LdcW) => { b.push(op::LDC_W); b.extend_from_slice(&pidx[k].to_be_bytes()); }
			(OperandG::Const(_), Form::Ldc2W) => { b.push(op::LDC2_W); b.extend_from_slice(&pidx[k].to_be_bytes()); }
			(OperandG::Branch(l), Form::B16) => { b.push(o); b.extend_from_slice(&(rel(l)? as i16).to_be_bytes()); }
			(OperandG::Branch(l), Form::B32) => { b.push(if o == op::GOTO { op::GOTO_W } else { op::JSR_W }); b.extend_from_slice(&(rel(l)? as i32).to_be_bytes()); }
			(OperandG::TableSwitch { default, low, high, targets }, _) => {
				b.push(o); while b.len() % 4 != 0 { b.push(0); }
				b.extend_from_slice(&(rel(default)? as i32).to_be_bytes()); b.extend_from_slice(&low.to_be_bytes()); b.extend_from_slice(&high.to_be_bytes());
				for t in targets { b.extend_from_slice(&(rel(t)? as i32).to_be_bytes()); }
			}
			(OperandG::LookupSwitch { default, pairs }, _) => {
				b.push(o); while b.len() % 4 != 0 { b.push(0); }
				b.extend_from_slice(&(rel(default)? as i32).to_be_bytes()); b.extend_from_slice(&(pairs.len() as i32).to_be_bytes());
				for (key, t) in pairs { b.extend_from_slice(&key.to_be_bytes()); b.extend_from_slice(&(rel(t)? as i32).to_be_bytes()); }
			}
			(OperandG::None, _) => b.push(o),
			(OperandG::Int(x), _) => { b.push(o); if o == op::BIPUSH { b.push(*x as i8 as u8); } else { b.extend_from_slice(&(*x as i16).to_be_bytes()); } }
			(OperandG::Field(_), _) | (OperandG::Class(_), _) => { b.push(o); b.extend_from_slice(&pidx[k].to_be_bytes()); }
			(OperandG::Method(m), _) => {
				b.push(o); b.extend_from_slice(&pidx[k].to_be_bytes());
				if o == op::INVOKEINTERFACE {
					let (slots, _) = raw::parse_method_descriptor(&m.desc)?;
					b.push((slots + 1) as u8); b.push(0);
				}
			}
			(OperandG::InvokeDynamic(_), _) => { b.push(o); b.extend_from_slice(&pidx[k].to_be_bytes()); b.push(0); b.push(0); }
			(OperandG::NewArray(t), _) => { b.push(o); b.push(*t); }
			(OperandG::MultiANewArray { dims, .. }, _) => { b.push(o); b.extend_from_slice(&pidx[k].to_be_bytes()); b.push(*dims); }
			(a, f) => return Err(format!("internal: operand {a:?} with form {f:?}")),
		}
		debug_assert_eq!(b.len() as u32, offsets[k + 1], "size of instruction {k} ({})", code.body[k].1.op);
	}
	if b.len() as u32 != offsets[n] { return Err(format!("internal: emitted {} bytes, laid out {}", b.len(), offsets[n])); }
	Ok(AssembledCode { bytes: b, offsets })
}

/// Assemble one method body on its own with an empty-ish pool context — for consumers that need
/// only code arrays (e.g. to feed a model of `read_code`): returns the code bytes, the offset of
/// every instruction (+ code length), and the constants in pool order (index 1..).
pub fn assemble_code_only(code: &CodeSpec, enc: &Enc) -> Result<(AssembledCode, Vec<Option<Const>>), String> {
	let labels = code.label_map()?;
	let mut pool = Pool::new();
	let seed = if let Enc::Seeded(s) = enc { *s } else { 0 };
	assemble_code(code, &labels, &mut Enc2 { enc, rng: Rng::new(seed) }, &mut pool)?;
	pool.finish(&PoolKnobs::default())?;
	let out = assemble_code(code, &labels, &mut Enc2 { enc, rng: Rng::new(seed) }, &mut pool)?;
	let (p, _) = pool.emit()?;
	Ok((out, p))
}

// ------------------------------------------------------------------------------------------
// class builder
// ------------------------------------------------------------------------------------------

struct B<'a> { pool: Pool, knobs: &'a Knobs, attr_rng: Rng }

fn u16len(n: usize, what: &str) -> Result<(), String> { if n > 65535 { Err(format!("{what}: {n} entries do not fit a u16 count")) } else { Ok(()) } }

impl<'a> B<'a> {
	fn attr(&mut self, name: &str, info: AttrInfo) -> Result<Attribute, String> { Ok(Attribute { name_index: self.pool.utf8s(name)?, name: name.to_string(), info }) }
	fn finish_attrs(&mut self, mut v: Vec<Attribute>) -> Vec<Attribute> { if self.knobs.attr_order.is_some() { self.attr_rng.shuffle(&mut v); } v }

	fn unknown(&mut self, v: &[UnknownAttr], loc: AttrLoc, out: &mut Vec<Attribute>) -> Result<(), String> {
		for u in v {
			let name = u.name.to_string_lossy();
			if raw::predefined_at(&name, loc) { return Err(format!("unknown attribute named {name} would be decoded as the predefined attribute at {loc:?}")); }
			out.push(Attribute { name_index: self.pool.utf8(&u.name)?, name, info: AttrInfo::Unknown(u.bytes.clone()) });
		}
		Ok(())
	}
	fn annotation(&mut self, a: &AnnotationFacts) -> Result<raw::Annotation, String> {
		u16len(a.pairs.len(), "element_value_pairs")?;
		Ok(raw::Annotation { type_index: self.pool.utf8(&a.type_desc)?, pairs: a.pairs.iter().map(|(n, v)| Ok((self.pool.utf8(n)?, self.element(v)?))).collect::<Result<_, String>>()? })
	}
	fn annotations(&mut self, v: &[AnnotationFacts]) -> Result<Vec<raw::Annotation>, String> { u16len(v.len(), "annotations")?; v.iter().map(|a| self.annotation(a)).collect() }
	fn element(&mut self, v: &ElementValueFacts) -> Result<raw::ElementValue, String> {
		let c = |tag: u8, index: u16| raw::ElementValue::Const { tag, index };
		Ok(match v {
			ElementValueFacts::Byte(x) => c(b'B', self.pool.idx(CKey::Int(*x))?), ElementValueFacts::Char(x) => c(b'C', self.pool.idx(CKey::Int(*x))?),
			ElementValueFacts::Short(x) => c(b'S', self.pool.idx(CKey::Int(*x))?), ElementValueFacts::Int(x) => c(b'I', self.pool.idx(CKey::Int(*x))?),
			ElementValueFacts::Boolean(x) => c(b'Z', self.pool.idx(CKey::Int(*x))?), ElementValueFacts::Long(x) => c(b'J', self.pool.idx(CKey::Long(*x))?),
			ElementValueFacts::Float(x) => c(b'F', self.pool.idx(CKey::Float(x.0))?), ElementValueFacts::Double(x) => c(b'D', self.pool.idx(CKey::Double(x.0))?),
			ElementValueFacts::String(s) => c(b's', self.pool.utf8(s)?),
			ElementValueFacts::Enum { type_desc, const_name } => raw::ElementValue::Enum { type_name_index: self.pool.utf8(type_desc)?, const_name_index: self.pool.utf8(const_name)? },
			ElementValueFacts::Class(d) => raw::ElementValue::Class(self.pool.utf8(d)?),
			ElementValueFacts::Annotation(a) => raw::ElementValue::Annotation(self.annotation(a)?),
			ElementValueFacts::Array(xs) => { u16len(xs.len(), "array_value")?; raw::ElementValue::Array(xs.iter().map(|x| self.element(x)).collect::<Result<_, _>>()?) }
		})
	}
	fn path(p: &[PathStep]) -> Result<Vec<(u8, u8)>, String> {
		if p.len() > 255 { return Err("type_path longer than 255".into()); }
		Ok(p.iter().map(|s| match s { PathStep::Array => (0, 0), PathStep::Nested => (1, 0), PathStep::Wildcard => (2, 0), PathStep::TypeArgument(i) => (3, *i) }).collect())
	}
	fn type_annotations(&mut self, v: &[TypeAnnotationFacts]) -> Result<Vec<raw::TypeAnnotation>, String> {
		u16len(v.len(), "type annotations")?;
		v.iter().map(|t| {
			let target = match t.target {
				TargetFacts::ClassTypeParameter(i) | TargetFacts::MethodTypeParameter(i) => raw::TargetInfo::TypeParameter(i),
				TargetFacts::Supertype(i) => raw::TargetInfo::Supertype(i),
				TargetFacts::ClassTypeParameterBound { param, bound } | TargetFacts::MethodTypeParameterBound { param, bound } => raw::TargetInfo::TypeParameterBound(param, bound),
				TargetFacts::Field | TargetFacts::Return | TargetFacts::Receiver => raw::TargetInfo::Empty,
				TargetFacts::FormalParameter(i) => raw::TargetInfo::FormalParameter(i), TargetFacts::Throws(i) => raw::TargetInfo::Throws(i),
			};
			Ok(raw::TypeAnnotation { target_type: t.target.target_type(), target, path: Self::path(&t.path)?, annotation: self.annotation(&t.annotation)? })
		}).collect()
	}
	/// the four annotation attributes common to classes, fields, methods, record components
	fn common_annotations(&mut self, va: &[AnnotationFacts], ia: &[AnnotationFacts], vt: &[TypeAnnotationFacts], it: &[TypeAnnotationFacts], out: &mut Vec<Attribute>) -> Result<(), String> {
		if !va.is_empty() { let x = self.annotations(va)?; out.push(self.attr("RuntimeVisibleAnnotations", AttrInfo::RuntimeVisibleAnnotations(x))?); }
		if !ia.is_empty() { let x = self.annotations(ia)?; out.push(self.attr("RuntimeInvisibleAnnotations", AttrInfo::RuntimeInvisibleAnnotations(x))?); }
		if !vt.is_empty() { let x = self.type_annotations(vt)?; out.push(self.attr("RuntimeVisibleTypeAnnotations", AttrInfo::RuntimeVisibleTypeAnnotations(x))?); }
		if !it.is_empty() { let x = self.type_annotations(it)?; out.push(self.attr("RuntimeInvisibleTypeAnnotations", AttrInfo::RuntimeInvisibleTypeAnnotations(x))?); }
		Ok(())
	}

	fn vtype(&mut self, t: &VTypeG<LabelId>, pc: &dyn Fn(&LabelId) -> Result<u16, String>) -> Result<raw::VType, String> {
		Ok(match t {
			VTypeG::Top => raw::VType::Top, VTypeG::Integer => raw::VType::Integer, VTypeG::Float => raw::VType::Float, VTypeG::Long => raw::VType::Long,
			VTypeG::Double => raw::VType::Double, VTypeG::Null => raw::VType::Null, VTypeG::UninitializedThis => raw::VType::UninitializedThis,
			VTypeG::Object(c) => raw::VType::Object(self.pool.class(c)?), VTypeG::Uninitialized(l) => raw::VType::Uninitialized(pc(l)?),
		})
	}

	fn code(&mut self, c: &CodeSpec, method_index: usize) -> Result<raw::CodeAttr, String> {
		let labels = c.label_map()?;
		let seed = match &self.knobs.enc { Enc::Seeded(s) => *s, _ => 0 };
		let mut enc = Enc2 { enc: &self.knobs.enc, rng: Rng::new(seed ^ (method_index as u64).wrapping_mul(0x9E37_79B9)) };
		let asm = assemble_code(c, &labels, &mut enc, &mut self.pool)?;
		let offsets = asm.offsets.clone();
		let pc = move |l: &LabelId| -> Result<u16, String> { let i = *labels.get(l).ok_or_else(|| format!("undefined label {l:?}"))?; Ok(offsets[i] as u16) };
		u16len(c.exception_table.len(), "exception_table")?;
		let mut exception_table = vec![];
		for e in &c.exception_table {
			exception_table.push(raw::ExceptionEntry { start_pc: pc(&e.start)?, end_pc: pc(&e.end)?, handler_pc: pc(&e.handler)?, catch_type: self.pool.opt_class(&e.catch_type)? });
		}
		let mut attrs = vec![];
		// tables, possibly split
		let chunks = |n: usize, rng: &mut Rng, split: bool| -> Vec<usize> {
			if !split || n < 2 { return vec![n]; }
			let a = rng.range(0, n); if rng.chance(1, 2) { vec![a, n - a] } else { let b = rng.range(0, n - a); vec![a, b, n - a - b] }
		};
		if !c.line_numbers.is_empty() {
			u16len(c.line_numbers.len(), "line_number_table")?;
			let all: Vec<raw::LineNumber> = c.line_numbers.iter().map(|(l, n)| Ok(raw::LineNumber { start_pc: pc(l)?, line: *n })).collect::<Result<_, String>>()?;
			let mut at = 0;
			for n in chunks(all.len(), &mut self.attr_rng, self.knobs.split_tables) { let part = all[at..at + n].to_vec(); at += n; attrs.push(self.attr("LineNumberTable", AttrInfo::LineNumberTable(part))?); }
		}
		let range = |s: &LabelId, e: &LabelId| -> Result<(u16, u16), String> {
			let (a, b) = (pc(s)?, pc(e)?);
			if b < a { return Err(format!("range end {e:?} before start {s:?}")); }
			Ok((a, b - a))
		};
		if !c.local_variables.is_empty() {
			u16len(c.local_variables.len(), "local_variable_table")?;
			let mut all = vec![];
			for v in &c.local_variables { let (start_pc, length) = range(&v.start, &v.end)?; all.push(raw::LocalVar { start_pc, length, name_index: self.pool.utf8(&v.name)?, descriptor_index: self.pool.utf8(&v.desc)?, index: v.index }); }
			let mut at = 0;
			for n in chunks(all.len(), &mut self.attr_rng, self.knobs.split_tables) { let part = all[at..at + n].to_vec(); at += n; attrs.push(self.attr("LocalVariableTable", AttrInfo::LocalVariableTable(part))?); }
		}
		if !c.local_variable_types.is_empty() {
			u16len(c.local_variable_types.len(), "local_variable_type_table")?;
			let mut all = vec![];
			for v in &c.local_variable_types { let (start_pc, length) = range(&v.start, &v.end)?; all.push(raw::LocalVar { start_pc, length, name_index: self.pool.utf8(&v.name)?, descriptor_index: self.pool.utf8(&v.signature)?, index: v.index }); }
			let mut at = 0;
			for n in chunks(all.len(), &mut self.attr_rng, self.knobs.split_tables) { let part = all[at..at + n].to_vec(); at += n; attrs.push(self.attr("LocalVariableTypeTable", AttrInfo::LocalVariableTypeTable(part))?); }
		}
		if let Some(fs) = &c.frames {
			u16len(fs.len(), "stack map frames")?;
			let mut out = vec![];
			let mut prev: i64 = -1;
			for (j, f) in fs.iter().enumerate() {
				let at = pc(&f.at)? as i64;
				let delta = at - prev - 1;
				if delta < 0 { return Err(format!("frame {j}: positions must be strictly increasing")); }
				prev = at;
				let delta = delta as u16;
				let ext = delta > 63 || enc.pick(j, 2) == 1;
				let vs = |b: &mut Self, v: &[VTypeG<LabelId>]| -> Result<Vec<raw::VType>, String> { u16len(v.len(), "verification types")?; v.iter().map(|t| b.vtype(t, &pc)).collect() };
				out.push(match &f.kind {
					FrameKindG::Same => if ext { raw::Frame::SameExt { offset_delta: delta } } else { raw::Frame::Same { offset_delta: delta as u8 } },
					FrameKindG::SameLocals1(t) => { let stack = self.vtype(t, &pc)?; if ext { raw::Frame::SameLocals1Ext { offset_delta: delta, stack } } else { raw::Frame::SameLocals1 { offset_delta: delta as u8, stack } } }
					FrameKindG::Chop(k) => { if !(1..=3).contains(k) { return Err(format!("frame {j}: chop {k} not in 1..=3")); } raw::Frame::Chop { k: *k, offset_delta: delta } }
					FrameKindG::Append(v) => { if !(1..=3).contains(&v.len()) { return Err(format!("frame {j}: append of {} locals", v.len())); } raw::Frame::Append { offset_delta: delta, locals: vs(self, v)? } }
					FrameKindG::Full { locals, stack } => raw::Frame::Full { offset_delta: delta, locals: vs(self, locals)?, stack: vs(self, stack)? },
				});
			}
			attrs.push(self.attr("StackMapTable", AttrInfo::StackMapTable(out))?);
		}
		for (vis, list) in [(true, &c.visible_type_annotations), (false, &c.invisible_type_annotations)] {
			if list.is_empty() { continue; }
			u16len(list.len(), "type annotations")?;
			let mut out = vec![];
			for t in list {
				let tab = |v: &[LocalVarRangeG<LabelId>]| -> Result<Vec<(u16, u16, u16)>, String> { v.iter().map(|r| { let (s, l) = range(&r.start, &r.end)?; Ok((s, l, r.index)) }).collect() };
				let target = match &t.target {
					CodeTargetG::LocalVariable(v) | CodeTargetG::ResourceVariable(v) => { u16len(v.len(), "localvar_target table")?; raw::TargetInfo::LocalVar(tab(v)?) }
					CodeTargetG::ExceptionParameter(i) => raw::TargetInfo::Catch(*i),
					CodeTargetG::InstanceOf(l) | CodeTargetG::New(l) | CodeTargetG::ConstructorReference(l) | CodeTargetG::MethodReference(l) => raw::TargetInfo::Offset(pc(l)?),
					CodeTargetG::Cast { at, index } | CodeTargetG::ConstructorInvocationTypeArgument { at, index } | CodeTargetG::MethodInvocationTypeArgument { at, index }
					| CodeTargetG::ConstructorReferenceTypeArgument { at, index } | CodeTargetG::MethodReferenceTypeArgument { at, index } => raw::TargetInfo::TypeArgument(pc(at)?, *index),
				};
				out.push(raw::TypeAnnotation { target_type: t.target.target_type(), target, path: Self::path(&t.path)?, annotation: self.annotation(&t.annotation)? });
			}
			attrs.push(if vis { self.attr("RuntimeVisibleTypeAnnotations", AttrInfo::RuntimeVisibleTypeAnnotations(out))? } else { self.attr("RuntimeInvisibleTypeAnnotations", AttrInfo::RuntimeInvisibleTypeAnnotations(out))? });
		}
		self.unknown(&c.unknown_attributes, AttrLoc::Code, &mut attrs)?;
		let attributes = self.finish_attrs(attrs);
		Ok(raw::CodeAttr { max_stack: c.max_stack, max_locals: c.max_locals, code: asm.bytes, exception_table, attributes })
	}

	fn field(&mut self, f: &FieldFacts) -> Result<raw::Member, String> {
		let mut a = vec![];
		if let Some(v) = &f.constant_value {
			if !matches!(v, Loadable::Int(_) | Loadable::Float(_) | Loadable::Long(_) | Loadable::Double(_) | Loadable::String(_)) { return Err(format!("ConstantValue {v:?} is not int/float/long/double/String")); }
			let i = self.pool.loadable(v)?; a.push(self.attr("ConstantValue", AttrInfo::ConstantValue(i))?);
		}
		if f.synthetic { a.push(self.attr("Synthetic", AttrInfo::Synthetic)?); }
		if f.deprecated { a.push(self.attr("Deprecated", AttrInfo::Deprecated)?); }
		if let Some(s) = &f.signature { let i = self.pool.utf8(s)?; a.push(self.attr("Signature", AttrInfo::Signature(i))?); }
		self.common_annotations(&f.visible_annotations, &f.invisible_annotations, &f.visible_type_annotations, &f.invisible_type_annotations, &mut a)?;
		self.unknown(&f.unknown_attributes, AttrLoc::Field, &mut a)?;
		Ok(raw::Member { access: f.access, name_index: self.pool.utf8(&f.name)?, descriptor_index: self.pool.utf8(&f.desc)?, attributes: self.finish_attrs(a) })
	}

	fn method(&mut self, m: &MethodSpec, k: usize) -> Result<raw::Member, String> {
		let mut a = vec![];
		if let Some(c) = &m.code { let c = self.code(c, k)?; a.push(self.attr("Code", AttrInfo::Code(c))?); }
		if let Some(e) = &m.exceptions { u16len(e.len(), "exceptions")?; let v = self.pool.classes(e)?; a.push(self.attr("Exceptions", AttrInfo::Exceptions(v))?); }
		if m.synthetic { a.push(self.attr("Synthetic", AttrInfo::Synthetic)?); }
		if m.deprecated { a.push(self.attr("Deprecated", AttrInfo::Deprecated)?); }
		if let Some(s) = &m.signature { let i = self.pool.utf8(s)?; a.push(self.attr("Signature", AttrInfo::Signature(i))?); }
		self.common_annotations(&m.visible_annotations, &m.invisible_annotations, &m.visible_type_annotations, &m.invisible_type_annotations, &mut a)?;
		for (vis, pa) in [(true, &m.visible_parameter_annotations), (false, &m.invisible_parameter_annotations)] {
			if let Some(ps) = pa {
				if ps.len() > 255 { return Err("more than 255 parameter annotation lists".into()); }
				let v: Vec<Vec<raw::Annotation>> = ps.iter().map(|p| self.annotations(p)).collect::<Result<_, _>>()?;
				a.push(if vis { self.attr("RuntimeVisibleParameterAnnotations", AttrInfo::RuntimeVisibleParameterAnnotations(v))? } else { self.attr("RuntimeInvisibleParameterAnnotations", AttrInfo::RuntimeInvisibleParameterAnnotations(v))? });
			}
		}
		if let Some(d) = &m.annotation_default { let v = self.element(d)?; a.push(self.attr("AnnotationDefault", AttrInfo::AnnotationDefault(v))?); }
		if let Some(ps) = &m.method_parameters {
			if ps.len() > 255 { return Err("more than 255 method parameters".into()); }
			let v = ps.iter().map(|p| Ok(raw::MethodParameter { name_index: self.pool.opt_utf8(&p.name)?, access_flags: p.access })).collect::<Result<_, String>>()?;
			a.push(self.attr("MethodParameters", AttrInfo::MethodParameters(v))?);
		}
		self.unknown(&m.unknown_attributes, AttrLoc::Method, &mut a)?;
		Ok(raw::Member { access: m.access, name_index: self.pool.utf8(&m.name)?, descriptor_index: self.pool.utf8(&m.desc)?, attributes: self.finish_attrs(a) })
	}

	fn class(&mut self, s: &ClassSpec) -> Result<RawClass, String> {
		let this_class = self.pool.class(&s.name)?;
		let super_class = self.pool.opt_class(&s.super_class)?;
		u16len(s.interfaces.len(), "interfaces")?; u16len(s.fields.len(), "fields")?; u16len(s.methods.len(), "methods")?;
		let interfaces = self.pool.classes(&s.interfaces)?;
		let fields = s.fields.iter().enumerate().map(|(k, f)| self.field(f).map_err(|e| format!("field #{k} {}: {e}", f.name))).collect::<Result<_, _>>()?;
		let methods = s.methods.iter().enumerate().map(|(k, m)| self.method(m, k).map_err(|e| format!("method #{k} {}{}: {e}", m.name, m.desc))).collect::<Result<_, _>>()?;
		let mut a = vec![];
		if let Some(x) = &s.source_file { let i = self.pool.utf8(x)?; a.push(self.attr("SourceFile", AttrInfo::SourceFile(i))?); }
		if let Some(x) = &s.source_debug_extension { a.push(self.attr("SourceDebugExtension", AttrInfo::SourceDebugExtension(x.to_mutf8()))?); }
		if let Some(v) = &s.inner_classes {
			u16len(v.len(), "inner classes")?;
			let t = v.iter().map(|i| Ok(raw::InnerClass { inner_class_info_index: self.pool.class(&i.inner)?, outer_class_info_index: self.pool.opt_class(&i.outer)?, inner_name_index: self.pool.opt_utf8(&i.inner_name)?, inner_class_access_flags: i.access })).collect::<Result<_, String>>()?;
			a.push(self.attr("InnerClasses", AttrInfo::InnerClasses(t))?);
		}
		if let Some(e) = &s.enclosing_method {
			let class_index = self.pool.class(&e.class)?;
			let method_index = match &e.method { Some((n, d)) => self.pool.idx(CKey::NameAndType(n.clone(), d.clone()))?, None => 0 };
			a.push(self.attr("EnclosingMethod", AttrInfo::EnclosingMethod { class_index, method_index })?);
		}
		if let Some(x) = &s.nest_host { let i = self.pool.class(x)?; a.push(self.attr("NestHost", AttrInfo::NestHost(i))?); }
		if let Some(v) = &s.nest_members { u16len(v.len(), "nest members")?; let t = self.pool.classes(v)?; a.push(self.attr("NestMembers", AttrInfo::NestMembers(t))?); }
		if let Some(v) = &s.permitted_subclasses { u16len(v.len(), "permitted subclasses")?; let t = self.pool.classes(v)?; a.push(self.attr("PermittedSubclasses", AttrInfo::PermittedSubclasses(t))?); }
		if let Some(v) = &s.record {
			u16len(v.len(), "record components")?;
			let mut comps = vec![];
			for r in v {
				let mut ra = vec![];
				if let Some(sg) = &r.signature { let i = self.pool.utf8(sg)?; ra.push(self.attr("Signature", AttrInfo::Signature(i))?); }
				self.common_annotations(&r.visible_annotations, &r.invisible_annotations, &r.visible_type_annotations, &r.invisible_type_annotations, &mut ra)?;
				self.unknown(&r.unknown_attributes, AttrLoc::RecordComponent, &mut ra)?;
				comps.push(raw::RecordComponent { name_index: self.pool.utf8(&r.name)?, descriptor_index: self.pool.utf8(&r.desc)?, attributes: self.finish_attrs(ra) });
			}
			a.push(self.attr("Record", AttrInfo::Record(comps))?);
		}
		if let Some(m) = &s.module {
			u16len(m.requires.len().max(m.exports.len()).max(m.opens.len()).max(m.uses.len()).max(m.provides.len()), "module table")?;
			let exp = |b: &mut Self, v: &[ModuleExportsFacts]| -> Result<Vec<raw::ModuleExports>, String> {
				v.iter().map(|e| { u16len(e.to.len(), "exports_to")?; Ok(raw::ModuleExports { index: b.pool.idx(CKey::Package(e.package.clone()))?, flags: e.flags, to: e.to.iter().map(|t| b.pool.idx(CKey::Module(t.clone()))).collect::<Result<_, _>>()? }) }).collect()
			};
			let attr = raw::ModuleAttr {
				name_index: self.pool.idx(CKey::Module(m.name.clone()))?, flags: m.flags, version_index: self.pool.opt_utf8(&m.version)?,
				requires: m.requires.iter().map(|r| Ok(raw::ModuleRequires { index: self.pool.idx(CKey::Module(r.module.clone()))?, flags: r.flags, version_index: self.pool.opt_utf8(&r.version)? })).collect::<Result<_, String>>()?,
				exports: exp(self, &m.exports)?, opens: exp(self, &m.opens)?,
				uses: self.pool.classes(&m.uses)?,
				provides: m.provides.iter().map(|p| { u16len(p.with.len(), "provides_with")?; Ok(raw::ModuleProvides { index: self.pool.class(&p.service)?, with: self.pool.classes(&p.with)? }) }).collect::<Result<_, String>>()?,
			};
			a.push(self.attr("Module", AttrInfo::Module(attr))?);
		}
		if let Some(v) = &s.module_packages { u16len(v.len(), "module packages")?; let t = v.iter().map(|p| self.pool.idx(CKey::Package(p.clone()))).collect::<Result<_, _>>()?; a.push(self.attr("ModulePackages", AttrInfo::ModulePackages(t))?); }
		if let Some(x) = &s.module_main_class { let i = self.pool.class(x)?; a.push(self.attr("ModuleMainClass", AttrInfo::ModuleMainClass(i))?); }
		if s.synthetic { a.push(self.attr("Synthetic", AttrInfo::Synthetic)?); }
		if s.deprecated { a.push(self.attr("Deprecated", AttrInfo::Deprecated)?); }
		if let Some(x) = &s.signature { let i = self.pool.utf8(x)?; a.push(self.attr("Signature", AttrInfo::Signature(i))?); }
		self.common_annotations(&s.visible_annotations, &s.invisible_annotations, &s.visible_type_annotations, &s.invisible_type_annotations, &mut a)?;
		self.unknown(&s.unknown_attributes, AttrLoc::Class, &mut a)?;
		// BootstrapMethods: known completely after pass 1
		let bsm_name = if !self.pool.bsms.is_empty() { Some(self.pool.utf8s("BootstrapMethods")?) } else { None };
		let (pool, bsms) = if self.pool.layout.is_some() { self.pool.emit()? } else { (vec![None], vec![]) };
		if !bsms.is_empty() { a.push(Attribute { name_index: bsm_name.unwrap_or(0), name: "BootstrapMethods".into(), info: AttrInfo::BootstrapMethods(bsms) }); }
		let attributes = self.finish_attrs(a);
		Ok(RawClass { minor: s.version.minor, major: s.version.major, pool, access: s.access, this_class, super_class, interfaces, fields, methods, attributes })
	}
}

/// Assemble into the structured form of `raw` (serialise with `raw::write`; handy when a consumer
/// wants to damage a structure before writing).
pub fn assemble_raw(spec: &ClassSpec, knobs: &Knobs) -> Result<RawClass, String> {
	let seed = knobs.attr_order.unwrap_or(0) ^ 0x6174_7472;
	// pass 1: collect constants
	let mut b = B { pool: Pool::new(), knobs, attr_rng: Rng::new(seed) };
	b.class(spec)?;
	let mut pool = b.pool;
	pool.finish(&knobs.pool)?;
	// pass 2: emit with final indices
	let mut b = B { pool, knobs, attr_rng: Rng::new(seed) };
	b.class(spec)
}
pub fn try_assemble(spec: &ClassSpec, knobs: &Knobs) -> Result<Vec<u8>, String> { Ok(raw::write(&assemble_raw(spec, knobs)?)) }
/// `try_assemble`, panicking if the spec cannot be encoded (see `try_assemble` for the reasons:
/// undefined label, conditional branch farther than ±32 KiB, code longer than 65535 bytes,
/// pool overflow, operand not fitting its instruction, …)
pub fn assemble(spec: &ClassSpec, knobs: &Knobs) -> Vec<u8> { try_assemble(spec, knobs).unwrap_or_else(|e| panic!("assemble: {e}")) }
