//! A parser for the output of `{:?}` (derived `Debug`, plus the few hand-written `Debug` impls of
//! duke's tree) into a generic tree, and a structural diff over such trees.
//!
//! Two uses: (1) `facts_from_duke` reads the crate-private parts of duke's tree (`Label.id`,
//! `LabelRange`, `TypePath`, `Version`, `Module`, the attribute fields of `RecordComponent`)
//! through their `Debug` rendering — the only public window onto them without a hook in /repo;
//! (2) `ClassFacts::diff` renders both sides with `{:?}`, parses them and walks the trees, which
//! gives path-labelled differences without a hand-written differ per type.
use std::fmt;

#[derive(Clone, PartialEq, Debug)]
pub enum Dbg {
	/// number, identifier (`None`, `true`, unit variant), or any other bare token
	Atom(String),
	/// string literal, decoded to code points (escapes `\0 \t \r \n \' \" \\ \u{..}` resolved)
	Str(Vec<u32>),
	/// `Name { field: value, .. }` (names `Some`) or `Name(value, ..)` (names `None`)
	Named(String, Vec<(Option<String>, Dbg)>),
	/// `Name { word word }` — duke's flag structs print the set flags as bare words
	Flags(String, Vec<String>),
	List(Vec<Dbg>),
	Tuple(Vec<Dbg>),
	/// `{key: value, ..}` (`debug_map`)
	Map(Vec<(Dbg, Dbg)>),
	/// duke's `Annotation`: `@<type>{"name": value, ..}`
	At(Box<Dbg>, Vec<(Dbg, Dbg)>),
}

struct Ps<'a> { s: &'a [u8], p: usize }

fn is_delim(c: u8) -> bool { matches!(c, b',' | b'(' | b')' | b'[' | b']' | b'{' | b'}' | b':' | b'"' | b'@') || c.is_ascii_whitespace() }

impl<'a> Ps<'a> {
	fn ws(&mut self) { while self.p < self.s.len() && self.s[self.p].is_ascii_whitespace() { self.p += 1; } }
	fn peek(&mut self) -> Option<u8> { self.ws(); self.s.get(self.p).copied() }
	fn eat(&mut self, c: u8) -> bool { if self.peek() == Some(c) { self.p += 1; true } else { false } }
	fn expect(&mut self, c: u8) -> Result<(), String> { if self.eat(c) { Ok(()) } else { Err(format!("expected '{}' at {}", c as char, self.p)) } }
	fn token(&mut self) -> String {
		self.ws();
		let st = self.p;
		while self.p < self.s.len() && !is_delim(self.s[self.p]) { self.p += 1; }
		String::from_utf8_lossy(&self.s[st..self.p]).into_owned()
	}
	fn string(&mut self) -> Result<Vec<u32>, String> {
		// after the opening quote
		let text = std::str::from_utf8(&self.s[self.p..]).map_err(|e| e.to_string())?;
		let mut out = vec![];
		let mut it = text.char_indices();
		while let Some((i, c)) = it.next() {
			match c {
				'"' => { self.p += i + 1; return Ok(out); }
				'\\' => {
					let (_, e) = it.next().ok_or("dangling backslash")?;
					match e {
						'0' => out.push(0), 't' => out.push(9), 'r' => out.push(13), 'n' => out.push(10),
						'\'' => out.push(39), '"' => out.push(34), '\\' => out.push(92),
						'u' => {
							let (_, b) = it.next().ok_or("bad \\u")?;
							if b != '{' { return Err("bad \\u escape".into()); }
							let mut v: u32 = 0;
							loop {
								let (_, h) = it.next().ok_or("bad \\u")?;
								if h == '}' { break; }
								v = v * 16 + h.to_digit(16).ok_or("bad hex digit")?;
							}
							out.push(v);
						}
						x => return Err(format!("unknown escape \\{x}")),
					}
				}
				c => out.push(c as u32),
			}
		}
		Err("unterminated string".into())
	}
	fn seq(&mut self, close: u8) -> Result<Vec<Dbg>, String> {
		let mut v = vec![];
		loop {
			if self.eat(close) { return Ok(v); }
			v.push(self.value()?);
			if !self.eat(b',') { self.expect(close)?; return Ok(v); }
		}
	}
	fn map_body(&mut self) -> Result<Vec<(Dbg, Dbg)>, String> {
		// after '{'
		let mut v = vec![];
		loop {
			if self.eat(b'}') { return Ok(v); }
			let k = self.value()?;
			self.expect(b':')?;
			let x = self.value()?;
			v.push((k, x));
			if !self.eat(b',') { self.expect(b'}')?; return Ok(v); }
		}
	}
	fn value(&mut self) -> Result<Dbg, String> {
		match self.peek().ok_or("unexpected end")? {
			b'"' => { self.p += 1; Ok(Dbg::Str(self.string()?)) }
			b'[' => { self.p += 1; Ok(Dbg::List(self.seq(b']')?)) }
			b'(' => { self.p += 1; Ok(Dbg::Tuple(self.seq(b')')?)) }
			b'{' => {
				self.p += 1;
				// map or set
				let save = self.p;
				if self.eat(b'}') { return Ok(Dbg::Map(vec![])); }
				let first = self.value()?;
				if self.peek() == Some(b':') { self.p = save; Ok(Dbg::Map(self.map_body()?)) }
				else { let mut v = vec![first]; if self.eat(b',') { v.extend(self.seq(b'}')?); } else { self.expect(b'}')?; } Ok(Dbg::List(v)) }
			}
			b'@' => {
				self.p += 1;
				let ty = self.value()?;
				self.expect(b'{')?;
				Ok(Dbg::At(Box::new(ty), self.map_body()?))
			}
			b'\'' => {
				// char literal: keep the raw text
				let st = self.p; self.p += 1;
				while self.p < self.s.len() && self.s[self.p] != b'\'' { if self.s[self.p] == b'\\' { self.p += 1; } self.p += 1; }
				self.p += 1;
				Ok(Dbg::Atom(String::from_utf8_lossy(&self.s[st..self.p.min(self.s.len())]).into_owned()))
			}
			_ => {
				let t = self.token();
				if t.is_empty() { return Err(format!("unexpected '{}' at {}", self.s[self.p] as char, self.p)); }
				// no whitespace between a tuple-struct name and '(' ; one space before '{'
				if self.s.get(self.p) == Some(&b'(') { self.p += 1; let v = self.seq(b')')?; return Ok(Dbg::Named(t, v.into_iter().map(|x| (None, x)).collect())); }
				let save = self.p;
				if self.s.get(self.p) == Some(&b' ') && self.s.get(self.p + 1) == Some(&b'{') {
					self.p += 2;
					if self.eat(b'}') { return Ok(Dbg::Named(t, vec![])); }
					// field list or bare words?
					let save2 = self.p;
					let w = self.token();
					if !w.is_empty() && self.s.get(self.p) == Some(&b':') {
						self.p = save2;
						let mut fields = vec![];
						loop {
							if self.eat(b'}') { break; }
							let name = self.token();
							self.expect(b':')?;
							fields.push((Some(name), self.value()?));
							if !self.eat(b',') { self.expect(b'}')?; break; }
						}
						return Ok(Dbg::Named(t, fields));
					}
					if !w.is_empty() {
						let mut words = vec![w];
						loop { if self.eat(b'}') { break; } let w = self.token(); if w.is_empty() { return Err(format!("bad flags body at {}", self.p)); } words.push(w); }
						return Ok(Dbg::Flags(t, words));
					}
					self.p = save;
				}
				Ok(Dbg::Atom(t))
			}
		}
	}
}

/// Parse the `{:?}` rendering of a value.
pub fn parse_debug(s: &str) -> Result<Dbg, String> {
	let mut p = Ps { s: s.as_bytes(), p: 0 };
	let v = p.value()?;
	p.ws();
	if p.p != s.len() { return Err(format!("trailing input at {} of {}", p.p, s.len())); }
	Ok(v)
}

/// `parse_debug(format!("{:?}", x))`; panics if the rendering cannot be parsed (a bug here)
pub fn of<T: fmt::Debug>(x: &T) -> Dbg {
	let s = format!("{x:?}");
	parse_debug(&s).unwrap_or_else(|e| panic!("cannot parse Debug output ({e}): {s}"))
}

impl Dbg {
	pub fn name(&self) -> Option<&str> { match self { Dbg::Named(n, _) | Dbg::Flags(n, _) => Some(n), Dbg::Atom(a) => Some(a), _ => None } }
	/// named field of a struct-like value
	pub fn field(&self, f: &str) -> Option<&Dbg> {
		match self { Dbg::Named(_, fs) => fs.iter().find(|(n, _)| n.as_deref() == Some(f)).map(|(_, v)| v), _ => None }
	}
	/// positional field of a tuple-struct-like value
	pub fn arg(&self, i: usize) -> Option<&Dbg> { match self { Dbg::Named(_, fs) => fs.get(i).map(|(_, v)| v), Dbg::Tuple(v) => v.get(i), _ => None } }
	pub fn list(&self) -> Option<&[Dbg]> { match self { Dbg::List(v) | Dbg::Tuple(v) => Some(v), _ => None } }
	pub fn atom(&self) -> Option<&str> { match self { Dbg::Atom(a) => Some(a), _ => None } }
	pub fn num<T: std::str::FromStr>(&self) -> Option<T> { self.atom().and_then(|a| a.parse().ok()) }
	pub fn str_cps(&self) -> Option<&[u32]> { match self { Dbg::Str(s) => Some(s), _ => None } }
	/// `Some(x)` → `Some(Some(x))`, `None` → `Some(None)`, anything else → `None`
	pub fn option(&self) -> Option<Option<&Dbg>> {
		match self { Dbg::Atom(a) if a == "None" => Some(None), Dbg::Named(n, fs) if n == "Some" && fs.len() == 1 => Some(Some(&fs[0].1)), _ => None }
	}
	/// set words of a flags value (`Name { a b }`); an empty struct rendering counts as no flags
	pub fn flags(&self) -> Option<Vec<&str>> {
		match self { Dbg::Flags(_, w) => Some(w.iter().map(|s| s.as_str()).collect()), Dbg::Named(_, fs) if fs.is_empty() => Some(vec![]), _ => None }
	}
}

impl fmt::Display for Dbg {
	fn fmt(&self, f: &mut fmt::Formatter<'_>) -> fmt::Result {
		fn seq(f: &mut fmt::Formatter<'_>, v: &[Dbg]) -> fmt::Result { for (i, x) in v.iter().enumerate() { if i > 0 { f.write_str(", ")?; } write!(f, "{x}")?; } Ok(()) }
		fn kv(f: &mut fmt::Formatter<'_>, v: &[(Dbg, Dbg)]) -> fmt::Result { for (i, (k, x)) in v.iter().enumerate() { if i > 0 { f.write_str(", ")?; } write!(f, "{k}: {x}")?; } Ok(()) }
		match self {
			Dbg::Atom(a) => f.write_str(a),
			Dbg::Str(s) => {
				f.write_str("\"")?;
				for &c in s {
					match char::from_u32(c) {
						Some('"') => f.write_str("\\\"")?, Some('\\') => f.write_str("\\\\")?,
						Some(ch) if (' '..='~').contains(&ch) => write!(f, "{ch}")?,
						_ => write!(f, "\\u{{{c:x}}}")?,
					}
				}
				f.write_str("\"")
			}
			Dbg::Named(n, fs) => {
				if fs.is_empty() { return write!(f, "{n} {{}}"); }
				if fs[0].0.is_some() {
					write!(f, "{n} {{ ")?;
					for (i, (k, v)) in fs.iter().enumerate() { if i > 0 { f.write_str(", ")?; } write!(f, "{}: {v}", k.as_deref().unwrap_or("?"))?; }
					f.write_str(" }")
				} else {
					write!(f, "{n}(")?;
					for (i, (_, v)) in fs.iter().enumerate() { if i > 0 { f.write_str(", ")?; } write!(f, "{v}")?; }
					f.write_str(")")
				}
			}
			Dbg::Flags(n, w) => write!(f, "{n} {{ {} }}", w.join(" ")),
			Dbg::List(v) => { f.write_str("[")?; seq(f, v)?; f.write_str("]") }
			Dbg::Tuple(v) => { f.write_str("(")?; seq(f, v)?; f.write_str(")") }
			Dbg::Map(v) => { f.write_str("{")?; kv(f, v)?; f.write_str("}") }
			Dbg::At(t, v) => { write!(f, "@{t}{{")?; kv(f, v)?; f.write_str("}") }
		}
	}
}

fn short(d: &Dbg) -> String {
	let s = d.to_string();
	if s.chars().count() > 240 { let t: String = s.chars().take(240).collect(); format!("{t} …") } else { s }
}

/// label for a list element: `[3 name="foo" desc="()V"]` when the element has such fields
fn elem_label(i: usize, d: &Dbg) -> String {
	let mut s = format!("[{i}");
	for k in ["name", "desc", "op"] { if let Some(v) = d.field(k) { if matches!(v, Dbg::Str(_)) { s.push_str(&format!(" {k}={v}")); } } }
	s.push(']');
	s
}

/// Structural differences between two trees as `path: left != right` lines (at most `limit`).
pub fn diff(path: &str, a: &Dbg, b: &Dbg, out: &mut Vec<String>, limit: usize) {
	if out.len() >= limit || a == b { return; }
	match (a, b) {
		(Dbg::Named(na, fa), Dbg::Named(nb, fb)) if na == nb && fa.len() == fb.len() && fa.iter().zip(fb).all(|(x, y)| x.0 == y.0) => {
			let wrapper = fa.len() == 1 && fa[0].0.is_none();
			for (i, ((k, x), (_, y))) in fa.iter().zip(fb).enumerate() {
				let p = match k { Some(k) => format!("{path}.{k}"), None if wrapper => format!("{path}.{na}"), None => format!("{path}.{na}.{i}") };
				diff(&p, x, y, out, limit);
			}
		}
		(Dbg::List(x), Dbg::List(y)) | (Dbg::Tuple(x), Dbg::Tuple(y)) => {
			if x.len() != y.len() {
				out.push(format!("{path}: length {} != {}", x.len(), y.len()));
				// show the first element that differs and the surplus
				for i in 0..x.len().min(y.len()) {
					if x[i] != y[i] { out.push(format!("{path}{}: first differing element: {} != {}", elem_label(i, &x[i]), short(&x[i]), short(&y[i]))); break; }
				}
				if x.len() > y.len() { out.push(format!("{path}: only left has {}", short(&x[y.len()]))); } else { out.push(format!("{path}: only right has {}", short(&y[x.len()]))); }
			} else {
				for (i, (p, q)) in x.iter().zip(y).enumerate() { diff(&format!("{path}{}", elem_label(i, p)), p, q, out, limit); }
			}
		}
		_ => out.push(format!("{path}: {} != {}", short(a), short(b))),
	}
}
