//! "Facts": a semantic, constant-pool-independent description of a class.  Everything is resolved
//! to strings and values; positions in code are instruction indices (index = number of
//! instructions denotes the end of the code).  The normal form erases what the JVMS gives no
//! meaning to: short/wide instruction forms, switch padding, pool layout, attribute order,
//! frame encodings (`same` vs `same_frame_extended` …), the split of line-number / local-variable
//! entries over several attributes (entries are sorted).
//!
//! The types are generic in the code representation so that the assembler's input (`ClassSpec`,
//! positions are symbolic labels) and the facts (positions are instruction indices) share every
//! definition: `ClassFacts = ClassG<CodeFacts>`, `CodeFacts = CodeG<usize>`.
use super::dbg;
pub use super::jstr::{F32, F64, JStr};
pub use super::facts_raw::facts_from_raw;
pub use super::facts_duke::facts_from_duke;

/// position used for a label of duke's tree that is attached to no instruction
pub const DANGLING: usize = usize::MAX;

#[derive(Debug, Clone, Copy, PartialEq, Eq, PartialOrd, Ord, Hash)]
pub struct Version { pub major: u16, pub minor: u16 }

#[derive(Debug, Clone, PartialEq, Eq)]
pub struct ClassG<C> {
	pub version: Version,
	pub access: u16,
	pub name: JStr,
	pub super_class: Option<JStr>,
	pub interfaces: Vec<JStr>,
	pub fields: Vec<FieldFacts>,
	pub methods: Vec<MethodG<C>>,
	pub deprecated: bool,
	pub synthetic: bool,
	pub inner_classes: Option<Vec<InnerClassFacts>>,
	pub enclosing_method: Option<EnclosingMethodFacts>,
	pub signature: Option<JStr>,
	pub source_file: Option<JStr>,
	pub source_debug_extension: Option<JStr>,
	pub visible_annotations: Vec<AnnotationFacts>,
	pub invisible_annotations: Vec<AnnotationFacts>,
	pub visible_type_annotations: Vec<TypeAnnotationFacts>,
	pub invisible_type_annotations: Vec<TypeAnnotationFacts>,
	pub module: Option<ModuleFacts>,
	pub module_packages: Option<Vec<JStr>>,
	pub module_main_class: Option<JStr>,
	pub nest_host: Option<JStr>,
	pub nest_members: Option<Vec<JStr>>,
	pub permitted_subclasses: Option<Vec<JStr>>,
	/// `Some` iff the class has a Record attribute (possibly with no components)
	pub record: Option<Vec<RecordComponentFacts>>,
	/// sorted by (name, bytes)
	pub unknown_attributes: Vec<UnknownAttr>,
}
pub type ClassFacts = ClassG<CodeFacts>;

#[derive(Debug, Clone, PartialEq, Eq, PartialOrd, Ord)]
pub struct UnknownAttr { pub name: JStr, pub bytes: Vec<u8> }

#[derive(Debug, Clone, PartialEq, Eq)]
pub struct FieldFacts {
	pub access: u16,
	pub name: JStr,
	pub desc: JStr,
	pub deprecated: bool,
	pub synthetic: bool,
	pub constant_value: Option<Loadable>,
	pub signature: Option<JStr>,
	pub visible_annotations: Vec<AnnotationFacts>,
	pub invisible_annotations: Vec<AnnotationFacts>,
	pub visible_type_annotations: Vec<TypeAnnotationFacts>,
	pub invisible_type_annotations: Vec<TypeAnnotationFacts>,
	pub unknown_attributes: Vec<UnknownAttr>,
}

#[derive(Debug, Clone, PartialEq, Eq)]
pub struct MethodG<C> {
	pub access: u16,
	pub name: JStr,
	pub desc: JStr,
	pub deprecated: bool,
	pub synthetic: bool,
	pub code: Option<C>,
	pub exceptions: Option<Vec<JStr>>,
	pub signature: Option<JStr>,
	pub visible_annotations: Vec<AnnotationFacts>,
	pub invisible_annotations: Vec<AnnotationFacts>,
	pub visible_type_annotations: Vec<TypeAnnotationFacts>,
	pub invisible_type_annotations: Vec<TypeAnnotationFacts>,
	/// per formal parameter; `None` = no such attribute
	pub visible_parameter_annotations: Option<Vec<Vec<AnnotationFacts>>>,
	pub invisible_parameter_annotations: Option<Vec<Vec<AnnotationFacts>>>,
	pub annotation_default: Option<ElementValueFacts>,
	pub method_parameters: Option<Vec<MethodParameterFacts>>,
	pub unknown_attributes: Vec<UnknownAttr>,
}
pub type MethodFacts = MethodG<CodeFacts>;

#[derive(Debug, Clone, PartialEq, Eq)]
pub struct RecordComponentFacts {
	pub name: JStr,
	pub desc: JStr,
	pub signature: Option<JStr>,
	pub visible_annotations: Vec<AnnotationFacts>,
	pub invisible_annotations: Vec<AnnotationFacts>,
	pub visible_type_annotations: Vec<TypeAnnotationFacts>,
	pub invisible_type_annotations: Vec<TypeAnnotationFacts>,
	pub unknown_attributes: Vec<UnknownAttr>,
}

#[derive(Debug, Clone, PartialEq, Eq)]
pub struct InnerClassFacts { pub inner: JStr, pub outer: Option<JStr>, pub inner_name: Option<JStr>, pub access: u16 }
#[derive(Debug, Clone, PartialEq, Eq)]
pub struct EnclosingMethodFacts { pub class: JStr, pub method: Option<(JStr, JStr)> }
#[derive(Debug, Clone, PartialEq, Eq)]
pub struct MethodParameterFacts { pub name: Option<JStr>, pub access: u16 }

#[derive(Debug, Clone, PartialEq, Eq)]
pub struct ModuleFacts {
	pub name: JStr, pub flags: u16, pub version: Option<JStr>,
	pub requires: Vec<ModuleRequiresFacts>, pub exports: Vec<ModuleExportsFacts>, pub opens: Vec<ModuleExportsFacts>,
	pub uses: Vec<JStr>, pub provides: Vec<ModuleProvidesFacts>,
}
#[derive(Debug, Clone, PartialEq, Eq)]
pub struct ModuleRequiresFacts { pub module: JStr, pub flags: u16, pub version: Option<JStr> }
#[derive(Debug, Clone, PartialEq, Eq)]
pub struct ModuleExportsFacts { pub package: JStr, pub flags: u16, pub to: Vec<JStr> }
#[derive(Debug, Clone, PartialEq, Eq)]
pub struct ModuleProvidesFacts { pub service: JStr, pub with: Vec<JStr> }

// ---- constants ----------------------------------------------------------------------------

/// a loadable constant (operand of `ldc`, bootstrap argument) or a ConstantValue
#[derive(Debug, Clone, PartialEq, Eq, Hash)]
pub enum Loadable {
	Int(i32), Float(F32), Long(i64), Double(F64),
	Class(JStr), String(JStr),
	MethodHandle(HandleFacts),
	MethodType(JStr),
	Dynamic(DynamicFacts),
}
/// CONSTANT_MethodHandle: `kind` is the reference_kind 1..=9; `interface` says the referenced
/// entry is an InterfaceMethodref (always false for field kinds)
#[derive(Debug, Clone, PartialEq, Eq, Hash)]
pub struct HandleFacts { pub kind: u8, pub owner: JStr, pub name: JStr, pub desc: JStr, pub interface: bool }
/// CONSTANT_Dynamic / CONSTANT_InvokeDynamic with its bootstrap method resolved
#[derive(Debug, Clone, PartialEq, Eq, Hash)]
pub struct DynamicFacts { pub name: JStr, pub desc: JStr, pub bootstrap: HandleFacts, pub args: Vec<Loadable> }
#[derive(Debug, Clone, PartialEq, Eq, Hash)]
pub struct MemberRef { pub owner: JStr, pub name: JStr, pub desc: JStr }
#[derive(Debug, Clone, PartialEq, Eq, Hash)]
pub struct MethodRefFacts { pub owner: JStr, pub name: JStr, pub desc: JStr, pub interface: bool }

// ---- annotations --------------------------------------------------------------------------

#[derive(Debug, Clone, PartialEq, Eq)]
pub struct AnnotationFacts { pub type_desc: JStr, pub pairs: Vec<(JStr, ElementValueFacts)> }
/// integer-like kinds carry the CONSTANT_Integer value as stored (not narrowed)
#[derive(Debug, Clone, PartialEq, Eq)]
pub enum ElementValueFacts {
	Byte(i32), Char(i32), Short(i32), Int(i32), Boolean(i32), Long(i64), Float(F32), Double(F64), String(JStr),
	Enum { type_desc: JStr, const_name: JStr },
	Class(JStr),
	Annotation(AnnotationFacts),
	Array(Vec<ElementValueFacts>),
}
#[derive(Debug, Clone, Copy, PartialEq, Eq)]
pub enum PathStep { Array, Nested, Wildcard, TypeArgument(u8) }
/// type annotation outside code
#[derive(Debug, Clone, PartialEq, Eq)]
pub struct TypeAnnotationFacts { pub target: TargetFacts, pub path: Vec<PathStep>, pub annotation: AnnotationFacts }
/// target_type 0x00..=0x17
#[derive(Debug, Clone, Copy, PartialEq, Eq)]
pub enum TargetFacts {
	/// 0x00
	ClassTypeParameter(u8),
	/// 0x01
	MethodTypeParameter(u8),
	/// 0x10; 65535 = the `extends` clause
	Supertype(u16),
	/// 0x11
	ClassTypeParameterBound { param: u8, bound: u8 },
	/// 0x12
	MethodTypeParameterBound { param: u8, bound: u8 },
	/// 0x13
	Field,
	/// 0x14
	Return,
	/// 0x15
	Receiver,
	/// 0x16
	FormalParameter(u8),
	/// 0x17
	Throws(u16),
}
impl TargetFacts {
	pub fn target_type(&self) -> u8 {
		match self {
			TargetFacts::ClassTypeParameter(_) => 0x00, TargetFacts::MethodTypeParameter(_) => 0x01, TargetFacts::Supertype(_) => 0x10,
			TargetFacts::ClassTypeParameterBound { .. } => 0x11, TargetFacts::MethodTypeParameterBound { .. } => 0x12, TargetFacts::Field => 0x13,
			TargetFacts::Return => 0x14, TargetFacts::Receiver => 0x15, TargetFacts::FormalParameter(_) => 0x16, TargetFacts::Throws(_) => 0x17,
		}
	}
}
/// type annotation inside a Code attribute
#[derive(Debug, Clone, PartialEq, Eq)]
pub struct CodeTypeAnnotationG<P> { pub target: CodeTargetG<P>, pub path: Vec<PathStep>, pub annotation: AnnotationFacts }
#[derive(Debug, Clone, PartialEq, Eq)]
pub struct LocalVarRangeG<P> { pub start: P, pub end: P, pub index: u16 }
/// target_type 0x40..=0x4B
#[derive(Debug, Clone, PartialEq, Eq)]
pub enum CodeTargetG<P> {
	/// 0x40
	LocalVariable(Vec<LocalVarRangeG<P>>),
	/// 0x41
	ResourceVariable(Vec<LocalVarRangeG<P>>),
	/// 0x42: index into the exception table
	ExceptionParameter(u16),
	/// 0x43
	InstanceOf(P),
	/// 0x44
	New(P),
	/// 0x45
	ConstructorReference(P),
	/// 0x46
	MethodReference(P),
	/// 0x47
	Cast { at: P, index: u8 },
	/// 0x48
	ConstructorInvocationTypeArgument { at: P, index: u8 },
	/// 0x49
	MethodInvocationTypeArgument { at: P, index: u8 },
	/// 0x4A
	ConstructorReferenceTypeArgument { at: P, index: u8 },
	/// 0x4B
	MethodReferenceTypeArgument { at: P, index: u8 },
}
impl<P> CodeTargetG<P> {
	pub fn target_type(&self) -> u8 {
		match self {
			CodeTargetG::LocalVariable(_) => 0x40, CodeTargetG::ResourceVariable(_) => 0x41, CodeTargetG::ExceptionParameter(_) => 0x42,
			CodeTargetG::InstanceOf(_) => 0x43, CodeTargetG::New(_) => 0x44, CodeTargetG::ConstructorReference(_) => 0x45, CodeTargetG::MethodReference(_) => 0x46,
			CodeTargetG::Cast { .. } => 0x47, CodeTargetG::ConstructorInvocationTypeArgument { .. } => 0x48, CodeTargetG::MethodInvocationTypeArgument { .. } => 0x49,
			CodeTargetG::ConstructorReferenceTypeArgument { .. } => 0x4A, CodeTargetG::MethodReferenceTypeArgument { .. } => 0x4B,
		}
	}
}

// ---- code ---------------------------------------------------------------------------------

#[derive(Debug, Clone, PartialEq, Eq)]
pub struct CodeG<P> {
	/// `None` only for a duke tree without the value
	pub max_stack: Option<u16>,
	pub max_locals: Option<u16>,
	pub insns: Vec<InsnG<P>>,
	/// in table order (the first matching handler wins)
	pub exception_table: Vec<ExceptionG<P>>,
	/// union of all LineNumberTable attributes, sorted
	pub line_numbers: Vec<(P, u16)>,
	/// union of all LocalVariableTable attributes, sorted
	pub local_variables: Vec<LocalVarG<P>>,
	/// union of all LocalVariableTypeTable attributes, sorted
	pub local_variable_types: Vec<LocalVarTypeG<P>>,
	/// StackMapTable; `None` = no such attribute or one without entries (the JVMS treats both alike, 4.7.4)
	pub frames: Option<Vec<FrameG<P>>>,
	pub visible_type_annotations: Vec<CodeTypeAnnotationG<P>>,
	pub invisible_type_annotations: Vec<CodeTypeAnnotationG<P>>,
	pub unknown_attributes: Vec<UnknownAttr>,
}
pub type CodeFacts = CodeG<usize>;

/// One instruction in normal form.  `op` is the mnemonic of the *general* form:
/// `xload_n` → `xload`, `ldc_w`/`ldc2_w` → `ldc`, `goto_w` → `goto`, `jsr_w` → `jsr`, `wide x` → `x`.
/// `iconst_n`, `bipush`, `sipush` (and `lconst_n` …) stay distinct: they are different instructions.
#[derive(Debug, Clone, PartialEq, Eq)]
pub struct InsnG<P> { pub op: &'static str, pub arg: OperandG<P> }
pub type InsnFacts = InsnG<usize>;

#[derive(Debug, Clone, PartialEq, Eq)]
pub enum OperandG<P> {
	None,
	/// bipush / sipush immediate
	Int(i32),
	/// local variable index of xload / xstore / ret
	Local(u16),
	Iinc { local: u16, delta: i16 },
	/// ldc
	Const(Loadable),
	/// getstatic, putstatic, getfield, putfield
	Field(MemberRef),
	/// invokevirtual, invokespecial, invokestatic, invokeinterface (`interface` = InterfaceMethodref)
	Method(MethodRefFacts),
	InvokeDynamic(DynamicFacts),
	/// new, anewarray, checkcast, instanceof
	Class(JStr),
	MultiANewArray { class: JStr, dims: u8 },
	/// atype code 4..=11 (see `opcodes::ATYPES`)
	NewArray(u8),
	Branch(P),
	TableSwitch { default: P, low: i32, high: i32, targets: Vec<P> },
	LookupSwitch { default: P, pairs: Vec<(i32, P)> },
}

#[derive(Debug, Clone, PartialEq, Eq)]
pub struct ExceptionG<P> { pub start: P, pub end: P, pub handler: P, pub catch_type: Option<JStr> }
#[derive(Debug, Clone, PartialEq, Eq, PartialOrd, Ord)]
pub struct LocalVarG<P> { pub start: P, pub end: P, pub index: u16, pub name: JStr, pub desc: JStr }
#[derive(Debug, Clone, PartialEq, Eq, PartialOrd, Ord)]
pub struct LocalVarTypeG<P> { pub start: P, pub end: P, pub index: u16, pub name: JStr, pub signature: JStr }
#[derive(Debug, Clone, PartialEq, Eq)]
pub struct FrameG<P> { pub at: P, pub kind: FrameKindG<P> }
/// the five frame shapes (`same`/`same_frame_extended` and `same_locals_1_stack_item`/`…_extended` are one shape each)
#[derive(Debug, Clone, PartialEq, Eq)]
pub enum FrameKindG<P> {
	Same,
	SameLocals1(VTypeG<P>),
	Chop(u8),
	Append(Vec<VTypeG<P>>),
	Full { locals: Vec<VTypeG<P>>, stack: Vec<VTypeG<P>> },
}
#[derive(Debug, Clone, PartialEq, Eq)]
pub enum VTypeG<P> { Top, Integer, Float, Long, Double, Null, UninitializedThis, Object(JStr), Uninitialized(P) }

// ---- mapping positions ----------------------------------------------------------------------

impl<P> OperandG<P> {
	pub fn map_pos<Q, F: FnMut(&P) -> Result<Q, String>>(&self, f: &mut F) -> Result<OperandG<Q>, String> {
		Ok(match self {
			OperandG::None => OperandG::None, OperandG::Int(x) => OperandG::Int(*x), OperandG::Local(x) => OperandG::Local(*x),
			OperandG::Iinc { local, delta } => OperandG::Iinc { local: *local, delta: *delta },
			OperandG::Const(c) => OperandG::Const(c.clone()), OperandG::Field(x) => OperandG::Field(x.clone()), OperandG::Method(x) => OperandG::Method(x.clone()),
			OperandG::InvokeDynamic(x) => OperandG::InvokeDynamic(x.clone()), OperandG::Class(x) => OperandG::Class(x.clone()),
			OperandG::MultiANewArray { class, dims } => OperandG::MultiANewArray { class: class.clone(), dims: *dims },
			OperandG::NewArray(x) => OperandG::NewArray(*x),
			OperandG::Branch(p) => OperandG::Branch(f(p)?),
			OperandG::TableSwitch { default, low, high, targets } => OperandG::TableSwitch { default: f(default)?, low: *low, high: *high, targets: targets.iter().map(&mut *f).collect::<Result<_, _>>()? },
			OperandG::LookupSwitch { default, pairs } => OperandG::LookupSwitch { default: f(default)?, pairs: pairs.iter().map(|(k, p)| Ok((*k, f(p)?))).collect::<Result<_, String>>()? },
		})
	}
}
impl<P> VTypeG<P> {
	pub fn map_pos<Q, F: FnMut(&P) -> Result<Q, String>>(&self, f: &mut F) -> Result<VTypeG<Q>, String> {
		Ok(match self {
			VTypeG::Top => VTypeG::Top, VTypeG::Integer => VTypeG::Integer, VTypeG::Float => VTypeG::Float, VTypeG::Long => VTypeG::Long, VTypeG::Double => VTypeG::Double,
			VTypeG::Null => VTypeG::Null, VTypeG::UninitializedThis => VTypeG::UninitializedThis, VTypeG::Object(c) => VTypeG::Object(c.clone()),
			VTypeG::Uninitialized(p) => VTypeG::Uninitialized(f(p)?),
		})
	}
}
impl<P> FrameKindG<P> {
	pub fn map_pos<Q, F: FnMut(&P) -> Result<Q, String>>(&self, f: &mut F) -> Result<FrameKindG<Q>, String> {
		let vs = |v: &Vec<VTypeG<P>>, f: &mut F| -> Result<Vec<VTypeG<Q>>, String> { v.iter().map(|t| t.map_pos(f)).collect() };
		Ok(match self {
			FrameKindG::Same => FrameKindG::Same, FrameKindG::SameLocals1(t) => FrameKindG::SameLocals1(t.map_pos(f)?), FrameKindG::Chop(k) => FrameKindG::Chop(*k),
			FrameKindG::Append(v) => FrameKindG::Append(vs(v, f)?),
			FrameKindG::Full { locals, stack } => FrameKindG::Full { locals: vs(locals, f)?, stack: vs(stack, f)? },
		})
	}
}
impl<P> CodeTargetG<P> {
	pub fn map_pos<Q, F: FnMut(&P) -> Result<Q, String>>(&self, f: &mut F) -> Result<CodeTargetG<Q>, String> {
		let tab = |v: &Vec<LocalVarRangeG<P>>, f: &mut F| -> Result<Vec<LocalVarRangeG<Q>>, String> {
			v.iter().map(|r| Ok(LocalVarRangeG { start: f(&r.start)?, end: f(&r.end)?, index: r.index })).collect()
		};
		Ok(match self {
			CodeTargetG::LocalVariable(v) => CodeTargetG::LocalVariable(tab(v, f)?), CodeTargetG::ResourceVariable(v) => CodeTargetG::ResourceVariable(tab(v, f)?),
			CodeTargetG::ExceptionParameter(i) => CodeTargetG::ExceptionParameter(*i),
			CodeTargetG::InstanceOf(p) => CodeTargetG::InstanceOf(f(p)?), CodeTargetG::New(p) => CodeTargetG::New(f(p)?),
			CodeTargetG::ConstructorReference(p) => CodeTargetG::ConstructorReference(f(p)?), CodeTargetG::MethodReference(p) => CodeTargetG::MethodReference(f(p)?),
			CodeTargetG::Cast { at, index } => CodeTargetG::Cast { at: f(at)?, index: *index },
			CodeTargetG::ConstructorInvocationTypeArgument { at, index } => CodeTargetG::ConstructorInvocationTypeArgument { at: f(at)?, index: *index },
			CodeTargetG::MethodInvocationTypeArgument { at, index } => CodeTargetG::MethodInvocationTypeArgument { at: f(at)?, index: *index },
			CodeTargetG::ConstructorReferenceTypeArgument { at, index } => CodeTargetG::ConstructorReferenceTypeArgument { at: f(at)?, index: *index },
			CodeTargetG::MethodReferenceTypeArgument { at, index } => CodeTargetG::MethodReferenceTypeArgument { at: f(at)?, index: *index },
		})
	}
}
impl<P> CodeG<P> {
	/// Map every position.  The result is put into normal form (`normalize`) if `Q: Ord`-sortable
	/// tables are wanted call `normalize` afterwards.
	pub fn map_pos<Q, F: FnMut(&P) -> Result<Q, String>>(&self, f: &mut F) -> Result<CodeG<Q>, String> {
		let ta = |v: &Vec<CodeTypeAnnotationG<P>>, f: &mut F| -> Result<Vec<CodeTypeAnnotationG<Q>>, String> {
			v.iter().map(|t| Ok(CodeTypeAnnotationG { target: t.target.map_pos(f)?, path: t.path.clone(), annotation: t.annotation.clone() })).collect()
		};
		Ok(CodeG {
			max_stack: self.max_stack, max_locals: self.max_locals,
			insns: self.insns.iter().map(|i| Ok(InsnG { op: i.op, arg: i.arg.map_pos(f)? })).collect::<Result<_, String>>()?,
			exception_table: self.exception_table.iter().map(|e| Ok(ExceptionG { start: f(&e.start)?, end: f(&e.end)?, handler: f(&e.handler)?, catch_type: e.catch_type.clone() })).collect::<Result<_, String>>()?,
			line_numbers: self.line_numbers.iter().map(|(p, l)| Ok((f(p)?, *l))).collect::<Result<_, String>>()?,
			local_variables: self.local_variables.iter().map(|v| Ok(LocalVarG { start: f(&v.start)?, end: f(&v.end)?, index: v.index, name: v.name.clone(), desc: v.desc.clone() })).collect::<Result<_, String>>()?,
			local_variable_types: self.local_variable_types.iter().map(|v| Ok(LocalVarTypeG { start: f(&v.start)?, end: f(&v.end)?, index: v.index, name: v.name.clone(), signature: v.signature.clone() })).collect::<Result<_, String>>()?,
			frames: match &self.frames { None => None, Some(fs) => Some(fs.iter().map(|fr| Ok(FrameG { at: f(&fr.at)?, kind: fr.kind.map_pos(f)? })).collect::<Result<_, String>>()?) },
			visible_type_annotations: ta(&self.visible_type_annotations, f)?,
			invisible_type_annotations: ta(&self.invisible_type_annotations, f)?,
			unknown_attributes: self.unknown_attributes.clone(),
		})
	}
}
impl<P: Ord> CodeG<P> {
	/// sort the tables whose order carries no meaning
	pub fn normalize(&mut self) {
		self.line_numbers.sort();
		self.local_variables.sort();
		self.local_variable_types.sort();
		self.unknown_attributes.sort();
	}
}
impl<C> MethodG<C> {
	pub fn map_code<D, F: FnMut(&C) -> Result<D, String>>(&self, f: &mut F) -> Result<MethodG<D>, String> {
		Ok(MethodG {
			access: self.access, name: self.name.clone(), desc: self.desc.clone(), deprecated: self.deprecated, synthetic: self.synthetic,
			code: match &self.code { None => None, Some(c) => Some(f(c).map_err(|e| format!("method {}{}: {e}", self.name, self.desc))?) },
			exceptions: self.exceptions.clone(), signature: self.signature.clone(),
			visible_annotations: self.visible_annotations.clone(), invisible_annotations: self.invisible_annotations.clone(),
			visible_type_annotations: self.visible_type_annotations.clone(), invisible_type_annotations: self.invisible_type_annotations.clone(),
			visible_parameter_annotations: self.visible_parameter_annotations.clone(), invisible_parameter_annotations: self.invisible_parameter_annotations.clone(),
			annotation_default: self.annotation_default.clone(), method_parameters: self.method_parameters.clone(), unknown_attributes: self.unknown_attributes.clone(),
		})
	}
	/// a method with nothing but its header
	pub fn new(access: u16, name: &str, desc: &str) -> MethodG<C> {
		MethodG { access, name: name.into(), desc: desc.into(), deprecated: false, synthetic: false, code: None, exceptions: None, signature: None,
			visible_annotations: vec![], invisible_annotations: vec![], visible_type_annotations: vec![], invisible_type_annotations: vec![],
			visible_parameter_annotations: None, invisible_parameter_annotations: None, annotation_default: None, method_parameters: None, unknown_attributes: vec![] }
	}
}
impl FieldFacts {
	pub fn new(access: u16, name: &str, desc: &str) -> FieldFacts {
		FieldFacts { access, name: name.into(), desc: desc.into(), deprecated: false, synthetic: false, constant_value: None, signature: None,
			visible_annotations: vec![], invisible_annotations: vec![], visible_type_annotations: vec![], invisible_type_annotations: vec![], unknown_attributes: vec![] }
	}
}
impl RecordComponentFacts {
	pub fn new(name: &str, desc: &str) -> RecordComponentFacts {
		RecordComponentFacts { name: name.into(), desc: desc.into(), signature: None, visible_annotations: vec![], invisible_annotations: vec![],
			visible_type_annotations: vec![], invisible_type_annotations: vec![], unknown_attributes: vec![] }
	}
}
impl<P> CodeG<P> {
	pub fn new(max_stack: u16, max_locals: u16) -> CodeG<P> {
		CodeG { max_stack: Some(max_stack), max_locals: Some(max_locals), insns: vec![], exception_table: vec![], line_numbers: vec![], local_variables: vec![],
			local_variable_types: vec![], frames: None, visible_type_annotations: vec![], invisible_type_annotations: vec![], unknown_attributes: vec![] }
	}
}
impl<C> ClassG<C> {
	/// a class with nothing but its header
	pub fn new(major: u16, access: u16, name: &str, super_class: Option<&str>) -> ClassG<C> {
		ClassG { version: Version { major, minor: 0 }, access, name: name.into(), super_class: super_class.map(Into::into), interfaces: vec![], fields: vec![], methods: vec![],
			deprecated: false, synthetic: false, inner_classes: None, enclosing_method: None, signature: None, source_file: None, source_debug_extension: None,
			visible_annotations: vec![], invisible_annotations: vec![], visible_type_annotations: vec![], invisible_type_annotations: vec![],
			module: None, module_packages: None, module_main_class: None, nest_host: None, nest_members: None, permitted_subclasses: None, record: None, unknown_attributes: vec![] }
	}
	pub fn map_code<D, F: FnMut(&C) -> Result<D, String>>(&self, f: &mut F) -> Result<ClassG<D>, String> {
		Ok(ClassG {
			version: self.version, access: self.access, name: self.name.clone(), super_class: self.super_class.clone(), interfaces: self.interfaces.clone(),
			fields: self.fields.clone(), methods: self.methods.iter().map(|m| m.map_code(f)).collect::<Result<_, _>>()?,
			deprecated: self.deprecated, synthetic: self.synthetic, inner_classes: self.inner_classes.clone(), enclosing_method: self.enclosing_method.clone(),
			signature: self.signature.clone(), source_file: self.source_file.clone(), source_debug_extension: self.source_debug_extension.clone(),
			visible_annotations: self.visible_annotations.clone(), invisible_annotations: self.invisible_annotations.clone(),
			visible_type_annotations: self.visible_type_annotations.clone(), invisible_type_annotations: self.invisible_type_annotations.clone(),
			module: self.module.clone(), module_packages: self.module_packages.clone(), module_main_class: self.module_main_class.clone(),
			nest_host: self.nest_host.clone(), nest_members: self.nest_members.clone(), permitted_subclasses: self.permitted_subclasses.clone(),
			record: self.record.clone(), unknown_attributes: self.unknown_attributes.clone(),
		})
	}
}

// ---- fact groups, diff ------------------------------------------------------------------------

/// Groups of facts that can be ignored in a comparison (known findings are confined to groups).
#[derive(Debug, Clone, Copy, PartialEq, Eq, PartialOrd, Ord, Hash)]
pub enum FactGroup {
	Version, Access, Hierarchy, MemberHeaders,
	Instructions, MaxStackLocals, ExceptionTable, LineNumbers, LocalVariables, LocalVariableTypes, Frames,
	Annotations, TypeAnnotations, ParameterAnnotations, AnnotationDefault,
	InnerClasses, EnclosingMethod, Signature, SourceFile, SourceDebugExtension, Module, Record, Nest, PermittedSubclasses,
	MethodParameters, Exceptions, ConstantValue, DeprecatedSynthetic, UnknownAttributes,
}
impl FactGroup {
	pub const ALL: [FactGroup; 29] = [FactGroup::Version, FactGroup::Access, FactGroup::Hierarchy, FactGroup::MemberHeaders, FactGroup::Instructions,
		FactGroup::MaxStackLocals, FactGroup::ExceptionTable, FactGroup::LineNumbers, FactGroup::LocalVariables, FactGroup::LocalVariableTypes, FactGroup::Frames,
		FactGroup::Annotations, FactGroup::TypeAnnotations, FactGroup::ParameterAnnotations, FactGroup::AnnotationDefault, FactGroup::InnerClasses,
		FactGroup::EnclosingMethod, FactGroup::Signature, FactGroup::SourceFile, FactGroup::SourceDebugExtension, FactGroup::Module, FactGroup::Record, FactGroup::Nest,
		FactGroup::PermittedSubclasses, FactGroup::MethodParameters, FactGroup::Exceptions, FactGroup::ConstantValue, FactGroup::DeprecatedSynthetic, FactGroup::UnknownAttributes];

	/// the group a `diff` line belongs to (decided by the innermost telling field name of its path)
	pub fn of_diff_line(line: &str) -> FactGroup {
		// the path ends at the first ": " outside quotes; element labels `[3 name="..." desc="..."]` are
		// dropped (quote-aware, descriptors contain brackets)
		let mut clean = String::new();
		let (mut in_label, mut in_quote, mut esc) = (false, false, false);
		let cs: Vec<char> = line.chars().collect();
		let mut i = 0;
		while i < cs.len() {
			let c = cs[i];
			if in_quote { if esc { esc = false; } else if c == '\\' { esc = true; } else if c == '"' { in_quote = false; } }
			else if c == '"' { in_quote = true; }
			else if in_label { if c == ']' { in_label = false; } }
			else if c == '[' { in_label = true; }
			else if c == ':' && cs.get(i + 1) == Some(&' ') { break; }
			else { clean.push(c); }
			i += 1;
		}
		let segs: Vec<&str> = clean.split('.').collect();
		for s in segs.iter().rev() {
			let g = match *s {
				"version" => FactGroup::Version,
				"super_class" | "interfaces" => FactGroup::Hierarchy,
				"insns" => FactGroup::Instructions,
				"max_stack" | "max_locals" => FactGroup::MaxStackLocals,
				"exception_table" => FactGroup::ExceptionTable,
				"line_numbers" => FactGroup::LineNumbers,
				"local_variables" => FactGroup::LocalVariables,
				"local_variable_types" => FactGroup::LocalVariableTypes,
				"frames" => FactGroup::Frames,
				"visible_annotations" | "invisible_annotations" => FactGroup::Annotations,
				"visible_type_annotations" | "invisible_type_annotations" => FactGroup::TypeAnnotations,
				"visible_parameter_annotations" | "invisible_parameter_annotations" => FactGroup::ParameterAnnotations,
				"annotation_default" => FactGroup::AnnotationDefault,
				"inner_classes" => FactGroup::InnerClasses,
				"enclosing_method" => FactGroup::EnclosingMethod,
				"signature" => FactGroup::Signature,
				"source_file" => FactGroup::SourceFile,
				"source_debug_extension" => FactGroup::SourceDebugExtension,
				"module" | "module_packages" | "module_main_class" => FactGroup::Module,
				"record" => FactGroup::Record,
				"nest_host" | "nest_members" => FactGroup::Nest,
				"permitted_subclasses" => FactGroup::PermittedSubclasses,
				"method_parameters" => FactGroup::MethodParameters,
				"exceptions" => FactGroup::Exceptions,
				"constant_value" => FactGroup::ConstantValue,
				"deprecated" | "synthetic" => FactGroup::DeprecatedSynthetic,
				"unknown_attributes" => FactGroup::UnknownAttributes,
				_ => continue,
			};
			// a signature / annotation / unknown attribute of a record component is reported as such, not as Record
			return g;
		}
		if segs.last().map_or(false, |s| *s == "access") { if segs.len() <= 2 { return FactGroup::Access; } return FactGroup::MemberHeaders; }
		FactGroup::MemberHeaders
	}
}

fn strip_code(c: &mut CodeFacts, g: FactGroup) {
	match g {
		FactGroup::Instructions => c.insns.clear(),
		FactGroup::MaxStackLocals => { c.max_stack = None; c.max_locals = None; }
		FactGroup::ExceptionTable => c.exception_table.clear(),
		FactGroup::LineNumbers => c.line_numbers.clear(),
		FactGroup::LocalVariables => c.local_variables.clear(),
		FactGroup::LocalVariableTypes => c.local_variable_types.clear(),
		FactGroup::Frames => c.frames = None,
		FactGroup::TypeAnnotations => { c.visible_type_annotations.clear(); c.invisible_type_annotations.clear(); }
		FactGroup::UnknownAttributes => c.unknown_attributes.clear(),
		_ => {}
	}
}

impl ClassG<CodeFacts> {
	/// Remove a group of facts everywhere (class, members, code, record components).
	pub fn strip(&mut self, g: FactGroup) {
		match g {
			FactGroup::Version => self.version = Version { major: 0, minor: 0 },
			FactGroup::Access => self.access = 0,
			FactGroup::Hierarchy => { self.super_class = None; self.interfaces.clear(); }
			FactGroup::MemberHeaders => { for f in &mut self.fields { f.access = 0; } for m in &mut self.methods { m.access = 0; } }
			FactGroup::InnerClasses => self.inner_classes = None,
			FactGroup::EnclosingMethod => self.enclosing_method = None,
			FactGroup::SourceFile => self.source_file = None,
			FactGroup::SourceDebugExtension => self.source_debug_extension = None,
			FactGroup::Module => { self.module = None; self.module_packages = None; self.module_main_class = None; }
			FactGroup::Record => self.record = None,
			FactGroup::Nest => { self.nest_host = None; self.nest_members = None; }
			FactGroup::PermittedSubclasses => self.permitted_subclasses = None,
			FactGroup::Signature => {
				self.signature = None;
				for f in &mut self.fields { f.signature = None; }
				for m in &mut self.methods { m.signature = None; }
				for r in self.record.iter_mut().flatten() { r.signature = None; }
			}
			FactGroup::Annotations => {
				self.visible_annotations.clear(); self.invisible_annotations.clear();
				for f in &mut self.fields { f.visible_annotations.clear(); f.invisible_annotations.clear(); }
				for m in &mut self.methods { m.visible_annotations.clear(); m.invisible_annotations.clear(); }
				for r in self.record.iter_mut().flatten() { r.visible_annotations.clear(); r.invisible_annotations.clear(); }
			}
			FactGroup::TypeAnnotations => {
				self.visible_type_annotations.clear(); self.invisible_type_annotations.clear();
				for f in &mut self.fields { f.visible_type_annotations.clear(); f.invisible_type_annotations.clear(); }
				for m in &mut self.methods { m.visible_type_annotations.clear(); m.invisible_type_annotations.clear(); }
				for r in self.record.iter_mut().flatten() { r.visible_type_annotations.clear(); r.invisible_type_annotations.clear(); }
			}
			FactGroup::UnknownAttributes => {
				self.unknown_attributes.clear();
				for f in &mut self.fields { f.unknown_attributes.clear(); }
				for m in &mut self.methods { m.unknown_attributes.clear(); }
				for r in self.record.iter_mut().flatten() { r.unknown_attributes.clear(); }
			}
			FactGroup::DeprecatedSynthetic => {
				self.deprecated = false; self.synthetic = false;
				for f in &mut self.fields { f.deprecated = false; f.synthetic = false; }
				for m in &mut self.methods { m.deprecated = false; m.synthetic = false; }
			}
			FactGroup::ConstantValue => for f in &mut self.fields { f.constant_value = None; },
			FactGroup::ParameterAnnotations => for m in &mut self.methods { m.visible_parameter_annotations = None; m.invisible_parameter_annotations = None; },
			FactGroup::AnnotationDefault => for m in &mut self.methods { m.annotation_default = None; },
			FactGroup::MethodParameters => for m in &mut self.methods { m.method_parameters = None; },
			FactGroup::Exceptions => for m in &mut self.methods { m.exceptions = None; },
			_ => {}
		}
		for m in &mut self.methods { if let Some(c) = &mut m.code { strip_code(c, g); } }
	}
	/// a copy without the given groups
	pub fn without(&self, groups: &[FactGroup]) -> ClassFacts { let mut c = self.clone(); for g in groups { c.strip(*g); } c }
	pub fn without_frames(&self) -> ClassFacts { self.without(&[FactGroup::Frames]) }
	pub fn without_local_variables(&self) -> ClassFacts { self.without(&[FactGroup::LocalVariables, FactGroup::LocalVariableTypes]) }
	pub fn without_line_numbers(&self) -> ClassFacts { self.without(&[FactGroup::LineNumbers]) }
	pub fn without_parameter_annotations(&self) -> ClassFacts { self.without(&[FactGroup::ParameterAnnotations]) }
	pub fn without_max_stack_locals(&self) -> ClassFacts { self.without(&[FactGroup::MaxStackLocals]) }
	pub fn without_unknown_attributes(&self) -> ClassFacts { self.without(&[FactGroup::UnknownAttributes]) }
	/// keep the defined bits of every access_flags item only (duke's access structs drop the others)
	pub fn with_defined_access_bits(&self) -> ClassFacts {
		let mut c = self.clone();
		c.access &= 0xF631;
		for f in &mut c.fields { f.access &= 0x50DF; }
		for m in &mut c.methods { m.access &= 0x1DFF; for p in m.method_parameters.iter_mut().flatten() { p.access &= 0x9010; } }
		for i in c.inner_classes.iter_mut().flatten() { i.access &= 0x761F; }
		if let Some(m) = &mut c.module {
			m.flags &= 0x9020;
			for r in &mut m.requires { r.flags &= 0x9060; }
			for e in m.exports.iter_mut().chain(m.opens.iter_mut()) { e.flags &= 0x9000; }
		}
		c
	}

	/// Human-readable differences: one line per differing leaf, `path: left != right`
	/// (at most 60 lines).  Empty iff `self == other`.
	pub fn diff(&self, other: &ClassFacts) -> Vec<String> {
		if self == other { return vec![]; }
		let a = dbg::of(self);
		let b = dbg::of(other);
		let mut out = vec![];
		dbg::diff("class", &a, &b, &mut out, 60);
		if out.is_empty() { out.push("class: values differ but their renderings agree (bug in diff)".into()); }
		out
	}
	/// the fact groups in which the two differ
	pub fn differing_groups(&self, other: &ClassFacts) -> std::collections::BTreeSet<FactGroup> {
		let mut s = std::collections::BTreeSet::new();
		if self == other { return s; }
		let a = dbg::of(self);
		let b = dbg::of(other);
		let mut out = vec![];
		dbg::diff("class", &a, &b, &mut out, 100000);
		for l in &out { s.insert(FactGroup::of_diff_line(l)); }
		s
	}
}

impl CodeG<usize> {
	pub fn diff(&self, other: &CodeFacts) -> Vec<String> {
		if self == other { return vec![]; }
		let mut out = vec![];
		dbg::diff("code", &dbg::of(self), &dbg::of(other), &mut out, 60);
		out
	}
}
