//! An independent, strict parser and writer of the class-file format (JVMS chapter 4, Java SE 22,
//! major version up to 67).  Shares no code with `duke` or `raw_class_file`.
//!
//! `parse` is a *structural validator*: every length field must be exact (an attribute's
//! `attribute_length` must equal the bytes its decoded content occupies), every constant-pool
//! index must be in range and designate an entry of the kind required at that place, no bytes
//! may follow the class, `code_length` is in 1..=65535, every instruction decodes, every branch
//! target / exception range / table `pc` designates an instruction boundary.
//! `write` re-serialises a `RawClass`, recomputing every length and count; for the result of
//! `parse` it reproduces the input byte for byte.
use super::jstr::JStr;
use super::opcodes::{self, op, OpKind};

// ------------------------------------------------------------------------------------------
// data model
// ------------------------------------------------------------------------------------------

#[derive(Debug, Clone, PartialEq)]
pub struct RawClass {
	pub minor: u16,
	pub major: u16,
	/// index 0 and the slot after a Long/Double are `None`; `pool.len()` is `constant_pool_count`
	pub pool: Vec<Option<Const>>,
	pub access: u16,
	pub this_class: u16,
	pub super_class: u16,
	pub interfaces: Vec<u16>,
	pub fields: Vec<Member>,
	pub methods: Vec<Member>,
	pub attributes: Vec<Attribute>,
}

#[derive(Debug, Clone, PartialEq)]
pub enum Const {
	/// the modified-UTF-8 bytes as stored
	Utf8(Vec<u8>),
	Integer(i32),
	/// bit pattern
	Float(u32),
	Long(i64),
	/// bit pattern
	Double(u64),
	Class(u16),
	String(u16),
	Fieldref(u16, u16),
	Methodref(u16, u16),
	InterfaceMethodref(u16, u16),
	NameAndType(u16, u16),
	MethodHandle(u8, u16),
	MethodType(u16),
	/// bootstrap_method_attr_index, name_and_type_index
	Dynamic(u16, u16),
	InvokeDynamic(u16, u16),
	Module(u16),
	Package(u16),
}

impl Const {
	pub fn tag(&self) -> u8 {
		match self {
			Const::Utf8(_) => 1, Const::Integer(_) => 3, Const::Float(_) => 4, Const::Long(_) => 5, Const::Double(_) => 6,
			Const::Class(_) => 7, Const::String(_) => 8, Const::Fieldref(..) => 9, Const::Methodref(..) => 10,
			Const::InterfaceMethodref(..) => 11, Const::NameAndType(..) => 12, Const::MethodHandle(..) => 15,
			Const::MethodType(_) => 16, Const::Dynamic(..) => 17, Const::InvokeDynamic(..) => 18, Const::Module(_) => 19, Const::Package(_) => 20,
		}
	}
	pub fn kind_name(&self) -> &'static str {
		match self {
			Const::Utf8(_) => "Utf8", Const::Integer(_) => "Integer", Const::Float(_) => "Float", Const::Long(_) => "Long", Const::Double(_) => "Double",
			Const::Class(_) => "Class", Const::String(_) => "String", Const::Fieldref(..) => "Fieldref", Const::Methodref(..) => "Methodref",
			Const::InterfaceMethodref(..) => "InterfaceMethodref", Const::NameAndType(..) => "NameAndType", Const::MethodHandle(..) => "MethodHandle",
			Const::MethodType(_) => "MethodType", Const::Dynamic(..) => "Dynamic", Const::InvokeDynamic(..) => "InvokeDynamic", Const::Module(_) => "Module", Const::Package(_) => "Package",
		}
	}
	pub fn is_two_slot(&self) -> bool { matches!(self, Const::Long(_) | Const::Double(_)) }
	/// loadable by ldc/ldc_w/ldc2_w and usable as a bootstrap argument (JVMS 4.4 Table 4.4-C)
	pub fn is_loadable(&self) -> bool {
		matches!(self, Const::Integer(_) | Const::Float(_) | Const::Long(_) | Const::Double(_) | Const::Class(_) | Const::String(_)
			| Const::MethodHandle(..) | Const::MethodType(_) | Const::Dynamic(..))
	}
}

/// field_info / method_info
#[derive(Debug, Clone, PartialEq)]
pub struct Member {
	pub access: u16,
	pub name_index: u16,
	pub descriptor_index: u16,
	pub attributes: Vec<Attribute>,
}

#[derive(Debug, Clone, PartialEq)]
pub struct Attribute {
	pub name_index: u16,
	/// resolved name (lossy if the Utf8 entry contains lone surrogates); `write` uses `name_index`
	pub name: String,
	pub info: AttrInfo,
}

#[derive(Debug, Clone, PartialEq)]
pub enum AttrInfo {
	ConstantValue(u16),
	Code(CodeAttr),
	StackMapTable(Vec<Frame>),
	Exceptions(Vec<u16>),
	InnerClasses(Vec<InnerClass>),
	EnclosingMethod { class_index: u16, method_index: u16 },
	Synthetic,
	Signature(u16),
	SourceFile(u16),
	SourceDebugExtension(Vec<u8>),
	LineNumberTable(Vec<LineNumber>),
	LocalVariableTable(Vec<LocalVar>),
	/// `descriptor_index` of the entries is the `signature_index`
	LocalVariableTypeTable(Vec<LocalVar>),
	Deprecated,
	RuntimeVisibleAnnotations(Vec<Annotation>),
	RuntimeInvisibleAnnotations(Vec<Annotation>),
	RuntimeVisibleParameterAnnotations(Vec<Vec<Annotation>>),
	RuntimeInvisibleParameterAnnotations(Vec<Vec<Annotation>>),
	RuntimeVisibleTypeAnnotations(Vec<TypeAnnotation>),
	RuntimeInvisibleTypeAnnotations(Vec<TypeAnnotation>),
	AnnotationDefault(ElementValue),
	BootstrapMethods(Vec<BootstrapMethod>),
	MethodParameters(Vec<MethodParameter>),
	Module(ModuleAttr),
	ModulePackages(Vec<u16>),
	ModuleMainClass(u16),
	NestHost(u16),
	NestMembers(Vec<u16>),
	Record(Vec<RecordComponent>),
	PermittedSubclasses(Vec<u16>),
	/// an attribute not defined by JVMS 4.7, or a predefined name in a location where the JVMS
	/// does not define it (a JVM ignores those): the bytes as they are
	Unknown(Vec<u8>),
}

#[derive(Debug, Clone, PartialEq)]
pub struct CodeAttr {
	pub max_stack: u16,
	pub max_locals: u16,
	pub code: Vec<u8>,
	pub exception_table: Vec<ExceptionEntry>,
	pub attributes: Vec<Attribute>,
}
#[derive(Debug, Clone, Copy, PartialEq)]
pub struct ExceptionEntry { pub start_pc: u16, pub end_pc: u16, pub handler_pc: u16, pub catch_type: u16 }
#[derive(Debug, Clone, Copy, PartialEq)]
pub struct LineNumber { pub start_pc: u16, pub line: u16 }
#[derive(Debug, Clone, Copy, PartialEq)]
pub struct LocalVar { pub start_pc: u16, pub length: u16, pub name_index: u16, pub descriptor_index: u16, pub index: u16 }
#[derive(Debug, Clone, Copy, PartialEq)]
pub struct InnerClass { pub inner_class_info_index: u16, pub outer_class_info_index: u16, pub inner_name_index: u16, pub inner_class_access_flags: u16 }
#[derive(Debug, Clone, PartialEq)]
pub struct BootstrapMethod { pub method_ref: u16, pub arguments: Vec<u16> }
#[derive(Debug, Clone, Copy, PartialEq)]
pub struct MethodParameter { pub name_index: u16, pub access_flags: u16 }
#[derive(Debug, Clone, PartialEq)]
pub struct RecordComponent { pub name_index: u16, pub descriptor_index: u16, pub attributes: Vec<Attribute> }

/// stack_map_frame (JVMS 4.7.4); the frame_type byte is kept where it carries a choice
#[derive(Debug, Clone, PartialEq)]
pub enum Frame {
	/// frame_type 0..=63 (= offset_delta)
	Same { offset_delta: u8 },
	/// frame_type 64..=127 (offset_delta = frame_type - 64)
	SameLocals1 { offset_delta: u8, stack: VType },
	/// frame_type 247
	SameLocals1Ext { offset_delta: u16, stack: VType },
	/// frame_type 248..=250, k = 251 - frame_type
	Chop { k: u8, offset_delta: u16 },
	/// frame_type 251
	SameExt { offset_delta: u16 },
	/// frame_type 252..=254 (= 251 + locals.len())
	Append { offset_delta: u16, locals: Vec<VType> },
	/// frame_type 255
	Full { offset_delta: u16, locals: Vec<VType>, stack: Vec<VType> },
}
impl Frame {
	pub fn offset_delta(&self) -> u16 {
		match self {
			Frame::Same { offset_delta } | Frame::SameLocals1 { offset_delta, .. } => *offset_delta as u16,
			Frame::SameLocals1Ext { offset_delta, .. } | Frame::Chop { offset_delta, .. } | Frame::SameExt { offset_delta }
			| Frame::Append { offset_delta, .. } | Frame::Full { offset_delta, .. } => *offset_delta,
		}
	}
}
/// verification_type_info
#[derive(Debug, Clone, Copy, PartialEq)]
pub enum VType { Top, Integer, Float, Double, Long, Null, UninitializedThis, Object(u16), Uninitialized(u16) }

#[derive(Debug, Clone, PartialEq)]
pub struct Annotation { pub type_index: u16, pub pairs: Vec<(u16, ElementValue)> }
#[derive(Debug, Clone, PartialEq)]
pub enum ElementValue {
	/// tags B C D F I J S Z s: const_value_index
	Const { tag: u8, index: u16 },
	Enum { type_name_index: u16, const_name_index: u16 },
	Class(u16),
	Annotation(Annotation),
	Array(Vec<ElementValue>),
}
#[derive(Debug, Clone, PartialEq)]
pub struct TypeAnnotation { pub target_type: u8, pub target: TargetInfo, pub path: Vec<(u8, u8)>, pub annotation: Annotation }
#[derive(Debug, Clone, PartialEq)]
pub enum TargetInfo {
	/// 0x00, 0x01
	TypeParameter(u8),
	/// 0x10
	Supertype(u16),
	/// 0x11, 0x12
	TypeParameterBound(u8, u8),
	/// 0x13, 0x14, 0x15
	Empty,
	/// 0x16
	FormalParameter(u8),
	/// 0x17
	Throws(u16),
	/// 0x40, 0x41: (start_pc, length, index)
	LocalVar(Vec<(u16, u16, u16)>),
	/// 0x42
	Catch(u16),
	/// 0x43..=0x46
	Offset(u16),
	/// 0x47..=0x4B
	TypeArgument(u16, u8),
}

#[derive(Debug, Clone, PartialEq)]
pub struct ModuleAttr {
	pub name_index: u16, pub flags: u16, pub version_index: u16,
	pub requires: Vec<ModuleRequires>, pub exports: Vec<ModuleExports>, pub opens: Vec<ModuleExports>,
	pub uses: Vec<u16>, pub provides: Vec<ModuleProvides>,
}
#[derive(Debug, Clone, Copy, PartialEq)]
pub struct ModuleRequires { pub index: u16, pub flags: u16, pub version_index: u16 }
/// exports and opens entries have the same layout
#[derive(Debug, Clone, PartialEq)]
pub struct ModuleExports { pub index: u16, pub flags: u16, pub to: Vec<u16> }
#[derive(Debug, Clone, PartialEq)]
pub struct ModuleProvides { pub index: u16, pub with: Vec<u16> }

// ------------------------------------------------------------------------------------------
// pool access helpers (used by facts.rs as well)
// ------------------------------------------------------------------------------------------

impl RawClass {
	pub fn constant(&self, i: u16) -> Result<&Const, String> {
		match self.pool.get(i as usize) {
			Some(Some(c)) => Ok(c),
			Some(None) => Err(format!("constant pool index {i} is not usable (index 0 or second slot of a Long/Double)")),
			None => Err(format!("constant pool index {i} out of range (count {})", self.pool.len())),
		}
	}
	pub fn utf8_bytes(&self, i: u16) -> Result<&[u8], String> {
		match self.constant(i)? { Const::Utf8(b) => Ok(b), c => Err(format!("constant {i} is {}, expected Utf8", c.kind_name())) }
	}
	pub fn utf8(&self, i: u16) -> Result<JStr, String> { JStr::from_mutf8(self.utf8_bytes(i)?) }
	pub fn class_name(&self, i: u16) -> Result<JStr, String> {
		match self.constant(i)? { Const::Class(n) => self.utf8(*n), c => Err(format!("constant {i} is {}, expected Class", c.kind_name())) }
	}
	pub fn name_and_type(&self, i: u16) -> Result<(JStr, JStr), String> {
		match self.constant(i)? { Const::NameAndType(n, d) => Ok((self.utf8(*n)?, self.utf8(*d)?)), c => Err(format!("constant {i} is {}, expected NameAndType", c.kind_name())) }
	}
	/// the attribute of a given name in a list (first one)
	pub fn find_attr<'a>(attrs: &'a [Attribute], name: &str) -> Option<&'a Attribute> { attrs.iter().find(|a| a.name == name) }
	pub fn bootstrap_methods(&self) -> Option<&Vec<BootstrapMethod>> {
		self.attributes.iter().find_map(|a| match &a.info { AttrInfo::BootstrapMethods(b) => Some(b), _ => None })
	}
}

// ------------------------------------------------------------------------------------------
// reader
// ------------------------------------------------------------------------------------------

struct R<'a> { b: &'a [u8], p: usize, base: usize }
impl<'a> R<'a> {
	fn new(b: &'a [u8], base: usize) -> R<'a> { R { b, p: 0, base } }
	fn at(&self) -> usize { self.base + self.p }
	fn left(&self) -> usize { self.b.len() - self.p }
	fn take(&mut self, n: usize) -> Result<&'a [u8], String> {
		if self.left() < n { return Err(format!("truncated: need {n} bytes at offset {}, {} left", self.at(), self.left())); }
		let s = &self.b[self.p..self.p + n]; self.p += n; Ok(s)
	}
	fn u1(&mut self) -> Result<u8, String> { Ok(self.take(1)?[0]) }
	fn u2(&mut self) -> Result<u16, String> { let s = self.take(2)?; Ok(u16::from_be_bytes([s[0], s[1]])) }
	fn u4(&mut self) -> Result<u32, String> { let s = self.take(4)?; Ok(u32::from_be_bytes([s[0], s[1], s[2], s[3]])) }
	fn u8_(&mut self) -> Result<u64, String> { let s = self.take(8)?; let mut a = [0u8; 8]; a.copy_from_slice(s); Ok(u64::from_be_bytes(a)) }
	fn sub(&mut self, n: usize) -> Result<R<'a>, String> { let base = self.at(); Ok(R::new(self.take(n)?, base)) }
	fn done(&self, what: &str) -> Result<(), String> {
		if self.left() != 0 { Err(format!("{what}: {} surplus bytes at offset {}", self.left(), self.at())) } else { Ok(()) }
	}
}

#[derive(Clone, Copy, PartialEq, Debug)]
enum Loc { Class, Field, Method, Code, RecComp }

/// kinds of pool entries, for use-site checks
#[derive(Clone, Copy)]
enum K { Utf8, Class, NameAndType, Module, Package, MethodHandle, ConstantValue, Loadable, Integer, Float, Long, Double }

struct P<'a> { pool: &'a [Option<Const>] }
impl<'a> P<'a> {
	fn get(&self, i: u16, what: &str) -> Result<&'a Const, String> {
		match self.pool.get(i as usize) {
			Some(Some(c)) => Ok(c),
			Some(None) => Err(format!("{what}: constant pool index {i} is unusable (0 or second slot of Long/Double)")),
			None => Err(format!("{what}: constant pool index {i} out of range (count {})", self.pool.len())),
		}
	}
	fn want(&self, i: u16, k: K, what: &str) -> Result<(), String> {
		let c = self.get(i, what)?;
		let ok = match k {
			K::Utf8 => matches!(c, Const::Utf8(_)), K::Class => matches!(c, Const::Class(_)), K::NameAndType => matches!(c, Const::NameAndType(..)),
			K::Module => matches!(c, Const::Module(_)), K::Package => matches!(c, Const::Package(_)), K::MethodHandle => matches!(c, Const::MethodHandle(..)),
			K::ConstantValue => matches!(c, Const::Integer(_) | Const::Float(_) | Const::Long(_) | Const::Double(_) | Const::String(_)),
			K::Loadable => c.is_loadable(),
			K::Integer => matches!(c, Const::Integer(_)), K::Float => matches!(c, Const::Float(_)), K::Long => matches!(c, Const::Long(_)), K::Double => matches!(c, Const::Double(_)),
		};
		if ok { Ok(()) } else { Err(format!("{what}: constant {i} is {}, which is not allowed here", c.kind_name())) }
	}
	fn want_opt(&self, i: u16, k: K, what: &str) -> Result<(), String> { if i == 0 { Ok(()) } else { self.want(i, k, what) } }
	fn utf8_str(&self, i: u16, what: &str) -> Result<JStr, String> {
		match self.get(i, what)? { Const::Utf8(b) => JStr::from_mutf8(b).map_err(|e| format!("{what}: {e}")), c => Err(format!("{what}: constant {i} is {}, expected Utf8", c.kind_name())) }
	}
}

/// Strictly parse one class file.
pub fn parse(bytes: &[u8]) -> Result<RawClass, String> {
	let mut r = R::new(bytes, 0);
	let magic = r.u4()?;
	if magic != 0xCAFEBABE { return Err(format!("bad magic {magic:#x}")); }
	let minor = r.u2()?;
	let major = r.u2()?;
	if major < 45 || major > 67 { return Err(format!("unsupported major version {major}")); }
	if major >= 56 && minor != 0 && minor != 65535 { return Err(format!("minor version {minor} not allowed for major {major}")); }

	// constant pool
	let count = r.u2()?;
	if count == 0 { return Err("constant_pool_count is 0".into()); }
	let mut pool: Vec<Option<Const>> = Vec::with_capacity(count as usize);
	pool.push(None);
	while pool.len() < count as usize {
		let at = r.at();
		let tag = r.u1()?;
		let c = match tag {
			1 => { let n = r.u2()? as usize; Const::Utf8(r.take(n)?.to_vec()) }
			3 => Const::Integer(r.u4()? as i32),
			4 => Const::Float(r.u4()?),
			5 => Const::Long(r.u8_()? as i64),
			6 => Const::Double(r.u8_()?),
			7 => Const::Class(r.u2()?),
			8 => Const::String(r.u2()?),
			9 => Const::Fieldref(r.u2()?, r.u2()?),
			10 => Const::Methodref(r.u2()?, r.u2()?),
			11 => Const::InterfaceMethodref(r.u2()?, r.u2()?),
			12 => Const::NameAndType(r.u2()?, r.u2()?),
			15 => Const::MethodHandle(r.u1()?, r.u2()?),
			16 => Const::MethodType(r.u2()?),
			17 => Const::Dynamic(r.u2()?, r.u2()?),
			18 => Const::InvokeDynamic(r.u2()?, r.u2()?),
			19 => Const::Module(r.u2()?),
			20 => Const::Package(r.u2()?),
			t => return Err(format!("unknown constant pool tag {t} at offset {at} (index {})", pool.len())),
		};
		let two = c.is_two_slot();
		pool.push(Some(c));
		if two {
			if pool.len() >= count as usize { return Err(format!("Long/Double at index {} needs a second slot beyond constant_pool_count {count}", pool.len() - 1)); }
			pool.push(None);
		}
	}
	check_pool(&pool, major)?;
	let p = P { pool: &pool };

	let access = r.u2()?;
	let this_class = r.u2()?;
	p.want(this_class, K::Class, "this_class")?;
	let super_class = r.u2()?;
	p.want_opt(super_class, K::Class, "super_class")?;
	let n = r.u2()? as usize;
	let mut interfaces = Vec::with_capacity(n);
	for k in 0..n { let i = r.u2()?; p.want(i, K::Class, &format!("interfaces[{k}]"))?; interfaces.push(i); }

	let n = r.u2()? as usize;
	let mut fields = Vec::with_capacity(n);
	for k in 0..n { fields.push(read_member(&mut r, &p, Loc::Field).map_err(|e| format!("field #{k}: {e}"))?); }
	let n = r.u2()? as usize;
	let mut methods = Vec::with_capacity(n);
	for k in 0..n { methods.push(read_member(&mut r, &p, Loc::Method).map_err(|e| format!("method #{k}: {e}"))?); }
	let attributes = read_attributes(&mut r, &p, Loc::Class, None)?;
	r.done("class file")?;

	let class = RawClass { minor, major, pool, access, this_class, super_class, interfaces, fields, methods, attributes };
	// bootstrap indices of Dynamic / InvokeDynamic entries
	let nbsm = class.bootstrap_methods().map(|b| b.len());
	for (i, c) in class.pool.iter().enumerate() {
		if let Some(Const::Dynamic(b, _)) | Some(Const::InvokeDynamic(b, _)) = c {
			match nbsm {
				None => return Err(format!("constant {i} refers to bootstrap method {b} but the class has no BootstrapMethods attribute")),
				Some(n) if (*b as usize) >= n => return Err(format!("constant {i}: bootstrap method index {b} out of range ({n} entries)")),
				_ => {}
			}
		}
	}
	Ok(class)
}

fn check_pool(pool: &[Option<Const>], major: u16) -> Result<(), String> {
	let p = P { pool };
	for (i, c) in pool.iter().enumerate() {
		let Some(c) = c else { continue };
		let w = format!("constant {i} ({})", c.kind_name());
		match c {
			Const::Utf8(b) => { JStr::from_mutf8(b).map_err(|e| format!("{w}: {e}"))?; }
			Const::Integer(_) | Const::Float(_) | Const::Long(_) | Const::Double(_) => {}
			Const::Class(n) | Const::String(n) | Const::MethodType(n) | Const::Module(n) | Const::Package(n) => p.want(*n, K::Utf8, &w)?,
			Const::Fieldref(c, nt) | Const::Methodref(c, nt) | Const::InterfaceMethodref(c, nt) => { p.want(*c, K::Class, &w)?; p.want(*nt, K::NameAndType, &w)?; }
			Const::NameAndType(n, d) => { p.want(*n, K::Utf8, &w)?; p.want(*d, K::Utf8, &w)?; }
			Const::Dynamic(_, nt) | Const::InvokeDynamic(_, nt) => p.want(*nt, K::NameAndType, &w)?,
			Const::MethodHandle(kind, r) => {
				let t = p.get(*r, &w)?;
				let ok = match kind {
					1..=4 => matches!(t, Const::Fieldref(..)),
					5 | 8 => matches!(t, Const::Methodref(..)),
					6 | 7 => matches!(t, Const::Methodref(..)) || (major >= 52 && matches!(t, Const::InterfaceMethodref(..))),
					9 => matches!(t, Const::InterfaceMethodref(..)),
					k => return Err(format!("{w}: reference_kind {k} not in 1..=9")),
				};
				if !ok { return Err(format!("{w}: reference_kind {kind} cannot refer to a {}", t.kind_name())); }
			}
		}
	}
	// descriptors of member references
	for (i, c) in pool.iter().enumerate() {
		let Some(c) = c else { continue };
		match c {
			Const::Fieldref(_, nt) | Const::Dynamic(_, nt) => {
				if let Some(Const::NameAndType(_, d)) = &pool[*nt as usize] { let d = p.utf8_str(*d, "descriptor")?; check_field_descriptor(&d).map_err(|e| format!("constant {i}: {e}"))?; }
			}
			Const::Methodref(_, nt) | Const::InterfaceMethodref(_, nt) | Const::InvokeDynamic(_, nt) => {
				if let Some(Const::NameAndType(_, d)) = &pool[*nt as usize] { let d = p.utf8_str(*d, "descriptor")?; parse_method_descriptor(&d).map_err(|e| format!("constant {i}: {e}"))?; }
			}
			Const::MethodType(d) => { let d = p.utf8_str(*d, "descriptor")?; parse_method_descriptor(&d).map_err(|e| format!("constant {i}: {e}"))?; }
			_ => {}
		}
	}
	Ok(())
}

fn read_member(r: &mut R, p: &P, loc: Loc) -> Result<Member, String> {
	let access = r.u2()?;
	let name_index = r.u2()?;
	p.want(name_index, K::Utf8, "name_index")?;
	let descriptor_index = r.u2()?;
	let d = p.utf8_str(descriptor_index, "descriptor_index")?;
	if loc == Loc::Field { check_field_descriptor(&d)?; } else { parse_method_descriptor(&d)?; }
	let attributes = read_attributes(r, p, loc, None)?;
	Ok(Member { access, name_index, descriptor_index, attributes })
}

fn read_attributes(r: &mut R, p: &P, loc: Loc, code: Option<&CodeMap>) -> Result<Vec<Attribute>, String> {
	let n = r.u2()? as usize;
	let mut v = Vec::with_capacity(n.min(64));
	for k in 0..n {
		let name_index = r.u2()?;
		let name = p.utf8_str(name_index, "attribute_name_index")?.to_string_lossy();
		let len = r.u4()? as usize;
		let mut sub = r.sub(len).map_err(|e| format!("attribute #{k} {name} (length {len}): {e}"))?;
		let info = read_attr_info(&mut sub, p, loc, &name, code).map_err(|e| format!("attribute #{k} {name}: {e}"))?;
		sub.done(&format!("attribute #{k} {name}: attribute_length {len} too large"))?;
		v.push(Attribute { name_index, name, info });
	}
	Ok(v)
}

fn u2_list(r: &mut R, p: &P, k: K, what: &str) -> Result<Vec<u16>, String> {
	let n = r.u2()? as usize;
	let mut v = Vec::with_capacity(n.min(4096));
	for j in 0..n { let i = r.u2()?; p.want(i, k, &format!("{what}[{j}]"))?; v.push(i); }
	Ok(v)
}

fn read_attr_info(r: &mut R, p: &P, loc: Loc, name: &str, code: Option<&CodeMap>) -> Result<AttrInfo, String> {
	use Loc::*;
	let here = |allowed: &[Loc]| allowed.contains(&loc);
	Ok(match name {
		"ConstantValue" if here(&[Field]) => { let i = r.u2()?; p.want(i, K::ConstantValue, "constantvalue_index")?; AttrInfo::ConstantValue(i) }
		"Code" if here(&[Method]) => AttrInfo::Code(read_code(r, p)?),
		"StackMapTable" if here(&[Code]) => AttrInfo::StackMapTable(read_frames(r, p, code.expect("code map"))?),
		"Exceptions" if here(&[Method]) => AttrInfo::Exceptions(u2_list(r, p, K::Class, "exception_index_table")?),
		"InnerClasses" if here(&[Class]) => {
			let n = r.u2()? as usize;
			let mut v = Vec::with_capacity(n.min(4096));
			for j in 0..n {
				let e = InnerClass { inner_class_info_index: r.u2()?, outer_class_info_index: r.u2()?, inner_name_index: r.u2()?, inner_class_access_flags: r.u2()? };
				p.want(e.inner_class_info_index, K::Class, &format!("classes[{j}].inner_class_info_index"))?;
				p.want_opt(e.outer_class_info_index, K::Class, &format!("classes[{j}].outer_class_info_index"))?;
				p.want_opt(e.inner_name_index, K::Utf8, &format!("classes[{j}].inner_name_index"))?;
				v.push(e);
			}
			AttrInfo::InnerClasses(v)
		}
		"EnclosingMethod" if here(&[Class]) => {
			let class_index = r.u2()?; p.want(class_index, K::Class, "class_index")?;
			let method_index = r.u2()?; p.want_opt(method_index, K::NameAndType, "method_index")?;
			AttrInfo::EnclosingMethod { class_index, method_index }
		}
		"Synthetic" if here(&[Class, Field, Method]) => AttrInfo::Synthetic,
		"Deprecated" if here(&[Class, Field, Method]) => AttrInfo::Deprecated,
		"Signature" if here(&[Class, Field, Method, RecComp]) => { let i = r.u2()?; p.want(i, K::Utf8, "signature_index")?; AttrInfo::Signature(i) }
		"SourceFile" if here(&[Class]) => { let i = r.u2()?; p.want(i, K::Utf8, "sourcefile_index")?; AttrInfo::SourceFile(i) }
		"SourceDebugExtension" if here(&[Class]) => { let n = r.left(); AttrInfo::SourceDebugExtension(r.take(n)?.to_vec()) }
		"LineNumberTable" if here(&[Code]) => {
			let cm = code.expect("code map");
			let n = r.u2()? as usize;
			let mut v = Vec::with_capacity(n.min(65536));
			for j in 0..n {
				let e = LineNumber { start_pc: r.u2()?, line: r.u2()? };
				cm.insn_at(e.start_pc as u32).map_err(|e| format!("line_number_table[{j}].start_pc: {e}"))?;
				v.push(e);
			}
			AttrInfo::LineNumberTable(v)
		}
		"LocalVariableTable" | "LocalVariableTypeTable" if here(&[Code]) => {
			let cm = code.expect("code map");
			let n = r.u2()? as usize;
			let mut v = Vec::with_capacity(n.min(65536));
			for j in 0..n {
				let e = LocalVar { start_pc: r.u2()?, length: r.u2()?, name_index: r.u2()?, descriptor_index: r.u2()?, index: r.u2()? };
				cm.range(e.start_pc, e.length).map_err(|e| format!("local variable entry {j}: {e}"))?;
				p.want(e.name_index, K::Utf8, &format!("local variable entry {j} name_index"))?;
				let d = p.utf8_str(e.descriptor_index, &format!("local variable entry {j} descriptor/signature index"))?;
				if name == "LocalVariableTable" { check_field_descriptor(&d).map_err(|x| format!("local variable entry {j}: {x}"))?; }
				v.push(e);
			}
			if name == "LocalVariableTable" { AttrInfo::LocalVariableTable(v) } else { AttrInfo::LocalVariableTypeTable(v) }
		}
		"RuntimeVisibleAnnotations" | "RuntimeInvisibleAnnotations" if here(&[Class, Field, Method, RecComp]) => {
			let n = r.u2()? as usize;
			let mut v = Vec::with_capacity(n.min(1024));
			for _ in 0..n { v.push(read_annotation(r, p, 0)?); }
			if name == "RuntimeVisibleAnnotations" { AttrInfo::RuntimeVisibleAnnotations(v) } else { AttrInfo::RuntimeInvisibleAnnotations(v) }
		}
		"RuntimeVisibleParameterAnnotations" | "RuntimeInvisibleParameterAnnotations" if here(&[Method]) => {
			let np = r.u1()? as usize;
			let mut ps = Vec::with_capacity(np);
			for _ in 0..np {
				let n = r.u2()? as usize;
				let mut v = Vec::with_capacity(n.min(1024));
				for _ in 0..n { v.push(read_annotation(r, p, 0)?); }
				ps.push(v);
			}
			if name == "RuntimeVisibleParameterAnnotations" { AttrInfo::RuntimeVisibleParameterAnnotations(ps) } else { AttrInfo::RuntimeInvisibleParameterAnnotations(ps) }
		}
		"RuntimeVisibleTypeAnnotations" | "RuntimeInvisibleTypeAnnotations" if here(&[Class, Field, Method, Code, RecComp]) => {
			let n = r.u2()? as usize;
			let mut v = Vec::with_capacity(n.min(1024));
			for j in 0..n { v.push(read_type_annotation(r, p, code).map_err(|e| format!("type annotation {j}: {e}"))?); }
			if name == "RuntimeVisibleTypeAnnotations" { AttrInfo::RuntimeVisibleTypeAnnotations(v) } else { AttrInfo::RuntimeInvisibleTypeAnnotations(v) }
		}
		"AnnotationDefault" if here(&[Method]) => AttrInfo::AnnotationDefault(read_element_value(r, p, 0)?),
		"BootstrapMethods" if here(&[Class]) => {
			let n = r.u2()? as usize;
			let mut v = Vec::with_capacity(n.min(4096));
			for j in 0..n {
				let method_ref = r.u2()?; p.want(method_ref, K::MethodHandle, &format!("bootstrap_methods[{j}].bootstrap_method_ref"))?;
				let arguments = u2_list(r, p, K::Loadable, &format!("bootstrap_methods[{j}].bootstrap_arguments"))?;
				v.push(BootstrapMethod { method_ref, arguments });
			}
			AttrInfo::BootstrapMethods(v)
		}
		"MethodParameters" if here(&[Method]) => {
			let n = r.u1()? as usize;
			let mut v = Vec::with_capacity(n);
			for j in 0..n {
				let e = MethodParameter { name_index: r.u2()?, access_flags: r.u2()? };
				p.want_opt(e.name_index, K::Utf8, &format!("parameters[{j}].name_index"))?;
				v.push(e);
			}
			AttrInfo::MethodParameters(v)
		}
		"Module" if here(&[Class]) => {
			let name_index = r.u2()?; p.want(name_index, K::Module, "module_name_index")?;
			let flags = r.u2()?;
			let version_index = r.u2()?; p.want_opt(version_index, K::Utf8, "module_version_index")?;
			let n = r.u2()? as usize;
			let mut requires = Vec::with_capacity(n.min(4096));
			for j in 0..n {
				let e = ModuleRequires { index: r.u2()?, flags: r.u2()?, version_index: r.u2()? };
				p.want(e.index, K::Module, &format!("requires[{j}].requires_index"))?;
				p.want_opt(e.version_index, K::Utf8, &format!("requires[{j}].requires_version_index"))?;
				requires.push(e);
			}
			let mut tabs: Vec<Vec<ModuleExports>> = vec![];
			for what in ["exports", "opens"] {
				let n = r.u2()? as usize;
				let mut v = Vec::with_capacity(n.min(4096));
				for j in 0..n {
					let index = r.u2()?; p.want(index, K::Package, &format!("{what}[{j}].{what}_index"))?;
					let flags = r.u2()?;
					let to = u2_list(r, p, K::Module, &format!("{what}[{j}].{what}_to_index"))?;
					v.push(ModuleExports { index, flags, to });
				}
				tabs.push(v);
			}
			let opens = tabs.pop().unwrap();
			let exports = tabs.pop().unwrap();
			let uses = u2_list(r, p, K::Class, "uses_index")?;
			let n = r.u2()? as usize;
			let mut provides = Vec::with_capacity(n.min(4096));
			for j in 0..n {
				let index = r.u2()?; p.want(index, K::Class, &format!("provides[{j}].provides_index"))?;
				let with = u2_list(r, p, K::Class, &format!("provides[{j}].provides_with_index"))?;
				provides.push(ModuleProvides { index, with });
			}
			AttrInfo::Module(ModuleAttr { name_index, flags, version_index, requires, exports, opens, uses, provides })
		}
		"ModulePackages" if here(&[Class]) => AttrInfo::ModulePackages(u2_list(r, p, K::Package, "package_index")?),
		"ModuleMainClass" if here(&[Class]) => { let i = r.u2()?; p.want(i, K::Class, "main_class_index")?; AttrInfo::ModuleMainClass(i) }
		"NestHost" if here(&[Class]) => { let i = r.u2()?; p.want(i, K::Class, "host_class_index")?; AttrInfo::NestHost(i) }
		"NestMembers" if here(&[Class]) => AttrInfo::NestMembers(u2_list(r, p, K::Class, "classes")?),
		"PermittedSubclasses" if here(&[Class]) => AttrInfo::PermittedSubclasses(u2_list(r, p, K::Class, "classes")?),
		"Record" if here(&[Class]) => {
			let n = r.u2()? as usize;
			let mut v = Vec::with_capacity(n.min(4096));
			for j in 0..n {
				let name_index = r.u2()?; p.want(name_index, K::Utf8, &format!("components[{j}].name_index"))?;
				let descriptor_index = r.u2()?;
				let d = p.utf8_str(descriptor_index, &format!("components[{j}].descriptor_index"))?;
				check_field_descriptor(&d).map_err(|e| format!("components[{j}]: {e}"))?;
				let attributes = read_attributes(r, p, Loc::RecComp, None).map_err(|e| format!("components[{j}]: {e}"))?;
				v.push(RecordComponent { name_index, descriptor_index, attributes });
			}
			AttrInfo::Record(v)
		}
		_ => { let n = r.left(); AttrInfo::Unknown(r.take(n)?.to_vec()) }
	})
}

fn read_annotation(r: &mut R, p: &P, depth: usize) -> Result<Annotation, String> {
	let type_index = r.u2()?;
	p.want(type_index, K::Utf8, "annotation type_index")?;
	let n = r.u2()? as usize;
	let mut pairs = Vec::with_capacity(n.min(1024));
	for _ in 0..n {
		let name = r.u2()?; p.want(name, K::Utf8, "element_name_index")?;
		pairs.push((name, read_element_value(r, p, depth + 1)?));
	}
	Ok(Annotation { type_index, pairs })
}

fn read_element_value(r: &mut R, p: &P, depth: usize) -> Result<ElementValue, String> {
	if depth > 2000 { return Err("element_value nesting deeper than 2000".into()); }
	let tag = r.u1()?;
	Ok(match tag {
		b'B' | b'C' | b'I' | b'S' | b'Z' => { let index = r.u2()?; p.want(index, K::Integer, "const_value_index")?; ElementValue::Const { tag, index } }
		b'D' => { let index = r.u2()?; p.want(index, K::Double, "const_value_index")?; ElementValue::Const { tag, index } }
		b'F' => { let index = r.u2()?; p.want(index, K::Float, "const_value_index")?; ElementValue::Const { tag, index } }
		b'J' => { let index = r.u2()?; p.want(index, K::Long, "const_value_index")?; ElementValue::Const { tag, index } }
		b's' => { let index = r.u2()?; p.want(index, K::Utf8, "const_value_index")?; ElementValue::Const { tag, index } }
		b'e' => {
			let type_name_index = r.u2()?; p.want(type_name_index, K::Utf8, "enum type_name_index")?;
			let const_name_index = r.u2()?; p.want(const_name_index, K::Utf8, "enum const_name_index")?;
			ElementValue::Enum { type_name_index, const_name_index }
		}
		b'c' => { let i = r.u2()?; p.want(i, K::Utf8, "class_info_index")?; ElementValue::Class(i) }
		b'@' => ElementValue::Annotation(read_annotation(r, p, depth + 1)?),
		b'[' => {
			let n = r.u2()? as usize;
			let mut v = Vec::with_capacity(n.min(1024));
			for _ in 0..n { v.push(read_element_value(r, p, depth + 1)?); }
			ElementValue::Array(v)
		}
		t => return Err(format!("unknown element_value tag {t:#x}")),
	})
}

fn read_type_annotation(r: &mut R, p: &P, code: Option<&CodeMap>) -> Result<TypeAnnotation, String> {
	let target_type = r.u1()?;
	let in_code = |t: u8| -> Result<&CodeMap, String> { code.ok_or_else(|| format!("target_type {t:#x} outside a Code attribute")) };
	let target = match target_type {
		0x00 | 0x01 => TargetInfo::TypeParameter(r.u1()?),
		0x10 => TargetInfo::Supertype(r.u2()?),
		0x11 | 0x12 => TargetInfo::TypeParameterBound(r.u1()?, r.u1()?),
		0x13..=0x15 => TargetInfo::Empty,
		0x16 => TargetInfo::FormalParameter(r.u1()?),
		0x17 => TargetInfo::Throws(r.u2()?),
		0x40 | 0x41 => {
			let cm = in_code(target_type)?;
			let n = r.u2()? as usize;
			let mut v = Vec::with_capacity(n.min(4096));
			for j in 0..n {
				let e = (r.u2()?, r.u2()?, r.u2()?);
				cm.range(e.0, e.1).map_err(|x| format!("localvar_target table[{j}]: {x}"))?;
				v.push(e);
			}
			TargetInfo::LocalVar(v)
		}
		0x42 => { in_code(target_type)?; TargetInfo::Catch(r.u2()?) }
		0x43..=0x46 => { let cm = in_code(target_type)?; let o = r.u2()?; cm.insn_at(o as u32).map_err(|x| format!("offset_target: {x}"))?; TargetInfo::Offset(o) }
		0x47..=0x4B => { let cm = in_code(target_type)?; let o = r.u2()?; cm.insn_at(o as u32).map_err(|x| format!("type_argument_target: {x}"))?; TargetInfo::TypeArgument(o, r.u1()?) }
		t => return Err(format!("unknown target_type {t:#x}")),
	};
	if code.is_some() && target_type < 0x40 { return Err(format!("target_type {target_type:#x} inside a Code attribute")); }
	let n = r.u1()? as usize;
	let mut path = Vec::with_capacity(n);
	for _ in 0..n {
		let (k, a) = (r.u1()?, r.u1()?);
		if k > 3 { return Err(format!("type_path_kind {k} not in 0..=3")); }
		if k != 3 && a != 0 { return Err(format!("type_argument_index {a} must be 0 for type_path_kind {k}")); }
		path.push((k, a));
	}
	let annotation = read_annotation(r, p, 0)?;
	Ok(TypeAnnotation { target_type, target, path, annotation })
}

fn read_vtype(r: &mut R, p: &P, cm: &CodeMap) -> Result<VType, String> {
	Ok(match r.u1()? {
		0 => VType::Top, 1 => VType::Integer, 2 => VType::Float, 3 => VType::Double, 4 => VType::Long, 5 => VType::Null, 6 => VType::UninitializedThis,
		7 => { let i = r.u2()?; p.want(i, K::Class, "Object_variable_info.cpool_index")?; VType::Object(i) }
		8 => { let o = r.u2()?; cm.insn_at(o as u32).map_err(|e| format!("Uninitialized_variable_info.offset: {e}"))?; VType::Uninitialized(o) }
		t => return Err(format!("unknown verification_type_info tag {t}")),
	})
}

fn read_frames(r: &mut R, p: &P, cm: &CodeMap) -> Result<Vec<Frame>, String> {
	let n = r.u2()? as usize;
	let mut v = Vec::with_capacity(n.min(65536));
	let mut pc: i64 = -1;
	for j in 0..n {
		let t = r.u1()?;
		let f = match t {
			0..=63 => Frame::Same { offset_delta: t },
			64..=127 => Frame::SameLocals1 { offset_delta: t - 64, stack: read_vtype(r, p, cm)? },
			128..=246 => return Err(format!("frame {j}: reserved frame_type {t}")),
			247 => Frame::SameLocals1Ext { offset_delta: r.u2()?, stack: read_vtype(r, p, cm)? },
			248..=250 => Frame::Chop { k: 251 - t, offset_delta: r.u2()? },
			251 => Frame::SameExt { offset_delta: r.u2()? },
			252..=254 => {
				let offset_delta = r.u2()?;
				let mut locals = Vec::new();
				for _ in 0..(t - 251) { locals.push(read_vtype(r, p, cm)?); }
				Frame::Append { offset_delta, locals }
			}
			255 => {
				let offset_delta = r.u2()?;
				let nl = r.u2()? as usize;
				let mut locals = Vec::with_capacity(nl.min(65536));
				for _ in 0..nl { locals.push(read_vtype(r, p, cm)?); }
				let ns = r.u2()? as usize;
				let mut stack = Vec::with_capacity(ns.min(65536));
				for _ in 0..ns { stack.push(read_vtype(r, p, cm)?); }
				Frame::Full { offset_delta, locals, stack }
			}
		};
		pc += f.offset_delta() as i64 + 1;
		cm.insn_at(pc as u32).map_err(|e| format!("frame {j}: {e}"))?;
		v.push(f);
	}
	Ok(v)
}

fn read_code(r: &mut R, p: &P) -> Result<CodeAttr, String> {
	let max_stack = r.u2()?;
	let max_locals = r.u2()?;
	let code_length = r.u4()?;
	if code_length == 0 || code_length > 65535 { return Err(format!("code_length {code_length} not in 1..=65535")); }
	let code = r.take(code_length as usize)?.to_vec();
	let insns = decode_code(&code)?;
	check_operands(&insns, p, max_locals)?;
	let cm = CodeMap::new(&insns, code.len() as u32);
	let n = r.u2()? as usize;
	let mut exception_table = Vec::with_capacity(n.min(65536));
	for j in 0..n {
		let e = ExceptionEntry { start_pc: r.u2()?, end_pc: r.u2()?, handler_pc: r.u2()?, catch_type: r.u2()? };
		cm.insn_at(e.start_pc as u32).map_err(|x| format!("exception_table[{j}].start_pc: {x}"))?;
		cm.insn_or_end(e.end_pc as u32).map_err(|x| format!("exception_table[{j}].end_pc: {x}"))?;
		if e.start_pc >= e.end_pc { return Err(format!("exception_table[{j}]: start_pc {} >= end_pc {}", e.start_pc, e.end_pc)); }
		cm.insn_at(e.handler_pc as u32).map_err(|x| format!("exception_table[{j}].handler_pc: {x}"))?;
		p.want_opt(e.catch_type, K::Class, &format!("exception_table[{j}].catch_type"))?;
		exception_table.push(e);
	}
	let attributes = read_attributes(r, p, Loc::Code, Some(&cm))?;
	// Catch targets of type annotations refer to the exception table
	for a in &attributes {
		if let AttrInfo::RuntimeVisibleTypeAnnotations(v) | AttrInfo::RuntimeInvisibleTypeAnnotations(v) = &a.info {
			for t in v { if let TargetInfo::Catch(i) = t.target { if (i as usize) >= exception_table.len() { return Err(format!("catch_target exception_table_index {i} out of range")); } } }
		}
	}
	Ok(CodeAttr { max_stack, max_locals, code, exception_table, attributes })
}

/// Map from byte offsets to instruction indices of one code array.
pub struct CodeMap { index_of: Vec<u32>, pub code_length: u32, pub count: usize }
impl CodeMap {
	pub fn new(insns: &[(u32, Insn)], code_length: u32) -> CodeMap {
		let mut index_of = vec![u32::MAX; code_length as usize + 1];
		for (k, (o, _)) in insns.iter().enumerate() { index_of[*o as usize] = k as u32; }
		index_of[code_length as usize] = insns.len() as u32;
		CodeMap { index_of, code_length, count: insns.len() }
	}
	/// index of the instruction starting at `pc` (pc < code_length)
	pub fn insn_at(&self, pc: u32) -> Result<usize, String> {
		if pc >= self.code_length { return Err(format!("pc {pc} is not inside the code (length {})", self.code_length)); }
		match self.index_of[pc as usize] { u32::MAX => Err(format!("pc {pc} is not the start of an instruction")), k => Ok(k as usize) }
	}
	/// like `insn_at`, but `pc == code_length` is allowed and yields the number of instructions
	pub fn insn_or_end(&self, pc: u32) -> Result<usize, String> {
		if pc == self.code_length { Ok(self.count) } else { self.insn_at(pc) }
	}
	/// [start_pc, start_pc + length) as instruction indices; start_pc must be an instruction, the end
	/// may be the end of the code (JVMS 4.7.13, 4.7.20.1)
	pub fn range(&self, start_pc: u16, length: u16) -> Result<(usize, usize), String> {
		let s = self.insn_at(start_pc as u32).map_err(|e| format!("start_pc: {e}"))?;
		let end = start_pc as u32 + length as u32;
		if end > self.code_length { return Err(format!("start_pc {start_pc} + length {length} exceeds code length {}", self.code_length)); }
		let e = self.insn_or_end(end).map_err(|e| format!("start_pc + length: {e}"))?;
		Ok((s, e))
	}
}

// ------------------------------------------------------------------------------------------
// instructions
// ------------------------------------------------------------------------------------------

/// One decoded instruction.  `opcode` is the opcode byte as it appears (for `wide` forms the
/// modified opcode, with `wide == true`); `_n` forms keep their own opcode and no operand.
#[derive(Debug, Clone, PartialEq)]
pub struct Insn { pub opcode: u8, pub wide: bool, pub operands: Operands }

#[derive(Debug, Clone, PartialEq)]
pub enum Operands {
	None,
	/// bipush
	Byte(i8),
	/// sipush
	Short(i16),
	/// local variable index (u8, or u16 under wide)
	Local(u16),
	Iinc(u16, i16),
	/// constant pool index (ldc: u8; all others u16)
	Pool(u16),
	InvokeInterface { index: u16, count: u8 },
	InvokeDynamic { index: u16 },
	NewArray(u8),
	MultiANewArray(u16, u8),
	/// absolute target offset
	Branch(u32),
	TableSwitch { default: u32, low: i32, high: i32, targets: Vec<u32> },
	LookupSwitch { default: u32, pairs: Vec<(i32, u32)> },
}

/// Decode a code array into `(offset, instruction)` pairs.  Fails on reserved opcodes, truncated
/// instructions, malformed switches (low > high, negative or unsorted npairs), nonzero reserved
/// operand bytes, and branch targets that are not instruction starts inside the code.
pub fn decode_code(code: &[u8]) -> Result<Vec<(u32, Insn)>, String> {
	let mut r = R::new(code, 0);
	let len = code.len() as i64;
	let mut out: Vec<(u32, Insn)> = Vec::new();
	let target = |pc: u32, off: i64| -> Result<u32, String> {
		let t = pc as i64 + off;
		if t < 0 || t >= len { Err(format!("branch at {pc} with offset {off} leaves the code (length {len})")) } else { Ok(t as u32) }
	};
	while r.left() > 0 {
		let pc = r.p as u32;
		let opcode = r.u1()?;
		let e = |x: String| format!("at pc {pc} ({}): {x}", opcodes::mnemonic(opcode).unwrap_or("?"));
		let insn = match opcodes::kind(opcode) {
			OpKind::NoArg | OpKind::LocalN => Insn { opcode, wide: false, operands: Operands::None },
			OpKind::Byte => Insn { opcode, wide: false, operands: Operands::Byte(r.u1().map_err(e)? as i8) },
			OpKind::Short => Insn { opcode, wide: false, operands: Operands::Short(r.u2().map_err(e)? as i16) },
			OpKind::Ldc => Insn { opcode, wide: false, operands: Operands::Pool(r.u1().map_err(e)? as u16) },
			OpKind::LdcW | OpKind::Field | OpKind::Method | OpKind::Class => Insn { opcode, wide: false, operands: Operands::Pool(r.u2().map_err(e)?) },
			OpKind::Local => Insn { opcode, wide: false, operands: Operands::Local(r.u1().map_err(e)? as u16) },
			OpKind::Iinc => Insn { opcode, wide: false, operands: Operands::Iinc(r.u1().map_err(e)? as u16, r.u1().map_err(e)? as i8 as i16) },
			OpKind::Branch16 => { let o = r.u2().map_err(e)? as i16; Insn { opcode, wide: false, operands: Operands::Branch(target(pc, o as i64).map_err(e)?) } }
			OpKind::Branch32 => { let o = r.u4().map_err(e)? as i32; Insn { opcode, wide: false, operands: Operands::Branch(target(pc, o as i64).map_err(e)?) } }
			OpKind::TableSwitch => {
				while r.p % 4 != 0 { r.u1().map_err(e)?; }
				let default = target(pc, r.u4().map_err(e)? as i32 as i64).map_err(e)?;
				let low = r.u4().map_err(e)? as i32;
				let high = r.u4().map_err(e)? as i32;
				if low > high { return Err(e(format!("low {low} > high {high}"))); }
				let n = high as i64 - low as i64 + 1;
				if n * 4 > r.left() as i64 { return Err(e(format!("{n} jump offsets do not fit in the remaining {} bytes", r.left()))); }
				let mut targets = Vec::with_capacity(n as usize);
				for _ in 0..n { targets.push(target(pc, r.u4().map_err(e)? as i32 as i64).map_err(e)?); }
				Insn { opcode, wide: false, operands: Operands::TableSwitch { default, low, high, targets } }
			}
			OpKind::LookupSwitch => {
				while r.p % 4 != 0 { r.u1().map_err(e)?; }
				let default = target(pc, r.u4().map_err(e)? as i32 as i64).map_err(e)?;
				let n = r.u4().map_err(e)? as i32;
				if n < 0 { return Err(e(format!("npairs {n} negative"))); }
				if n as i64 * 8 > r.left() as i64 { return Err(e(format!("{n} pairs do not fit in the remaining {} bytes", r.left()))); }
				let mut pairs: Vec<(i32, u32)> = Vec::with_capacity(n as usize);
				for _ in 0..n {
					let k = r.u4().map_err(e)? as i32;
					let t = target(pc, r.u4().map_err(e)? as i32 as i64).map_err(e)?;
					if let Some((prev, _)) = pairs.last() { if *prev >= k { return Err(e(format!("match keys not strictly increasing ({prev} then {k})"))); } }
					pairs.push((k, t));
				}
				Insn { opcode, wide: false, operands: Operands::LookupSwitch { default, pairs } }
			}
			OpKind::InvokeInterface => {
				let index = r.u2().map_err(e)?;
				let count = r.u1().map_err(e)?;
				let zero = r.u1().map_err(e)?;
				if count == 0 { return Err(e("count operand is 0".into())); }
				if zero != 0 { return Err(e(format!("fourth operand byte is {zero}, must be 0"))); }
				Insn { opcode, wide: false, operands: Operands::InvokeInterface { index, count } }
			}
			OpKind::InvokeDynamic => {
				let index = r.u2().map_err(e)?;
				let zero = r.u2().map_err(e)?;
				if zero != 0 { return Err(e(format!("third and fourth operand bytes are {zero:#x}, must be 0"))); }
				Insn { opcode, wide: false, operands: Operands::InvokeDynamic { index } }
			}
			OpKind::NewArray => {
				let t = r.u1().map_err(e)?;
				if !(4..=11).contains(&t) { return Err(e(format!("atype {t} not in 4..=11"))); }
				Insn { opcode, wide: false, operands: Operands::NewArray(t) }
			}
			OpKind::MultiANewArray => {
				let index = r.u2().map_err(e)?;
				let dims = r.u1().map_err(e)?;
				if dims == 0 { return Err(e("dimensions operand is 0".into())); }
				Insn { opcode, wide: false, operands: Operands::MultiANewArray(index, dims) }
			}
			OpKind::Wide => {
				let m = r.u1().map_err(e)?;
				match m {
					21..=25 | 54..=58 | op::RET => Insn { opcode: m, wide: true, operands: Operands::Local(r.u2().map_err(e)?) },
					op::IINC => Insn { opcode: m, wide: true, operands: Operands::Iinc(r.u2().map_err(e)?, r.u2().map_err(e)? as i16) },
					_ => return Err(e(format!("opcode {m:#x} cannot be modified by wide"))),
				}
			}
			OpKind::Invalid => return Err(format!("at pc {pc}: reserved or undefined opcode {opcode:#x}")),
		};
		out.push((pc, insn));
	}
	// all targets must be instruction starts
	let mut starts = vec![false; code.len()];
	for (o, _) in &out { starts[*o as usize] = true; }
	let chk = |pc: u32, t: u32| -> Result<(), String> { if starts[t as usize] { Ok(()) } else { Err(format!("at pc {pc}: branch target {t} is not the start of an instruction")) } };
	for (pc, i) in &out {
		match &i.operands {
			Operands::Branch(t) => chk(*pc, *t)?,
			Operands::TableSwitch { default, targets, .. } => { chk(*pc, *default)?; for t in targets { chk(*pc, *t)?; } }
			Operands::LookupSwitch { default, pairs } => { chk(*pc, *default)?; for (_, t) in pairs { chk(*pc, *t)?; } }
			_ => {}
		}
	}
	Ok(out)
}

/// pool kinds of instruction operands, local indices against max_locals
fn check_operands(insns: &[(u32, Insn)], p: &P, max_locals: u16) -> Result<(), String> {
	for (pc, i) in insns {
		let w = format!("at pc {pc} ({})", opcodes::mnemonic(i.opcode).unwrap_or("?"));
		let local = |n: u32, width: u32| -> Result<(), String> {
			if n + width > max_locals as u32 { Err(format!("{w}: local {n} (width {width}) exceeds max_locals {max_locals}")) } else { Ok(()) }
		};
		let width = |opc: u8| -> u32 { if matches!(opc, op::LLOAD | op::DLOAD | op::LSTORE | op::DSTORE) { 2 } else { 1 } };
		match (&i.operands, opcodes::kind(i.opcode)) {
			(Operands::None, OpKind::LocalN) => { let (g, n) = opcodes::split_local_n(i.opcode).unwrap(); local(n as u32, width(g))?; }
			(Operands::Local(n), _) => local(*n as u32, width(i.opcode))?,
			(Operands::Iinc(n, _), _) => local(*n as u32, 1)?,
			(Operands::Pool(x), OpKind::Ldc) | (Operands::Pool(x), OpKind::LdcW) => {
				let c = p.get(*x, &w)?;
				if !c.is_loadable() { return Err(format!("{w}: constant {x} is {}, not loadable", c.kind_name())); }
				let two = match c {
					Const::Long(_) | Const::Double(_) => true,
					Const::Dynamic(_, nt) => match p.get(*nt, &w)? { Const::NameAndType(_, d) => { let d = p.utf8_str(*d, &w)?; d.0 == [b'J' as u16] || d.0 == [b'D' as u16] } _ => false },
					_ => false,
				};
				if two != (i.opcode == op::LDC2_W) { return Err(format!("{w}: constant {x} ({}) has the wrong category for this instruction", c.kind_name())); }
			}
			(Operands::Pool(x), OpKind::Field) => { if !matches!(p.get(*x, &w)?, Const::Fieldref(..)) { return Err(format!("{w}: constant {x} is not a Fieldref")); } }
			(Operands::Pool(x), OpKind::Method) => {
				let c = p.get(*x, &w)?;
				let ok = match i.opcode { op::INVOKEVIRTUAL => matches!(c, Const::Methodref(..)), _ => matches!(c, Const::Methodref(..) | Const::InterfaceMethodref(..)) };
				if !ok { return Err(format!("{w}: constant {x} is {}, not a method reference allowed here", c.kind_name())); }
			}
			(Operands::Pool(x), OpKind::Class) => p.want(*x, K::Class, &w)?,
			(Operands::MultiANewArray(x, _), _) => p.want(*x, K::Class, &w)?,
			(Operands::InvokeInterface { index, .. }, _) => { if !matches!(p.get(*index, &w)?, Const::InterfaceMethodref(..)) { return Err(format!("{w}: constant {index} is not an InterfaceMethodref")); } }
			(Operands::InvokeDynamic { index }, _) => { if !matches!(p.get(*index, &w)?, Const::InvokeDynamic(..)) { return Err(format!("{w}: constant {index} is not an InvokeDynamic")); } }
			_ => {}
		}
	}
	Ok(())
}

// ------------------------------------------------------------------------------------------
// descriptors
// ------------------------------------------------------------------------------------------

/// parse one field type starting at `i`; returns (next position, slots it occupies)
fn field_type(d: &[u16], i: usize) -> Result<(usize, u32), String> {
	let mut j = i;
	let mut dims = 0;
	while j < d.len() && d[j] == b'[' as u16 { j += 1; dims += 1; }
	if dims > 255 { return Err("more than 255 array dimensions".into()); }
	let c = *d.get(j).ok_or("descriptor ends inside a type")?;
	let (next, slots) = match c as u8 as char {
		_ if c > 127 => return Err(format!("bad type character {c:#x}")),
		'B' | 'C' | 'F' | 'I' | 'S' | 'Z' => (j + 1, 1),
		'J' | 'D' => (j + 1, 2),
		'L' => {
			let mut k = j + 1;
			while k < d.len() && d[k] != b';' as u16 { k += 1; }
			if k >= d.len() { return Err("class type without ';'".into()); }
			if k == j + 1 { return Err("empty class name in descriptor".into()); }
			(k + 1, 1)
		}
		ch => return Err(format!("bad type character '{ch}'")),
	};
	Ok((next, if dims > 0 { 1 } else { slots }))
}

pub fn check_field_descriptor(d: &JStr) -> Result<(), String> {
	let (n, _) = field_type(&d.0, 0).map_err(|e| format!("field descriptor {d:?}: {e}"))?;
	if n != d.0.len() { return Err(format!("field descriptor {d:?}: trailing characters")); }
	Ok(())
}

/// Returns (argument slots, return slots) of a method descriptor.
pub fn parse_method_descriptor(d: &JStr) -> Result<(u32, u32), String> {
	let u = &d.0;
	let err = |e: String| format!("method descriptor {d:?}: {e}");
	if u.first() != Some(&(b'(' as u16)) { return Err(err("does not start with '('".into())); }
	let mut i = 1;
	let mut slots = 0;
	while i < u.len() && u[i] != b')' as u16 { let (n, s) = field_type(u, i).map_err(err)?; i = n; slots += s; }
	if i >= u.len() { return Err(err("missing ')'".into())); }
	i += 1;
	let ret = if u.get(i) == Some(&(b'V' as u16)) { i += 1; 0 } else { let (n, s) = field_type(u, i).map_err(err)?; i = n; s };
	if i != u.len() { return Err(err("trailing characters".into())); }
	if slots > 255 { return Err(err(format!("{slots} argument slots exceed 255"))); }
	Ok((slots, ret))
}

// ------------------------------------------------------------------------------------------
// writer
// ------------------------------------------------------------------------------------------

struct W { b: Vec<u8> }
impl W {
	fn u1(&mut self, x: u8) { self.b.push(x); }
	fn u2(&mut self, x: u16) { self.b.extend_from_slice(&x.to_be_bytes()); }
	fn u4(&mut self, x: u32) { self.b.extend_from_slice(&x.to_be_bytes()); }
	fn u8_(&mut self, x: u64) { self.b.extend_from_slice(&x.to_be_bytes()); }
	fn bytes(&mut self, x: &[u8]) { self.b.extend_from_slice(x); }
	fn u2s(&mut self, xs: &[u16]) { self.u2(xs.len() as u16); for x in xs { self.u2(*x); } }
}

/// Serialise; every count and length is recomputed from the content.  Panics if a table is longer
/// than its count field can express (only possible for hand-built values).
pub fn write(c: &RawClass) -> Vec<u8> {
	let mut w = W { b: Vec::with_capacity(1024) };
	w.u4(0xCAFEBABE); w.u2(c.minor); w.u2(c.major);
	assert!(c.pool.len() <= 65535, "constant pool too large");
	w.u2(c.pool.len() as u16);
	for e in c.pool.iter().flatten() {
		w.u1(e.tag());
		match e {
			Const::Utf8(b) => { assert!(b.len() <= 65535, "Utf8 constant too long"); w.u2(b.len() as u16); w.bytes(b); }
			Const::Integer(x) => w.u4(*x as u32),
			Const::Float(x) => w.u4(*x),
			Const::Long(x) => w.u8_(*x as u64),
			Const::Double(x) => w.u8_(*x),
			Const::Class(a) | Const::String(a) | Const::MethodType(a) | Const::Module(a) | Const::Package(a) => w.u2(*a),
			Const::Fieldref(a, b) | Const::Methodref(a, b) | Const::InterfaceMethodref(a, b) | Const::NameAndType(a, b) | Const::Dynamic(a, b) | Const::InvokeDynamic(a, b) => { w.u2(*a); w.u2(*b); }
			Const::MethodHandle(k, r) => { w.u1(*k); w.u2(*r); }
		}
	}
	w.u2(c.access); w.u2(c.this_class); w.u2(c.super_class);
	w.u2s(&c.interfaces);
	for ms in [&c.fields, &c.methods] {
		w.u2(ms.len() as u16);
		for m in ms.iter() { w.u2(m.access); w.u2(m.name_index); w.u2(m.descriptor_index); write_attrs(&mut w, &m.attributes); }
	}
	write_attrs(&mut w, &c.attributes);
	w.b
}

fn write_attrs(w: &mut W, attrs: &[Attribute]) {
	assert!(attrs.len() <= 65535);
	w.u2(attrs.len() as u16);
	for a in attrs {
		w.u2(a.name_index);
		let mut s = W { b: Vec::new() };
		write_attr_info(&mut s, &a.info);
		w.u4(s.b.len() as u32);
		w.bytes(&s.b);
	}
}

fn write_annotation(w: &mut W, a: &Annotation) {
	w.u2(a.type_index); w.u2(a.pairs.len() as u16);
	for (n, v) in &a.pairs { w.u2(*n); write_element_value(w, v); }
}
fn write_element_value(w: &mut W, v: &ElementValue) {
	match v {
		ElementValue::Const { tag, index } => { w.u1(*tag); w.u2(*index); }
		ElementValue::Enum { type_name_index, const_name_index } => { w.u1(b'e'); w.u2(*type_name_index); w.u2(*const_name_index); }
		ElementValue::Class(i) => { w.u1(b'c'); w.u2(*i); }
		ElementValue::Annotation(a) => { w.u1(b'@'); write_annotation(w, a); }
		ElementValue::Array(xs) => { w.u1(b'['); w.u2(xs.len() as u16); for x in xs { write_element_value(w, x); } }
	}
}
fn write_vtype(w: &mut W, t: &VType) {
	match t {
		VType::Top => w.u1(0), VType::Integer => w.u1(1), VType::Float => w.u1(2), VType::Double => w.u1(3), VType::Long => w.u1(4),
		VType::Null => w.u1(5), VType::UninitializedThis => w.u1(6),
		VType::Object(i) => { w.u1(7); w.u2(*i); }
		VType::Uninitialized(o) => { w.u1(8); w.u2(*o); }
	}
}
fn write_annotations(w: &mut W, v: &[Annotation]) { w.u2(v.len() as u16); for a in v { write_annotation(w, a); } }
fn write_type_annotations(w: &mut W, v: &[TypeAnnotation]) {
	w.u2(v.len() as u16);
	for t in v {
		w.u1(t.target_type);
		match &t.target {
			TargetInfo::TypeParameter(i) | TargetInfo::FormalParameter(i) => w.u1(*i),
			TargetInfo::Supertype(i) | TargetInfo::Throws(i) | TargetInfo::Catch(i) | TargetInfo::Offset(i) => w.u2(*i),
			TargetInfo::TypeParameterBound(a, b) => { w.u1(*a); w.u1(*b); }
			TargetInfo::Empty => {}
			TargetInfo::LocalVar(tab) => { w.u2(tab.len() as u16); for (a, b, c) in tab { w.u2(*a); w.u2(*b); w.u2(*c); } }
			TargetInfo::TypeArgument(o, i) => { w.u2(*o); w.u1(*i); }
		}
		w.u1(t.path.len() as u8);
		for (k, a) in &t.path { w.u1(*k); w.u1(*a); }
		write_annotation(w, &t.annotation);
	}
}

fn write_attr_info(w: &mut W, info: &AttrInfo) {
	match info {
		AttrInfo::ConstantValue(i) | AttrInfo::Signature(i) | AttrInfo::SourceFile(i) | AttrInfo::ModuleMainClass(i) | AttrInfo::NestHost(i) => w.u2(*i),
		AttrInfo::Code(c) => {
			w.u2(c.max_stack); w.u2(c.max_locals); w.u4(c.code.len() as u32); w.bytes(&c.code);
			w.u2(c.exception_table.len() as u16);
			for e in &c.exception_table { w.u2(e.start_pc); w.u2(e.end_pc); w.u2(e.handler_pc); w.u2(e.catch_type); }
			write_attrs(w, &c.attributes);
		}
		AttrInfo::StackMapTable(fs) => {
			w.u2(fs.len() as u16);
			for f in fs {
				match f {
					Frame::Same { offset_delta } => { assert!(*offset_delta < 64); w.u1(*offset_delta); }
					Frame::SameLocals1 { offset_delta, stack } => { assert!(*offset_delta < 64); w.u1(64 + offset_delta); write_vtype(w, stack); }
					Frame::SameLocals1Ext { offset_delta, stack } => { w.u1(247); w.u2(*offset_delta); write_vtype(w, stack); }
					Frame::Chop { k, offset_delta } => { assert!((1..=3).contains(k)); w.u1(251 - k); w.u2(*offset_delta); }
					Frame::SameExt { offset_delta } => { w.u1(251); w.u2(*offset_delta); }
					Frame::Append { offset_delta, locals } => { assert!((1..=3).contains(&locals.len())); w.u1(251 + locals.len() as u8); w.u2(*offset_delta); for t in locals { write_vtype(w, t); } }
					Frame::Full { offset_delta, locals, stack } => {
						w.u1(255); w.u2(*offset_delta);
						w.u2(locals.len() as u16); for t in locals { write_vtype(w, t); }
						w.u2(stack.len() as u16); for t in stack { write_vtype(w, t); }
					}
				}
			}
		}
		AttrInfo::Exceptions(v) | AttrInfo::ModulePackages(v) | AttrInfo::NestMembers(v) | AttrInfo::PermittedSubclasses(v) => w.u2s(v),
		AttrInfo::InnerClasses(v) => {
			w.u2(v.len() as u16);
			for e in v { w.u2(e.inner_class_info_index); w.u2(e.outer_class_info_index); w.u2(e.inner_name_index); w.u2(e.inner_class_access_flags); }
		}
		AttrInfo::EnclosingMethod { class_index, method_index } => { w.u2(*class_index); w.u2(*method_index); }
		AttrInfo::Synthetic | AttrInfo::Deprecated => {}
		AttrInfo::SourceDebugExtension(b) | AttrInfo::Unknown(b) => w.bytes(b),
		AttrInfo::LineNumberTable(v) => { w.u2(v.len() as u16); for e in v { w.u2(e.start_pc); w.u2(e.line); } }
		AttrInfo::LocalVariableTable(v) | AttrInfo::LocalVariableTypeTable(v) => {
			w.u2(v.len() as u16);
			for e in v { w.u2(e.start_pc); w.u2(e.length); w.u2(e.name_index); w.u2(e.descriptor_index); w.u2(e.index); }
		}
		AttrInfo::RuntimeVisibleAnnotations(v) | AttrInfo::RuntimeInvisibleAnnotations(v) => write_annotations(w, v),
		AttrInfo::RuntimeVisibleParameterAnnotations(ps) | AttrInfo::RuntimeInvisibleParameterAnnotations(ps) => {
			assert!(ps.len() <= 255);
			w.u1(ps.len() as u8);
			for v in ps { write_annotations(w, v); }
		}
		AttrInfo::RuntimeVisibleTypeAnnotations(v) | AttrInfo::RuntimeInvisibleTypeAnnotations(v) => write_type_annotations(w, v),
		AttrInfo::AnnotationDefault(v) => write_element_value(w, v),
		AttrInfo::BootstrapMethods(v) => { w.u2(v.len() as u16); for b in v { w.u2(b.method_ref); w.u2s(&b.arguments); } }
		AttrInfo::MethodParameters(v) => { assert!(v.len() <= 255); w.u1(v.len() as u8); for e in v { w.u2(e.name_index); w.u2(e.access_flags); } }
		AttrInfo::Module(m) => {
			w.u2(m.name_index); w.u2(m.flags); w.u2(m.version_index);
			w.u2(m.requires.len() as u16);
			for e in &m.requires { w.u2(e.index); w.u2(e.flags); w.u2(e.version_index); }
			for tab in [&m.exports, &m.opens] {
				w.u2(tab.len() as u16);
				for e in tab.iter() { w.u2(e.index); w.u2(e.flags); w.u2s(&e.to); }
			}
			w.u2s(&m.uses);
			w.u2(m.provides.len() as u16);
			for e in &m.provides { w.u2(e.index); w.u2s(&e.with); }
		}
		AttrInfo::Record(v) => {
			w.u2(v.len() as u16);
			for c in v { w.u2(c.name_index); w.u2(c.descriptor_index); write_attrs(w, &c.attributes); }
		}
	}
}

// ------------------------------------------------------------------------------------------
// attribute locations (JVMS Table 4.7-C)
// ------------------------------------------------------------------------------------------

#[derive(Clone, Copy, PartialEq, Eq, Debug)]
pub enum AttrLoc { Class, Field, Method, Code, RecordComponent }

/// Is `name` an attribute that the JVMS defines for this location?  (`parse` decodes exactly
/// those structurally; every other (name, location) pair is kept as `AttrInfo::Unknown`.)
pub fn predefined_at(name: &str, loc: AttrLoc) -> bool {
	use AttrLoc::*;
	let locs: &[AttrLoc] = match name {
		"SourceFile" | "InnerClasses" | "EnclosingMethod" | "SourceDebugExtension" | "BootstrapMethods" | "Module" | "ModulePackages"
		| "ModuleMainClass" | "NestHost" | "NestMembers" | "Record" | "PermittedSubclasses" => &[Class],
		"ConstantValue" => &[Field],
		"Code" | "Exceptions" | "RuntimeVisibleParameterAnnotations" | "RuntimeInvisibleParameterAnnotations" | "AnnotationDefault" | "MethodParameters" => &[Method],
		"Synthetic" | "Deprecated" => &[Class, Field, Method],
		"Signature" | "RuntimeVisibleAnnotations" | "RuntimeInvisibleAnnotations" => &[Class, Field, Method, RecordComponent],
		"LineNumberTable" | "LocalVariableTable" | "LocalVariableTypeTable" | "StackMapTable" => &[Code],
		"RuntimeVisibleTypeAnnotations" | "RuntimeInvisibleTypeAnnotations" => &[Class, Field, Method, Code, RecordComponent],
		_ => &[],
	};
	locs.contains(&loc)
}
