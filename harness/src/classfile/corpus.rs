//! The vendored class-file corpus (`/verif/corpus/classes`, see its FEATURES.txt): classes compiled
//! once with javac 17 at `--release 8/11/17` from the sources kept under `src/`, plus a sample of
//! third-party classes (`sample/`).  Read at run time; no check needs `javac`.
use std::path::{Path, PathBuf};

/// directory of the corpus: env `FBH_CORPUS`, default `/verif/corpus/classes`
pub fn corpus_dir() -> PathBuf {
	std::env::var_os("FBH_CORPUS").map(PathBuf::from).unwrap_or_else(|| PathBuf::from("/verif/corpus/classes"))
}

fn walk(dir: &Path, out: &mut Vec<PathBuf>) {
	let Ok(rd) = std::fs::read_dir(dir) else { return };
	let mut entries: Vec<PathBuf> = rd.filter_map(|e| e.ok().map(|e| e.path())).collect();
	entries.sort();
	for p in entries {
		if p.is_dir() { walk(&p, out); } else if p.extension().map_or(false, |x| x == "class") { out.push(p); }
	}
}

/// Every `.class` file below the corpus directory as `(path relative to the corpus directory,
/// bytes)`, sorted by name (deterministic).  `regress/` (minimised failing inputs, if present)
/// sorts first.
pub fn corpus_classes() -> Vec<(String, Vec<u8>)> {
	let root = corpus_dir();
	let mut files = vec![];
	walk(&root, &mut files);
	let mut v: Vec<(String, Vec<u8>)> = files.into_iter().filter_map(|p| {
		let name = p.strip_prefix(&root).ok()?.to_string_lossy().replace('\\', "/");
		Some((name, std::fs::read(&p).ok()?))
	}).collect();
	v.sort_by(|a, b| (!a.0.starts_with("regress/"), &a.0).cmp(&(!b.0.starts_with("regress/"), &b.0)));
	v
}

/// the classes whose relative path starts with one of the prefixes (`"r8/"`, `"r17/"`, `"sample/"`, …)
pub fn corpus_subset(prefixes: &[&str]) -> Vec<(String, Vec<u8>)> {
	corpus_classes().into_iter().filter(|(n, _)| prefixes.iter().any(|p| n.starts_with(p))).collect()
}

/// corpus classes not larger than `max_bytes` (mutation / truncation sweeps)
pub fn corpus_small(max_bytes: usize) -> Vec<(String, Vec<u8>)> {
	corpus_classes().into_iter().filter(|(_, b)| b.len() <= max_bytes).collect()
}
