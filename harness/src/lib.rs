//! fbh — shared parts of the harness binaries (one binary per property under src/bin/).
//! Every binary is invoked as `<bin> <seed> <quick|thorough> <outdir> [replay-file]`.
pub mod prng;
pub mod gal;
pub mod report;
pub mod mapmodel;
pub mod classfile;

use std::path::PathBuf;

pub struct Ctx { pub seed: u64, pub thorough: bool, pub out: PathBuf, pub replay: Option<PathBuf> }

/// Common `main`: parses the arguments, silences the panic hook (panics are caught by
/// `report::guarded` and reported as results), runs `f` and writes shards + report.json.
pub fn main_with(f: impl FnOnce(&Ctx) -> anyhow::Result<report::Report>) -> anyhow::Result<()> {
	let args: Vec<String> = std::env::args().collect();
	if args.len() < 4 { eprintln!("usage: {} <seed> <quick|thorough> <outdir> [replay]", args[0]); std::process::exit(2); }
	let ctx = Ctx { seed: args[1].parse()?, thorough: args[2] == "thorough", out: PathBuf::from(&args[3]), replay: args.get(4).map(PathBuf::from) };
	std::panic::set_hook(Box::new(|_| {}));
	std::fs::create_dir_all(&ctx.out)?;
	let crumb = ctx.out.join("current_input.txt");
	let _ = std::fs::remove_file(&crumb);
	std::env::set_var("FBH_CRUMB", &crumb);
	let report = f(&ctx)?;
	report.write(&ctx.out)?;
	let _ = std::fs::remove_file(&crumb);
	Ok(())
}
