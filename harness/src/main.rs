//! fbh — harness linking /repo's crates.  `fbh <property> <seed> <tier> <outdir> [replay-file]`
mod prng;
mod gal;
mod report;
mod c18;

use std::path::PathBuf;

pub struct Ctx { pub seed: u64, pub thorough: bool, pub out: PathBuf, pub replay: Option<PathBuf> }

fn main() -> anyhow::Result<()> {
	let args: Vec<String> = std::env::args().collect();
	if args.len() < 5 { eprintln!("usage: fbh <property> <seed> <quick|thorough> <outdir> [replay]"); std::process::exit(2); }
	let ctx = Ctx { seed: args[2].parse()?, thorough: args[3] == "thorough", out: PathBuf::from(&args[4]), replay: args.get(5).map(PathBuf::from) };
	// panics are caught by `guarded`; keep stderr quiet
	std::panic::set_hook(Box::new(|_| {}));
	let report = match args[1].as_str() {
		"C18" => c18::run(&ctx)?,
		p => { eprintln!("unknown property {p}"); std::process::exit(2); }
	};
	report.write(&ctx.out)?;
	Ok(())
}
