(* C14 with C07 (round 5): "rewrites every reference to them".

   nest_jar hands dukebox::remap::{remap_class, remap_jar_entry_name} the remapper
   ARemapperAsBRemapper(MyRemapper(map)): map_class_fail looks the name up in the map of the applicable nests,
   map_field_fail / map_method_fail answer Ok(None).  C07 owns the walk of dukebox::remap over a class tree: its table
   is regenerated from dukebox/src/remap.rs by translate/c07_remap_table.py, and C07.TreeTheory proves for EVERY
   remapper that the interpreter of that table equals the specification of reference positions (Spec.v, written from
   JVMS 4).  Here that theorem is instantiated with the nests remapper, and C07's model of quill's default methods
   (map_class, map_desc, map_class_any, map_field / map_method, map_field_ref, map_method_ref) on this remapper is proved equal to the
   functions of C14's model (Model.map_class, Model.map_desc, Model2.jr_... functions), whose answers Props/C14.v characterises
   as jar_name.  What remains outside both properties' theorems is C07's own tie: that the interpreter of the
   regenerated table is the Rust traversal (fail-closed translator + whole-tree correspondence of C07). *)
From Coq Require Import String.
From FB Require Import C14.Model C14.Model2.
From FB Require C07.Model C07.Spec C07.Tree C07.TreeTheory C07.RemapTable.
From Coq Require Import Lia.

Module M7 := FB.C07.Model.

(* the remapper of the jar side as a value of C07's remapper record *)
Definition nest_remapper (m : amap) : M7.remapper :=
  M7.mkRemapper (fun c => Ok (alookup m c)) (fun _ _ _ => Ok None) (fun _ _ _ => Ok None).

Lemma nr_map_class m c : M7.map_class (nest_remapper m) c = Ok (map_class m c).
Proof. unfold M7.map_class, map_class, nest_remapper. cbn [M7.rm_class]. destruct (alookup m c); reflexivity. Qed.

(* ---- the two formulations of map_desc agree on every string ---- *)
Lemma take_until_semi_len s n r : M7.take_until_semi s = Ok (n, r) -> (length r < length s)%nat.
Proof.
  revert n r. induction s as [|c s IH]; intros n r; cbn [M7.take_until_semi]; [discriminate|].
  destruct (N.eqb c M7.chSEMI).
  - intros [= <- <-]. cbn [length]. lia.
  - destruct (M7.take_until_semi s) as [[n' r']|]; [|discriminate]. intros [= <- <-].
    specialize (IH n' r' eq_refl). cbn [length]. lia.
Qed.

Lemma go_some f : forall s n,
  map_desc_go f s (Some n) =
  match M7.take_until_semi s with
  | Err => Err
  | Ok (n', r) =>
      match n ++ n' with
      | [] => Err
      | _ => match map_desc_go f r None with Ok o => Ok (f (n ++ n') ++ cSEMI :: o) | Err => Err end
      end
  end.
Proof.
  induction s as [|c s IH]; intros n; cbn [map_desc_go M7.take_until_semi]; [reflexivity|].
  change M7.chSEMI with cSEMI. destruct (N.eqb c cSEMI).
  - rewrite app_nil_r. destruct n; reflexivity.
  - rewrite IH. destruct (M7.take_until_semi s) as [[n' r]|]; [|reflexivity].
    rewrite <- app_assoc. reflexivity.
Qed.

Lemma map_desc_f_go m : forall fuel s, (length s < fuel)%nat ->
  M7.map_desc_f fuel (nest_remapper m) s = map_desc_go (map_class m) s None.
Proof.
  induction fuel as [|k IH]; intros s Hl; [lia|].
  destruct s as [|c s]; [reflexivity|]. cbn [M7.map_desc_f map_desc_go]. cbn [length] in Hl.
  change M7.chL with cL. destruct (N.eqb c cL) eqn:Ec.
  - apply N.eqb_eq in Ec. subst c. destruct s as [|c1 s]; [reflexivity|]. cbn [map_desc_go]. change M7.chSEMI with cSEMI.
    destruct (N.eqb c1 cSEMI); [reflexivity|]. cbn [app]. rewrite go_some. cbn [app].
    destruct (M7.take_until_semi s) as [[n r]|] eqn:Et; [|reflexivity].
    rewrite nr_map_class. apply take_until_semi_len in Et. cbn [length] in Hl.
    rewrite IH by lia. destruct (map_desc_go (map_class m) r None); reflexivity.
  - rewrite IH by lia. destruct (map_desc_go (map_class m) s None); reflexivity.
Qed.

Theorem nr_map_desc m d : M7.map_desc (nest_remapper m) d = map_desc (map_class m) d.
Proof. unfold M7.map_desc, map_desc. apply map_desc_f_go. lia. Qed.

(* ---- quill's default methods on the nests remapper are the jr_ functions of Model2 ---- *)
Lemma is_array_starts c : M7.is_array c = starts_with [cLBRACK] c.
Proof. destruct c as [|x c]; [reflexivity|]. cbn [M7.is_array starts_with]. change M7.chLBRACK with cLBRACK. rewrite N.eqb_sym. destruct (N.eqb cLBRACK x); reflexivity. Qed.

Theorem nr_map_class_any m c : M7.map_class_any (nest_remapper m) c = jr_class_any (map_class m) c.
Proof. unfold M7.map_class_any, jr_class_any. rewrite is_array_starts. destruct (starts_with [cLBRACK] c); [apply nr_map_desc|apply nr_map_class]. Qed.

Theorem nr_map_field m o n d : M7.map_field (nest_remapper m) o n d = jr_member (map_class m) (n, d).
Proof. unfold M7.map_field, M7.map_member, jr_member. cbn [M7.rm_field nest_remapper fst snd]. rewrite nr_map_desc. reflexivity. Qed.

Theorem nr_map_method m o n d : M7.map_method (nest_remapper m) o n d = jr_member (map_class m) (n, d).
Proof. unfold M7.map_method, M7.map_member, jr_member. cbn [M7.rm_method nest_remapper fst snd]. rewrite nr_map_desc. reflexivity. Qed.

Theorem nr_map_field_ref m o n d :
  M7.map_field_ref (nest_remapper m) (o, n, d)
  = match jr_member_ref (map_class m) o (n, d) with Ok (o', (n', d')) => Ok (o', n', d') | Err => Err end.
Proof.
  unfold M7.map_field_ref, jr_member_ref. rewrite nr_map_field, nr_map_class.
  destruct (jr_member (map_class m) (n, d)) as [[n' d']|]; reflexivity.
Qed.

Theorem nr_map_method_ref m o n d :
  M7.map_method_ref (nest_remapper m) (o, n, d)
  = match jr_method_ref (map_class m) o (n, d) with Ok (o', (n', d')) => Ok (o', n', d') | Err => Err end.
Proof.
  unfold M7.map_method_ref, jr_method_ref, jr_member_ref. rewrite is_array_starts, nr_map_class_any, nr_map_method.
  destruct (starts_with [cLBRACK] o) eqn:Ea.
  - destruct (jr_class_any (map_class m) o); reflexivity.
  - unfold jr_class_any. rewrite Ea. destruct (jr_member (map_class m) (n, d)) as [[n' d']|]; reflexivity.
Qed.

(* ---- every reference is rewritten ----
   For every well-typed class tree v (typed by duke's regenerated type definitions), the walk of dukebox::remap with
   the nests remapper — the interpreter of the table regenerated from dukebox/src/remap.rs — returns what the
   specification of reference positions demands: every position that carries a class name, a descriptor, a field or
   method reference, a declared member or an EnclosingMethod is rebuilt with the appropriate method of THIS remapper,
   everything else is copied.  By the theorems above those methods are map_class m and the jr_ functions on (map_class m), and
   m = jar_map (this_nests J T) makes map_class m the function jar_name J T (C14_jar_name_via_remapper). *)
Theorem refs_rewritten (J : jar) (T : table) (m : amap) (ctx : option str) (v : FB.C07.Tree.val) :
  jar_map (this_nests J T) = Ok m ->
  FB.C07.Tree.has_ty FB.C07.RemapTable.type_defs FB.C07.TreeTheory.class_ty v = true ->
  FB.C07.Tree.remap_val FB.C07.Tree.gen_table (nest_remapper m) ctx FB.C07.TreeTheory.class_ty v
  = FB.C07.Tree.spec_remap_val FB.C07.RemapTable.type_defs (nest_remapper m) ctx FB.C07.TreeTheory.class_ty v.
Proof. intros _ Ht. apply FB.C07.TreeTheory.remap_class_spec_full. exact Ht. Qed.

Theorem nest_remapper_is_jar_name J T m c :
  jar_map (this_nests J T) = Ok m ->
  M7.map_class (nest_remapper m) c = jar_name J T c.
Proof. intros H. rewrite nr_map_class. unfold jar_name. rewrite H. reflexivity. Qed.
