(* C14 theory, part 3: descriptor rewriting, apply and undo on mappings; undo ∘ apply restores
   source names and descriptors. *)
From FB Require Import C14.Model C14.Theory.
From Coq Require Import Lia.

Definition no_semi (s : str) : Prop := ~ In cSEMI s.

(* ---------- map_desc ---------- *)

(* scanning a name w (no `;` inside) that is followed by `;` *)
Lemma map_desc_name g w r a :
  no_semi w ->
  map_desc_go g (w ++ cSEMI :: r) (Some a) =
  match a ++ w with
  | [] => Err
  | _ => match map_desc_go g r None with Ok r' => Ok (g (a ++ w) ++ cSEMI :: r') | Err => Err end
  end.
Proof.
  revert a; induction w as [|c w IH]; intros a Hw.
  - rewrite app_nil_r. cbn [app map_desc_go]. rewrite N.eqb_refl. destruct a; reflexivity.
  - cbn [app map_desc_go].
    assert (Hc : N.eqb c cSEMI = false).
    { apply N.eqb_neq. intros ->. apply Hw. left. reflexivity. }
    rewrite Hc, IH.
    + replace ((a ++ [c]) ++ w) with (a ++ c :: w) by (rewrite <- app_assoc; reflexivity). reflexivity.
    + intros Hin. apply Hw. right. exact Hin.
Qed.

(* a successful scan in state (Some a): the rest of the name, `;`, the rest of the descriptor *)
Lemma map_desc_some_inv f s a r :
  map_desc_go f s (Some a) = Ok r ->
  exists w s' r', s = w ++ cSEMI :: s' /\ no_semi w /\ a ++ w <> [] /\
    map_desc_go f s' None = Ok r' /\ r = f (a ++ w) ++ cSEMI :: r' /\
    desc_names_go s (Some a) = (a ++ w) :: desc_names_go s' None.
Proof.
  revert a r; induction s as [|c s IH]; intros a r H; cbn [map_desc_go] in H; [discriminate|].
  destruct (N.eqb c cSEMI) eqn:Ec.
  - apply N.eqb_eq in Ec. subst c. destruct a as [|x a]; [discriminate|].
    destruct (map_desc_go f s None) as [r'|] eqn:Er; [|discriminate]. injection H as <-.
    exists [], s, r'. rewrite app_nil_r. cbn [app desc_names_go]. rewrite N.eqb_refl.
    repeat split; auto; [intros []|discriminate].
  - destruct (IH _ _ H) as (w & s' & r' & Hs & Hw & Hne & Hr & Hrr & Hn).
    exists (c :: w), s', r'. subst s.
    replace (a ++ c :: w) with ((a ++ [c]) ++ w) by (rewrite <- app_assoc; reflexivity).
    cbn [app desc_names_go]. rewrite Ec. repeat split; auto.
    intros [E|Hin]; [|apply Hw; exact Hin]. apply N.eqb_neq in Ec. congruence.
Qed.

(* what makes a class name survive rewriting by f and then by g *)
Definition good (f g : str -> str) (n : str) : Prop := g (f n) = n /\ no_semi (f n) /\ f n <> [].

Lemma map_desc_roundtrip_len f g : forall k s r,
  (length s <= k)%nat ->
  map_desc_go f s None = Ok r ->
  (forall n, In n (desc_names_go s None) -> no_semi n -> n <> [] -> good f g n) ->
  map_desc_go g r None = Ok s.
Proof.
  induction k as [|k IH]; intros s r Hlen H Hgood.
  - destruct s; [|cbn [length] in Hlen; lia]. cbn in H. injection H as <-. reflexivity.
  - destruct s as [|c s]; [cbn in H; injection H as <-; reflexivity|].
    cbn [map_desc_go] in H. cbn [length] in Hlen.
    destruct (N.eqb c cL) eqn:Ec.
    + destruct (map_desc_go f s (Some [])) as [r1|] eqn:E1; [|discriminate]. injection H as <-.
      destruct (map_desc_some_inv _ _ _ _ E1) as (w & s' & r' & Hs & Hw & Hne & Hr & Hrr & Hn).
      cbn [app] in *.
      assert (Hnames : desc_names_go (c :: s) None = w :: desc_names_go s' None)
        by (cbn [desc_names_go]; rewrite Ec; exact Hn).
      rewrite Hnames in Hgood. clear Hnames Hn. subst s r1.
      destruct (Hgood w (or_introl eq_refl) Hw Hne) as (Hgf & Hsemi & Hnon).
      assert (Hrec : map_desc_go g r' None = Ok s').
      { apply (IH s' r'); [rewrite app_length in Hlen; cbn [length] in Hlen; lia|exact Hr|].
        intros n Hin. apply Hgood. right. exact Hin. }
      cbn [map_desc_go]. rewrite Ec. cbv iota.
      pose proof (map_desc_name g (f w) r' [] Hsemi) as Hx. unfold str in *. rewrite Hx. clear Hx. cbn [app].
      assert (Hm : forall (A : Type) (l : list N) (a b : A), l <> [] -> match l with [] => a | _ :: _ => b end = b)
        by (intros A [|? ?] a b Hl; [congruence|reflexivity]).
      rewrite Hm by exact Hnon. rewrite Hrec, Hgf. reflexivity.
    + destruct (map_desc_go f s None) as [r1|] eqn:E1; [|discriminate]. injection H as <-.
      cbn [map_desc_go]. rewrite Ec. cbv iota.
      rewrite (IH s r1); [reflexivity|lia|exact E1|].
      intros n Hin. apply Hgood. cbn [desc_names_go]. rewrite Ec. exact Hin.
Qed.

Theorem map_desc_roundtrip f g d r :
  map_desc f d = Ok r ->
  (forall n, In n (desc_names d) -> no_semi n -> n <> [] -> good f g n) ->
  map_desc g r = Ok d.
Proof. unfold map_desc, desc_names. intros. eapply map_desc_roundtrip_len; eauto. Qed.

(* ---------- inverse of the translation ---------- *)

Definition inj_on (f : str -> str) (S : list str) : Prop :=
  forall x y, In x S -> In y S -> f x = f y -> x = y.
Definition inj_onb (f : str -> str) (S : list str) : bool :=
  forallb (fun x => forallb (fun y => implb (str_eqb (f x) (f y)) (str_eqb x y)) S) S.

Lemma inj_onb_spec f S : inj_onb f S = true <-> inj_on f S.
Proof.
  unfold inj_onb, inj_on. rewrite forallb_forall. split.
  - intros H x y Hx Hy E. specialize (H x Hx). rewrite forallb_forall in H. specialize (H y Hy).
    rewrite E, str_eqb_refl in H. cbn in H. apply str_eqb_eq. exact H.
  - intros H x Hx. rewrite forallb_forall. intros y Hy.
    destruct (str_eqb_spec (f x) (f y)) as [E|_]; [|reflexivity].
    cbn. apply str_eqb_eq. apply H; assumption.
Qed.

Lemma inverse_in m k v : In (v, k) (inverse m) <-> In (k, v) m.
Proof.
  unfold inverse. rewrite in_map_iff. split.
  - intros ([a b] & [= <- <-] & Hin). exact Hin.
  - intros Hin. exists (k, v). auto.
Qed.

Lemma inverse_translation m S :
  NoDup (map fst m) -> incl (map fst m) S -> inj_on (map_class m) S ->
  forall c, In c S -> map_class (inverse m) (map_class m c) = c.
Proof.
  intros Hnd Hincl Hinj c Hc. unfold map_class at 1.
  destruct (alookup (inverse m) (map_class m c)) as [k|] eqn:E.
  - apply alookup_some in E. apply (proj1 (inverse_in _ _ _)) in E.
    assert (Hk : map_class m k = map_class m c).
    { unfold map_class at 1. rewrite (alookup_in m k _ Hnd E). reflexivity. }
    apply Hinj; [apply Hincl; change k with (fst (k, map_class m c)); apply in_map; exact E|exact Hc|exact Hk].
  - apply alookup_none in E. unfold map_class in *.
    destruct (alookup m c) as [v|] eqn:E2; [|reflexivity].
    exfalso. apply E. apply alookup_some in E2. apply (proj2 (inverse_in _ _ _)) in E2.
    change v with (fst (v, c)). apply in_map. exact E2.
Qed.

(* ---------- names produced by the translation ---------- *)

Definition table_ok (T : table) : Prop :=
  NoDup (keys T) /\ forall n, In n T -> no_semi (n_encl n) /\ no_semi (n_inner n).

Lemma trans_no_semi T c r : table_ok T -> trans T c r -> no_semi c -> no_semi r.
Proof.
  intros [_ Hok]. induction 1 as [c Hn|c n a Hf _ IH]; intros Hc; [exact Hc|].
  apply find_nest_some in Hf. destruct Hf as [Hin _]. destruct (Hok n Hin) as [He Hi].
  unfold join_inner, no_semi. rewrite in_app_iff. intros [H|[H|H]].
  - apply (IH He). exact H.
  - discriminate.
  - apply Hi. exact H.
Qed.

Lemma trans_nonempty T c r : trans T c r -> c <> [] -> r <> [].
Proof.
  destruct 1; [auto|]. intros _. unfold join_inner. destruct a; discriminate.
Qed.

Lemma map_class_trans T m c : NoDup (keys T) -> translation T = Ok m -> trans T c (map_class m c).
Proof.
  intros Hnd Em. apply mapping_name_trans; [exact Hnd|]. unfold mapping_name. rewrite Em. reflexivity.
Qed.

(* ---------- add_children ---------- *)

Lemma add_children_ok {A K} (key : A -> option K) keqb f l acc r :
  add_children key keqb f l acc = OOk r ->
  exists l', Forall2 (fun x y => f x = OOk y) l l' /\ r = acc ++ l'.
Proof.
  revert acc r; induction l as [|x l IH]; intros acc r H; cbn [add_children] in H.
  - injection H as <-. exists []. rewrite app_nil_r. auto.
  - destruct (f x) as [y| |] eqn:Ef; try discriminate.
    destruct (key y) as [k|]; [|discriminate].
    destruct (existsb _ acc); [discriminate|].
    destruct (IH _ _ H) as (l' & Hl' & ->). exists (y :: l'). rewrite <- app_assoc. auto.
Qed.

Lemma add_children_complete {A K} (key : A -> option K) keqb f l l' acc :
  (forall a b, keqb a b = true <-> a = b) ->
  Forall2 (fun x y => f x = OOk y) l l' ->
  (forall y, In y l' -> key y <> None) ->
  NoDup (map key (acc ++ l')) ->
  add_children key keqb f l acc = OOk (acc ++ l').
Proof.
  intros Hk H. revert acc. induction H as [|x y l l' Hxy _ IH]; intros acc Hsome Hnd; cbn [add_children].
  - rewrite app_nil_r. reflexivity.
  - rewrite Hxy. destruct (key y) as [k|] eqn:Eky; [|exfalso; apply (Hsome y (or_introl eq_refl)); exact Eky].
    assert (Hex : existsb (fun z => opt_eqb keqb (key z) (Some k)) acc = false).
    { destruct (existsb _ acc) eqn:E; [|reflexivity]. exfalso.
      apply existsb_exists in E. destruct E as (z & Hz & Ez).
      destruct (key z) as [kz|] eqn:Ekz; [|discriminate]. cbn [opt_eqb] in Ez. apply Hk in Ez. subst kz.
      rewrite map_app in Hnd. cbn [map] in Hnd. apply NoDup_remove_2 in Hnd. apply Hnd.
      apply in_or_app. left. rewrite Eky, <- Ekz. apply in_map. exact Hz. }
    rewrite Hex. replace (acc ++ y :: l') with ((acc ++ [y]) ++ l') by (rewrite <- app_assoc; reflexivity).
    apply IH.
    + intros z Hz. apply Hsome. right. exact Hz.
    + rewrite <- app_assoc. exact Hnd.
Qed.

(* ---------- well-formed mappings give unique keys ---------- *)

Lemma nodupb_NoDup {A} (eqb : A -> A -> bool) l :
  (forall a b, eqb a b = true <-> a = b) -> nodupb eqb l = true -> NoDup l.
Proof.
  intros He. induction l as [|x l IH]; intros H; [constructor|].
  cbn [nodupb] in H. apply andb_true_iff in H. destruct H as [Hx Hl]. constructor; [|apply IH; exact Hl].
  intros Hin. apply negb_true_iff in Hx.
  assert (E : existsb (eqb x) l = true) by (apply existsb_exists; exists x; split; [exact Hin|apply He; reflexivity]).
  congruence.
Qed.

Lemma key2_eqb_eq a b : key2_eqb a b = true <-> a = b.
Proof.
  destruct a as [a1 a2], b as [b1 b2]. unfold key2_eqb. cbn [fst snd].
  rewrite andb_true_iff, !str_eqb_eq. split; [intros [-> ->]; reflexivity|intros [= -> ->]; auto].
Qed.

Lemma okey_eqb_eq {K} (eqb : K -> K -> bool) :
  (forall a b, eqb a b = true <-> a = b) -> forall a b, okey_eqb eqb a b = true <-> a = b.
Proof.
  intros He [a|] [b|]; unfold okey_eqb; cbn [opt_eqb]; try (split; congruence).
  rewrite He. split; congruence.
Qed.

Definition class_keys_ok (c : class) : Prop :=
  NoDup (map field_key (c_fields c)) /\ (forall f, In f (c_fields c) -> field_key f <> None) /\
  NoDup (map meth_key (c_methods c)) /\ (forall m, In m (c_methods c) -> meth_key m <> None).
Definition keys_ok (M : mappings) : Prop :=
  NoDup (map class_key (ms_classes M)) /\ forall c, In c (ms_classes M) -> class_keys_ok c.

Lemma is_some_not_none {A} (o : option A) : is_some o = true -> o <> None.
Proof. destruct o; [discriminate|discriminate]. Qed.

Lemma wf_keys_ok M : wf M = true -> keys_ok M.
Proof.
  unfold wf. rewrite !andb_true_iff. intros [[[_ _] Hcs] Hnd]. split.
  - eapply nodupb_NoDup; [|exact Hnd]. apply okey_eqb_eq. apply str_eqb_eq.
  - intros c Hc. rewrite forallb_forall in Hcs. specialize (Hcs c Hc).
    unfold wf_class in Hcs. rewrite !andb_true_iff in Hcs.
    destruct Hcs as [[[[[_ _] Hf] Hfn] Hm] Hmn]. repeat split.
    + eapply nodupb_NoDup; [|exact Hfn]. apply okey_eqb_eq. apply key2_eqb_eq.
    + intros f Hin. rewrite forallb_forall in Hf. specialize (Hf f Hin). unfold wf_field in Hf.
      apply andb_true_iff in Hf. apply is_some_not_none. apply Hf.
    + eapply nodupb_NoDup; [|exact Hmn]. apply okey_eqb_eq. apply key2_eqb_eq.
    + intros m Hin. rewrite forallb_forall in Hm. specialize (Hm m Hin). unfold wf_meth in Hm.
      rewrite !andb_true_iff in Hm. apply is_some_not_none. apply Hm.
Qed.

(* ---------- rewriting a mapping set and rewriting it back ---------- *)

(* the class names a mapping set mentions in its source namespace *)
Definition class_descs (c : class) : list str := map f_desc (c_fields c) ++ map m_desc (c_methods c).
Definition desc_classes (M : mappings) : list str :=
  flat_map (fun c => flat_map desc_names (class_descs c)) (ms_classes M).
Definition key_classes (M : mappings) : list str :=
  flat_map (fun c => match class_key c with Some k => [k] | None => [] end) (ms_classes M).
Definition source_classes (M : mappings) : list str := key_classes M ++ desc_classes M.

(* everything but the classes' target names *)
Definition forget_dst (c : class) : class :=
  mkClass (match c_names c with a :: _ :: r => a :: None :: r | l => l end) (c_doc c) (c_fields c) (c_methods c).
Definition src_view (M : mappings) : mappings :=
  mkMappings (ms_ns M) (ms_doc M) (map forget_dst (ms_classes M)).

Lemma rw_field_back tr inv f f1 :
  (forall n, In n (desc_names (f_desc f)) -> no_semi n -> n <> [] -> good tr inv n) ->
  rw_field tr f = OOk f1 -> rw_field inv f1 = OOk f /\ f_names f1 = f_names f.
Proof.
  intros Hg H. unfold rw_field in *. destruct (map_desc tr (f_desc f)) as [d|] eqn:E; [|discriminate].
  injection H as <-. cbn [f_desc f_names f_doc]. rewrite (map_desc_roundtrip tr inv _ _ E Hg).
  destruct f; auto.
Qed.

Lemma rw_meth_back tr inv f f1 :
  (forall n, In n (desc_names (m_desc f)) -> no_semi n -> n <> [] -> good tr inv n) ->
  rw_meth tr f = OOk f1 -> rw_meth inv f1 = OOk f /\ m_names f1 = m_names f.
Proof.
  intros Hg H. unfold rw_meth in *. destruct (map_desc tr (m_desc f)) as [d|] eqn:E; [|discriminate].
  injection H as <-. cbn [m_desc m_names m_doc m_params]. rewrite (map_desc_roundtrip tr inv _ _ E Hg).
  destruct f; auto.
Qed.

Lemma Forall2_flip_impl {A B} (R : A -> B -> Prop) (Q : B -> A -> Prop) l l' :
  Forall2 R l l' -> (forall x y, In x l -> R x y -> Q y x) -> Forall2 Q l' l.
Proof.
  induction 1 as [|x y l l' Hxy _ IH]; intros H; constructor.
  - apply H; [left; reflexivity|exact Hxy].
  - apply IH. intros a b Ha. apply H. right. exact Ha.
Qed.

Lemma rw_class_back tr dtr inv dtr2 c c1 :
  class_keys_ok c ->
  (forall d n, In d (class_descs c) -> In n (desc_names d) -> no_semi n -> n <> [] -> good tr inv n) ->
  (forall k, class_key c = Some k -> inv (tr k) = k) ->
  rw_class tr dtr c = OOk c1 ->
  exists c2, rw_class inv dtr2 c1 = OOk c2 /\ forget_dst c2 = forget_dst c /\ class_key c2 = class_key c.
Proof.
  intros (Hfnd & Hfs & Hmnd & Hms) Hg Hk H. unfold rw_class in H.
  destruct (c_names c) as [|[src|] [|d [|? ?]]] eqn:En; try discriminate.
  destruct (add_children field_key key2_eqb (rw_field tr) (c_fields c) []) as [fs1| |] eqn:Ef; try discriminate.
  destruct (add_children meth_key key2_eqb (rw_meth tr) (c_methods c) []) as [ms1| |] eqn:Em; try discriminate.
  cbn [obind] in H. injection H as <-.
  apply add_children_ok in Ef. destruct Ef as (fs1' & Hf2 & ->).
  apply add_children_ok in Em. destruct Em as (ms1' & Hm2 & ->). cbn [app] in *.
  assert (Hfb : Forall2 (fun f1 f => rw_field inv f1 = OOk f) fs1' (c_fields c)).
  { eapply Forall2_flip_impl; [exact Hf2|]. intros f f1 Hin Hr. cbn beta in Hr.
    eapply rw_field_back; [|exact Hr]. intros n Hn. apply (Hg (f_desc f)); [|exact Hn].
    unfold class_descs. apply in_or_app. left. apply in_map. exact Hin. }
  assert (Hmb : Forall2 (fun f1 f => rw_meth inv f1 = OOk f) ms1' (c_methods c)).
  { eapply Forall2_flip_impl; [exact Hm2|]. intros f f1 Hin Hr. cbn beta in Hr.
    eapply rw_meth_back; [|exact Hr]. intros n Hn. apply (Hg (m_desc f)); [|exact Hn].
    unfold class_descs. apply in_or_app. right. apply in_map. exact Hin. }
  exists (mkClass [Some src; option_map dtr2 (option_map dtr d)] (c_doc c) (c_fields c) (c_methods c)).
  unfold rw_class. cbn [c_names c_fields c_methods c_doc].
  rewrite (add_children_complete field_key key2_eqb (rw_field inv) fs1' (c_fields c) [] key2_eqb_eq Hfb Hfs Hfnd).
  rewrite (add_children_complete meth_key key2_eqb (rw_meth inv) ms1' (c_methods c) [] key2_eqb_eq Hmb Hms Hmnd).
  cbn [obind app]. rewrite (Hk src); [|unfold class_key; rewrite En; reflexivity].
  split; [reflexivity|]. unfold forget_dst, class_key. cbn [c_names c_doc c_fields c_methods]. rewrite En.
  split; reflexivity.
Qed.

Lemma Forall2_mono {A B} (R Q : A -> B -> Prop) l l' :
  (forall x y, R x y -> Q x y) -> Forall2 R l l' -> Forall2 Q l l'.
Proof. intros H; induction 1; constructor; auto. Qed.

Lemma Forall2_build {A B C} (R : A -> B -> Prop) (Q : B -> C -> Prop) (P : A -> C -> Prop) l l1 :
  Forall2 R l l1 ->
  (forall x y, In x l -> R x y -> exists z, Q y z /\ P x z) ->
  exists l2, Forall2 Q l1 l2 /\ Forall2 P l l2.
Proof.
  induction 1 as [|x y l l1 Hxy _ IH]; intros H; [exists []; split; constructor|].
  destruct (H x y (or_introl eq_refl) Hxy) as (z & Hq & Hp).
  destruct IH as (l2 & H1 & H2); [intros a b Ha; apply H; right; exact Ha|].
  exists (z :: l2). split; constructor; auto.
Qed.

Lemma rw_mappings_back tr dtr inv dtr2 M M1 :
  keys_ok M ->
  (forall n, In n (desc_classes M) -> no_semi n -> n <> [] -> good tr inv n) ->
  (forall k, In k (key_classes M) -> inv (tr k) = k) ->
  rw_mappings tr dtr M = OOk M1 ->
  exists M2, rw_mappings inv dtr2 M1 = OOk M2 /\ src_view M2 = src_view M.
Proof.
  intros [Hnd Hck] Hg Hk H. unfold rw_mappings in H.
  destruct (add_children class_key str_eqb (rw_class tr dtr) (ms_classes M) []) as [cs1| |] eqn:E; try discriminate.
  cbn [obind] in H. injection H as <-.
  apply add_children_ok in E. destruct E as (cs1' & H2 & ->). cbn [app].
  destruct (Forall2_build _ (fun c1 c2 => rw_class inv dtr2 c1 = OOk c2)
              (fun c c2 => forget_dst c2 = forget_dst c /\ class_key c2 = class_key c /\ class_key c2 <> None) _ _ H2)
    as (cs2 & Hq & Hp).
  { intros c c1 Hin Hr. cbn beta in Hr.
    destruct (rw_class_back tr dtr inv dtr2 c c1 (Hck c Hin)) as (c2 & Hc2 & Hfd & Hkey); [| |exact Hr|].
    - intros d n Hd Hn. apply Hg. unfold desc_classes. apply in_flat_map. exists c. split; [exact Hin|].
      apply in_flat_map. exists d. auto.
    - intros k Ek. apply Hk. unfold key_classes. apply in_flat_map. exists c. split; [exact Hin|].
      rewrite Ek. left. reflexivity.
    - exists c2. repeat split; auto. rewrite Hkey. unfold rw_class in Hr.
      unfold class_key. destruct (c_names c) as [|[src|] ?]; try discriminate. }
  exists (mkMappings (ms_ns M) (ms_doc M) cs2). unfold rw_mappings. cbn [ms_classes ms_ns ms_doc].
  assert (Hkeys : map class_key cs2 = map class_key (ms_classes M)).
  { clear -Hp. induction Hp as [|c c2 l l2 (_ & Hk & _) _ IH]; [reflexivity|]. cbn [map]. rewrite Hk, IH. reflexivity. }
  rewrite (add_children_complete class_key str_eqb (rw_class inv dtr2) cs1' cs2 [] str_eqb_eq Hq).
  - cbn [obind app]. split; [reflexivity|]. unfold src_view. cbn [ms_classes ms_ns ms_doc]. f_equal.
    clear -Hp. induction Hp as [|c c2 l l2 (Hf & _) _ IH]; [reflexivity|]. cbn [map]. rewrite Hf, IH. reflexivity.
  - intros y Hy. clear -Hp Hy. induction Hp as [|c c2 l l2 (_ & _ & Hn) _ IH]; [destruct Hy|].
    destruct Hy as [<-|Hy]; auto.
  - cbn [app]. rewrite Hkeys. exact Hnd.
Qed.

(* Theorem 4.  Applying a table to mappings and undoing it restores the source names and the
   descriptors (everything but the classes' target names), provided the translation is injective
   on the classes of the table and of the mappings. *)
Theorem undo_apply T M M1 m :
  table_ok T -> wf M = true ->
  translation T = Ok m ->
  inj_on (map_class m) (keys T ++ source_classes M) ->
  apply_nests M T = OOk M1 ->
  exists M2, undo_nests M1 T = OOk M2 /\ src_view M2 = src_view M.
Proof.
  intros Hok Hwf Em Hinj Happ. pose proof Hok as [Hnd _].
  unfold apply_nests in Happ.
  destruct (map_nests T M) as [T'|]; [|discriminate]. cbn [of_res obind] in Happ.
  rewrite Em in Happ. cbn [of_res obind] in Happ.
  destruct (translation T') as [m'|]; [|discriminate]. cbn [of_res obind] in Happ.
  unfold undo_nests. rewrite Em. cbn [of_res obind].
  assert (Hinv : forall c, In c (keys T ++ source_classes M) -> map_class (inverse m) (map_class m c) = c).
  { apply inverse_translation.
    - rewrite (translation_keys T m Em). exact Hnd.
    - rewrite (translation_keys T m Em). intros x Hx. apply in_or_app. left. exact Hx.
    - exact Hinj. }
  eapply rw_mappings_back; [apply wf_keys_ok; exact Hwf| | |exact Happ].
  - intros n Hn Hsemi Hne. split; [|split].
    + apply Hinv. apply in_or_app. right. unfold source_classes. apply in_or_app. right. exact Hn.
    + eapply trans_no_semi; [exact Hok|apply map_class_trans; eassumption|exact Hsemi].
    + eapply trans_nonempty; [apply map_class_trans; eassumption|exact Hne].
  - intros k Hkin. apply Hinv. apply in_or_app. right. unfold source_classes. apply in_or_app. left. exact Hkin.
Qed.

(* what apply does to the source side: every class key is renamed by the translation and every
   descriptor is rewritten by it; nothing else of a member changes *)
Theorem apply_renames T M M1 m :
  translation T = Ok m -> apply_nests M T = OOk M1 ->
  Forall2 (fun c c1 =>
      (exists src, class_key c = Some src /\ class_key c1 = Some (map_class m src)) /\
      Forall2 (fun f f1 => map_desc (map_class m) (f_desc f) = Ok (f_desc f1) /\ f_names f1 = f_names f /\ f_doc f1 = f_doc f)
              (c_fields c) (c_fields c1) /\
      Forall2 (fun f f1 => map_desc (map_class m) (m_desc f) = Ok (m_desc f1) /\ m_names f1 = m_names f /\ m_doc f1 = m_doc f /\ m_params f1 = m_params f)
              (c_methods c) (c_methods c1) /\
      c_doc c1 = c_doc c)
    (ms_classes M) (ms_classes M1).
Proof.
  intros Em Happ. unfold apply_nests in Happ.
  destruct (map_nests T M) as [T'|]; [|discriminate]. cbn [of_res obind] in Happ.
  rewrite Em in Happ. cbn [of_res obind] in Happ.
  destruct (translation T') as [m'|]; [|discriminate]. cbn [of_res obind] in Happ.
  unfold rw_mappings in Happ.
  destruct (add_children class_key str_eqb _ (ms_classes M) []) as [cs1| |] eqn:E; try discriminate.
  cbn [obind] in Happ. injection Happ as <-. cbn [ms_classes].
  apply add_children_ok in E. destruct E as (cs1' & H2 & ->). cbn [app].
  eapply Forall2_mono; [|exact H2]. intros c c1 Hr. cbn beta in Hr. unfold rw_class in Hr.
  destruct (c_names c) as [|[src|] [|d [|? ?]]] eqn:En; try discriminate.
  destruct (add_children field_key key2_eqb _ (c_fields c) []) as [fs1| |] eqn:Ef; try discriminate.
  destruct (add_children meth_key key2_eqb _ (c_methods c) []) as [ms1| |] eqn:Emm; try discriminate.
  cbn [obind] in Hr. injection Hr as <-. cbn [c_fields c_methods c_doc].
  apply add_children_ok in Ef. destruct Ef as (fs1' & Hf2 & ->).
  apply add_children_ok in Emm. destruct Emm as (ms1' & Hm2 & ->). cbn [app].
  split; [exists src; unfold class_key; cbn [c_names]; rewrite En; auto|].
  split; [|split; [|reflexivity]].
  - eapply Forall2_mono; [|exact Hf2]. intros f f1 Hf. cbn beta in Hf. unfold rw_field in Hf.
    destruct (map_desc (map_class m) (f_desc f)); [|discriminate]. injection Hf as <-. auto.
  - eapply Forall2_mono; [|exact Hm2]. intros f f1 Hf. cbn beta in Hf. unfold rw_meth in Hf.
    destruct (map_desc (map_class m) (m_desc f)); [|discriminate]. injection Hf as <-. auto.
Qed.
