(* C14 theory, part 2: the filter of nest_jar (which listed classes are actually nested),
   strip_local_class_prefix, the anonymous-index rule. *)
From FB Require Import C14.Model C14.Theory.
From Coq Require Import Lia.

(* ---------- the filter ---------- *)

(* the set of classes counted as present after the filter closure has run over T:
   the classes of the jar plus the enclosing classes created so far *)
Fixpoint present_after (T : table) (present : list str) : list str :=
  match T with
  | [] => present
  | n :: T' =>
      if negb (mem_str (n_class n) present) then present_after T' present
      else present_after T' (if negb (mem_str (n_encl n) present) then present ++ [n_encl n] else present)
  end.

Lemma filter_fst_indep J T p cr cr' : fst (filter_nests J T p cr) = fst (filter_nests J T p cr').
Proof.
  revert p cr cr'; induction T as [|n T IH]; intros p cr cr'; cbn [filter_nests]; [reflexivity|].
  destruct (negb (mem_str (n_class n) p)); [apply IH|].
  set (p' := if negb (mem_str (n_encl n) p) then p ++ [n_encl n] else p).
  specialize (IH p' (if negb (mem_str (n_encl n) p) then cr ++ [n_encl n] else cr)
                    (if negb (mem_str (n_encl n) p) then cr' ++ [n_encl n] else cr')).
  destruct (filter_nests J T p' _) as [F1 c1]. destruct (filter_nests J T p' _) as [F2 c2].
  cbn [fst] in *. rewrite IH. reflexivity.
Qed.

Lemma filter_app J T1 T2 p cr :
  fst (filter_nests J (T1 ++ T2) p cr) =
  fst (filter_nests J T1 p cr) ++ fst (filter_nests J T2 (present_after T1 p) []).
Proof.
  revert p cr; induction T1 as [|n T1 IH]; intros p cr; cbn [app filter_nests present_after].
  - apply filter_fst_indep.
  - destruct (negb (mem_str (n_class n) p)); [apply IH|].
    set (p' := if negb (mem_str (n_encl n) p) then p ++ [n_encl n] else p).
    set (cr' := if negb (mem_str (n_encl n) p) then cr ++ [n_encl n] else cr).
    specialize (IH p' cr').
    destruct (filter_nests J (T1 ++ T2) p' cr') as [F c]. destruct (filter_nests J T1 p' cr') as [F1 c1].
    cbn [fst] in *. rewrite IH. destruct (kind_rule J n); reflexivity.
Qed.

Lemma filter_incl J T p cr : incl (fst (filter_nests J T p cr)) T.
Proof.
  revert p cr; induction T as [|n T IH]; intros p cr; cbn [filter_nests]; [intros x []|].
  destruct (negb (mem_str (n_class n) p)).
  - intros x Hx. right. eapply IH; eauto.
  - destruct (filter_nests J T _ _) as [F c] eqn:E. cbn [fst].
    assert (HF : incl F T) by (intros x Hx; eapply (IH _ _ x); rewrite E; exact Hx).
    destruct (kind_rule J n); intros x Hx.
    + destruct Hx as [<-|Hx]; [left; reflexivity|right; apply HF; exact Hx].
    + right. apply HF; exact Hx.
Qed.

Lemma filter_head J n T p cr :
  In n (fst (filter_nests J (n :: T) p cr)) <->
  (mem_str (n_class n) p = true /\ kind_rule J n = true) \/
  In n (fst (filter_nests J T (present_after [n] p) [])).
Proof.
  cbn [filter_nests present_after].
  destruct (mem_str (n_class n) p) eqn:Ep; cbn [negb].
  - set (p' := if negb (mem_str (n_encl n) p) then p ++ [n_encl n] else p).
    set (cr' := if negb (mem_str (n_encl n) p) then cr ++ [n_encl n] else cr).
    pose proof (filter_fst_indep J T p' cr' []) as Hi.
    destruct (filter_nests J T p' cr') as [F0 c0]. cbn [fst] in Hi. subst F0.
    destruct (filter_nests J T p' []) as [F c]. cbn [fst].
    destruct (kind_rule J n); split.
    + intros _. left. auto.
    + intros _. left. reflexivity.
    + intros H. right. exact H.
    + intros [[_ H]|H]; [discriminate|exact H].
  - rewrite (filter_fst_indep J T p cr []). split; [intros H; right; exact H|].
    intros [[H _]|H]; [discriminate|exact H].
Qed.

(* Theorem 2.  A listed class is nested iff, when the filter reaches its entry, the class is
   present (in the jar, or created before as the missing enclosing class of an earlier entry)
   and the entry satisfies the rule of its kind. *)
Theorem filter_spec J T1 n T2 :
  NoDup (keys (T1 ++ n :: T2)) ->
  (In n (this_nests J (T1 ++ n :: T2)) <->
   mem_str (n_class n) (present_after T1 (jar_classes J)) = true /\ kind_rule J n = true).
Proof.
  intros Hnd. unfold this_nests. rewrite filter_app.
  assert (Hn1 : ~ In n T1).
  { intros Hin. unfold keys in Hnd. rewrite map_app in Hnd. cbn [map] in Hnd.
    apply NoDup_remove_2 in Hnd. apply Hnd. apply in_or_app. left. apply in_map. exact Hin. }
  assert (Hn2 : ~ In n T2).
  { intros Hin. unfold keys in Hnd. rewrite map_app in Hnd. cbn [map] in Hnd.
    apply NoDup_remove_2 in Hnd. apply Hnd. apply in_or_app. right. apply in_map. exact Hin. }
  rewrite in_app_iff, filter_head. split.
  - intros [H|[H|H]].
    + exfalso. apply Hn1. eapply filter_incl; eauto.
    + exact H.
    + exfalso. apply Hn2. eapply filter_incl; eauto.
  - intros H. right. left. exact H.
Qed.

Theorem this_nests_incl J T : incl (this_nests J T) T.
Proof. apply filter_incl. Qed.

(* the simple situation: no enclosing class has to be created before the entry is reached
   (every earlier entry's enclosing class is in the jar): "present" is "in the jar" *)
Lemma present_after_jar T p :
  (forall m, In m T -> mem_str (n_class m) p = true -> mem_str (n_encl m) p = true) ->
  present_after T p = p.
Proof.
  induction T as [|m T IH]; intros H; cbn [present_after]; [reflexivity|].
  destruct (mem_str (n_class m) p) eqn:Ec; cbn [negb].
  - rewrite (H m (or_introl eq_refl) Ec). cbn [negb]. apply IH. intros; apply H; auto. right; assumption.
  - apply IH. intros; apply H; auto. right; assumption.
Qed.

Corollary filter_spec_jar J T1 n T2 :
  NoDup (keys (T1 ++ n :: T2)) ->
  (forall m, In m T1 -> In (n_class m) (jar_classes J) -> In (n_encl m) (jar_classes J)) ->
  (In n (this_nests J (T1 ++ n :: T2)) <-> In (n_class n) (jar_classes J) /\ kind_rule J n = true).
Proof.
  intros Hnd H. rewrite filter_spec by exact Hnd. rewrite present_after_jar.
  - rewrite mem_str_In. reflexivity.
  - intros m Hm Hc. apply mem_str_In. apply H; [exact Hm|]. apply mem_str_In. exact Hc.
Qed.

Lemma present_after_created J T p cr :
  exists new, snd (filter_nests J T p cr) = cr ++ new /\ present_after T p = p ++ new.
Proof.
  revert p cr; induction T as [|n T IH]; intros p cr; cbn [filter_nests present_after].
  - exists []. rewrite !app_nil_r. auto.
  - destruct (negb (mem_str (n_class n) p)); [apply IH|].
    destruct (negb (mem_str (n_encl n) p)).
    + destruct (IH (p ++ [n_encl n]) (cr ++ [n_encl n])) as (new & H1 & H2).
      destruct (filter_nests J T (p ++ [n_encl n]) (cr ++ [n_encl n])) as [F c]. cbn [snd] in *.
      exists (n_encl n :: new). rewrite H1, H2, <- !app_assoc. auto.
    + destruct (IH p cr) as (new & H1 & H2).
      destruct (filter_nests J T p cr) as [F c]. cbn [snd] in *. exists new. auto.
Qed.

(* every entry that is kept has its enclosing class in the output: in the jar or created *)
Theorem enclosing_class_exists J T n :
  In n (this_nests J T) -> In (n_encl n) (jar_classes J ++ new_classes J T).
Proof.
  unfold this_nests, new_classes.
  destruct (present_after_created J T (jar_classes J) []) as (new & Hs & Hp).
  rewrite Hs. cbn [app]. rewrite <- Hp. clear Hs Hp new.
  generalize (jar_classes J) as p. generalize (@nil str) as cr.
  induction T as [|m T IH]; intros cr p; cbn [filter_nests present_after]; [intros []|].
  destruct (mem_str (n_class m) p) eqn:Ec; cbn [negb]; [|apply IH].
  set (p' := if negb (mem_str (n_encl m) p) then p ++ [n_encl m] else p).
  specialize (IH (if negb (mem_str (n_encl m) p) then cr ++ [n_encl m] else cr) p').
  destruct (filter_nests J T p' _) as [F c]. cbn [fst] in *.
  assert (Hmono : forall T0 q x, In x q -> In x (present_after T0 q)).
  { clear. induction T0 as [|k T0 IH0]; intros q x Hx; cbn [present_after]; [exact Hx|].
    destruct (negb (mem_str (n_class k) q)); [apply IH0; exact Hx|].
    apply IH0. destruct (negb (mem_str (n_encl k) q)); [apply in_or_app; left|]; exact Hx. }
  assert (Hm : In (n_encl m) (present_after T p')).
  { apply Hmono. subst p'. destruct (mem_str (n_encl m) p) eqn:Ee; cbn [negb].
    - apply mem_str_In. exact Ee.
    - apply in_or_app. right. left. reflexivity. }
  destruct (kind_rule J m); [intros [<-|H]|intros H]; auto.
Qed.

(* ---------- strip_local_class_prefix ---------- *)

Lemma drop_digits_spec s : exists d, s = d ++ drop_digits s /\ forallb is_digit d = true /\
  match drop_digits s with c :: _ => is_digit c = false | [] => True end.
Proof.
  induction s as [|c s IH]; cbn [drop_digits].
  - exists []. auto.
  - destruct (is_digit c) eqn:Ec.
    + destruct IH as (d & Hs & Hd & Hr). exists (c :: d). cbn [app forallb]. rewrite Ec, Hd.
      split; [f_equal; exact Hs|auto].
    + exists []. cbn [app forallb]. auto.
Qed.

(* Theorem: the leading digits are removed, unless nothing would remain *)
Theorem strip_local_class_prefix_spec s :
  exists d r, s = d ++ r /\ forallb is_digit d = true /\
    match r with
    | c :: _ => is_digit c = false /\ strip_local_class_prefix s = r
    | [] => strip_local_class_prefix s = s
    end.
Proof.
  destruct (drop_digits_spec s) as (d & Hs & Hd & Hr).
  exists d, (drop_digits s). split; [exact Hs|]. split; [exact Hd|].
  unfold strip_local_class_prefix. destruct (drop_digits s) as [|c r]; auto.
Qed.

Corollary strip_all_digits s : forallb is_digit s = true -> strip_local_class_prefix s = s.
Proof.
  intros H. unfold strip_local_class_prefix.
  assert (E : drop_digits s = []).
  { induction s as [|c s IH]; [reflexivity|]. cbn [forallb] in H. apply andb_true_iff in H.
    destruct H as [Hc Hs]. cbn [drop_digits]. rewrite Hc. apply IH. exact Hs. }
  rewrite E. reflexivity.
Qed.

Corollary strip_idempotent s : strip_local_class_prefix (strip_local_class_prefix s) = strip_local_class_prefix s.
Proof.
  destruct (strip_local_class_prefix_spec s) as (d & r & Hs & Hd & Hr).
  destruct r as [|c r].
  - rewrite Hr. rewrite app_nil_r in Hs. subst s. rewrite Hr. reflexivity.
  - destruct Hr as [Hc ->]. unfold strip_local_class_prefix. cbn [drop_digits]. rewrite Hc. reflexivity.
Qed.

(* ---------- what nest_jar writes ---------- *)

(* one output class per created class and per input class, in this order, under its (re)mapped
   name; a nested class carries the InnerClasses entry for itself, and an EnclosingMethod
   attribute exactly when it is anonymous or local *)
Definition class_out_ok (rm : bool) (F : table) (r : str -> str) (c : str) (oc : out_class) : Prop :=
  let '(name, ie, ee) := oc in
  name = r c /\
  match find_nest F c with
  | None => ie = None /\ ee = None
  | Some n =>
      ie = Some (r c,
                 match n_kind n with KInner => Some (r (n_encl n)) | _ => None end,
                 match n_kind n with KAnon => None | _ => Some (strip_local_class_prefix (n_inner n)) end,
                 n_access n) /\
      match n_kind n with
      | KInner => ee = None
      | _ => exists md, ee = Some (r (n_encl n), md) /\
               match n_meth n with
               | None => md = None
               | Some (mn, d) => exists d', jar_desc rm r d = Ok d' /\ md = Some (mn, d')
               end
      end
  end.

Lemma nest_class_ok rm F r c oc : nest_class rm F r c = Ok oc -> class_out_ok rm F r c oc.
Proof.
  unfold nest_class, class_out_ok. destruct (find_nest F c) as [n|] eqn:Ef.
  - apply find_nest_some in Ef as Hn. destruct Hn as [_ Hc].
    unfold synth_encl, synth_inner. destruct (n_kind n) eqn:Ek.
    + destruct (n_meth n) as [[mn d]|].
      * destruct (jar_desc rm r d) as [d'|] eqn:Ed; [|discriminate]. intros [= <-]. rewrite Hc.
        repeat split. eexists. split; [reflexivity|]. exists d'. auto.
      * intros [= <-]. rewrite Hc. repeat split. eexists. split; reflexivity.
    + intros [= <-]. rewrite Hc. repeat split.
    + destruct (n_meth n) as [[mn d]|].
      * destruct (jar_desc rm r d) as [d'|] eqn:Ed; [|discriminate]. intros [= <-]. rewrite Hc.
        repeat split. eexists. split; [reflexivity|]. exists d'. auto.
      * intros [= <-]. rewrite Hc. repeat split. eexists. split; reflexivity.
  - intros [= <-]. repeat split.
Qed.

Theorem nest_jar_spec rm J T out :
  nest_jar rm J T = Ok out ->
  exists m, jar_map (this_nests J T) = Ok m /\
    Forall2 (class_out_ok rm (this_nests J T) (if rm then map_class m else fun c => c))
            (new_classes J T ++ map fst J) out.
Proof.
  unfold nest_jar. destruct J as [|j J]; [discriminate|].
  destruct (jar_map (this_nests (j :: J) T)) as [m|]; [|discriminate].
  intros H. exists m. split; [reflexivity|]. apply mapM_ok in H.
  revert H. generalize (new_classes (j :: J) T ++ map fst (j :: J)). intros l H.
  induction H; constructor; auto using nest_class_ok.
Qed.

(* ---------- the jar side renames exactly the classes the filter kept ---------- *)

Lemma filter_nodup J T p cr : NoDup (keys T) -> NoDup (keys (fst (filter_nests J T p cr))).
Proof.
  revert p cr; induction T as [|n T IH]; intros p cr Hnd; cbn [filter_nests]; [constructor|].
  cbn [keys map] in Hnd. inversion Hnd as [|? ? Hnot Hnd']; subst.
  destruct (negb (mem_str (n_class n) p)); [apply IH; exact Hnd'|].
  pose proof (IH (if negb (mem_str (n_encl n) p) then p ++ [n_encl n] else p)
                 (if negb (mem_str (n_encl n) p) then cr ++ [n_encl n] else cr) Hnd') as HF.
  pose proof (filter_incl J T (if negb (mem_str (n_encl n) p) then p ++ [n_encl n] else p)
                 (if negb (mem_str (n_encl n) p) then cr ++ [n_encl n] else cr)) as Hi.
  destruct (filter_nests J T _ _) as [F c]. cbn [fst] in *.
  destruct (kind_rule J n); [|exact HF]. cbn [keys map]. constructor; [|exact HF].
  intros Hin. apply Hnot. unfold keys in *. apply in_map_iff in Hin. destruct Hin as (m & <- & Hm).
  apply in_map. apply Hi. exact Hm.
Qed.

Theorem this_nests_nodup J T : NoDup (keys T) -> NoDup (keys (this_nests J T)).
Proof. apply filter_nodup. Qed.

(* a class that is not listed, or whose entry was filtered out, keeps its name *)
Theorem jar_name_unchanged J T c :
  NoDup (keys T) -> acyclic T -> ~ In c (keys (this_nests J T)) -> jar_name J T c = Ok c.
Proof.
  intros Hnd Ha Hc. rewrite jar_name_is_mapping_name_of_filtered by (apply this_nests_nodup; exact Hnd).
  apply mapping_name_unlisted; [|exact Hc].
  eapply acyclic_sub; [exact Hnd|apply this_nests_incl|apply this_nests_nodup; exact Hnd|exact Ha].
Qed.

(* and a class whose entry was kept is renamed to Enclosing$Inner through the kept entries *)
Theorem jar_name_renamed J T c :
  NoDup (keys T) -> acyclic T -> exists r, jar_name J T c = Ok r /\ trans (this_nests J T) c r.
Proof.
  intros Hnd Ha. pose proof (this_nests_nodup J T Hnd) as HndF.
  assert (HaF : acyclic (this_nests J T))
    by (eapply acyclic_sub; [exact Hnd|apply this_nests_incl|exact HndF|exact Ha]).
  destruct (mapping_name_total (this_nests J T) c HaF) as (r & Hr).
  exists r. rewrite jar_name_is_mapping_name_of_filtered by exact HndF. split; [exact Hr|].
  apply mapping_name_trans; assumption.
Qed.
