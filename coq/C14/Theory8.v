(* C14 theory, part 8 (round 4): the abstract forms of Model.v are the literal code of Model2.v.
   1. the anonymous rule: anon_index_ok = `parse::<i32>() >= 1` of core, characterised on ALL strings;
   2. the depth counters of build_translation / remap never add or remove an error;
   3. map_nests: the enclosing method's descriptor always goes through the class map;
   4. the remapper handed to dukebox::remap is jar_name (object names, array names, unlisted classes). *)
From FB Require Import C14.Model C14.Model2 C14.Theory C14.Theory2 C14.Theory3 C14.Theory4 C14.Theory5 C14.Theory7.
From Coq Require Import ZArith Lia.

(* ======================================================================================== *)
(* 1. parse::<i32>                                                                            *)

(* the decimal value of a string of digits, most significant first *)
Definition zfold (s : str) (acc : Z) : Z :=
  fold_left (fun a c => (10 * a + Z.of_N (c - 48))%Z) s acc.

(* declarative: s is a non-empty string of ASCII digits denoting v (leading zeros allowed) *)
Inductive dec_denotes : str -> Z -> Prop :=
| dd_one c : is_digit c = true -> dec_denotes [c] (Z.of_N (c - 48))
| dd_snoc s v c : dec_denotes s v -> is_digit c = true ->
    dec_denotes (s ++ [c]) (10 * v + Z.of_N (c - 48))%Z.

Lemma is_digit_range c : is_digit c = true -> (0 <= Z.of_N (c - 48) <= 9)%Z.
Proof.
  unfold is_digit. rewrite andb_true_iff, !N.leb_le. intros [H1 H2]. lia.
Qed.

Lemma zfold_cons c s acc : zfold (c :: s) acc = zfold s (10 * acc + Z.of_N (c - 48))%Z.
Proof. reflexivity. Qed.

Lemma zfold_app s t acc : zfold (s ++ t) acc = zfold t (zfold s acc).
Proof. unfold zfold. apply fold_left_app. Qed.

Lemma zfold_ge s : forall acc, (0 <= acc)%Z -> (acc <= zfold s acc)%Z.
Proof.
  induction s as [|c s IH]; intros acc Ha; [cbn; lia|].
  rewrite zfold_cons. assert (0 <= Z.of_N (c - 48))%Z by lia.
  specialize (IH (10 * acc + Z.of_N (c - 48))%Z ltac:(lia)). lia.
Qed.

Lemma in_i32_true z : in_i32 z = true <-> (i32_min <= z <= i32_max)%Z.
Proof. unfold in_i32. rewrite andb_true_iff, !Z.leb_le. tauto. Qed.

Lemma in_i32_false z : in_i32 z = false <-> (z < i32_min \/ i32_max < z)%Z.
Proof.
  destruct (in_i32 z) eqn:E.
  - apply in_i32_true in E. split; [discriminate|lia].
  - split; [intros _|reflexivity].
    destruct (Z_lt_dec z i32_min); [left; assumption|]. destruct (Z_lt_dec i32_max z); [right; assumption|].
    assert (in_i32 z = true) by (apply in_i32_true; lia). congruence.
Qed.

(* the loop for a non-negative number: succeeds exactly on digit strings whose value (continuing
   from acc) fits; the step-wise overflow checks are equivalent to one check at the end *)
Lemma loop_pos s : forall acc z, (0 <= acc <= i32_max)%Z ->
  (parse_i32_loop false s acc = Some z <->
   forallb is_digit s = true /\ z = zfold s acc /\ (z <= i32_max)%Z).
Proof.
  induction s as [|c s IH]; intros acc z Ha.
  - cbn [parse_i32_loop forallb zfold fold_left]. split.
    + intros [= <-]. repeat split; lia.
    + intros (_ & -> & _). reflexivity.
  - cbn [parse_i32_loop forallb]. rewrite zfold_cons. unfold to_digit10.
    destruct (is_digit c) eqn:Ed; cbn [andb].
    2:{ split; [discriminate|intros (H & _); discriminate]. }
    pose proof (is_digit_range c Ed) as Hx.
    set (x := Z.of_N (c - 48)) in *.
    assert (Hge : forall a, (0 <= a)%Z -> (a <= zfold s a)%Z) by (intros; apply zfold_ge; assumption).
    destruct (in_i32 (acc * 10)) eqn:Em; cbn [negb].
    2:{ apply in_i32_false in Em. unfold i32_min in Em.
        split; [discriminate|]. intros (_ & -> & Hz). exfalso.
        specialize (Hge (10 * acc + x)%Z ltac:(lia)). lia. }
    apply in_i32_true in Em.
    destruct (in_i32 (acc * 10 + x)) eqn:Ea; cbn [negb].
    2:{ apply in_i32_false in Ea. unfold i32_min in Ea.
        split; [discriminate|]. intros (_ & -> & Hz). exfalso.
        specialize (Hge (10 * acc + x)%Z ltac:(lia)). lia. }
    apply in_i32_true in Ea.
    replace (10 * acc + x)%Z with (acc * 10 + x)%Z by lia.
    apply IH. lia.
Qed.

Lemma loop_neg s : forall acc z, (i32_min <= acc <= 0)%Z ->
  (parse_i32_loop true s acc = Some z <->
   forallb is_digit s = true /\ z = (- zfold s (- acc))%Z /\ (i32_min <= z)%Z).
Proof.
  induction s as [|c s IH]; intros acc z Ha.
  - cbn [parse_i32_loop forallb zfold fold_left]. split.
    + intros [= <-]. repeat split; lia.
    + intros (_ & -> & _). f_equal. lia.
  - cbn [parse_i32_loop forallb]. rewrite zfold_cons. unfold to_digit10.
    destruct (is_digit c) eqn:Ed; cbn [andb].
    2:{ split; [discriminate|intros (H & _); discriminate]. }
    pose proof (is_digit_range c Ed) as Hx.
    set (x := Z.of_N (c - 48)) in *.
    assert (Hge : forall a, (0 <= a)%Z -> (a <= zfold s a)%Z) by (intros; apply zfold_ge; assumption).
    destruct (in_i32 (acc * 10)) eqn:Em; cbn [negb].
    2:{ apply in_i32_false in Em. unfold i32_max in Em.
        split; [discriminate|]. intros (_ & -> & Hz). exfalso.
        specialize (Hge (10 * - acc + x)%Z ltac:(lia)). lia. }
    apply in_i32_true in Em.
    destruct (in_i32 (acc * 10 - x)) eqn:Ea; cbn [negb].
    2:{ apply in_i32_false in Ea. unfold i32_max in Ea.
        split; [discriminate|]. intros (_ & -> & Hz). exfalso.
        specialize (Hge (10 * - acc + x)%Z ltac:(lia)). lia. }
    apply in_i32_true in Ea.
    replace (10 * - acc + x)%Z with (- (acc * 10 - x))%Z by lia.
    apply IH. unfold i32_max in *. lia.
Qed.

Lemma dec_denotes_iff s v :
  dec_denotes s v <-> s <> [] /\ forallb is_digit s = true /\ v = zfold s 0%Z.
Proof.
  split.
  - induction 1 as [c Hc|s v c _ (Hne & Hall & ->) Hc].
    + split; [discriminate|]. cbn [forallb]. rewrite Hc. split; [reflexivity|]. cbn. lia.
    + split; [destruct s; discriminate|]. rewrite forallb_app, Hall. cbn [forallb]. rewrite Hc.
      split; [reflexivity|]. rewrite zfold_app. reflexivity.
  - revert v. induction s as [|c s IH] using rev_ind; intros v (Hne & Hall & ->); [congruence|].
    rewrite forallb_app in Hall. apply andb_true_iff in Hall. destruct Hall as [Hs Hc].
    cbn [forallb] in Hc. rewrite andb_true_r in Hc.
    destruct s as [|c0 s'].
    + cbn [app]. replace (zfold [c] 0%Z) with (Z.of_N (c - 48)) by (cbn; lia). constructor. exact Hc.
    + rewrite zfold_app. change (zfold [c] (zfold (c0 :: s') 0%Z))
        with (10 * zfold (c0 :: s') 0 + Z.of_N (c - 48))%Z.
      constructor; [|exact Hc]. apply IH. split; [discriminate|]. split; [exact Hs|reflexivity].
Qed.

Lemma digit_not_sign c : is_digit c = true -> N.eqb c cPLUS = false /\ N.eqb c cMINUS = false.
Proof.
  unfold is_digit, cPLUS, cMINUS. rewrite andb_true_iff, !N.leb_le. intros [H1 H2].
  split; apply N.eqb_neq; lia.
Qed.

(* Rust's i32 FromStr, exactly: optional sign, at least one ASCII digit, only ASCII digits, value in
   [-2^31, 2^31-1]; nothing else parses (no white space, no `_`, no other scripts' digits) *)
Theorem parse_i32_spec s z :
  parse_i32 s = Some z <->
  exists sign ds v, s = sign ++ ds /\ dec_denotes ds v /\
    (((sign = [] \/ sign = [cPLUS]) /\ z = v) \/ (sign = [cMINUS] /\ z = (- v)%Z)) /\
    (i32_min <= z <= i32_max)%Z.
Proof.
  assert (Hpos : forall d z, d <> [] -> (parse_i32_loop false d 0%Z = Some z <->
             dec_denotes d z /\ (i32_min <= z <= i32_max)%Z)).
  { intros d z0 Hd. rewrite loop_pos by (unfold i32_max; lia). rewrite dec_denotes_iff. split.
    - intros (Hall & -> & Hz). repeat split; auto.
      pose proof (zfold_ge d 0%Z ltac:(lia)). unfold i32_min. lia.
    - intros ((_ & Hall & ->) & Hz). repeat split; auto. lia. }
  assert (Hneg : forall d z, d <> [] -> (parse_i32_loop true d 0%Z = Some z <->
             exists v, dec_denotes d v /\ z = (- v)%Z /\ (i32_min <= z <= i32_max)%Z)).
  { intros d z0 Hd. rewrite loop_neg by (unfold i32_min; lia). cbn [Z.opp]. split.
    - intros (Hall & -> & Hz). exists (zfold d 0%Z). rewrite dec_denotes_iff. repeat split; auto.
      pose proof (zfold_ge d 0%Z ltac:(lia)). unfold i32_max. lia.
    - intros (v & Hv & -> & Hz). apply dec_denotes_iff in Hv. destruct Hv as (_ & Hall & ->).
      repeat split; auto. lia. }
  split.
  - destruct s as [|c d]; [discriminate|]. cbn [parse_i32].
    destruct (N.eqb c cPLUS) eqn:Ep.
    + apply N.eqb_eq in Ep. subst c. destruct d as [|c' d']; [discriminate|].
      intros H. apply Hpos in H; [|discriminate]. destruct H as [Hd Hz].
      exists [cPLUS], (c' :: d'), z. repeat split; auto; lia.
    + destruct (N.eqb c cMINUS) eqn:Em.
      * apply N.eqb_eq in Em. subst c. destruct d as [|c' d']; [discriminate|].
        intros H. apply Hneg in H; [|discriminate]. destruct H as (v & Hd & -> & Hz).
        exists [cMINUS], (c' :: d'), v. repeat split; auto; lia.
      * intros H. apply Hpos in H; [|discriminate]. destruct H as [Hd Hz].
        exists [], (c :: d), z. repeat split; auto; lia.
  - intros (sign & ds & v & -> & Hd & Hs & Hz).
    assert (Hne : ds <> []) by (apply dec_denotes_iff in Hd; tauto).
    destruct Hs as [[[->| ->] ->]|[-> ->]].
    + cbn [app]. destruct ds as [|c d]; [congruence|]. cbn [parse_i32].
      assert (Hc : is_digit c = true).
      { apply dec_denotes_iff in Hd. destruct Hd as (_ & Hall & _). cbn [forallb] in Hall.
        apply andb_true_iff in Hall. tauto. }
      destruct (digit_not_sign c Hc) as [-> ->]. apply Hpos; [discriminate|]. split; assumption.
    + cbn [app parse_i32]. rewrite N.eqb_refl. destruct ds as [|c d]; [congruence|].
      apply Hpos; [discriminate|]. split; assumption.
    + cbn [app parse_i32]. change (N.eqb cMINUS cPLUS) with false. cbv iota. rewrite N.eqb_refl.
      destruct ds as [|c d]; [congruence|]. apply Hneg; [discriminate|]. exists v. repeat split; auto; lia.
Qed.

(* the N-valued fold of Model.v is the Z-valued one *)
Lemma digits_value_zfold d : forall a, Z.of_N (fold_left (fun a c => 10 * a + (c - 48)) d a) = zfold d (Z.of_N a).
Proof.
  induction d as [|c d IH]; intros a; [reflexivity|].
  cbn [fold_left]. rewrite IH. rewrite zfold_cons. f_equal. lia.
Qed.

Lemma digits_ge1_spec d :
  digits_ge1 d = true <-> d <> [] /\ forallb is_digit d = true /\ (1 <= zfold d 0 <= i32_max)%Z.
Proof.
  unfold digits_ge1, digits_value. rewrite !andb_true_iff, !N.leb_le.
  pose proof (digits_value_zfold d 0) as Hv. cbn [Z.of_N] in Hv. unfold i32_max.
  split.
  - intros (((Hn & Ha) & H1) & H2). split; [destruct d; [discriminate|discriminate]|]. split; [exact Ha|]. lia.
  - intros (Hn & Ha & H1). repeat split; auto; [destruct d; [congruence|reflexivity]|lia|lia].
Qed.

Lemma loop_pos_ge1 d :
  (match parse_i32_loop false d 0%Z with Some x => Z.leb 1 x | None => false end) = true <->
  forallb is_digit d = true /\ (1 <= zfold d 0 <= i32_max)%Z.
Proof.
  split.
  - destruct (parse_i32_loop false d 0%Z) as [x|] eqn:E; [|discriminate].
    apply loop_pos in E; [|unfold i32_max; lia]. destruct E as (Ha & -> & Hz). rewrite Z.leb_le. auto.
  - intros (Ha & H1 & H2).
    assert (E : parse_i32_loop false d 0%Z = Some (zfold d 0%Z)) by (apply loop_pos; [unfold i32_max; lia|auto]).
    rewrite E. apply Z.leb_le. exact H1.
Qed.

(* the anonymous rule of Model.v IS `parse::<i32>().map_or(false, |x| x >= 1)`, on every string *)
Theorem anon_index_ok_is_parse s : anon_index_ok s = anon_rule s.
Proof.
  apply Bool.eq_iff_eq_true. unfold anon_rule.
  destruct s as [|c d]; [cbn; tauto|]. cbn [anon_index_ok parse_i32].
  destruct (N.eqb c cPLUS) eqn:Ep.
  - destruct d as [|c' d']; [cbn; split; discriminate|].
    rewrite digits_ge1_spec, loop_pos_ge1. split; [tauto|]. intros H. split; [discriminate|exact H].
  - destruct (N.eqb c cMINUS) eqn:Em.
    + split; [discriminate|]. destruct d as [|c' d']; [discriminate|].
      destruct (parse_i32_loop true (c' :: d') 0%Z) as [x|] eqn:E; [|discriminate].
      apply loop_neg in E; [|unfold i32_min; lia]. destruct E as (_ & -> & _).
      cbn [Z.opp]. pose proof (zfold_ge (c' :: d') 0%Z ltac:(lia)). rewrite Z.leb_le. lia.
    + rewrite digits_ge1_spec, loop_pos_ge1. split; [tauto|]. intros H. split; [discriminate|exact H].
Qed.

Corollary anon_index_ok_parse s :
  anon_index_ok s = true <-> exists z, parse_i32 s = Some z /\ (1 <= z)%Z.
Proof.
  rewrite anon_index_ok_is_parse. unfold anon_rule. split.
  - destruct (parse_i32 s) as [x|]; [|discriminate]. rewrite Z.leb_le. intros H. exists x. auto.
  - intros (z & -> & Hz). apply Z.leb_le. exact Hz.
Qed.

(* declarative form: an optional `+`, then a non-empty string of ASCII digits denoting 1 .. 2^31-1 *)
Theorem anon_index_ok_spec s :
  anon_index_ok s = true <->
  exists sign ds v, s = sign ++ ds /\ (sign = [] \/ sign = [cPLUS]) /\ dec_denotes ds v /\
    (1 <= v <= 2147483647)%Z.
Proof.
  rewrite anon_index_ok_parse. split.
  - intros (z & Hp & Hz). apply parse_i32_spec in Hp.
    destruct Hp as (sign & ds & v & -> & Hd & [[Hs ->]|[-> ->]] & Hr).
    + exists sign, ds, v. unfold i32_max in Hr. repeat split; auto; lia.
    + exfalso. apply dec_denotes_iff in Hd. destruct Hd as (_ & _ & ->).
      pose proof (zfold_ge ds 0%Z ltac:(lia)). lia.
  - intros (sign & ds & v & -> & Hs & Hd & Hv). exists v. split; [|lia].
    apply parse_i32_spec. exists sign, ds, v. unfold i32_min, i32_max. repeat split; auto; lia.
Qed.

(* boundary strings, pinned (0, 00, 01, +1, -1, -0, +, -, 2^31-1, 2^31, 2^32-1, a 40-digit number with
   leading zeros, empty, space, underscore, Arabic-Indic / fullwidth digits) *)
Definition anon_table : list (str * bool) :=
  [ ([48], false); ([48; 48], false); ([48; 49], true); ([43; 49], true); ([45; 49], false);
    ([45; 48], false); ([43], false); ([45], false); ([43; 48], false); ([43; 43; 49], false); ([43; 45; 49], false);
    ([50;49;52;55;52;56;51;54;52;55], true); ([50;49;52;55;52;56;51;54;52;56], false);
    ([52;50;57;52;57;54;55;50;57;53], false); ([43;50;49;52;55;52;56;51;54;52;55], true);
    ([48;48;48;48;48;48;48;48;48;48;48;48;48;48;48;48;48;48;48;48;48;48;48;48;48;48;48;48;48;48;50;49;52;55;52;56;51;54;52;55], true);
    ([48;48;48;48;48;48;48;48;48;48;48;48;48;48;48;48;48;48;48;48;48;48;48;48;48;48;48;48;48;48;50;49;52;55;52;56;51;54;52;56], false);
    ([], false); ([32; 49], false); ([49; 32], false); ([49; 95; 48], false); ([49; 46; 48], false); ([49; 101; 51], false);
    ([48; 120; 49], false); ([1636; 1634], false); ([65297], false); ([49; 1635], false); ([178], false); ([49], true); ([49; 50], true) ].
Theorem anon_table_ok : forallb (fun p => Bool.eqb (anon_index_ok (fst p)) (snd p) && Bool.eqb (anon_rule (fst p)) (snd p)) anon_table = true.
Proof. vm_compute. reflexivity. Qed.

(* which ANONYMOUS entries of the table are nested: present, and the inner name parses as an i32 >= 1 *)
Theorem filter_spec_anonymous J T1 n T2 :
  NoDup (keys (T1 ++ n :: T2)) -> n_kind n = KAnon ->
  (In n (this_nests J (T1 ++ n :: T2)) <->
   mem_str (n_class n) (present_after T1 (jar_classes J)) = true /\
   exists z, parse_i32 (n_inner n) = Some z /\ (1 <= z)%Z).
Proof.
  intros Hnd Hk. rewrite (filter_spec J T1 n T2 Hnd). unfold kind_rule. rewrite Hk.
  rewrite anon_index_ok_parse. tauto.
Qed.

(* ======================================================================================== *)
(* 2. the depth counters (fix c9cdfec) are the fuel of Model.v                                *)

(* build_translation with its depth counter, started at depth d with k nests still allowed *)
Lemma bt_depth_eq T : forall k c d f, (d + S k = length T + 2)%nat -> (k < f)%nat ->
  bt_depth f T c d = build_translation (S k) T c.
Proof.
  induction k as [|k IH]; intros c d f Hd Hf; (destruct f as [|f]; [lia|]);
    cbn [bt_depth build_translation]; destruct (find_nest T c) as [n|]; try reflexivity.
  - assert (E : Nat.ltb (length T) d = true) by (apply Nat.ltb_lt; lia). rewrite E. reflexivity.
  - assert (E : Nat.ltb (length T) d = false) by (apply Nat.ltb_ge; lia). rewrite E.
    rewrite (IH (n_encl n) (S d) f) by lia. reflexivity.
Qed.

(* whatever (sufficient) fuel makes the literal recursion structural, it computes the model's function:
   the only error is the one of the Rust code's own test `depth > nests.all.len()` *)
Theorem bt_depth_literal f T c :
  (length T < f)%nat -> bt_depth f T c 1 = build_translation (table_fuel T) T c.
Proof. intros Hf. unfold table_fuel. apply bt_depth_eq; lia. Qed.

Corollary nest_translation_literal f T n :
  (length T < f)%nat -> nest_translation_lit f T n = nest_translation (table_fuel T) T n.
Proof. intros Hf. unfold nest_translation_lit, nest_translation. rewrite bt_depth_literal by exact Hf. reflexivity. Qed.

(* the jar side's remap: its test comes first, so it is stated for the nests the code calls it on
   (the values of the map it iterates over: find_nest F (n_class n) = Some n) *)
Lemma jr_depth_ok_chain F : forall f n d r,
  jr_depth f F n d = Ok r ->
  exists l a, chain F (n_encl n) l /\ trans F (n_encl n) a /\ r = a ++ cDOLLAR :: n_inner n.
Proof.
  induction f as [|f IH]; intros n d r H; cbn [jr_depth] in H; [discriminate|].
  destruct (Nat.ltb (length F) d); [discriminate|].
  destruct (find_nest F (n_encl n)) as [m|] eqn:Ef.
  - destruct (jr_depth f F m (S d)) as [r1|] eqn:E1; [|discriminate]. injection H as <-.
    destruct (IH _ _ _ E1) as (l & a & Hl & Ha & ->).
    exists (n_encl n :: l), (join_inner a (n_inner m)). repeat split.
    + econstructor; eauto.
    + econstructor; eauto.
  - injection H as <-. exists [], (n_encl n). repeat split; constructor; exact Ef.
Qed.

Lemma jr_depth_of_chain F c l : chain F c l ->
  forall n d f, n_encl n = c -> (d + length l <= length F)%nat -> (length l < f)%nat ->
  exists a, jr_depth f F n d = Ok (a ++ cDOLLAR :: n_inner n) /\ trans F c a.
Proof.
  induction 1 as [c Hn|c m l Hf _ IH]; intros n d f Hc Hd Hlen; (destruct f as [|f]; [lia|]);
    cbn [jr_depth length] in *; subst c.
  - assert (E : Nat.ltb (length F) d = false) by (apply Nat.ltb_ge; lia). rewrite E, Hn.
    exists (n_encl n). split; [reflexivity|constructor; exact Hn].
  - assert (E : Nat.ltb (length F) d = false) by (apply Nat.ltb_ge; lia). rewrite E, Hf.
    destruct (IH m (S d) f eq_refl ltac:(lia) ltac:(lia)) as (a & -> & Ha).
    exists (join_inner a (n_inner m)). split; [reflexivity|econstructor; eauto].
Qed.

Theorem jr_depth_literal f F n :
  find_nest F (n_class n) = Some n -> (length F < f)%nat ->
  jr_depth f F n 1 = jar_remap (table_fuel F) F n.
Proof.
  intros Hself Hf. rewrite jar_remap_is_translation. unfold nest_translation.
  destruct (build_translation (table_fuel F) F (n_encl n)) as [a|] eqn:Ea.
  - destruct (bt_chain _ _ _ _ Ea) as (l & Hl).
    assert (Hlen : (S (length l) <= length F)%nat).
    { apply (chain_length F (n_class n) (n_class n :: l)). econstructor; eauto. }
    destruct (jr_depth_of_chain F _ l Hl n 1%nat f eq_refl ltac:(lia) ltac:(lia)) as (a' & -> & Ha').
    apply bt_sound in Ea. rewrite (trans_det _ _ _ _ Ea Ha'). reflexivity.
  - destruct (jr_depth f F n 1) as [r|] eqn:Er; [|reflexivity]. exfalso.
    destruct (jr_depth_ok_chain _ _ _ _ _ Er) as (l & a & Hl & _ & _).
    destruct (bt_fuel F (n_encl n) l Hl (table_fuel F)) as (r' & Hr').
    + pose proof (chain_length _ _ _ Hl). unfold table_fuel. lia.
    + congruence.
Qed.

(* the hypothesis is needed: for a nest that is not an entry of F the entry test can fire although the
   chain ends (F = [A in B], n = X in A: the literal code says Err at depth 2 > 1, the model B$A$X) *)
Definition lit_A : str := [65]. Definition lit_B : str := [66]. Definition lit_X : str := [88].
Theorem jr_depth_literal_needs_entry :
  let F := [mkNest KInner lit_A lit_B None lit_A 0] in
  let n := mkNest KInner lit_X lit_A None lit_X 0 in
  find_nest F (n_class n) = None /\ jr_depth 5 F n 1 = Err /\ jar_remap (table_fuel F) F n = Ok [66; 36; 65; 36; 88].
Proof. vm_compute. repeat split; reflexivity. Qed.

(* translation_lit / jar_map_lit (Model2.v): the literal translation / jar map the Rust code computes *)

Theorem translation_literal f T : (length T < f)%nat -> translation_lit f T = translation T.
Proof.
  intros Hf. unfold translation_lit, translation. apply mapM_ext. intros n _.
  rewrite nest_translation_literal by exact Hf. reflexivity.
Qed.

Theorem jar_map_literal f F : NoDup (keys F) -> (length F < f)%nat -> jar_map_lit f F = jar_map F.
Proof.
  intros Hnd Hf. unfold jar_map_lit, jar_map.
  rewrite (mapM_ext _ (fun n => match jar_remap (table_fuel F) F n with Ok v => Ok (n_class n, v) | Err => Err end)); [reflexivity|].
  intros n Hn. rewrite jr_depth_literal; [reflexivity| |exact Hf]. apply find_nest_in; assumption.
Qed.

(* so: the depth test fires exactly on the cyclic tables, never on an acyclic one *)
Theorem depth_bound_iff f T : (length T < f)%nat ->
  (translation_lit f T = Err <-> ~ acyclic T) /\ ((exists m, translation_lit f T = Ok m) <-> acyclic T).
Proof.
  intros Hf. rewrite translation_literal by exact Hf. split; [apply translation_err_iff|apply translation_ok_iff].
Qed.

Theorem jar_depth_bound_iff f F : NoDup (keys F) -> (length F < f)%nat ->
  (jar_map_lit f F = Err <-> ~ acyclic F).
Proof. intros Hnd Hf. rewrite jar_map_literal by assumption. apply jar_map_err_iff. Qed.

(* ======================================================================================== *)
(* 3. map_nests: the enclosing method                                                          *)

Lemma map_desc_go_ext f g s : (forall n, f n = g n) -> forall acc, map_desc_go f s acc = map_desc_go g s acc.
Proof.
  intros Hfg. induction s as [|c s IH]; intros acc; cbn [map_desc_go]; [reflexivity|].
  destruct acc as [n|].
  - destruct (N.eqb c cSEMI); [|apply IH]. destruct n; [reflexivity|]. rewrite IH, Hfg. reflexivity.
  - rewrite IH. reflexivity.
Qed.

(* rewriting with the identity gives the descriptor back *)
Lemma map_desc_go_id f s : (forall n, f n = n) -> forall acc r,
  map_desc_go f s acc = Ok r -> r = (match acc with Some a => a | None => [] end) ++ s.
Proof.
  intros Hid. induction s as [|c s IH]; intros acc r H; cbn [map_desc_go] in H.
  - destruct acc; [discriminate|]. injection H as <-. reflexivity.
  - destruct acc as [n|].
    + destruct (N.eqb c cSEMI) eqn:Ec.
      * apply N.eqb_eq in Ec. subst c. destruct n as [|x n]; [discriminate|].
        destruct (map_desc_go f s None) as [r'|] eqn:Er; [|discriminate]. injection H as <-.
        rewrite Hid. apply IH in Er. cbn [app] in Er. subst r'. reflexivity.
      * apply IH in H. subst r. rewrite <- app_assoc. reflexivity.
    + destruct (map_desc_go f s (if N.eqb c cL then Some [] else None)) as [r'|] eqn:Er; [|discriminate].
      injection H as <-. apply IH in Er. subst r'. destruct (N.eqb c cL); reflexivity.
Qed.

Lemma map_desc_id f d r : (forall n, f n = n) -> map_desc f d = Ok r -> r = d.
Proof. intros Hid H. apply (map_desc_go_id f d Hid None r H). Qed.

(* source -> source pairs are the identity *)
Lemma class_pairs_same cs i c : map_class (class_pairs cs i i) c = c.
Proof.
  unfold map_class. destruct (alookup (class_pairs cs i i) c) as [v|] eqn:E; [|reflexivity].
  apply alookup_some in E. unfold class_pairs in E. apply in_flat_map in E. destruct E as (x & _ & Hin).
  destruct (nth_name (c_names x) i) as [a|]; [|destruct Hin].
  destruct Hin as [[= <- <-]|[]]. reflexivity.
Qed.

Lemma key2_eqb'_eq a b : key2_eqb' a b = true -> a = b.
Proof.
  unfold key2_eqb'. rewrite andb_true_iff, !str_eqb_eq. destruct a, b. cbn [fst snd]. intros [-> ->]. reflexivity.
Qed.

Lemma m_find_in l k v : m_find l k = Some v -> In (k, v) l.
Proof.
  induction l as [|[a b] l IH]; cbn [m_find]; [discriminate|].
  destruct (m_find l k) as [x|] eqn:E.
  - intros [= ->]. right. apply IH. reflexivity.
  - destruct (key2_eqb' a k) eqn:Ek; [|discriminate]. intros [= ->]. apply key2_eqb'_eq in Ek. subst a. left. reflexivity.
Qed.

Lemma b_find_in B c b : b_find B c = Some b -> In b B /\ b_from b = c.
Proof.
  induction B as [|x B IH]; cbn [b_find]; [discriminate|].
  destruct (b_find B c) as [y|] eqn:E.
  - intros [= ->]. destruct (IH eq_refl) as [Hi Hc]. split; [right; exact Hi|exact Hc].
  - destruct (str_eqb_spec (b_from x) c) as [Hc|_]; [|discriminate]. intros [= ->]. split; [left; reflexivity|exact Hc].
Qed.

(* every method entry of the remapper comes from a method of the mapping set: its key is the source name
   with the UNCHANGED source descriptor, its value the target name with the descriptor rewritten through the
   class map of the mapping set *)
Lemma mk_bremap_meths M B b k v :
  mk_bremap M = Ok B -> In b B -> In (k, v) (b_meths b) ->
  exists c m nf nt, In c (ms_classes M) /\ In m (c_methods c) /\
    nth_name (c_names c) 0 = Some (b_from b) /\
    nth_name (m_names m) 0 = Some nf /\ nth_name (m_names m) 1 = Some nt /\
    k = (nf, m_desc m) /\ fst v = nt /\
    map_desc (map_class (class_pairs (ms_classes M) 0 1)) (m_desc m) = Ok (snd v).
Proof.
  unfold mk_bremap. destruct (mapM _ (ms_classes M)) as [l|] eqn:E; [|discriminate]. intros [= <-] Hb Hkv.
  apply mapM_ok in E. apply in_concat in Hb. destruct Hb as (bl & Hbl & Hb).
  destruct (Forall2_In_r _ _ _ _ E Hbl) as (c & Hc & Hbc).
  unfold b_class in Hbc.
  destruct (nth_name (c_names c) 0) as [cf|] eqn:Ecf; [|injection Hbc as <-; destruct Hb].
  destruct (nth_name (c_names c) 1) as [ct|] eqn:Ect; [|injection Hbc as <-; destruct Hb].
  destruct (mapM _ (c_fields c)); [|discriminate].
  destruct (mapM _ (c_methods c)) as [ms|] eqn:Ems; [|discriminate].
  injection Hbc as <-. destruct Hb as [<-|[]]. cbn [b_meths b_from] in *.
  apply mapM_ok in Ems. apply in_concat in Hkv. destruct Hkv as (pl & Hpl & Hkv).
  destruct (Forall2_In_r _ _ _ _ Ems Hpl) as (m & Hm & Hbm).
  unfold b_member in Hbm.
  destruct (nth_name (m_names m) 0) as [nf|] eqn:Enf; [|injection Hbm as <-; destruct Hkv].
  destruct (nth_name (m_names m) 1) as [nt|] eqn:Ent; [|injection Hbm as <-; destruct Hkv].
  destruct (map_desc (map_class (class_pairs (ms_classes M) 0 0)) (m_desc m)) as [df|] eqn:Edf; [|discriminate].
  destruct (map_desc (map_class (class_pairs (ms_classes M) 0 1)) (m_desc m)) as [dt|] eqn:Edt; [|discriminate].
  injection Hbm as <-. destruct Hkv as [[= <- <-]|[]].
  apply map_desc_id in Edf; [|apply class_pairs_same]. subst df.
  exists c, m, nf, nt. cbn [fst snd]. repeat split; auto.
Qed.

(* the target name of the enclosing method: the mapping of (owner, name, descriptor) if there is one, the
   source name otherwise *)
Definition method_target_name (B : bremap) (owner : str) (m : str * str) : str :=
  match b_find B owner with
  | Some b => match m_find (b_meths b) m with Some r => fst r | None => fst m end
  | None => fst m
  end.

(* the DESCRIPTOR of the enclosing method is always the source descriptor rewritten through the class map
   of the mapping set, whether or not the method itself has a mapping (the fall-back of
   BRemapper::map_method); the NAME is the mapped one exactly when (owner, name, descriptor) is mapped *)
Theorem b_map_method_spec M B owner m r :
  mk_bremap M = Ok B -> b_map_method B owner m = Ok r ->
  map_desc (b_map_class B) (snd m) = Ok (snd r) /\ fst r = method_target_name B owner m.
Proof.
  intros HB. unfold b_map_method, method_target_name.
  destruct (b_find B owner) as [b|] eqn:Eb.
  - destruct (m_find (b_meths b) m) as [v|] eqn:Em.
    + intros [= <-]. split; [|reflexivity].
      apply m_find_in in Em. apply b_find_in in Eb. destruct Eb as [Hb _].
      destruct (mk_bremap_meths M B b m v HB Hb Em) as (c & me & nf & nt & _ & _ & _ & _ & _ & -> & _ & Hd).
      cbn [snd]. unfold map_desc in *. rewrite <- Hd. apply map_desc_go_ext.
      intros n. apply b_map_class_is_mapping. exact HB.
    + destruct (map_desc (b_map_class B) (snd m)) as [d|]; [|discriminate]. intros [= <-]. split; reflexivity.
  - destruct (map_desc (b_map_class B) (snd m)) as [d|]; [|discriminate]. intros [= <-]. split; reflexivity.
Qed.

(* an enclosing method without a mapping (`<init>`, `<clinit>`, lambda bodies, methods of unmapped classes):
   name kept, descriptor rewritten *)
Corollary b_map_method_unmapped B owner m :
  (forall b, b_find B owner = Some b -> m_find (b_meths b) m = None) ->
  b_map_method B owner m = match map_desc (b_map_class B) (snd m) with Ok d => Ok (fst m, d) | Err => Err end.
Proof.
  intros H. unfold b_map_method. destruct (b_find B owner) as [b|]; [|reflexivity].
  rewrite (H b eq_refl). reflexivity.
Qed.

(* the statement about the images of a whole table *)
Theorem map_nests_method_desc T M B T' :
  mk_bremap M = Ok B ->
  NoDup (map (b_map_class B) (keys T)) ->
  map_nests T M = Ok T' ->
  Forall2 (fun n n' =>
    match n_meth n with
    | None => n_meth n' = None
    | Some m => exists m', n_meth n' = Some m' /\
                  map_desc (b_map_class B) (snd m) = Ok (snd m') /\
                  fst m' = method_target_name B (n_encl n) m
    end) T T'.
Proof.
  intros HB Hnd Hm. pose proof (map_nests_total T M B T' HB Hnd Hm) as H.
  clear Hnd Hm. induction H as [|n n' T0 T0' Hn _ IH]; constructor; [|exact IH].
  destruct Hn as (_ & _ & _ & Hmeth & _).
  destruct (n_meth n) as [m|]; [|exact Hmeth].
  destruct Hmeth as (m' & Hm' & Hb). exists m'. split; [exact Hm'|].
  apply (b_map_method_spec M B _ _ _ HB Hb).
Qed.

(* non-vacuity / pinned instance of seed C14-b3's situation: `<init>(Lp;I)V` of an enclosing class that has
   no method mappings at all, p -> q/Renamed: the image keeps `<init>` and has (Lq/Renamed;I)V *)
Definition b3_p : str := [112]. Definition b3_q : str := [113; 47; 82].
Definition b3_o : str := [111]. Definition b3_c : str := [99].
Definition b3_init : str := [60; 105; 110; 105; 116; 62].
Definition b3_M : mappings :=
  mkMappings [[97]; [98]] None
    [ mkClass [Some b3_p; Some b3_q] None [] [];
      mkClass [Some b3_o; Some [79]] None [] [mkMeth [40; 41; 86] [Some [109]; Some [110]] None []];
      mkClass [Some b3_c; Some [67]] None [] [] ].
Definition b3_T : table :=
  [ mkNest KAnon b3_c b3_o (Some (b3_init, [40; 76; 112; 59; 73; 41; 86])) [49] 0 ].
Theorem map_nests_unmapped_method_example :
  map_nests b3_T b3_M =
  Ok [ mkNest KAnon [67] [79] (Some (b3_init, [40; 76; 113; 47; 82; 59; 73; 41; 86])) [49] 0 ].
Proof. vm_compute. reflexivity. Qed.

(* ======================================================================================== *)
(* 4. the remapper handed to dukebox::remap is jar_name                                        *)

Theorem jar_name_via_remapper J T c :
  jar_name J T c = match jar_remapper J T with Ok r => Ok (r c) | Err => Err end.
Proof. unfold jar_name, jar_remapper. destruct (jar_map (this_nests J T)); reflexivity. Qed.

(* a class that is not an applicable entry of the table keeps its name (no hypothesis on the table) *)
Theorem jar_remapper_unlisted J T r c :
  jar_remapper J T = Ok r -> ~ In c (keys (this_nests J T)) -> r c = c.
Proof.
  unfold jar_remapper. rewrite jar_map_is_translation.
  destruct (translation (this_nests J T)) as [m|] eqn:Em; [|discriminate]. intros [= <-] Hc.
  unfold map_class. destruct (alookup (filter nonid m) c) as [v|] eqn:E; [|reflexivity].
  exfalso. apply Hc. rewrite <- (translation_keys _ m Em). apply alookup_some in E.
  apply filter_In in E. destruct E as [E _]. change c with (fst (c, v)). apply in_map. exact E.
Qed.

(* every class gets Enclosing$Inner through the applicable entries *)
Theorem jar_remapper_trans J T r c :
  NoDup (keys T) -> jar_remapper J T = Ok r -> trans (this_nests J T) c (r c).
Proof.
  intros Hnd Hr. pose proof (this_nests_nodup J T Hnd) as HndF.
  apply (mapping_name_trans (this_nests J T) c (r c) HndF).
  rewrite <- jar_name_is_mapping_name_of_filtered by exact HndF.
  rewrite jar_name_via_remapper, Hr. reflexivity.
Qed.

(* array class names go through map_desc: [[Lc;  |->  [[L<jar name of c>; *)
Lemma map_desc_brackets r k s : map_desc r (repeat cLBRACK k ++ s) =
  match map_desc r s with Ok x => Ok (repeat cLBRACK k ++ x) | Err => Err end.
Proof.
  unfold map_desc. induction k as [|k IH]; cbn [repeat app].
  - destruct (map_desc_go r s None); reflexivity.
  - cbn [map_desc_go]. change (N.eqb cLBRACK cL) with false. cbv iota. rewrite IH.
    destruct (map_desc_go r s None); reflexivity.
Qed.

Lemma map_desc_obj r c : c <> [] -> no_semi c -> map_desc r (cL :: c ++ [cSEMI]) = Ok (cL :: r c ++ [cSEMI]).
Proof.
  intros Hne Hs. unfold map_desc.
  change (map_desc_go r (cL :: c ++ [cSEMI]) None)
    with (match map_desc_go r (c ++ [cSEMI]) (Some []) with Ok x => Ok (cL :: x) | Err => Err end).
  pose proof (map_desc_name r c [] [] Hs) as Hx. unfold str in *. rewrite Hx. clear Hx. cbn [app map_desc_go].
  destruct c as [|x c]; [congruence|]. reflexivity.
Qed.

Lemma map_desc_noL r d : ~ In cL d -> map_desc r d = Ok d.
Proof.
  unfold map_desc. induction d as [|c d IH]; intros H; [reflexivity|]. cbn [map_desc_go].
  assert (Ec : N.eqb c cL = false) by (apply N.eqb_neq; intros ->; apply H; left; reflexivity).
  rewrite Ec, IH; [reflexivity|]. intros Hin. apply H. right. exact Hin.
Qed.

Theorem jr_class_any_obj r c : starts_with [cLBRACK] c = false -> jr_class_any r c = Ok (r c).
Proof. unfold jr_class_any. intros ->. reflexivity. Qed.

Theorem jr_class_any_array r k c : c <> [] -> no_semi c ->
  jr_class_any r (repeat cLBRACK (S k) ++ cL :: c ++ [cSEMI]) = Ok (repeat cLBRACK (S k) ++ cL :: r c ++ [cSEMI]).
Proof.
  intros Hne Hs. unfold jr_class_any.
  replace (starts_with [cLBRACK] (repeat cLBRACK (S k) ++ cL :: c ++ [cSEMI])) with true
    by (cbn [repeat app starts_with]; rewrite N.eqb_refl; reflexivity).
  rewrite map_desc_brackets, map_desc_obj by assumption. reflexivity.
Qed.

(* arrays of primitive types are left alone *)
Theorem jr_class_any_prim r d : starts_with [cLBRACK] d = true -> ~ In cL d -> jr_class_any r d = Ok d.
Proof. intros Hs Hl. unfold jr_class_any. rewrite Hs. apply map_desc_noL. exact Hl. Qed.

(* the three together, for the remapper of nest_jar: whatever class name dukebox::remap asks about, the
   answer is jar_name of the class it mentions *)
Theorem jar_remapper_any J T r :
  jar_remapper J T = Ok r ->
  (forall c, starts_with [cLBRACK] c = false -> jr_class_any r c = jar_name J T c) /\
  (forall k c, c <> [] -> no_semi c ->
     exists c', jar_name J T c = Ok c' /\
       jr_class_any r (repeat cLBRACK (S k) ++ cL :: c ++ [cSEMI]) = Ok (repeat cLBRACK (S k) ++ cL :: c' ++ [cSEMI])) /\
  (forall d, starts_with [cLBRACK] d = true -> ~ In cL d -> jr_class_any r d = Ok d) /\
  (forall c, ~ In c (keys (this_nests J T)) -> r c = c).
Proof.
  intros Hr. repeat split.
  - intros c Hc. rewrite jar_name_via_remapper, Hr. apply jr_class_any_obj. exact Hc.
  - intros k c Hne Hs. exists (r c). rewrite jar_name_via_remapper, Hr. split; [reflexivity|].
    apply jr_class_any_array; assumption.
  - intros d Hs Hl. apply jr_class_any_prim; assumption.
  - intros c Hc. eapply jar_remapper_unlisted; eauto.
Qed.

(* members: ARemapperAsBRemapper has no field / method mappings, so names stay and descriptors are
   rewritten by the same class function; the owner of a reference is renamed *)
Theorem jr_member_ref_spec r o nd res :
  jr_member_ref r o nd = Ok res ->
  fst res = r o /\ fst (snd res) = fst nd /\ map_desc r (snd nd) = Ok (snd (snd res)).
Proof.
  unfold jr_member_ref, jr_member. destruct (map_desc r (snd nd)) as [d|]; [|discriminate].
  intros [= <-]. repeat split.
Qed.

Theorem jr_method_ref_array r o nd : starts_with [cLBRACK] o = true ->
  jr_method_ref r o nd = match jr_class_any r o with Ok o' => Ok (o', nd) | Err => Err end.
Proof. unfold jr_method_ref. intros ->. reflexivity. Qed.

(* entry names: `<class>.class` is renamed with the class, everything else is kept *)
Lemma strip_prefix_app p s : strip_prefix p (p ++ s) = Some s.
Proof. induction p as [|a p IH]; [destruct s; reflexivity|]. cbn [app strip_prefix]. rewrite N.eqb_refl. exact IH. Qed.

Lemma strip_prefix_some p s t : strip_prefix p s = Some t -> s = p ++ t.
Proof.
  revert s; induction p as [|a p IH]; intros s H; [destruct s; injection H as <-; reflexivity|].
  destruct s as [|b s]; cbn [strip_prefix] in H; [discriminate|].
  destruct (N.eqb a b) eqn:E; [|discriminate]. apply N.eqb_eq in E. subst b. cbn [app]. f_equal. apply IH. exact H.
Qed.

Theorem jr_entry_name_class r c : jr_entry_name r (c ++ dot_class) = r c ++ dot_class.
Proof.
  unfold jr_entry_name, strip_suffix. rewrite rev_app_distr, strip_prefix_app, rev_involutive. reflexivity.
Qed.

Theorem jr_entry_name_other r name :
  (forall c, name <> c ++ dot_class) -> jr_entry_name r name = name.
Proof.
  intros H. unfold jr_entry_name, strip_suffix.
  destruct (strip_prefix (rev dot_class) (rev name)) as [t|] eqn:E; [|reflexivity].
  exfalso. apply strip_prefix_some in E. apply (H (rev t)).
  rewrite <- (rev_involutive name), E, rev_app_distr, rev_involutive. reflexivity.
Qed.

(* ======================================================================================== *)
(* 5. apply and undo, both namespaces                                                          *)

(* what the common rewriting of nester_run.rs does to a mapping set: source names through tr, target names
   (where a class has one) through dtr, descriptors through tr, everything else untouched, order kept *)
Definition class_rewritten (tr dtr : str -> str) (c c1 : class) : Prop :=
  (exists src dst, c_names c = [Some src; dst] /\ c_names c1 = [Some (tr src); option_map dtr dst]) /\
  Forall2 (fun f f1 => map_desc tr (f_desc f) = Ok (f_desc f1) /\ f_names f1 = f_names f /\ f_doc f1 = f_doc f)
          (c_fields c) (c_fields c1) /\
  Forall2 (fun f f1 => map_desc tr (m_desc f) = Ok (m_desc f1) /\ m_names f1 = m_names f /\ m_doc f1 = m_doc f /\ m_params f1 = m_params f)
          (c_methods c) (c_methods c1) /\
  c_doc c1 = c_doc c.

Lemma rw_mappings_spec tr dtr M M1 :
  rw_mappings tr dtr M = OOk M1 ->
  ms_ns M1 = ms_ns M /\ ms_doc M1 = ms_doc M /\
  Forall2 (class_rewritten tr dtr) (ms_classes M) (ms_classes M1).
Proof.
  unfold rw_mappings. intros H.
  destruct (add_children class_key str_eqb _ (ms_classes M) []) as [cs1| |] eqn:E; try discriminate.
  cbn [obind] in H. injection H as <-. cbn [ms_ns ms_doc ms_classes]. split; [reflexivity|]. split; [reflexivity|].
  apply add_children_ok in E. destruct E as (cs1' & H2 & ->). cbn [app].
  eapply Forall2_mono; [|exact H2]. intros c c1 Hr. cbn beta in Hr. unfold rw_class in Hr.
  destruct (c_names c) as [|[src|] [|d [|? ?]]] eqn:En; try discriminate.
  destruct (add_children field_key key2_eqb _ (c_fields c) []) as [fs1| |] eqn:Ef; try discriminate.
  destruct (add_children meth_key key2_eqb _ (c_methods c) []) as [ms1| |] eqn:Emm; try discriminate.
  cbn [obind] in Hr. injection Hr as <-. unfold class_rewritten. cbn [c_names c_fields c_methods c_doc].
  apply add_children_ok in Ef. destruct Ef as (fs1' & Hf2 & ->).
  apply add_children_ok in Emm. destruct Emm as (ms1' & Hm2 & ->). cbn [app].
  split; [exists src, d; auto|].
  split; [|split; [|reflexivity]].
  - eapply Forall2_mono; [|exact Hf2]. intros f f1 Hf. cbn beta in Hf. unfold rw_field in Hf.
    destruct (map_desc tr (f_desc f)); [|discriminate]. injection Hf as <-. auto.
  - eapply Forall2_mono; [|exact Hm2]. intros f f1 Hf. cbn beta in Hf. unfold rw_meth in Hf.
    destruct (map_desc tr (m_desc f)); [|discriminate]. injection Hf as <-. auto.
Qed.

(* apply: source side by the translation of the table, TARGET side by the translation of the table's image
   (remap_nests) — the same construction Enclosing$Inner, in the target namespace *)
Theorem apply_spec T M M1 :
  apply_nests M T = OOk M1 ->
  exists T' m m', map_nests T M = Ok T' /\ translation T = Ok m /\ translation T' = Ok m' /\
    ms_ns M1 = ms_ns M /\ ms_doc M1 = ms_doc M /\
    Forall2 (class_rewritten (map_class m) (map_class m')) (ms_classes M) (ms_classes M1).
Proof.
  unfold apply_nests. intros H.
  destruct (map_nests T M) as [T'|] eqn:E1; [|discriminate]. cbn [of_res obind] in H.
  destruct (translation T) as [m|] eqn:E2; [|discriminate]. cbn [of_res obind] in H.
  destruct (translation T') as [m'|] eqn:E3; [|discriminate]. cbn [of_res obind] in H.
  exists T', m, m'. split; [reflexivity|]. split; [reflexivity|]. split; [exact E3|].
  apply (rw_mappings_spec _ _ _ _ H).
Qed.

(* undo: source side by the inverse pairs of the translation; a target name is touched only when it is itself
   the name of a listed class, and then every `$` in it becomes `__` *)
Definition undo_dst (T : table) (d : str) : str := if mem_str d (keys T) then dollar_to_uu d else d.

Theorem undo_spec T M M1 :
  undo_nests M T = OOk M1 ->
  exists m, translation T = Ok m /\
    ms_ns M1 = ms_ns M /\ ms_doc M1 = ms_doc M /\
    Forall2 (class_rewritten (map_class (inverse m)) (undo_dst T)) (ms_classes M) (ms_classes M1).
Proof.
  unfold undo_nests. intros H.
  destruct (translation T) as [m|] eqn:E; [|discriminate]. cbn [of_res obind] in H.
  exists m. split; [reflexivity|]. apply (rw_mappings_spec _ _ _ _ H).
Qed.

Lemma dollar_to_uu_no_dollar s : ~ In cDOLLAR (dollar_to_uu s).
Proof.
  unfold dollar_to_uu. intros H. apply in_flat_map in H. destruct H as (c & _ & Hin).
  destruct (N.eqb c cDOLLAR) eqn:E.
  - destruct Hin as [H|[H|[]]]; discriminate.
  - destruct Hin as [->|[]]. rewrite N.eqb_refl in E. discriminate.
Qed.

Lemma dollar_to_uu_id s : ~ In cDOLLAR s -> dollar_to_uu s = s.
Proof.
  unfold dollar_to_uu. induction s as [|c s IH]; intros H; [reflexivity|]. cbn [flat_map].
  assert (E : N.eqb c cDOLLAR = false) by (apply N.eqb_neq; intros ->; apply H; left; reflexivity).
  rewrite E. cbn [app]. f_equal. apply IH. intros Hin. apply H. right. exact Hin.
Qed.

Lemma dollar_to_uu_app a b : dollar_to_uu (a ++ b) = dollar_to_uu a ++ dollar_to_uu b.
Proof. unfold dollar_to_uu. apply flat_map_app. Qed.

Theorem undo_dst_spec T d :
  (~ In d (keys T) -> undo_dst T d = d) /\
  (In d (keys T) -> ~ In cDOLLAR (undo_dst T d) /\
     forall a b, d = a ++ cDOLLAR :: b -> undo_dst T d = dollar_to_uu a ++ [cUSCORE; cUSCORE] ++ dollar_to_uu b).
Proof.
  unfold undo_dst. split.
  - intros H. apply mem_str_false in H. rewrite H. reflexivity.
  - intros H. apply mem_str_In in H. rewrite H. split; [apply dollar_to_uu_no_dollar|].
    intros a b ->. rewrite dollar_to_uu_app. f_equal.
Qed.

(* ======================================================================================== *)
(* 6. one classification of inner names at every site                                          *)

(* the classification NestTypeA::new / inner_name / strip_local_class_prefix use: by the ASCII digits in front *)
Definition ascii_kind (s : str) : nkind :=
  match drop_digits s with
  | [] => KAnon
  | _ => match take_digits s with [] => KInner | _ => KLocal end
  end.

Lemma forallb_digits_drop s : forallb is_digit s = true <-> drop_digits s = [].
Proof.
  induction s as [|c s IH]; [cbn; tauto|]. cbn [forallb drop_digits].
  destruct (is_digit c); cbn [andb]; [exact IH|]. split; discriminate.
Qed.

(* the text reader assigns exactly that kind (and never reads an empty inner name) *)
Theorem read_line_kind l n : read_line l = Ok n -> n_kind n = ascii_kind (n_inner n) /\ n_inner n <> [].
Proof.
  unfold read_line. intros H.
  destruct (split_on cTAB l) as [|cls [|encl [|mname [|mdesc [|inner [|acc [|? ?]]]]]]]; try discriminate.
  destruct (is_nil cls || is_nil encl || is_nil inner) eqn:En; [discriminate|].
  apply orb_false_iff in En. destruct En as [_ Hin].
  destruct (negb (is_valid_obj_class_name cls)); [discriminate|].
  destruct (negb (is_valid_obj_class_name encl)); [discriminate|].
  destruct (if is_nil mname || is_nil mdesc then Ok None else if is_valid_method_name mname then Ok (Some (mname, mdesc)) else Err) as [meth|]; [|discriminate].
  destruct (negb (is_valid_obj_class_name inner)); [discriminate|].
  destruct (parse_access acc) as [a|]; [|discriminate]. injection H as <-. cbn [n_kind n_inner].
  split; [|destruct inner; [discriminate|discriminate]].
  unfold ascii_kind. destruct (forallb is_digit inner) eqn:Ea.
  - apply forallb_digits_drop in Ea. rewrite Ea. reflexivity.
  - destruct (drop_digits inner) as [|x r] eqn:Ed; [apply forallb_digits_drop in Ed; congruence|].
    destruct inner as [|c s]; [discriminate|]. cbn [take_digits]. destruct (is_digit c); reflexivity.
Qed.

(* so for a table read from text: an anonymous nest is one whose inner name is all ASCII digits, and it is
   nested exactly when that number is 1 .. 2^31-1 (the `+` of the parser can not occur) *)
Theorem read_anonymous_rule l n :
  read_line l = Ok n -> n_kind n = KAnon ->
  forallb is_digit (n_inner n) = true /\
  (anon_index_ok (n_inner n) = true <-> (1 <= zfold (n_inner n) 0 <= 2147483647)%Z).
Proof.
  intros H Hk. destruct (read_line_kind l n H) as [Hkind Hne]. rewrite Hk in Hkind. unfold ascii_kind in Hkind.
  destruct (drop_digits (n_inner n)) eqn:Ed; [|destruct (take_digits (n_inner n)); discriminate].
  apply forallb_digits_drop in Ed. split; [exact Ed|].
  rewrite anon_index_ok_spec. split.
  - intros (sign & ds & v & Es & Hs & Hd & Hv). apply dec_denotes_iff in Hd. destruct Hd as (_ & _ & ->).
    destruct Hs as [-> | ->]; [cbn [app] in Es; rewrite Es; exact Hv|].
    exfalso. rewrite Es in Ed. cbn in Ed. discriminate.
  - intros Hv. exists [], (n_inner n), (zfold (n_inner n) 0%Z). cbn [app]. repeat split; auto; try lia.
    apply dec_denotes_iff. auto.
Qed.

(* ======================================================================================== *)
(* non-vacuity of the hypotheses of this part, on the example of Theory5 (chain of depth 3)    *)

Definition ex_line : str := [66; 9; 65; 9; 109; 9; 40; 41; 86; 9; 48; 48; 55; 9; 48; 120; 49; 57].   (* B<tab>A<tab>m<tab>()V<tab>007<tab>0x19 *)

Definition nonvacuous8 : Prop :=
  (forall n, In n exT -> find_nest exT (n_class n) = Some n) /\
  (length exT < 5)%nat /\
  (exists m, translation_lit 5 exT = Ok m /\ jar_map_lit 5 (this_nests exJ exT) = Ok m /\ m <> []) /\
  (exists r, jar_remapper exJ exT = Ok r /\ r nE = [65; 36; 66; 36; 49; 36; 49; 76] /\ r [90] = [90] /\
     jr_class_any r [91; 91; 76; 69; 59] = Ok [91; 91; 76; 65; 36; 66; 36; 49; 36; 49; 76; 59]) /\
  (exists B, mk_bremap exM = Ok B /\
     b_map_method B nD m_m = Ok ([114], [40; 41; 86]) /\                                   (* mapped: m -> r *)
     b_map_method B nB ([60;105;110;105;116;62], [40;76;68;59;41;86]) = Ok ([60;105;110;105;116;62], [40;76;67;95;55;59;41;86]) /\
     (forall b, b_find B nB = Some b -> m_find (b_meths b) ([60;105;110;105;116;62], [40;76;68;59;41;86]) = None)) /\
  (exists M1 M2, apply_nests exM exT = OOk M1 /\ undo_nests M1 exT = OOk M2) /\
  (exists n, read_line ex_line = Ok n /\ n_kind n = KAnon /\ anon_index_ok (n_inner n) = true /\ n_access n = 25) /\
  parse_i32 [45; 50; 49; 52; 55; 52; 56; 51; 54; 52; 56] = Some (-2147483648)%Z /\
  dec_denotes [48; 52; 50] 42%Z.

Lemma nonvacuous8_holds : nonvacuous8.
Proof.
  unfold nonvacuous8.
  split. { intros n [<-|[<-|[<-|[]]]]; vm_compute; reflexivity. }
  split. { cbn. lia. }
  split. { eexists. split; [vm_compute; reflexivity|]. split; [vm_compute; reflexivity|discriminate]. }
  split. { destruct (jar_remapper exJ exT) as [r|] eqn:E; [|vm_compute in E; discriminate].
           exists r. split; [reflexivity|]. unfold jar_remapper in E.
           destruct (jar_map (this_nests exJ exT)) as [m|] eqn:Em; [|discriminate]. injection E as <-.
           vm_compute in Em. injection Em as <-. repeat split; vm_compute; reflexivity. }
  split. { destruct (mk_bremap exM) as [B|] eqn:EB; [|vm_compute in EB; discriminate].
           exists B. split; [reflexivity|]. vm_compute in EB. injection EB as <-.
           repeat split; try (vm_compute; reflexivity). intros b Hb. vm_compute in Hb. injection Hb as <-. vm_compute. reflexivity. }
  split. { destruct (apply_nests exM exT) as [M1| |] eqn:Ea; try (vm_compute in Ea; discriminate).
           vm_compute in Ea. injection Ea as <-.
           eexists. eexists. split; [reflexivity|]. vm_compute. reflexivity. }
  split. { eexists. split; [vm_compute; reflexivity|]. repeat split; vm_compute; reflexivity. }
  split. { vm_compute. reflexivity. }
  apply dec_denotes_iff. split; [discriminate|]. split; vm_compute; reflexivity.
Qed.
