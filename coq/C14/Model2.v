(* C14 model, part 2 (definitions only; proofs in Theory8.v): LITERAL transcriptions of three pieces of
   the Rust code that Model.v describes in a more abstract form, so that Theory8 can prove the
   abstract forms equal to the literal ones on ALL inputs:

   1. `str::parse::<i32>()` of core (the anonymous rule of nester_jar.rs) — byte by byte, with the
      checked multiplication / addition / subtraction of the real parser;
   2. the `depth` counters of nester_run.rs build_translation and nester_jar.rs remap (fix c9cdfec):
      the recursion carries the depth and bails when `depth > len`, the fuel parameter only makes the
      recursion structural;
   3. the remapper nest_jar hands to dukebox::remap::{remap_class, remap_jar_entry_name}:
      ARemapperAsBRemapper(MyRemapper(map)) with the default methods of quill's ARemapper / BRemapper
      (map_class, map_class_any, map_field, map_method, map_method_ref). *)
From FB Require Export C14.Model.
From Coq Require Import ZArith.

(* ---------------------------------------------------------------------------------------- *)
(* 1. <i32 as FromStr>::from_str                                                               *)

Definition i32_min : Z := (-2147483648)%Z.
Definition i32_max : Z := 2147483647%Z.
Definition in_i32 (z : Z) : bool := Z.leb i32_min z && Z.leb z i32_max.
(* (c as char).to_digit(10) on a byte; a code point above 127 is several bytes, none of them a digit *)
Definition to_digit10 (c : N) : option Z := if is_digit c then Some (Z.of_N (c - 48)) else None.
(* the loop: result = result.checked_mul(10)?; x = to_digit(c)?; result = result.checked_add(x)?  (checked_sub
   for a negative number) *)
Fixpoint parse_i32_loop (neg : bool) (s : str) (acc : Z) : option Z :=
  match s with
  | [] => Some acc
  | c :: s' =>
      let m := (acc * 10)%Z in
      match to_digit10 c with
      | None => None                                   (* InvalidDigit *)
      | Some x =>
          if negb (in_i32 m) then None                  (* PosOverflow / NegOverflow of the multiplication *)
          else let a := if neg then (m - x)%Z else (m + x)%Z in
               if negb (in_i32 a) then None else parse_i32_loop neg s' a
      end
  end.
Definition parse_i32 (s : str) : option Z :=
  match s with
  | [] => None                                          (* Empty *)
  | c :: d =>
      if N.eqb c cPLUS then match d with [] => None | _ => parse_i32_loop false d 0%Z end
      else if N.eqb c cMINUS then match d with [] => None | _ => parse_i32_loop true d 0%Z end
      else parse_i32_loop false s 0%Z
  end.
(* `inner_name.parse::<i32>().map_or(false, |x| x >= 1)` *)
Definition anon_rule (s : str) : bool :=
  match parse_i32 s with Some x => Z.leb 1 x | None => false end.

(* ---------------------------------------------------------------------------------------- *)
(* 2. the depth counters                                                                       *)

(* nester_run.rs build_translation(nests, class_name, depth) *)
Fixpoint bt_depth (fuel : nat) (T : table) (c : str) (depth : nat) : res str :=
  match fuel with
  | O => Err
  | S k =>
      match find_nest T c with
      | Some n =>
          if Nat.ltb (length T) depth then Err           (* depth > nests.all.len(): bail *)
          else match bt_depth k T (n_encl n) (S depth) with
               | Ok a => Ok (join_inner a (n_inner n))
               | Err => Err
               end
      | None => Ok c
      end
  end.
(* the closure of MyRemapper::new: build_translation(nests, &nest.encl_class_name, 1) *)
Definition nest_translation_lit (fuel : nat) (T : table) (n : nest) : res str :=
  match bt_depth fuel T (n_encl n) 1 with
  | Ok a => Ok (join_inner a (n_inner n))
  | Err => Err
  end.

(* nester_jar.rs fn remap(this_nests, corresponding_nest, depth): the test comes first *)
Fixpoint jr_depth (fuel : nat) (F : table) (n : nest) (depth : nat) : res str :=
  match fuel with
  | O => Err
  | S k =>
      if Nat.ltb (length F) depth then Err
      else match (match find_nest F (n_encl n) with
                  | Some m => jr_depth k F m (S depth)
                  | None => Ok (n_encl n)
                  end) with
           | Ok r => Ok (r ++ cDOLLAR :: n_inner n)
           | Err => Err
           end
  end.

(* MyRemapper::new / the `map` of nest_jar with the literal recursions *)
Definition translation_lit (f : nat) (T : table) : res amap :=
  mapM (fun n => match nest_translation_lit f T n with Ok v => Ok (n_class n, v) | Err => Err end) T.
Definition jar_map_lit (f : nat) (F : table) : res amap :=
  match mapM (fun n => match jr_depth f F n 1 with Ok v => Ok (n_class n, v) | Err => Err end) F with
  | Ok m => Ok (filter (fun kv => negb (str_eqb (fst kv) (snd kv))) m)
  | Err => Err
  end.

(* ---------------------------------------------------------------------------------------- *)
(* 3. the remapper of the jar side, as dukebox::remap uses it                                  *)

(* ARemapper::map_class_any: an array class name is a field descriptor and goes through map_desc *)
Definition jr_class_any (r : str -> str) (c : str) : res str :=
  if starts_with [cLBRACK] c then map_desc r c else Ok (r c).
(* BRemapper::map_field / map_method with map_*_fail = Ok(None): the name stays, the descriptor is rewritten *)
Definition jr_member (r : str -> str) (nd : str * str) : res (str * str) :=
  match map_desc r (snd nd) with Ok d => Ok (fst nd, d) | Err => Err end.
(* map_field_ref / map_method_ref_obj: (owner, name, descriptor) *)
Definition jr_member_ref (r : str -> str) (o : str) (nd : str * str) : res (str * (str * str)) :=
  match jr_member r nd with Ok nd' => Ok (r o, nd') | Err => Err end.
(* map_method_ref: a method of an array class keeps name and descriptor, the owner goes through map_class_any *)
Definition jr_method_ref (r : str -> str) (o : str) (nd : str * str) : res (str * (str * str)) :=
  if starts_with [cLBRACK] o then
    match jr_class_any r o with Ok o' => Ok (o', nd) | Err => Err end
  else jr_member_ref r o nd.

(* remap_jar_entry_name_java: only names ending in `.class` are touched *)
Definition dot_class : str := [46; 99; 108; 97; 115; 115].
Fixpoint strip_prefix (p s : str) : option str :=
  match p, s with
  | [], _ => Some s
  | a :: p', b :: s' => if N.eqb a b then strip_prefix p' s' else None
  | _ :: _, [] => None
  end.
Definition strip_suffix (suf s : str) : option str :=
  match strip_prefix (rev suf) (rev s) with Some r => Some (rev r) | None => None end.
Definition jr_entry_name (r : str -> str) (name : str) : str :=
  match strip_suffix dot_class name with
  | Some c => r c ++ dot_class
  | None => name
  end.

(* the remapper of nest_jar for jar J and table T (remap_option = true) *)
Definition jar_remapper (J : jar) (T : table) : res (str -> str) :=
  match jar_map (this_nests J T) with Ok m => Ok (map_class m) | Err => Err end.
