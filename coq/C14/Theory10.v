(* C14 theory, part 10 (round 7): the classes nest_jar creates.
   1. class_version (the loop that keeps the smallest class-file version) returns THE minimum of the versions of the
      jar's classes under duke's order (major, then minor), and None exactly on a jar without classes;
   2. the created classes: each missing enclosing class is created once, is not a class of the jar, is the enclosing
      class of a listed nest; its header is (minimum version, public, java/lang/Object, nothing else), its name goes
      through the remapper and it sits at the front of the output of nest_jar. *)
From Coq Require Import List NArith Bool Lia.
From FB Require Import Base.Str C14.Model C14.Model3 C14.Theory C14.Theory2.
Import ListNotations.

(* ---------------------------------------------------------------------------------------- *)
(* 1. the version order and the minimum                                                       *)

Lemma version_ltb_spec a b :
  version_ltb a b = true <-> (fst a < fst b \/ (fst a = fst b /\ snd a < snd b))%N.
Proof.
  unfold version_ltb. rewrite orb_true_iff, andb_true_iff, !N.ltb_lt, N.eqb_eq. reflexivity.
Qed.

Lemma version_ltb_false a b :
  version_ltb a b = false <-> (fst b < fst a \/ (fst a = fst b /\ snd b <= snd a))%N.
Proof.
  destruct (version_ltb a b) eqn:E.
  - apply version_ltb_spec in E. split; [discriminate|]. lia.
  - split; [intros _|reflexivity].
    assert (H : ~ (fst a < fst b \/ (fst a = fst b /\ snd a < snd b))%N).
    { intros H. apply version_ltb_spec in H. congruence. }
    lia.
Qed.

Lemma version_ltb_irrefl a : version_ltb a a = false.
Proof. apply version_ltb_false. lia. Qed.

Lemma version_antisym a b : version_ltb a b = false -> version_ltb b a = false -> a = b.
Proof.
  rewrite !version_ltb_false. destruct a as [a1 a2], b as [b1 b2]. cbn [fst snd]. intros H1 H2.
  assert (a1 = b1) by lia. assert (a2 = b2) by lia. subst. reflexivity.
Qed.

Lemma version_le_trans a b c :
  version_ltb b a = false -> version_ltb c b = false -> version_ltb c a = false.
Proof. rewrite !version_ltb_false. lia. Qed.

Lemma version_lt_le a b : version_ltb a b = true -> version_ltb b a = false.
Proof. rewrite version_ltb_spec, version_ltb_false. lia. Qed.

Lemma fold_version_some vs : forall c,
  exists v, fold_left version_step vs (Some c) = Some v /\ (v = c \/ In v vs) /\
            version_ltb c v = false /\ forall w, In w vs -> version_ltb w v = false.
Proof.
  induction vs as [|x vs IH]; intros c; cbn [fold_left version_step].
  - exists c. repeat split; auto using version_ltb_irrefl. intros w [].
  - destruct (version_ltb x c) eqn:E.
    + destruct (IH x) as (v & Hf & Hin & Hle & Hall). exists v. repeat split.
      * exact Hf.
      * right. destruct Hin as [->|Hin]; [left; reflexivity|right; exact Hin].
      * apply (version_le_trans v x c); [exact Hle|apply version_lt_le; exact E].
      * intros w [<-|Hw]; [exact Hle|apply Hall; exact Hw].
    + destruct (IH c) as (v & Hf & Hin & Hle & Hall). exists v. repeat split.
      * exact Hf.
      * destruct Hin as [->|Hin]; [left; reflexivity|right; right; exact Hin].
      * exact Hle.
      * intros w [<-|Hw]; [apply (version_le_trans v c x); assumption|apply Hall; exact Hw].
Qed.

Lemma class_version_min vs v :
  class_version vs = Some v -> In v vs /\ forall w, In w vs -> version_ltb w v = false.
Proof.
  unfold class_version. destruct vs as [|x vs]; cbn [fold_left version_step]; [discriminate|].
  destruct (fold_version_some vs x) as (v' & Hf & Hin & Hle & Hall). rewrite Hf. intros E. injection E as <-.
  split.
  - destruct Hin as [->|Hin]; [left; reflexivity|right; exact Hin].
  - intros w [<-|Hw]; [exact Hle|apply Hall; exact Hw].
Qed.

Lemma class_version_none vs : class_version vs = None <-> vs = [].
Proof.
  split; [|intros ->; reflexivity].
  unfold class_version. destruct vs as [|x vs]; [reflexivity|]. cbn [fold_left version_step].
  destruct (fold_version_some vs x) as (v' & Hf & _). rewrite Hf. discriminate.
Qed.

(* the loop returns the minimum, and a minimum is what it returns *)
Theorem class_version_spec vs v :
  class_version vs = Some v <-> In v vs /\ forall w, In w vs -> version_ltb w v = false.
Proof.
  split; [apply class_version_min|]. intros [Hin Hall].
  destruct (class_version vs) as [v'|] eqn:E.
  - apply class_version_min in E. destruct E as [Hin' Hall']. f_equal.
    apply version_antisym; [apply Hall; exact Hin'|apply Hall'; exact Hin].
  - apply class_version_none in E. subst. destruct Hin.
Qed.

(* ---------------------------------------------------------------------------------------- *)
(* 2. which classes are created                                                               *)

Lemma created_inv J T : forall p cr,
  exists new, snd (filter_nests J T p cr) = cr ++ new /\ NoDup new /\
    forall c, In c new -> ~ In c p /\ exists n, In n T /\ n_encl n = c.
Proof.
  induction T as [|n T IH]; intros p cr; cbn [filter_nests].
  - exists []. rewrite app_nil_r. split; [reflexivity|split; [apply NoDup_nil|intros c []]].
  - destruct (mem_str (n_class n) p) eqn:Ec; cbn [negb].
    + destruct (mem_str (n_encl n) p) eqn:Ee; cbn [negb].
      * destruct (IH p cr) as (new & Hs & Hnd & Hall).
        destruct (filter_nests J T p cr) as [F c]. cbn [snd] in *. exists new. split; [exact Hs|split; [exact Hnd|]].
        intros x Hx. destruct (Hall x Hx) as (Hp & m & Hm & He). split; [exact Hp|]. exists m. split; [right; exact Hm|exact He].
      * destruct (IH (p ++ [n_encl n]) (cr ++ [n_encl n])) as (new & Hs & Hnd & Hall).
        destruct (filter_nests J T (p ++ [n_encl n]) (cr ++ [n_encl n])) as [F c]. cbn [snd] in *.
        exists (n_encl n :: new). split; [|split].
        -- rewrite Hs, <- app_assoc. reflexivity.
        -- constructor; [|exact Hnd]. intros Hx. destruct (Hall _ Hx) as (Hp & _). apply Hp. apply in_or_app. right. left. reflexivity.
        -- intros x [<-|Hx].
           ++ split; [apply mem_str_false; exact Ee|]. exists n. split; [left; reflexivity|reflexivity].
           ++ destruct (Hall x Hx) as (Hp & m & Hm & He). split.
              ** intros Hi. apply Hp. apply in_or_app. left. exact Hi.
              ** exists m. split; [right; exact Hm|exact He].
    + destruct (IH p cr) as (new & Hs & Hnd & Hall). exists new. split; [exact Hs|split; [exact Hnd|]].
      intros x Hx. destruct (Hall x Hx) as (Hp & m & Hm & He). split; [exact Hp|]. exists m. split; [right; exact Hm|exact He].
Qed.

(* every missing enclosing class is created once; a created class is not a class of the jar and is the
   enclosing class of a listed nest *)
Theorem new_classes_spec J T :
  NoDup (new_classes J T) /\
  forall c, In c (new_classes J T) -> ~ In c (jar_classes J) /\ exists n, In n T /\ n_encl n = c.
Proof.
  unfold new_classes. destruct (created_inv J T (jar_classes J) []) as (new & Hs & Hnd & Hall).
  rewrite Hs. cbn [app]. split; assumption.
Qed.

Lemma Forall2_names rm F r : forall cs out,
  Forall2 (class_out_ok rm F r) cs out -> map (fun o : out_class => fst (fst o)) out = map r cs.
Proof.
  intros cs out H. induction H as [|c o cs out Hco _ IH]; [reflexivity|].
  cbn [map]. rewrite IH. f_equal. destruct o as [[name ie] ee]. cbn [class_out_ok fst] in *. destruct Hco as [-> _]. reflexivity.
Qed.

Lemma Forall2_len {A B} (R : A -> B -> Prop) l l' : Forall2 R l l' -> length l = length l'.
Proof. intros H. induction H; cbn [length]; congruence. Qed.

(* the created classes: header and place in the output *)
Theorem nest_jar_created_spec rm vs J T hs :
  nest_jar_created rm vs J T = Ok hs ->
  exists v m out,
    class_version vs = Some v /\ jar_map (this_nests J T) = Ok m /\ nest_jar rm J T = Ok out /\
    hs = map (created_class v (if rm then map_class m else fun c => c)) (new_classes J T) /\
    map h_name hs = map (fun o : out_class => fst (fst o)) (firstn (length hs) out).
Proof.
  unfold nest_jar_created. destruct (class_version vs) as [v|]; [|discriminate].
  destruct (nest_jar rm J T) as [out|] eqn:En; [|discriminate].
  destruct (nest_jar_spec rm J T out En) as (m & Hm & HF). rewrite Hm.
  intros E. injection E as <-. exists v, m, out. repeat split; try reflexivity; try assumption.
  apply Forall2_app_inv_l in HF. destruct HF as (o1 & o2 & H1 & H2 & ->).
  rewrite map_length. rewrite (Forall2_len _ _ _ H1). rewrite firstn_app, PeanoNat.Nat.sub_diag, firstn_all. cbn [firstn]. rewrite app_nil_r.
  rewrite (Forall2_names _ _ _ _ _ H1). rewrite map_map. reflexivity.
Qed.

(* nest_jar_created answers exactly when nest_jar does (the jar then has a class, so there is a version) *)
Theorem nest_jar_created_ok_iff rm vs J T :
  length vs = length J ->
  ((exists hs, nest_jar_created rm vs J T = Ok hs) <-> (exists out, nest_jar rm J T = Ok out)).
Proof.
  intros Hl. unfold nest_jar_created. split.
  - intros [hs H]. destruct (class_version vs); [|discriminate]. destruct (nest_jar rm J T) as [out|]; [|discriminate]. exists out. reflexivity.
  - intros [out H]. destruct (class_version vs) as [v|] eqn:Ev.
    + rewrite H. destruct (nest_jar_spec rm J T out H) as (m & Hm & _). rewrite Hm. eexists. reflexivity.
    + apply class_version_none in Ev. subst vs. destruct J; [discriminate H|discriminate Hl].
Qed.

(* non-vacuity: jar {A (52.0), B (50.3), C (50.0)}, B listed as inner class of the missing class k/Outer *)
Definition cv_example : Prop :=
  class_version [(52, 0); (50, 3); (50, 0); (61, 0)]%N = Some (50, 0)%N /\
  nest_jar_created false [(52, 0); (50, 3)]%N [([65], []); ([66], [])]%N
     [mkNest KInner [66]%N [107; 47; 79]%N None [66]%N 1%N]
  = Ok [mkHeader (50, 3)%N 1%N [107; 47; 79]%N (Some java_lang_object) [] 0 0].
Theorem cv_example_holds : cv_example.
Proof. split; vm_compute; reflexivity. Qed.
