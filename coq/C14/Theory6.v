(* C14 theory, part 6: apply succeeds on the domain of the theorems (so undo ∘ apply is not
   vacuous): well-formed two-namespace mappings with well-formed descriptors, a translation that
   is injective on the classes involved. *)
From FB Require Import C14.Model C14.Theory C14.Theory3.
From Coq Require Import Lia PeanoNat.

Lemma map_desc_ok_indep f g s acc : is_ok (map_desc_go f s acc) = is_ok (map_desc_go g s acc).
Proof.
  revert acc; induction s as [|c s IH]; intros acc; cbn [map_desc_go]; [destruct acc; reflexivity|].
  destruct acc as [n|].
  - destruct (N.eqb c cSEMI).
    + destruct n; [reflexivity|]. specialize (IH None).
      destruct (map_desc_go f s None), (map_desc_go g s None); cbn [is_ok] in *; congruence.
    + apply IH.
  - specialize (IH (if N.eqb c cL then Some [] else None)).
    destruct (map_desc_go f s _), (map_desc_go g s _); cbn [is_ok] in *; congruence.
Qed.

Definition descs_ok (M : mappings) : Prop :=
  forall c d, In c (ms_classes M) -> In d (class_descs c) -> is_ok (map_desc (fun x => x) d) = true.

Lemma map_desc_total f M c d : descs_ok M -> In c (ms_classes M) -> In d (class_descs c) ->
  exists r, map_desc f d = Ok r.
Proof.
  intros H Hc Hd. specialize (H c d Hc Hd). unfold map_desc in *.
  rewrite (map_desc_ok_indep _ f) in H. destruct (map_desc_go f d None); [eexists; reflexivity|discriminate].
Qed.

Lemma NoDup_map_map {A B K K'} (k : A -> K) (k' : B -> K') (F : A -> B) l :
  NoDup (map k l) ->
  (forall x y, In x l -> In y l -> k' (F x) = k' (F y) -> k x = k y) ->
  NoDup (map k' (map F l)).
Proof.
  induction l as [|a l IH]; intros Hnd Hinj; cbn [map]; [constructor|].
  cbn [map] in Hnd. inversion Hnd as [|? ? Hnot Hnd']; subst. constructor.
  - intros Hin. apply Hnot. rewrite map_map in Hin. apply in_map_iff in Hin. destruct Hin as (y & Hy & Hyin).
    rewrite (Hinj a y); [apply in_map; exact Hyin|left; reflexivity|right; exact Hyin|symmetry; exact Hy].
  - apply IH; [exact Hnd'|]. intros x y Hx Hy. apply Hinj; right; assumption.
Qed.

Lemma Forall2_map_fun {A B} (R : A -> B -> Prop) (G : A -> B) l :
  (forall x, In x l -> R x (G x)) -> Forall2 R l (map G l).
Proof.
  induction l as [|a l IH]; intros H; cbn [map]; constructor.
  - apply H. left. reflexivity.
  - apply IH. intros x Hx. apply H. right. exact Hx.
Qed.

Definition desc_of (tr : str -> str) (d : str) : str := match map_desc tr d with Ok r => r | Err => d end.
Definition F_field tr (f : field) : field := mkField (desc_of tr (f_desc f)) (f_names f) (f_doc f).
Definition F_meth tr (m : meth) : meth := mkMeth (desc_of tr (m_desc m)) (m_names m) (m_doc m) (m_params m).

(* rewriting is injective on descriptors whose class names survive the round trip *)
Lemma desc_of_inj tr inv d1 d2 :
  (forall n, In n (desc_names d1) -> no_semi n -> n <> [] -> good tr inv n) ->
  (forall n, In n (desc_names d2) -> no_semi n -> n <> [] -> good tr inv n) ->
  (exists r, map_desc tr d1 = Ok r) -> (exists r, map_desc tr d2 = Ok r) ->
  desc_of tr d1 = desc_of tr d2 -> d1 = d2.
Proof.
  intros H1 H2 (r1 & E1) (r2 & E2). unfold desc_of. rewrite E1, E2. intros <-.
  pose proof (map_desc_roundtrip tr inv d1 r1 E1 H1) as B1.
  pose proof (map_desc_roundtrip tr inv d2 r1 E2 H2) as B2. congruence.
Qed.

Lemma fields_ok tr inv (fs : list field) :
  NoDup (map field_key fs) -> (forall f, In f fs -> field_key f <> None) ->
  (forall f, In f fs -> exists r, map_desc tr (f_desc f) = Ok r) ->
  (forall f n, In f fs -> In n (desc_names (f_desc f)) -> no_semi n -> n <> [] -> good tr inv n) ->
  add_children field_key key2_eqb (rw_field tr) fs [] = OOk (map (F_field tr) fs).
Proof.
  intros Hnd Hsome Hok Hgood.
  apply (add_children_complete field_key key2_eqb (rw_field tr) fs (map (F_field tr) fs) [] key2_eqb_eq).
  - apply Forall2_map_fun. intros f Hf. unfold rw_field, F_field, desc_of.
    destruct (Hok f Hf) as (r & ->). reflexivity.
  - intros y Hy. apply in_map_iff in Hy. destruct Hy as (f & <- & Hf). specialize (Hsome f Hf).
    unfold field_key, F_field in *. cbn [f_names f_desc]. destruct (first_name (f_names f)); congruence.
  - cbn [app]. apply NoDup_map_map with (k := field_key); [exact Hnd|].
    intros x y Hx Hy. unfold field_key, F_field. cbn [f_names f_desc].
    pose proof (Hsome x Hx) as Sx. pose proof (Hsome y Hy) as Sy. unfold field_key in Sx, Sy.
    destruct (first_name (f_names x)) as [nx|]; [|congruence]. destruct (first_name (f_names y)) as [ny|]; [|congruence].
    intros [= -> E]. f_equal. f_equal.
    eapply (desc_of_inj tr inv); eauto.
Qed.

Lemma meths_ok tr inv (fs : list meth) :
  NoDup (map meth_key fs) -> (forall f, In f fs -> meth_key f <> None) ->
  (forall f, In f fs -> exists r, map_desc tr (m_desc f) = Ok r) ->
  (forall f n, In f fs -> In n (desc_names (m_desc f)) -> no_semi n -> n <> [] -> good tr inv n) ->
  add_children meth_key key2_eqb (rw_meth tr) fs [] = OOk (map (F_meth tr) fs).
Proof.
  intros Hnd Hsome Hok Hgood.
  apply (add_children_complete meth_key key2_eqb (rw_meth tr) fs (map (F_meth tr) fs) [] key2_eqb_eq).
  - apply Forall2_map_fun. intros f Hf. unfold rw_meth, F_meth, desc_of.
    destruct (Hok f Hf) as (r & ->). reflexivity.
  - intros y Hy. apply in_map_iff in Hy. destruct Hy as (f & <- & Hf). specialize (Hsome f Hf).
    unfold meth_key, F_meth in *. cbn [m_names m_desc]. destruct (first_name (m_names f)); congruence.
  - cbn [app]. apply NoDup_map_map with (k := meth_key); [exact Hnd|].
    intros x y Hx Hy. unfold meth_key, F_meth. cbn [m_names m_desc].
    pose proof (Hsome x Hx) as Sx. pose proof (Hsome y Hy) as Sy. unfold meth_key in Sx, Sy.
    destruct (first_name (m_names x)) as [nx|]; [|congruence]. destruct (first_name (m_names y)) as [ny|]; [|congruence].
    intros [= -> E]. f_equal. f_equal.
    eapply (desc_of_inj tr inv); eauto.
Qed.

Definition F_class tr dtr (c : class) : class :=
  mkClass (match c_names c with [Some src; dst] => [Some (tr src); option_map dtr dst] | l => l end)
          (c_doc c) (map (F_field tr) (c_fields c)) (map (F_meth tr) (c_methods c)).

(* two-namespace shape of the class rows *)
Definition two_ns (M : mappings) : Prop :=
  forall c, In c (ms_classes M) -> exists src dst, c_names c = [Some src; dst].

Lemma wf_two_ns M : wf M = true -> length (ms_ns M) = 2%nat -> two_ns M.
Proof.
  unfold wf. rewrite !andb_true_iff. intros [[[_ _] Hcs] _] Hlen c Hc.
  rewrite forallb_forall in Hcs. specialize (Hcs c Hc). rewrite Hlen in Hcs.
  unfold wf_class in Hcs. rewrite !andb_true_iff in Hcs. destruct Hcs as [[[[[Hn Hk] _] _] _] _].
  unfold names_ok in Hn. apply andb_true_iff in Hn. destruct Hn as [Hl _]. apply Nat.eqb_eq in Hl.
  unfold class_key, first_name in Hk.
  destruct (c_names c) as [|[src|] [|dst [|? ?]]]; cbn [length] in Hl; try discriminate; try lia.
  exists src, dst. reflexivity.
Qed.

Lemma rw_mappings_succeeds tr inv dtr M :
  keys_ok M -> two_ns M -> descs_ok M ->
  (forall n, In n (desc_classes M) -> no_semi n -> n <> [] -> good tr inv n) ->
  inj_on tr (key_classes M) ->
  rw_mappings tr dtr M = OOk (mkMappings (ms_ns M) (ms_doc M) (map (F_class tr dtr) (ms_classes M))).
Proof.
  intros [Hnd Hck] H2 Hd Hgood Hinj. unfold rw_mappings.
  rewrite (add_children_complete class_key str_eqb (rw_class tr dtr) (ms_classes M)
             (map (F_class tr dtr) (ms_classes M)) [] str_eqb_eq); [reflexivity| | |].
  - apply Forall2_map_fun. intros c Hc. destruct (H2 c Hc) as (src & dst & En).
    destruct (Hck c Hc) as (Hfnd & Hfs & Hmnd & Hms).
    unfold rw_class, F_class. rewrite En.
    rewrite (fields_ok tr inv (c_fields c) Hfnd Hfs).
    + rewrite (meths_ok tr inv (c_methods c) Hmnd Hms); [reflexivity| |].
      * intros f Hf. eapply (map_desc_total tr M c); eauto. unfold class_descs. apply in_or_app. right. apply in_map. exact Hf.
      * intros f n Hf Hn. apply Hgood. unfold desc_classes. apply in_flat_map. exists c. split; [exact Hc|].
        apply in_flat_map. exists (m_desc f). split; [|exact Hn]. unfold class_descs. apply in_or_app. right. apply in_map. exact Hf.
    + intros f Hf. eapply (map_desc_total tr M c); eauto. unfold class_descs. apply in_or_app. left. apply in_map. exact Hf.
    + intros f n Hf Hn. apply Hgood. unfold desc_classes. apply in_flat_map. exists c. split; [exact Hc|].
      apply in_flat_map. exists (f_desc f). split; [|exact Hn]. unfold class_descs. apply in_or_app. left. apply in_map. exact Hf.
  - intros y Hy. apply in_map_iff in Hy. destruct Hy as (c & <- & Hc). destruct (H2 c Hc) as (src & dst & En).
    unfold class_key, F_class. cbn [c_names]. rewrite En. discriminate.
  - cbn [app]. apply NoDup_map_map with (k := class_key); [exact Hnd|].
    intros x y Hx Hy. destruct (H2 x Hx) as (sx & dx & Ex). destruct (H2 y Hy) as (sy & dy & Ey).
    unfold class_key, F_class. cbn [c_names]. rewrite Ex, Ey. cbn [first_name].
    intros [= E]. f_equal. apply Hinj; [| |exact E]; unfold key_classes; apply in_flat_map.
    + exists x. split; [exact Hx|]. unfold class_key. rewrite Ex. left. reflexivity.
    + exists y. split; [exact Hy|]. unfold class_key. rewrite Ey. left. reflexivity.
Qed.

(* apply succeeds, and then undo gives the source side back *)
Theorem apply_then_undo T M T' m m' :
  table_ok T -> wf M = true -> length (ms_ns M) = 2%nat -> descs_ok M ->
  map_nests T M = Ok T' -> translation T = Ok m -> translation T' = Ok m' ->
  inj_on (map_class m) (keys T ++ source_classes M) ->
  exists M1 M2, apply_nests M T = OOk M1 /\ undo_nests M1 T = OOk M2 /\ src_view M2 = src_view M.
Proof.
  intros Hok Hwf Hlen Hd Hmn Em Em' Hinj. pose proof Hok as [Hnd _].
  assert (Hinv : forall c, In c (keys T ++ source_classes M) -> map_class (inverse m) (map_class m c) = c).
  { apply inverse_translation.
    - rewrite (translation_keys T m Em). exact Hnd.
    - rewrite (translation_keys T m Em). intros x Hx. apply in_or_app. left. exact Hx.
    - exact Hinj. }
  assert (Happ : exists M1, apply_nests M T = OOk M1).
  { unfold apply_nests. rewrite Hmn. cbn [of_res obind]. rewrite Em. cbn [of_res obind]. rewrite Em'. cbn [of_res obind]. eexists.
    apply (rw_mappings_succeeds (map_class m) (map_class (inverse m))).
    - apply wf_keys_ok. exact Hwf.
    - apply wf_two_ns; assumption.
    - exact Hd.
    - intros n Hn Hsemi Hne. split; [|split].
      + apply Hinv. apply in_or_app. right. unfold source_classes. apply in_or_app. right. exact Hn.
      + eapply trans_no_semi; [exact Hok|apply map_class_trans; eassumption|exact Hsemi].
      + eapply trans_nonempty; [apply map_class_trans; eassumption|exact Hne].
    - intros x y Hx Hy. apply Hinj; apply in_or_app; right; unfold source_classes; apply in_or_app; left; assumption. }
  destruct Happ as (M1 & HM1). exists M1.
  destruct (undo_apply T M M1 m Hok Hwf Em Hinj HM1) as (M2 & HM2 & Hv). exists M2. auto.
Qed.
