(* C14 theory, part 4: translating a table through mappings (map_nests). *)
From FB Require Import C14.Model C14.Theory.
From Coq Require Import Lia.

(* ---------- rsplit at the last `__` ---------- *)

Definition uu : str := [cUSCORE; cUSCORE].

Lemma rsplit_uu_some s e i :
  rsplit_uu s = Some (e, i) -> s = e ++ uu ++ i /\ rsplit_uu (cUSCORE :: i) = None.
Proof.
  revert e i; induction s as [|x s IH]; intros e i H; cbn [rsplit_uu] in H; [discriminate|].
  destruct (rsplit_uu s) as [[p j]|] eqn:E.
  - injection H as <- <-. destruct (IH p j eq_refl) as [-> Hn]. split; [reflexivity|exact Hn].
  - destruct s as [|y s']; [discriminate|].
    destruct (N.eqb x cUSCORE && N.eqb y cUSCORE) eqn:Exy; [|discriminate].
    injection H as <- <-. apply andb_true_iff in Exy. destruct Exy as [Ex Ey].
    apply N.eqb_eq in Ex, Ey. subst x y. split; [reflexivity|exact E].
Qed.

(* no occurrence at all *)
Lemma rsplit_uu_none s : rsplit_uu s = None -> forall a b, s <> a ++ uu ++ b.
Proof.
  induction s as [|x s IH]; intros H a b Hs.
  - destruct a; discriminate.
  - cbn [rsplit_uu] in H. destruct (rsplit_uu s) as [[p j]|] eqn:E; [discriminate|].
    destruct a as [|a0 a].
    + cbn [app uu] in Hs. injection Hs as -> ->. cbn [N.eqb] in H.
      rewrite !N.eqb_refl in H. discriminate.
    + cbn [app] in Hs. injection Hs as _ ->. apply (IH eq_refl a b). reflexivity.
Qed.

(* ---------- the three cases of inner_name ---------- *)

Lemma take_drop_digits s : s = take_digits s ++ drop_digits s /\ forallb is_digit (take_digits s) = true.
Proof.
  induction s as [|c s [IH1 IH2]]; [auto|]. cbn [take_digits drop_digits].
  destruct (is_digit c) eqn:E; cbn [app forallb]; [rewrite E, IH2, <- IH1|]; auto.
Qed.

Inductive inner_case : str -> Type :=
| IC_anon num : forallb is_digit num = true -> inner_case num
| IC_inner c r : is_digit c = false -> inner_case (c :: r)
| IC_local d c r : d <> [] -> forallb is_digit d = true -> is_digit c = false -> inner_case (d ++ c :: r).

Lemma inner_case_of s : inner_case s.
Proof.
  destruct (take_drop_digits s) as [Hs Hd].
  destruct (drop_digits s) as [|c r] eqn:Er.
  - rewrite app_nil_r in Hs. rewrite Hs. apply IC_anon. exact Hd.
  - assert (Hc : is_digit c = false).
    { clear -Er. induction s as [|x s IH]; [discriminate|]. cbn [drop_digits] in Er.
      destruct (is_digit x) eqn:Ex; [apply IH; exact Er|]. injection Er as -> _. exact Ex. }
    destruct (take_digits s) as [|d0 d] eqn:Et.
    + cbn [app] in Hs. rewrite Hs. apply IC_inner. exact Hc.
    + rewrite Hs. apply IC_local; [discriminate|exact Hd|exact Hc].
Qed.

Lemma drop_digits_app d c r : forallb is_digit d = true -> is_digit c = false -> drop_digits (d ++ c :: r) = c :: r.
Proof.
  induction d as [|x d IH]; intros Hd Hc; cbn [app drop_digits]; [rewrite Hc; reflexivity|].
  cbn [forallb] in Hd. apply andb_true_iff in Hd. destruct Hd as [Hx Hd]. rewrite Hx. apply IH; assumption.
Qed.
Lemma take_digits_app d c r : forallb is_digit d = true -> is_digit c = false -> take_digits (d ++ c :: r) = d.
Proof.
  induction d as [|x d IH]; intros Hd Hc; cbn [app take_digits]; [rewrite Hc; reflexivity|].
  cbn [forallb] in Hd. apply andb_true_iff in Hd. destruct Hd as [Hx Hd]. rewrite Hx. f_equal. apply IH; assumption.
Qed.
Lemma drop_digits_all d : forallb is_digit d = true -> drop_digits d = [].
Proof.
  induction d as [|x d IH]; intros Hd; [reflexivity|]. cbn [forallb] in Hd. apply andb_true_iff in Hd.
  destruct Hd as [Hx Hd]. cbn [drop_digits]. rewrite Hx. apply IH. exact Hd.
Qed.

(* anonymous: the number of a Calamus name C_<number>, else the number of the nests file *)
Theorem inner_name_anonymous cls num mapped :
  forallb is_digit num = true ->
  inner_name cls num mapped =
  match strip_C_ (get_simple_name mapped) with
  | Some x => if forallb is_digit x then Ok x else Err
  | None => Ok num
  end.
Proof. intros H. unfold inner_name. rewrite (drop_digits_all num H). reflexivity. Qed.

(* inner: a derived name follows the mapped simple name, a custom name is kept *)
Theorem inner_name_inner cls c r mapped :
  is_digit c = false ->
  inner_name cls (c :: r) mapped = Ok (if ends_with cls (c :: r) then get_simple_name mapped else c :: r).
Proof.
  intros H. unfold inner_name. cbn [drop_digits take_digits]. rewrite H.
  destruct (ends_with cls (c :: r)); reflexivity.
Qed.

(* local: the number prefix is kept, the name behind it follows the mapped simple name when derived *)
Theorem inner_name_local cls d c r mapped :
  d <> [] -> forallb is_digit d = true -> is_digit c = false ->
  inner_name cls (d ++ c :: r) mapped =
  Ok (if ends_with cls (c :: r) then d ++ get_simple_name mapped else d ++ c :: r).
Proof.
  intros Hne Hd Hc. unfold inner_name. rewrite (drop_digits_app d c r Hd Hc), (take_digits_app d c r Hd Hc).
  destruct d as [|d0 d]; [congruence|]. destruct (ends_with cls (c :: r)); reflexivity.
Qed.

(* ---------- the image of a nest ---------- *)

Definition image_ok (B : bremap) (n n' : nest) : Prop :=
  n_kind n' = n_kind n /\ n_access n' = n_access n /\
  n_class n' = b_map_class B (n_class n) /\
  match n_meth n with
  | None => n_meth n' = None
  | Some m => exists m', n_meth n' = Some m' /\ b_map_method B (n_encl n) m = Ok m'
  end /\
  match rsplit_uu (n_class n') with
  | Some (e, i) => n_encl n' = e /\ n_inner n' = i /\ n_class n' = e ++ uu ++ i
  | None => n_encl n' = b_map_class B (n_encl n) /\
            inner_name (n_class n) (n_inner n) (n_class n') = Ok (n_inner n')
  end.

Lemma map_nest_image B n n' : map_nest B n = Ok n' -> image_ok B n n'.
Proof.
  unfold map_nest, rsplit_underscore. intros H.
  destruct (rsplit_uu (b_map_class B (n_class n))) as [[e i]|] eqn:Es.
  - destruct (ends_with_char cSLASH e); [discriminate|].
    destruct (starts_with [cSLASH] i); [discriminate|].
    destruct (n_meth n) as [m|] eqn:Em.
    + destruct (b_map_method B (n_encl n) m) as [m'|] eqn:Emm; [|discriminate]. injection H as <-.
      unfold image_ok. cbn [n_kind n_access n_class n_meth n_encl n_inner]. rewrite Em, Es.
      repeat split; auto. exists m'. auto. apply rsplit_uu_some in Es. apply Es.
    + injection H as <-. unfold image_ok. cbn [n_kind n_access n_class n_meth n_encl n_inner]. rewrite Em, Es.
      repeat split; auto. apply rsplit_uu_some in Es. apply Es.
  - destruct (inner_name (n_class n) (n_inner n) (b_map_class B (n_class n))) as [i|] eqn:Ei; [|discriminate].
    destruct (n_meth n) as [m|] eqn:Em.
    + destruct (b_map_method B (n_encl n) m) as [m'|] eqn:Emm; [|discriminate]. injection H as <-.
      unfold image_ok. cbn [n_kind n_access n_class n_meth n_encl n_inner]. rewrite Em, Es.
      repeat split; auto. exists m'. auto.
    + injection H as <-. unfold image_ok. cbn [n_kind n_access n_class n_meth n_encl n_inner]. rewrite Em, Es.
      repeat split; auto.
Qed.

(* when does a nest have an image: the mapped name splits properly, an anonymous class mapped to
   C_<x> has digits for x, the enclosing method's descriptor is well formed *)
Lemma map_nest_total B n :
  (forall e i, rsplit_uu (b_map_class B (n_class n)) = Some (e, i) ->
      ends_with_char cSLASH e = false /\ starts_with [cSLASH] i = false) ->
  (rsplit_uu (b_map_class B (n_class n)) = None ->
      exists i, inner_name (n_class n) (n_inner n) (b_map_class B (n_class n)) = Ok i) ->
  (forall m, n_meth n = Some m -> exists m', b_map_method B (n_encl n) m = Ok m') ->
  exists n', map_nest B n = Ok n'.
Proof.
  intros Hs Hi Hm. unfold map_nest, rsplit_underscore.
  destruct (rsplit_uu (b_map_class B (n_class n))) as [[e i]|] eqn:Es.
  - destruct (Hs e i eq_refl) as [-> ->].
    destruct (n_meth n) as [m|]; [destruct (Hm m eq_refl) as (m' & ->)|]; eexists; reflexivity.
  - destruct (Hi eq_refl) as (i & ->).
    destruct (n_meth n) as [m|]; [destruct (Hm m eq_refl) as (m' & ->)|]; eexists; reflexivity.
Qed.

(* ---------- the whole table ---------- *)

Lemma table_add_fresh T n : ~ In (n_class n) (keys T) -> table_add T n = T ++ [n].
Proof.
  induction T as [|m T IH]; intros H; cbn [table_add app]; [reflexivity|].
  destruct (str_eqb_spec (n_class m) (n_class n)) as [E|_].
  - exfalso. apply H. left. exact E.
  - rewrite IH; [reflexivity|]. intros Hin. apply H. right. exact Hin.
Qed.

Lemma map_nests_go_spec B T dst T' :
  NoDup (keys dst ++ map (b_map_class B) (keys T)) ->
  map_nests_go B T dst = Ok T' ->
  exists img, T' = dst ++ img /\ Forall2 (fun n n' => map_nest B n = Ok n') T img.
Proof.
  revert dst T'; induction T as [|n T IH]; intros dst T' Hnd H; cbn [map_nests_go] in H.
  - injection H as <-. exists []. rewrite app_nil_r. split; constructor.
  - destruct (map_nest B n) as [n'|] eqn:En; [|discriminate].
    pose proof (map_nest_image B n n' En) as (_ & _ & Hc & _).
    cbn [keys map] in Hnd.
    assert (Hfresh : ~ In (n_class n') (keys dst)).
    { rewrite Hc. apply NoDup_remove_2 in Hnd. intros Hin. apply Hnd. apply in_or_app. left. exact Hin. }
    rewrite (table_add_fresh dst n' Hfresh) in H.
    destruct (IH (dst ++ [n']) T') as (img & -> & Himg); [|exact H|].
    + unfold keys. rewrite map_app. cbn [map]. rewrite <- app_assoc. cbn [app]. rewrite Hc.
      apply NoDup_remove_1 in Hnd as Hnd1.
      unfold keys in *. revert Hnd. generalize (map n_class dst) as a. generalize (map (b_map_class B) (map n_class T)) as b.
      intros b a Hnd. apply NoDup_remove in Hnd as [Hnd2 Hnot].
      clear -Hnd2 Hnot. induction a as [|x a IHa]; cbn [app] in *.
      * constructor; assumption.
      * inversion Hnd2 as [|? ? Hx Ha]; subst. constructor.
        -- intros Hin. apply in_app_or in Hin. destruct Hin as [Hin|[<-|Hin]].
           ++ apply Hx. apply in_or_app. left. exact Hin.
           ++ apply Hnot. left. reflexivity.
           ++ apply Hx. apply in_or_app. right. exact Hin.
        -- apply IHa; [exact Ha|]. intros Hin. apply Hnot. right. exact Hin.
    + exists (n' :: img). rewrite <- app_assoc. split; [reflexivity|]. constructor; assumption.
Qed.

(* Theorem 5.  Translating a table through mappings keeps every nest: the result lists, in order,
   one image per nest, with class, enclosing class, enclosing method and inner name in the target
   namespace (when no two listed classes are mapped to the same target name). *)
Theorem map_nests_total T M B T' :
  mk_bremap M = Ok B ->
  NoDup (map (b_map_class B) (keys T)) ->
  map_nests T M = Ok T' ->
  Forall2 (image_ok B) T T'.
Proof.
  intros HB Hnd H. unfold map_nests in H. rewrite HB in H.
  destruct (map_nests_go_spec B T [] T' Hnd H) as (img & -> & Himg). cbn [app].
  clear -Himg. induction Himg; constructor; auto using map_nest_image.
Qed.

Corollary map_nests_length T M B T' :
  mk_bremap M = Ok B -> NoDup (map (b_map_class B) (keys T)) -> map_nests T M = Ok T' ->
  length T' = length T.
Proof.
  intros HB Hnd H. pose proof (map_nests_total T M B T' HB Hnd H) as F.
  clear -F. induction F; cbn [length]; congruence.
Qed.

(* and it succeeds as soon as every nest has an image *)
Theorem map_nests_succeeds T M B :
  mk_bremap M = Ok B ->
  (forall n, In n T -> exists n', map_nest B n = Ok n') ->
  exists T', map_nests T M = Ok T'.
Proof.
  intros HB Hall. unfold map_nests. rewrite HB. generalize (@nil nest) as dst.
  induction T as [|n T IH]; intros dst; cbn [map_nests_go]; [eexists; reflexivity|].
  destruct (Hall n (or_introl eq_refl)) as (n' & ->). apply IH. intros k Hk. apply Hall. right. exact Hk.
Qed.

(* ---------- the class part of the remapper is the mapping set's source -> target table ---------- *)

Definition b_pairs (B : bremap) : amap := map (fun b => (b_from b, b_to b)) B.

Lemma b_find_alookup B c : option_map b_to (b_find B c) = alookup (b_pairs B) c.
Proof.
  induction B as [|b B IH]; [reflexivity|]. cbn [b_find b_pairs map alookup].
  fold (b_pairs B). rewrite <- IH. destruct (b_find B c) as [x|]; [reflexivity|].
  cbn [option_map]. destruct (str_eqb (b_from b) c); reflexivity.
Qed.

Lemma b_class_pairs ra rb c l : b_class ra rb c = Ok l ->
  b_pairs l = match nth_name (c_names c) 0, nth_name (c_names c) 1 with
              | Some a, Some b => [(a, b)]
              | _, _ => []
              end.
Proof.
  unfold b_class. destruct (nth_name (c_names c) 0) as [a|]; [|intros [= <-]; reflexivity].
  destruct (nth_name (c_names c) 1) as [b|]; [|intros [= <-]; reflexivity].
  destruct (mapM _ (c_fields c)); [|discriminate]. destruct (mapM _ (c_methods c)); [|discriminate].
  intros [= <-]. reflexivity.
Qed.

Lemma mk_bremap_pairs M B : mk_bremap M = Ok B -> b_pairs B = class_pairs (ms_classes M) 0 1.
Proof.
  unfold mk_bremap. destruct (mapM _ (ms_classes M)) as [l|] eqn:E; [|discriminate]. intros [= <-].
  apply mapM_ok in E. unfold class_pairs.
  induction E as [|c x cs l Hc _ IH]; [reflexivity|].
  cbn [concat flat_map]. unfold b_pairs in *. rewrite map_app, IH. f_equal.
  apply (b_class_pairs _ _ _ _ Hc).
Qed.

(* map_class of the remapper = look the class up in the (source, target) pairs of the mapping set *)
Theorem b_map_class_is_mapping M B c :
  mk_bremap M = Ok B -> b_map_class B c = map_class (class_pairs (ms_classes M) 0 1) c.
Proof.
  intros H. unfold b_map_class, map_class. rewrite <- (mk_bremap_pairs M B H), <- b_find_alookup.
  destruct (b_find B c); reflexivity.
Qed.
