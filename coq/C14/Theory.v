(* C14 theory, part 1: chains of nests, fuel, the name translation and the agreement of the jar
   side with the mappings side. *)
From FB Require Import C14.Model.
From Coq Require Import Lia.

(* ---------- generic ---------- *)

Lemma mapM_ok {A B} (f : A -> res B) l r :
  mapM f l = Ok r -> Forall2 (fun x y => f x = Ok y) l r.
Proof.
  revert r; induction l as [|x l IH]; intros r H; cbn [mapM] in H.
  - injection H as <-. constructor.
  - destruct (f x) as [y|] eqn:Ef; [|discriminate].
    destruct (mapM f l) as [ys|] eqn:El; [|discriminate].
    injection H as <-. constructor; auto.
Qed.

Lemma mapM_complete {A B} (f : A -> res B) l r :
  Forall2 (fun x y => f x = Ok y) l r -> mapM f l = Ok r.
Proof.
  induction 1 as [|x y l r Hxy _ IH]; cbn [mapM]; [reflexivity|].
  rewrite Hxy, IH. reflexivity.
Qed.

Lemma mapM_ext {A B} (f g : A -> res B) l :
  (forall x, In x l -> f x = g x) -> mapM f l = mapM g l.
Proof.
  induction l as [|x l IH]; intros H; cbn [mapM]; [reflexivity|].
  rewrite (H x (or_introl eq_refl)), IH; [reflexivity|].
  intros y Hy. apply H. right. exact Hy.
Qed.

Lemma mapM_total {A B} (f : A -> res B) l :
  (forall x, In x l -> exists y, f x = Ok y) -> exists r, mapM f l = Ok r.
Proof.
  induction l as [|x l IH]; intros H; cbn [mapM]; [eexists; reflexivity|].
  destruct (H x (or_introl eq_refl)) as (y & ->).
  destruct IH as (r & ->); [intros z Hz; apply H; right; exact Hz|].
  eexists; reflexivity.
Qed.

Lemma mem_str_In x l : mem_str x l = true <-> In x l.
Proof.
  unfold mem_str. rewrite existsb_exists. split.
  - intros (y & Hy & E). apply str_eqb_eq in E. subst. exact Hy.
  - intros H. exists x. split; [exact H|apply str_eqb_refl].
Qed.

Lemma mem_str_false x l : mem_str x l = false <-> ~ In x l.
Proof.
  rewrite <- mem_str_In. destruct (mem_str x l); split; congruence.
Qed.

(* ---------- tables ---------- *)

Lemma find_nest_some T c n : find_nest T c = Some n -> In n T /\ n_class n = c.
Proof.
  unfold find_nest. intros H. apply find_some in H. destruct H as [Hi He].
  apply str_eqb_eq in He. auto.
Qed.

Lemma find_nest_none T c : find_nest T c = None -> ~ In c (keys T).
Proof.
  unfold find_nest, keys. intros H Hin. apply in_map_iff in Hin. destruct Hin as (n & <- & Hn).
  pose proof (find_none _ _ H n Hn) as E. cbn in E. rewrite str_eqb_refl in E. discriminate.
Qed.

Lemma find_nest_in T n : NoDup (keys T) -> In n T -> find_nest T (n_class n) = Some n.
Proof.
  unfold find_nest, keys. induction T as [|m T IH]; intros Hnd Hin; [destruct Hin|].
  cbn [find map] in *. inversion Hnd as [|? ? Hnotin Hnd']; subst.
  destruct Hin as [->|Hin].
  - rewrite str_eqb_refl. reflexivity.
  - destruct (str_eqb_spec (n_class m) (n_class n)) as [E|_].
    + exfalso. apply Hnotin. rewrite E. apply in_map. exact Hin.
    + apply IH; assumption.
Qed.

Lemma find_nest_key T c : In c (keys T) -> exists n, find_nest T c = Some n.
Proof.
  intros Hin. destruct (find_nest T c) eqn:E; [eexists; reflexivity|].
  exfalso. eapply find_nest_none; eauto.
Qed.

(* the chain of enclosing classes starting at c, as long as it stays inside the table *)
Inductive chain (T : table) : str -> list str -> Prop :=
| chain_out c : find_nest T c = None -> chain T c []
| chain_in c n l : find_nest T c = Some n -> chain T (n_encl n) l -> chain T c (c :: l).

(* no class is (transitively) enclosed by itself *)
Definition acyclic (T : table) : Prop := forall c, exists l, chain T c l.

Lemma chain_det T c l1 l2 : chain T c l1 -> chain T c l2 -> l1 = l2.
Proof.
  intros H1; revert l2; induction H1 as [c Hn|c n l Hf _ IH]; intros l2 H2; inversion H2; subst; try congruence.
  f_equal. apply IH. match goal with H : find_nest T c = Some ?m |- _ => rewrite Hf in H; injection H as <- end.
  assumption.
Qed.

Lemma chain_keys T c l : chain T c l -> incl l (keys T).
Proof.
  induction 1 as [c Hn|c n l Hf _ IH]; [intros x []|].
  intros x [<-|Hx]; [|apply IH; exact Hx].
  apply find_nest_some in Hf. destruct Hf as [Hi <-]. unfold keys. apply in_map. exact Hi.
Qed.

Lemma chain_suffix T c l x : chain T c l -> In x l -> exists l', chain T x l' /\ (length l' <= length l)%nat.
Proof.
  induction 1 as [c Hn|c n l Hf Hc IH]; [intros []|].
  intros [<-|Hx].
  - exists (c :: l). split; [econstructor; eauto|lia].
  - destruct (IH Hx) as (l' & Hl' & Hlen). exists l'. split; [exact Hl'|cbn [length]; lia].
Qed.

Lemma chain_nodup T c l : chain T c l -> NoDup l.
Proof.
  induction 1 as [c Hn|c n l Hf Hc IH]; constructor; [|exact IH].
  intros Hin. destruct (chain_suffix _ _ _ _ Hc Hin) as (l' & Hl' & Hlen).
  assert (E : l' = c :: l) by (eapply chain_det; [exact Hl'|econstructor; eauto]).
  subst l'. cbn [length] in Hlen. lia.
Qed.

(* pigeonhole: a chain visits every key at most once *)
Lemma chain_length T c l : chain T c l -> (length l <= length T)%nat.
Proof.
  intros H. replace (length T) with (length (keys T)) by (unfold keys; apply map_length).
  apply NoDup_incl_length; [eapply chain_nodup; eauto|eapply chain_keys; eauto].
Qed.

(* the name a class gets: Enclosing$Inner, transitively *)
Inductive trans (T : table) : str -> str -> Prop :=
| trans_out c : find_nest T c = None -> trans T c c
| trans_in c n a : find_nest T c = Some n -> trans T (n_encl n) a -> trans T c (join_inner a (n_inner n)).

Lemma trans_det T c r1 r2 : trans T c r1 -> trans T c r2 -> r1 = r2.
Proof.
  intros H1; revert r2; induction H1 as [c Hn|c n a Hf _ IH]; intros r2 H2; inversion H2; subst; try congruence.
  match goal with H : find_nest T c = Some ?m |- _ => rewrite Hf in H; injection H as <- end.
  f_equal. apply IH. assumption.
Qed.

Lemma bt_sound k T c r : build_translation k T c = Ok r -> trans T c r.
Proof.
  revert c r; induction k as [|k IH]; intros c r H; cbn [build_translation] in H; [discriminate|].
  destruct (find_nest T c) as [n|] eqn:Ef.
  - destruct (build_translation k T (n_encl n)) as [a|] eqn:Ea; [|discriminate].
    injection H as <-. econstructor; eauto.
  - injection H as <-. constructor. exact Ef.
Qed.

Lemma bt_fuel T c l : chain T c l -> forall k, (length l < k)%nat -> exists r, build_translation k T c = Ok r.
Proof.
  induction 1 as [c Hn|c n l Hf _ IH]; intros k Hk; (destruct k as [|k]; [lia|]); cbn [build_translation].
  - rewrite Hn. eexists; reflexivity.
  - rewrite Hf. cbn [length] in Hk. destruct (IH k ltac:(lia)) as (a & ->). eexists; reflexivity.
Qed.

Lemma bt_total T c : acyclic T -> exists r, build_translation (table_fuel T) T c = Ok r /\ trans T c r.
Proof.
  intros Ha. destruct (Ha c) as (l & Hl).
  destruct (bt_fuel T c l Hl (table_fuel T)) as (r & Hr).
  - pose proof (chain_length _ _ _ Hl). unfold table_fuel. lia.
  - exists r. split; [exact Hr|eapply bt_sound; exact Hr].
Qed.

Lemma nest_translation_total T n : acyclic T ->
  exists a, nest_translation (table_fuel T) T n = Ok (join_inner a (n_inner n)) /\ trans T (n_encl n) a.
Proof.
  intros Ha. destruct (bt_total T (n_encl n) Ha) as (a & Ea & Ht).
  exists a. unfold nest_translation. rewrite Ea. auto.
Qed.

Lemma translation_total T : acyclic T -> exists m, translation T = Ok m.
Proof.
  intros Ha. unfold translation. apply mapM_total. intros n _.
  destruct (nest_translation_total T n Ha) as (a & -> & _). eexists; reflexivity.
Qed.

(* ---------- association lists ---------- *)

Lemma alookup_some m c v : alookup m c = Some v -> In (c, v) m.
Proof.
  induction m as [|[k w] m IH]; cbn [alookup]; [discriminate|].
  destruct (alookup m c) as [x|] eqn:E.
  - intros [= ->]. right. apply IH. reflexivity.
  - destruct (str_eqb_spec k c) as [->|_]; [|discriminate]. intros [= ->]. left. reflexivity.
Qed.

Lemma alookup_none m c : alookup m c = None -> ~ In c (map fst m).
Proof.
  induction m as [|[k w] m IH]; cbn [alookup map fst]; [intros _ []|].
  destruct (alookup m c) as [x|] eqn:E; [discriminate|].
  destruct (str_eqb_spec k c) as [->|Hn]; [discriminate|].
  intros _ [H|H]; [congruence|]. apply IH; auto.
Qed.

Lemma alookup_in m c v : NoDup (map fst m) -> In (c, v) m -> alookup m c = Some v.
Proof.
  induction m as [|[k w] m IH]; cbn [alookup map fst]; intros Hnd Hin; [destruct Hin|].
  inversion Hnd as [|? ? Hnotin Hnd']; subst. destruct Hin as [[= -> ->]|Hin].
  - destruct (alookup m c) as [x|] eqn:E.
    + exfalso. apply Hnotin. apply alookup_some in E. change c with (fst (c, x)). apply in_map. exact E.
    + rewrite str_eqb_refl. reflexivity.
  - rewrite (IH Hnd' Hin). reflexivity.
Qed.

Definition nonid (kv : str * str) : bool := negb (str_eqb (fst kv) (snd kv)).

Lemma map_class_filter_nonid m c :
  NoDup (map fst m) -> map_class (filter nonid m) c = map_class m c.
Proof.
  intros Hnd. unfold map_class.
  destruct (alookup m c) as [v|] eqn:E.
  - apply alookup_some in E.
    destruct (str_eqb_spec c v) as [->|Hne].
    + destruct (alookup (filter nonid m) v) as [w|] eqn:E2; [|reflexivity].
      apply alookup_some in E2. apply filter_In in E2. destruct E2 as [Hin _].
      assert (Some w = Some v) as [= ->]; [|reflexivity].
      rewrite <- (alookup_in m v w Hnd Hin). apply alookup_in; assumption.
    + assert (Hin : In (c, v) (filter nonid m)).
      { apply filter_In. split; [exact E|]. unfold nonid. cbn [fst snd].
        destruct (str_eqb_spec c v); [contradiction|reflexivity]. }
      rewrite (alookup_in (filter nonid m) c v); [reflexivity| |exact Hin].
      clear -Hnd. induction m as [|[k w] m IH]; cbn [filter map fst] in *; [constructor|].
      inversion Hnd as [|? ? Hnotin Hnd']; subst.
      destruct (nonid (k, w)); [|apply IH; exact Hnd'].
      cbn [map fst]. constructor; [|apply IH; exact Hnd'].
      intros Hin. apply Hnotin. apply in_map_iff in Hin. destruct Hin as ([k' w'] & <- & Hin).
      apply filter_In in Hin. destruct Hin as [Hin _]. change (fst (k', w')) with (fst (k', w')).
      apply in_map. exact Hin.
  - destruct (alookup (filter nonid m) c) as [w|] eqn:E2; [|reflexivity].
    exfalso. apply alookup_some in E2. apply filter_In in E2. destruct E2 as [Hin _].
    apply alookup_none in E. apply E. change c with (fst (c, w)). apply in_map. exact Hin.
Qed.

(* ---------- the two name constructions coincide ---------- *)

(* nester_jar.rs `remap` and nester_run.rs `build_translation` are the same recursion *)
Lemma jar_remap_is_translation k F n : jar_remap k F n = nest_translation k F n.
Proof.
  revert n; induction k as [|k IH]; intros n; [reflexivity|].
  cbn [jar_remap]. unfold nest_translation at 1. cbn [build_translation].
  destruct (find_nest F (n_encl n)) as [m|] eqn:Ef.
  - rewrite IH. unfold nest_translation. destruct (build_translation k F (n_encl m)); reflexivity.
  - reflexivity.
Qed.


(* the pairs (class, new name) both sides build *)
Definition entry_of (g : nest -> res str) (n : nest) : res (str * str) :=
  match g n with Ok v => Ok (n_class n, v) | Err => Err end.

Lemma translation_unfold T : translation T = mapM (entry_of (nest_translation (table_fuel T) T)) T.
Proof. reflexivity. Qed.

Lemma entries_keys g l m : mapM (entry_of g) l = Ok m -> map fst m = map n_class l.
Proof.
  intros H. apply mapM_ok in H. induction H as [|n [k v] l m Hn _ IH]; [reflexivity|].
  cbn [map fst]. rewrite IH. f_equal. unfold entry_of in Hn.
  destruct (g n); [|discriminate]. injection Hn as <- _. reflexivity.
Qed.

Lemma entries_in g l m k v :
  mapM (entry_of g) l = Ok m -> (In (k, v) m <-> exists n, In n l /\ n_class n = k /\ g n = Ok v).
Proof.
  intros H. apply mapM_ok in H. induction H as [|n [k' v'] l m Hn _ IH].
  - split; [intros []|intros (n & [] & _)].
  - unfold entry_of in Hn. destruct (g n) as [w|] eqn:Eg; [|discriminate]. injection Hn as <- <-.
    split.
    + intros [[= <- <-]|Hin].
      * exists n. split; [left; reflexivity|auto].
      * apply IH in Hin. destruct Hin as (n' & Hn' & Hk & Hg). exists n'. split; [right; exact Hn'|auto].
    + intros (n' & [<-|Hn'] & Hk & Hg).
      * left. rewrite Eg in Hg. injection Hg as <-. rewrite Hk. reflexivity.
      * right. apply IH. exists n'. auto.
Qed.

Lemma translation_keys T m : translation T = Ok m -> map fst m = keys T.
Proof. rewrite translation_unfold. apply entries_keys. Qed.

Lemma jar_map_is_translation F :
  jar_map F = match translation F with Ok m => Ok (filter nonid m) | Err => Err end.
Proof.
  unfold jar_map. rewrite translation_unfold.
  rewrite (mapM_ext _ (entry_of (nest_translation (table_fuel F) F))); [reflexivity|].
  intros n _. unfold entry_of. rewrite jar_remap_is_translation. reflexivity.
Qed.

(* Theorem 1.  When every entry of the table applies to the jar (the filter keeps the whole
   table), the jar side and the mappings side give every class the same name. *)
Definition all_apply (J : jar) (T : table) : Prop := this_nests J T = T.

Theorem jar_mapping_agree_eq J T :
  NoDup (keys T) -> all_apply J T -> forall c, jar_name J T c = mapping_name T c.
Proof.
  intros Hnd Hall c. unfold jar_name, mapping_name. rewrite Hall, jar_map_is_translation.
  destruct (translation T) as [m|] eqn:Em; [|reflexivity].
  rewrite map_class_filter_nonid; [reflexivity|].
  rewrite (translation_keys T m Em). exact Hnd.
Qed.

(* the name given by the mappings side is Enclosing$Inner, transitively *)
Lemma mapping_name_trans T c r :
  NoDup (keys T) -> mapping_name T c = Ok r -> trans T c r.
Proof.
  intros Hnd. unfold mapping_name. destruct (translation T) as [m|] eqn:Em; [|discriminate].
  intros [= <-]. unfold map_class.
  destruct (alookup m c) as [v|] eqn:El.
  - apply alookup_some in El. rewrite translation_unfold in Em.
    apply (entries_in _ _ _ c v Em) in El. destruct El as (n & Hn & Hk & Hg).
    unfold nest_translation in Hg.
    destruct (build_translation (table_fuel T) T (n_encl n)) as [a|] eqn:Ea; [|discriminate].
    injection Hg as <-. apply trans_in; [|eapply bt_sound; exact Ea].
    rewrite <- Hk. apply find_nest_in; assumption.
  - apply alookup_none in El. rewrite (translation_keys T m Em) in El.
    constructor. destruct (find_nest T c) eqn:Ef; [|reflexivity].
    exfalso. apply El. apply find_nest_some in Ef. destruct Ef as [Hi <-]. unfold keys. apply in_map. exact Hi.
Qed.

Lemma mapping_name_total T c : acyclic T -> exists r, mapping_name T c = Ok r.
Proof.
  intros Ha. unfold mapping_name. destruct (translation_total T Ha) as (m & ->). eexists; reflexivity.
Qed.

Theorem jar_mapping_agree J T :
  NoDup (keys T) -> acyclic T -> all_apply J T ->
  forall c, exists r, jar_name J T c = Ok r /\ mapping_name T c = Ok r /\ trans T c r.
Proof.
  intros Hnd Ha Hall c. destruct (mapping_name_total T c Ha) as (r & Hr).
  exists r. rewrite jar_mapping_agree_eq by assumption. split; [exact Hr|]. split; [exact Hr|].
  apply mapping_name_trans; assumption.
Qed.

(* in general (entries that do not apply are dropped) the jar side computes the same function of
   the FILTERED table that the mappings side computes of the whole table *)
Theorem jar_name_is_mapping_name_of_filtered J T c :
  NoDup (keys (this_nests J T)) -> jar_name J T c = mapping_name (this_nests J T) c.
Proof.
  intros Hnd. unfold jar_name, mapping_name. rewrite jar_map_is_translation.
  destruct (translation (this_nests J T)) as [m|] eqn:Em; [|reflexivity].
  rewrite map_class_filter_nonid; [reflexivity|].
  rewrite (translation_keys _ m Em). exact Hnd.
Qed.

(* classes that are not listed keep their name, on both sides *)
Lemma mapping_name_unlisted T c : acyclic T -> ~ In c (keys T) -> mapping_name T c = Ok c.
Proof.
  intros Ha Hc. unfold mapping_name. destruct (translation_total T Ha) as (m & Em). rewrite Em.
  unfold map_class. destruct (alookup m c) as [v|] eqn:E; [|reflexivity].
  exfalso. apply Hc. rewrite <- (translation_keys T m Em). apply alookup_some in E.
  change c with (fst (c, v)). apply in_map. exact E.
Qed.

Lemma acyclic_sub T F : NoDup (keys T) -> incl F T -> NoDup (keys F) -> acyclic T -> acyclic F.
Proof.
  intros HndT Hincl HndF Ha.
  (* a chain in F follows the same enclosing classes as in T, but may leave earlier *)
  assert (Hstep : forall c n, find_nest F c = Some n -> find_nest T c = Some n).
  { intros c n Hf. apply find_nest_some in Hf. destruct Hf as [Hin <-]. apply find_nest_in; auto. }
  assert (Hall : forall l c, chain T c l -> exists l', chain F c l').
  { induction l as [|x l IH]; intros c Hl.
    - inversion Hl; subst. exists []. constructor.
      destruct (find_nest F c) as [n|] eqn:Ef; [|reflexivity]. apply Hstep in Ef. congruence.
    - inversion Hl as [|? n ? Hf Hc]; subst.
      destruct (find_nest F x) as [n'|] eqn:Ef.
      + pose proof (Hstep _ _ Ef) as Ht. rewrite Hf in Ht. injection Ht as <-.
        destruct (IH _ Hc) as (l' & Hl'). exists (x :: l'). econstructor; eauto.
      + exists []. constructor. exact Ef. }
  intros c. destruct (Ha c) as (l & Hl). eapply Hall; eauto.
Qed.
