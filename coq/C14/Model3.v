(* C14 model, part 3 (round 7; definitions only, proofs in Theory10.v): the HEADER of the enclosing classes
   nest_jar creates (dukenest/src/nester_jar.rs):

   1. the first loop of nest_jar keeps the smallest class-file version of the jar
        if class_version.is_none() || class_version.is_some_and(|cv| class_node.version < cv) { class_version = Some(class_node.version) }
      with duke's `Ord for Version` (major, then minor); `class_version.context("no classes in input")?`;
   2. a missing enclosing class is `ClassFile::new(class_version, ClassAccess { is_public: true, ..default }, name,
      Some(java/lang/Object), vec![])`: that version, access flags 0x0001, super class java/lang/Object, no interfaces,
      no fields, no methods; with `remap` its name and its super class go through the remapper like every class reference. *)
From Coq Require Import List NArith Bool.
From FB Require Import Base.Str C14.Model.
Import ListNotations.

(* (major, minor) *)
Definition version := (N * N)%type.

(* duke/src/tree/version.rs: self.major.cmp(&other.major).then_with(|| self.minor.cmp(&other.minor)); `a < b` *)
Definition version_ltb (a b : version) : bool :=
  N.ltb (fst a) (fst b) || (N.eqb (fst a) (fst b) && N.ltb (snd a) (snd b)).

(* one round of the loop over the class entries *)
Definition version_step (cv : option version) (v : version) : option version :=
  match cv with
  | None => Some v
  | Some c => if version_ltb v c then Some v else Some c
  end.
(* the loop: versions of the jar's classes in entry order *)
Definition class_version (vs : list version) : option version := fold_left version_step vs None.

(* "java/lang/Object" *)
Definition java_lang_object : str := [106; 97; 118; 97; 47; 108; 97; 110; 103; 47; 79; 98; 106; 101; 99; 116].
Definition acc_public : N := 1.

(* what a class file says before its attributes *)
Record header := mkHeader {
  h_version : version;
  h_access : N;
  h_name : str;
  h_super : option str;
  h_interfaces : list str;
  h_fields : nat;
  h_methods : nat }.

Definition created_class (v : version) (r : str -> str) (c : str) : header :=
  mkHeader v acc_public (r c) (Some (r java_lang_object)) [] 0 0.

(* the headers of the classes nest_jar creates, in output order (they are the first entries of the output);
   vs = the versions of the classes of J, in order *)
Definition nest_jar_created (remap : bool) (vs : list version) (J : jar) (T : table) : res (list header) :=
  match class_version vs with
  | None => Err                                 (* "no classes in input" *)
  | Some v =>
      match nest_jar remap J T with
      | Err => Err                              (* cyclic table of applicable nests, malformed descriptor *)
      | Ok _ =>
          match jar_map (this_nests J T) with
          | Err => Err
          | Ok m => let r := if remap then map_class m else (fun c => c) in
                    Ok (map (created_class v r) (new_classes J T))
          end
      end
  end.
