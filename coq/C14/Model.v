(* C14 model: dukenest (nester_jar.rs, nester_run.rs, nests_mapper_run.rs, io.rs, nest.rs), the
   part of quill/src/remapper.rs these call (map_desc, ARemapper::map_class, the BRemapper built
   by Mappings::remapper_b with NoSuperClassProvider) and the class-level part of
   dukebox/src/remap.rs that the jar side relies on (entry names, InnerClass, EnclosingMethod).
   Definitions only; proofs are in Theory*.v.  join_inner / get_simple_name / rsplit_once and the
   name/descriptor validity predicates are those of the C18 model. *)
From FB Require Export Base.Str Base.Run Quill.Mappings C18.Model.

(* ---------------------------------------------------------------------------------------- *)
(* results: a panic of the real code is an observable outcome of its own                       *)

Inductive outcome (A : Type) : Type := OOk (a : A) | OErr | OPanic.
Arguments OOk {A} a.
Arguments OErr {A}.
Arguments OPanic {A}.
Definition obind {A B} (r : outcome A) (f : A -> outcome B) : outcome B :=
  match r with OOk a => f a | OErr => OErr | OPanic => OPanic end.
Definition of_res {A} (r : res A) : outcome A := match r with Ok a => OOk a | Err => OErr end.

Fixpoint mapM {A B} (f : A -> res B) (l : list A) : res (list B) :=
  match l with
  | [] => Ok []
  | x :: l' => match f x with
               | Err => Err
               | Ok y => match mapM f l' with Ok ys => Ok (y :: ys) | Err => Err end
               end
  end.

(* ---------------------------------------------------------------------------------------- *)
(* nest.rs                                                                                     *)

Inductive nkind := KAnon | KInner | KLocal.
Record nest := mkNest {
  n_kind : nkind;
  n_class : str;                    (* class_name *)
  n_encl : str;                     (* encl_class_name *)
  n_meth : option (str * str);      (* encl_method: name, descriptor *)
  n_inner : str;                    (* inner_name *)
  n_access : N                      (* inner_access as the u16 it was built from *)
}.
(* Nests.all : IndexMap<ObjClassName, Nest>, insertion order; keys are the class names *)
Definition table := list nest.

Definition keys (T : table) : list str := map n_class T.
Definition mem_str (x : str) (l : list str) : bool := existsb (str_eqb x) l.
Definition find_nest (T : table) (c : str) : option nest := find (fun n => str_eqb (n_class n) c) T.

(* Nests::add = IndexMap::insert: an existing key keeps its position and gets the new value *)
Fixpoint table_add (T : table) (n : nest) : table :=
  match T with
  | [] => [n]
  | m :: T' => if str_eqb (n_class m) (n_class n) then n :: T' else m :: table_add T' n
  end.

(* ---------------------------------------------------------------------------------------- *)
(* small string helpers                                                                        *)

Definition is_digit (c : N) : bool := N.leb 48 c && N.leb c 57.
Fixpoint drop_digits (s : str) : str :=
  match s with c :: s' => if is_digit c then drop_digits s' else s | [] => [] end.
Fixpoint take_digits (s : str) : str :=
  match s with c :: s' => if is_digit c then c :: take_digits s' else [] | [] => [] end.
Definition ends_with (s suf : str) : bool := starts_with (rev suf) (rev s).
Definition digits_value (s : str) : N := fold_left (fun a c => 10 * a + (c - 48)) s 0.

(* nester_jar.rs strip_local_class_prefix *)
Definition strip_local_class_prefix (s : str) : str :=
  match drop_digits s with [] => s | r => r end.

(* `inner_name.parse::<i32>().map_or(false, |x| x >= 1)`: optional sign, at least one digit,
   only digits, no overflow of i32 *)
Definition cPLUS : N := 43.
Definition cMINUS : N := 45.
Definition digits_ge1 (d : str) : bool :=
  negb (is_nil d) && forallb is_digit d && N.leb 1 (digits_value d) && N.leb (digits_value d) 2147483647.
Definition anon_index_ok (s : str) : bool :=
  match s with
  | c :: d => if N.eqb c cPLUS then digits_ge1 d
              else if N.eqb c cMINUS then false   (* negative, zero, or not a number *)
              else digits_ge1 s
  | [] => false
  end.

(* ---------------------------------------------------------------------------------------- *)
(* quill/src/remapper.rs: class maps and map_desc                                              *)

Definition amap := list (str * str).
(* IndexMap built by insert / collect and read by get: the LAST pair with the key wins *)
Fixpoint alookup (m : amap) (c : str) : option str :=
  match m with
  | [] => None
  | (k, v) :: m' => match alookup m' c with
                    | Some x => Some x
                    | None => if str_eqb k c then Some v else None
                    end
  end.
(* ARemapper::map_class *)
Definition map_class (m : amap) (c : str) : str :=
  match alookup m c with Some v => v | None => c end.

(* map_desc: every char is copied; after an `L` the next char must exist and not be `;`, the
   name runs to the next `;` (which must exist) and is replaced by its image.
   [acc] = None outside a name, Some n after `L` with n the part of the name read so far. *)
Fixpoint map_desc_go (f : str -> str) (s : str) (acc : option str) : res str :=
  match s with
  | [] => match acc with None => Ok [] | Some _ => Err end
  | c :: s' =>
      match acc with
      | None =>
          match map_desc_go f s' (if N.eqb c cL then Some [] else None) with
          | Ok r => Ok (c :: r)
          | Err => Err
          end
      | Some n =>
          if N.eqb c cSEMI then
            match n with
            | [] => Err
            | _ => match map_desc_go f s' None with
                   | Ok r => Ok (f n ++ cSEMI :: r)
                   | Err => Err
                   end
            end
          else map_desc_go f s' (Some (n ++ [c]))
      end
  end.
Definition map_desc (f : str -> str) (d : str) : res str := map_desc_go f d None.

(* the class names a descriptor mentions (same scanning) *)
Fixpoint desc_names_go (s : str) (acc : option str) : list str :=
  match s with
  | [] => []
  | c :: s' =>
      match acc with
      | None => desc_names_go s' (if N.eqb c cL then Some [] else None)
      | Some n => if N.eqb c cSEMI then n :: desc_names_go s' None
                  else desc_names_go s' (Some (n ++ [c]))
      end
  end.
Definition desc_names (d : str) : list str := desc_names_go d None.

(* ---------------------------------------------------------------------------------------- *)
(* nester_run.rs: MyRemapper::new / build_translation over the WHOLE table                     *)

(* recursion over the user-supplied chain of enclosing classes.  The Rust code counts the nests it
   has passed (`depth`) and bails with "cyclic nests table" once the count exceeds the size of the
   table (fix c9cdfec; before it recursed without bound and the process died of a stack overflow).
   Here: fuel |T|+1, out of fuel = that Err.  Both bounds are reached only on a chain that comes back
   to a class it has passed (Theory7.translation_err_iff: Err <-> the table is cyclic), so the exact
   position of the check does not matter. *)
Fixpoint build_translation (fuel : nat) (T : table) (c : str) : res str :=
  match fuel with
  | O => Err
  | S k =>
      match find_nest T c with
      | Some n => match build_translation k T (n_encl n) with
                  | Ok a => Ok (join_inner a (n_inner n))
                  | Err => Err
                  end
      | None => Ok c
      end
  end.
Definition nest_translation (fuel : nat) (T : table) (n : nest) : res str :=
  match build_translation fuel T (n_encl n) with
  | Ok a => Ok (join_inner a (n_inner n))
  | Err => Err
  end.
Definition table_fuel (T : table) : nat := S (length T).
Definition translation (T : table) : res amap :=
  mapM (fun n => match nest_translation (table_fuel T) T n with
                 | Ok v => Ok (n_class n, v)
                 | Err => Err
                 end) T.
(* apply = false: the pairs are turned around *)
Definition inverse (m : amap) : amap := map (fun kv => (snd kv, fst kv)) m.

(* the name the mappings side gives to class c *)
Definition mapping_name (T : table) (c : str) : res str :=
  match translation T with Ok m => Ok (map_class m c) | Err => Err end.

(* ---------------------------------------------------------------------------------------- *)
(* nester_jar.rs                                                                               *)

(* what nest_jar looks at in the input jar: class names (entry order) with their methods *)
Definition jar := list (str * list (str * str)).
Definition key2_eqb' (a b : str * str) : bool := str_eqb (fst a) (fst b) && str_eqb (snd a) (snd b).
(* methods_map.get(encl).map(|ms| ms.contains(m)); methods_map.insert: the last entry of a name wins *)
Fixpoint jar_methods (J : jar) (c : str) : option (list (str * str)) :=
  match J with
  | [] => None
  | (k, ms) :: J' => match jar_methods J' c with
                     | Some x => Some x
                     | None => if str_eqb k c then Some ms else None
                     end
  end.
Definition has_encl_method (J : jar) (n : nest) : bool :=
  match n_meth n with
  | Some m => match jar_methods J (n_encl n) with
              | Some ms => existsb (key2_eqb' m) ms
              | None => false
              end
  | None => false
  end.
(* the rule of the kind *)
Definition kind_rule (J : jar) (n : nest) : bool :=
  match n_kind n with
  | KAnon => anon_index_ok (n_inner n)
  | KInner => negb (has_encl_method J n)
  | KLocal => has_encl_method J n
  end.

(* the `filter` closure, run over the table in order.  It has state: a missing enclosing class is
   created and from then on counts as present (classes_in_jar.insert), also for later nests and
   also when the nest itself is then rejected by its kind rule. *)
Fixpoint filter_nests (J : jar) (T : table) (present created : list str) : table * list str :=
  match T with
  | [] => ([], created)
  | n :: T' =>
      if negb (mem_str (n_class n) present) then filter_nests J T' present created
      else
        let missing := negb (mem_str (n_encl n) present) in
        let present' := if missing then present ++ [n_encl n] else present in
        let created' := if missing then created ++ [n_encl n] else created in
        let '(F, cr) := filter_nests J T' present' created' in
        (if kind_rule J n then n :: F else F, cr)
  end.
Definition jar_classes (J : jar) : list str := map fst J.
Definition this_nests (J : jar) (T : table) : table := fst (filter_nests J T (jar_classes J) []).
Definition new_classes (J : jar) (T : table) : list str := snd (filter_nests J T (jar_classes J) []).

(* fn remap(this_nests, nest, depth): over the FILTERED table; same depth bound, same Err *)
Fixpoint jar_remap (fuel : nat) (F : table) (n : nest) : res str :=
  match fuel with
  | O => Err
  | S k =>
      match (match find_nest F (n_encl n) with
             | Some m => jar_remap k F m
             | None => Ok (n_encl n)
             end) with
      | Ok r => Ok (r ++ cDOLLAR :: n_inner n)
      | Err => Err
      end
  end.
(* the map of MyRemapper: pairs whose two names are equal are dropped *)
Definition jar_map (F : table) : res amap :=
  match mapM (fun n => match jar_remap (table_fuel F) F n with
                       | Ok v => Ok (n_class n, v)
                       | Err => Err
                       end) F with
  | Ok m => Ok (filter (fun kv => negb (str_eqb (fst kv) (snd kv))) m)
  | Err => Err
  end.
Definition jar_name (J : jar) (T : table) (c : str) : res str :=
  match jar_map (this_nests J T) with Ok m => Ok (map_class m c) | Err => Err end.

(* do_nested_class_attribute_class_visitor followed by remap_class with the jar remapper r
   (ARemapperAsBRemapper: methods keep their name, descriptors are rewritten):
   the InnerClasses entry (inner_class, outer_class, inner_name, flags) appended to the class and its
   EnclosingMethod (class, method) *)
Definition inner_entry := (str * option str * option str * N)%type.
Definition encl_entry := (str * option (str * str))%type.
Definition synth_inner (r : str -> str) (n : nest) : inner_entry :=
  (r (n_class n),
   match n_kind n with KInner => Some (r (n_encl n)) | _ => None end,
   match n_kind n with KAnon => None | _ => Some (strip_local_class_prefix (n_inner n)) end,
   n_access n).
(* descriptors are only touched when nest_jar is asked to remap *)
Definition jar_desc (remap : bool) (r : str -> str) (d : str) : res str :=
  if remap then map_desc r d else Ok d.
Definition synth_encl (remap : bool) (r : str -> str) (n : nest) : res (option encl_entry) :=
  match n_kind n with
  | KInner => Ok None
  | _ => match n_meth n with
         | None => Ok (Some (r (n_encl n), None))
         | Some (mn, md) => match jar_desc remap r md with
                            | Ok md' => Ok (Some (r (n_encl n), Some (mn, md')))
                            | Err => Err
                            end
         end
  end.
(* one output class: entry/class name, the appended InnerClasses entry, the EnclosingMethod set *)
Definition out_class := (str * option inner_entry * option encl_entry)%type.
Definition nest_class (remap : bool) (F : table) (r : str -> str) (c : str) : res out_class :=
  match find_nest F c with
  | None => Ok (r c, None, None)
  | Some n => match synth_encl remap r n with
              | Ok e => Ok (r c, Some (synth_inner r n), e)
              | Err => Err
              end
  end.
(* nest_jar: the created classes first (creation order), then the classes of the input, in order *)
Definition nest_jar (remap : bool) (J : jar) (T : table) : res (list out_class) :=
  match J with
  | [] => Err   (* "no classes in input" *)
  | _ =>
      let F := this_nests J T in
      match jar_map F with
      | Err => Err
      | Ok m => let r := if remap then map_class m else (fun c => c) in
                mapM (nest_class remap F r) (new_classes J T ++ map fst J)
      end
  end.

(* ---------------------------------------------------------------------------------------- *)
(* nests_mapper_run.rs                                                                         *)

Definition cUSCORE : N := 95.
(* name.rsplit_once("__"): split at the LAST occurrence of two underscores *)
Fixpoint rsplit_uu (s : str) : option (str * str) :=
  match s with
  | [] => None
  | x :: s' =>
      match rsplit_uu s' with
      | Some (p, i) => Some (x :: p, i)
      | None => match s' with
                | y :: s'' => if N.eqb x cUSCORE && N.eqb y cUSCORE then Some ([], s'') else None
                | [] => None
                end
      end
  end.
(* fn rsplit_underscore *)
Definition rsplit_underscore (s : str) : res (option (str * str)) :=
  match rsplit_uu s with
  | None => Ok None
  | Some (e, i) => if ends_with_char cSLASH e then Err
                   else if starts_with [cSLASH] i then Err
                   else Ok (Some (e, i))
  end.

(* fn inner_name(nest_class_name, nest_inner_name, mapped_name), NestTypeA::new inlined:
   the case is decided by the digits at the start of the inner name, not by the nest's kind *)
Definition strip_C_ (s : str) : option str :=
  match s with 67 :: 95 :: r => Some r | _ => None end.
Definition inner_name (cls inner mapped : str) : res str :=
  match drop_digits inner with
  | [] =>                                   (* Anonymous(number): only digits (or empty) *)
      match strip_C_ (get_simple_name mapped) with
      | Some num => if forallb is_digit num then Ok num else Err
      | None => Ok inner
      end
  | simple =>
      match take_digits inner with
      | [] =>                               (* Inner(inner_name): no digits in front *)
          if ends_with cls inner then Ok (get_simple_name mapped) else Ok inner
      | prefix =>                           (* Local(prefix, simple) *)
          if ends_with cls simple then Ok (prefix ++ get_simple_name mapped) else Ok inner
      end
  end.

(* Mappings::remapper_b(0, 1, NoSuperClassProvider) *)
Definition class_pairs (cs : list class) (i j : nat) : amap :=
  flat_map (fun c => match nth_name (c_names c) i, nth_name (c_names c) j with
                     | Some a, Some b => [(a, b)]
                     | _, _ => []
                     end) cs.
Definition mpair := ((str * str) * (str * str))%type.
Record bclass := mkB { b_from : str; b_to : str; b_meths : list mpair }.
Definition bremap := list bclass.

Definition b_member (ra_from ra_to : amap) (nm : names) (desc : str) : res (list mpair) :=
  match nth_name nm 0, nth_name nm 1 with
  | Some nf, Some nt =>
      match map_desc (map_class ra_from) desc, map_desc (map_class ra_to) desc with
      | Ok df, Ok dt => Ok [((nf, df), (nt, dt))]
      | _, _ => Err
      end
  | _, _ => Ok []
  end.
Definition b_class (ra_from ra_to : amap) (c : class) : res (list bclass) :=
  match nth_name (c_names c) 0, nth_name (c_names c) 1 with
  | Some nf, Some nt =>
      match mapM (fun f => b_member ra_from ra_to (f_names f) (f_desc f)) (c_fields c),
            mapM (fun m => b_member ra_from ra_to (m_names m) (m_desc m)) (c_methods c) with
      | Ok _, Ok ms => Ok [mkB nf nt (concat ms)]
      | _, _ => Err
      end
  | _, _ => Ok []
  end.
Definition mk_bremap (M : mappings) : res bremap :=
  let cs := ms_classes M in
  match mapM (b_class (class_pairs cs 0 0) (class_pairs cs 0 1)) cs with
  | Ok l => Ok (concat l)
  | Err => Err
  end.
(* IndexMap get after inserts: last wins *)
Fixpoint b_find (B : bremap) (c : str) : option bclass :=
  match B with
  | [] => None
  | b :: B' => match b_find B' c with
               | Some x => Some x
               | None => if str_eqb (b_from b) c then Some b else None
               end
  end.
Fixpoint m_find (l : list mpair) (k : str * str) : option (str * str) :=
  match l with
  | [] => None
  | (a, b) :: l' => match m_find l' k with
                    | Some x => Some x
                    | None => if key2_eqb' a k then Some b else None
                    end
  end.
Definition b_map_class (B : bremap) (c : str) : str :=
  match b_find B c with Some b => b_to b | None => c end.
(* BRemapper::map_method_name_and_desc with no super classes *)
Definition b_map_method (B : bremap) (owner : str) (m : str * str) : res (str * str) :=
  match (match b_find B owner with Some b => m_find (b_meths b) m | None => None end) with
  | Some r => Ok r
  | None => match map_desc (b_map_class B) (snd m) with
            | Ok d => Ok (fst m, d)
            | Err => Err
            end
  end.

Definition map_nest (B : bremap) (n : nest) : res nest :=
  let mapped := b_map_class B (n_class n) in
  match rsplit_underscore mapped with
  | Err => Err
  | Ok sp =>
      match (match sp with
             | Some (e, i) => Ok (e, i)                 (* provided mappings already use nesting *)
             | None => match inner_name (n_class n) (n_inner n) mapped with
                       | Ok i => Ok (b_map_class B (n_encl n), i)
                       | Err => Err
                       end
             end) with
      | Err => Err
      | Ok (e, i) =>
          match (match n_meth n with
                 | None => Ok None
                 | Some m => match b_map_method B (n_encl n) m with Ok r => Ok (Some r) | Err => Err end
                 end) with
          | Err => Err
          | Ok meth => Ok (mkNest (n_kind n) mapped e meth i (n_access n))
          end
      end
  end.
Fixpoint map_nests_go (B : bremap) (T : table) (dst : table) : res table :=
  match T with
  | [] => Ok dst
  | n :: T' => match map_nest B n with
               | Ok n' => map_nests_go B T' (table_add dst n')
               | Err => Err
               end
  end.
Definition map_nests (T : table) (M : mappings) : res table :=
  match mk_bremap M with
  | Ok B => map_nests_go B T []
  | Err => Err
  end.

(* ---------------------------------------------------------------------------------------- *)
(* nester_run.rs: apply_nests_to_mappings / undo_nests_to_mappings                             *)

(* map_with_key_from_result_iter: children are produced one by one and added under the key of
   their info; a key that cannot be computed or is already there is an error *)
Fixpoint add_children {A K} (key : A -> option K) (keqb : K -> K -> bool) (f : A -> outcome A)
    (l acc : list A) : outcome (list A) :=
  match l with
  | [] => OOk acc
  | x :: l' =>
      match f x with
      | OOk y =>
          match key y with
          | None => OErr
          | Some k => if existsb (fun z => opt_eqb keqb (key z) (Some k)) acc then OErr
                      else add_children key keqb f l' (acc ++ [y])
          end
      | OErr => OErr
      | OPanic => OPanic
      end
  end.

Definition rw_field (tr : str -> str) (f : field) : outcome field :=
  match map_desc tr (f_desc f) with
  | Ok d => OOk (mkField d (f_names f) (f_doc f))
  | Err => OErr
  end.
Definition rw_meth (tr : str -> str) (m : meth) : outcome meth :=
  match map_desc tr (m_desc m) with
  | Ok d => OOk (mkMeth d (m_names m) (m_doc m) (m_params m))
  | Err => OErr
  end.
(* one class: source name through [tr], target name (if the class has one) through [dtr],
   descriptors through [tr].  (Names::try_from refuses empty names; names of a mapping tree are
   never empty and neither [tr] nor [dtr] produce an empty name from a non-empty one.) *)
Definition rw_class (tr dtr : str -> str) (c : class) : outcome class :=
  match c_names c with
  | [Some src; dst] =>
      obind (add_children field_key key2_eqb (rw_field tr) (c_fields c) []) (fun fs =>
      obind (add_children meth_key key2_eqb (rw_meth tr) (c_methods c) []) (fun ms =>
      OOk (mkClass [Some (tr src); option_map dtr dst] (c_doc c) fs ms)))
  | _ => OErr      (* not a Mappings<2> node with a key: cannot be built *)
  end.
Definition rw_mappings (tr dtr : str -> str) (M : mappings) : outcome mappings :=
  obind (add_children class_key str_eqb (rw_class tr dtr) (ms_classes M) []) (fun cs =>
  OOk (mkMappings (ms_ns M) (ms_doc M) cs)).

Definition apply_nests (M : mappings) (T : table) : outcome mappings :=
  obind (of_res (map_nests T M)) (fun T' =>
  obind (of_res (translation T)) (fun m =>
  obind (of_res (translation T')) (fun m' =>
  rw_mappings (map_class m) (map_class m') M))).

(* `name.replace('$', "__")` (the Rust function is called replace_double_underscore_with_dollar) *)
Definition dollar_to_uu (s : str) : str :=
  flat_map (fun c => if N.eqb c cDOLLAR then [cUSCORE; cUSCORE] else [c]) s.

Definition undo_nests (M : mappings) (T : table) : outcome mappings :=
  obind (of_res (translation T)) (fun m =>
  rw_mappings (map_class (inverse m))
              (fun d => if mem_str d (keys T) then dollar_to_uu d else d) M).

(* ---------------------------------------------------------------------------------------- *)
(* io.rs: Nests::read                                                                          *)

Definition parse_digits (base : N) (digit : N -> option N) (s : str) : res N :=
  match s with
  | [] => Err
  | _ => fold_left (fun a c => match a, digit c with
                               | Ok v, Some d => if N.leb (base * v + d) 65535 then Ok (base * v + d) else Err
                               | _, _ => Err
                               end) s (Ok 0)
  end.
Definition dec_digit (c : N) : option N := if is_digit c then Some (c - 48) else None.
Definition bin_digit (c : N) : option N := if N.eqb c 48 then Some 0 else if N.eqb c 49 then Some 1 else None.
Definition hex_digit (c : N) : option N :=
  if is_digit c then Some (c - 48)
  else if N.leb 97 c && N.leb c 102 then Some (c - 87)
  else if N.leb 65 c && N.leb c 70 then Some (c - 55)
  else None.
(* u16::from_str_radix / str::parse::<u16>: an optional leading `+`, then at least one digit *)
Definition parse_u16_radix (base : N) (digit : N -> option N) (s : str) : res N :=
  match s with
  | c :: s' => if N.eqb c cPLUS then parse_digits base digit s' else parse_digits base digit s
  | [] => Err
  end.
Definition parse_access (s : str) : res N :=
  match s with
  | 48 :: 120 :: r => parse_u16_radix 16 hex_digit r
  | 48 :: 98 :: r => parse_u16_radix 2 bin_digit r
  | _ => parse_u16_radix 10 dec_digit s
  end.
(* InnerClassFlags::from(u16) keeps these bits *)
Definition access_mask : N := 30239.   (* 0x761F *)

Definition read_line (line : str) : res nest :=
  match split_on cTAB line with
  | [cls; encl; mname; mdesc; inner; acc] =>
      if is_nil cls || is_nil encl || is_nil inner then Err
      else
        let kind := if forallb is_digit inner then KAnon
                    else match inner with c :: _ => if is_digit c then KLocal else KInner | [] => KInner end in
        if negb (is_valid_obj_class_name cls) then Err
        else if negb (is_valid_obj_class_name encl) then Err
        else
          match (if is_nil mname || is_nil mdesc then Ok None
                 else if is_valid_method_name mname then Ok (Some (mname, mdesc))   (* MethodDescriptor::check_valid accepts everything *)
                 else Err) with
          | Err => Err
          | Ok meth =>
              if negb (is_valid_obj_class_name inner) then Err
              else match parse_access acc with
                   | Ok a => Ok (mkNest kind cls encl meth inner (N.land a access_mask))
                   | Err => Err
                   end
          end
  | _ => Err
  end.

(* BufRead::lines: a line ends at LF; a CR directly before that LF is removed too; what follows the
   last LF is a line of its own if it is not empty (a CR at its end stays) *)
Definition strip_cr (l : str) : str :=
  match rev l with c :: r => if N.eqb c cCR then rev r else l | [] => l end.
Definition lines (text : str) : list str :=
  match rev (split_on cLF text) with
  | last :: r => map strip_cr (rev r) ++ (if is_nil last then [] else [last])
  | [] => []
  end.
Fixpoint read_lines (ls : list str) (T : table) : res table :=
  match ls with
  | [] => Ok T
  | l :: ls' => match read_line l with
                | Ok n => read_lines ls' (table_add T n)
                | Err => Err
                end
  end.
Definition read_nests (text : str) : res table := read_lines (lines text) [].
