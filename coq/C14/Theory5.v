(* C14 theory, part 5: decidable forms of the hypotheses, and a concrete non-trivial example that
   satisfies all of them (non-vacuity). *)
From FB Require Import C14.Model C14.Theory C14.Theory2 C14.Theory3 C14.Theory4 C14.Theory6.
From Coq Require Import Lia.

(* ---------- acyclicity is decidable ---------- *)

Definition acyclicb (T : table) : bool :=
  forallb (fun n => is_ok (build_translation (table_fuel T) T (n_class n))) T.

Lemma bt_chain k T c r : build_translation k T c = Ok r -> exists l, chain T c l.
Proof.
  revert c r; induction k as [|k IH]; intros c r H; cbn [build_translation] in H; [discriminate|].
  destruct (find_nest T c) as [n|] eqn:Ef.
  - destruct (build_translation k T (n_encl n)) as [a|] eqn:Ea; [|discriminate].
    destruct (IH _ _ Ea) as (l & Hl). exists (c :: l). econstructor; eauto.
  - exists []. constructor. exact Ef.
Qed.

Theorem acyclicb_spec T : acyclicb T = true <-> acyclic T.
Proof.
  unfold acyclicb. rewrite forallb_forall. split.
  - intros H c. destruct (find_nest T c) as [n|] eqn:Ef.
    + apply find_nest_some in Ef as Hn. destruct Hn as [Hin <-]. specialize (H n Hin).
      destruct (build_translation (table_fuel T) T (n_class n)) as [r|] eqn:E; [|discriminate].
      eapply bt_chain; eauto.
    + exists []. constructor. exact Ef.
  - intros Ha n _. destruct (bt_total T (n_class n) Ha) as (r & -> & _). reflexivity.
Qed.

Definition no_semib (s : str) : bool := negb (mem_N cSEMI s).
Lemma no_semib_spec s : no_semib s = true <-> no_semi s.
Proof.
  unfold no_semib, no_semi. rewrite negb_true_iff. rewrite <- mem_N_In.
  destruct (mem_N cSEMI s); split; congruence.
Qed.

Definition table_okb (T : table) : bool :=
  nodupb str_eqb (keys T) && forallb (fun n => no_semib (n_encl n) && no_semib (n_inner n)) T.
Lemma table_okb_ok T : table_okb T = true -> table_ok T.
Proof.
  unfold table_okb, table_ok. rewrite andb_true_iff, forallb_forall. intros [Hnd Hall]. split.
  - eapply nodupb_NoDup; [apply str_eqb_eq|exact Hnd].
  - intros n Hn. specialize (Hall n Hn). apply andb_true_iff in Hall. rewrite !no_semib_spec in Hall. exact Hall.
Qed.

Definition descs_okb (M : mappings) : bool :=
  forallb (fun c => forallb (fun d => is_ok (map_desc (fun x => x) d)) (class_descs c)) (ms_classes M).
Lemma descs_okb_ok M : descs_okb M = true -> descs_ok M.
Proof.
  unfold descs_okb, descs_ok. rewrite forallb_forall. intros H c d Hc Hd.
  specialize (H c Hc). rewrite forallb_forall in H. apply H. exact Hd.
Qed.

(* ---------- example ---------- *)
(* classes A, B, D, E of a jar; the table nests B in A (inner), D in B.m()V (anonymous #1),
   E in D.m()V (local, 1L): a chain of depth 3 *)
Definition nA : str := [65]. Definition nB : str := [66]. Definition nD : str := [68]. Definition nE : str := [69].
Definition m_m : str * str := ([109], [40; 41; 86]).   (* m()V *)
Definition exT : table :=
  [ mkNest KLocal nE nD (Some m_m) [49; 76] 0;
    mkNest KInner nB nA None nB 9;
    mkNest KAnon nD nB (Some m_m) [49] 0 ].
Definition exJ : jar := [(nA, []); (nB, [m_m]); (nD, [m_m; ([60;105;110;105;116;62], [40;41;86])]); (nE, [])].
Definition exM : mappings :=
  mkMappings [[111]; [110]] None
    [ mkClass [Some nA; Some [90]] None [mkField [76;66;59] [Some [102]; Some [103]] None] [];
      mkClass [Some nB; Some [88]] None [] [mkMeth [40;76;68;59;41;76;69;59] [Some [109]; Some [110]] None []];
      mkClass [Some nD; Some [67;95;55]] None [] [mkMeth [40;41;86] [Some [109]; Some [114]] None []];
      mkClass [Some nE; Some [89]] None [] [] ].

Definition nonvacuous : Prop :=
  NoDup (keys exT) /\ acyclic exT /\ all_apply exJ exT /\ table_ok exT /\ wf exM = true /\
  length (ms_ns exM) = 2%nat /\ descs_ok exM /\
  mapping_name exT nE = Ok [65; 36; 66; 36; 49; 36; 49; 76] /\
  (exists m M1, translation exT = Ok m /\ inj_on (map_class m) (keys exT ++ source_classes exM) /\
                apply_nests exM exT = OOk M1 /\ src_view M1 <> src_view exM) /\
  (exists B T', mk_bremap exM = Ok B /\ NoDup (map (b_map_class B) (keys exT)) /\ map_nests exT exM = Ok T' /\
                exists n', In n' T' /\ n_class n' = [67;95;55] /\ n_inner n' = [55]).

Lemma nonvacuous_holds : nonvacuous.
Proof.
  unfold nonvacuous.
  assert (Hok : table_ok exT) by (apply table_okb_ok; vm_compute; reflexivity).
  split; [apply Hok|]. split; [apply acyclicb_spec; vm_compute; reflexivity|].
  split; [vm_compute; reflexivity|]. split; [exact Hok|]. split; [vm_compute; reflexivity|].
  split; [reflexivity|]. split; [apply descs_okb_ok; vm_compute; reflexivity|].
  split; [vm_compute; reflexivity|]. split.
  - destruct (translation exT) as [m|] eqn:Em; [|vm_compute in Em; discriminate].
    destruct (apply_nests exM exT) as [M1| |] eqn:Ea; try (vm_compute in Ea; discriminate).
    exists m, M1. split; [reflexivity|]. split; [|split; [reflexivity|]].
    + apply inj_onb_spec. vm_compute in Em. injection Em as <-. vm_compute. reflexivity.
    + vm_compute in Ea. injection Ea as <-. vm_compute. discriminate.
  - destruct (mk_bremap exM) as [B|] eqn:EB; [|vm_compute in EB; discriminate].
    destruct (map_nests exT exM) as [T'|] eqn:ET; [|vm_compute in ET; discriminate].
    exists B, T'. split; [reflexivity|]. split; [|split; [reflexivity|]].
    + vm_compute in EB. injection EB as <-.
      eapply nodupb_NoDup; [apply str_eqb_eq|]. vm_compute. reflexivity.
    + vm_compute in ET. injection ET as <-. eexists. split; [right; right; left; reflexivity|].
      split; reflexivity.
Qed.
