(* C14 correspondence cases: input together with what the implementation answered *)
From FB Require Export C14.Model C14.Model2 C14.Model3 Base.Run.

Definition kind_eqb (a b : nkind) : bool :=
  match a, b with KAnon, KAnon | KInner, KInner | KLocal, KLocal => true | _, _ => false end.
Definition nest_eqb (a b : nest) : bool :=
  kind_eqb (n_kind a) (n_kind b) && str_eqb (n_class a) (n_class b) && str_eqb (n_encl a) (n_encl b)
  && opt_eqb key2_eqb' (n_meth a) (n_meth b) && str_eqb (n_inner a) (n_inner b) && N.eqb (n_access a) (n_access b).
Definition table_eqb : table -> table -> bool := list_eqb nest_eqb.

Definition outcome_eqb {A} (eqb : A -> A -> bool) (a b : outcome A) : bool :=
  match a, b with
  | OOk x, OOk y => eqb x y
  | OErr, OErr => true
  | OPanic, OPanic => true
  | _, _ => false
  end.

Definition inner_entry_eqb (a b : inner_entry) : bool :=
  let '(ai, ao, an, af) := a in let '(bi, bo, bn, bf) := b in
  str_eqb ai bi && opt_eqb str_eqb ao bo && opt_eqb str_eqb an bn && N.eqb af bf.
Definition encl_entry_eqb (a b : encl_entry) : bool :=
  str_eqb (fst a) (fst b) && opt_eqb key2_eqb' (snd a) (snd b).
Definition out_class_eqb (a b : out_class) : bool :=
  let '(an, ai, ae) := a in let '(bn, bi, be) := b in
  str_eqb an bn && opt_eqb inner_entry_eqb ai bi && opt_eqb encl_entry_eqb ae be.

Definition header_eqb (a b : header) : bool :=
  N.eqb (fst (h_version a)) (fst (h_version b)) && N.eqb (snd (h_version a)) (snd (h_version b))
  && N.eqb (h_access a) (h_access b) && str_eqb (h_name a) (h_name b) && opt_eqb str_eqb (h_super a) (h_super b)
  && list_eqb str_eqb (h_interfaces a) (h_interfaces b) && Nat.eqb (h_fields a) (h_fields b) && Nat.eqb (h_methods a) (h_methods b).

Inductive case :=
| CApply (T : table) (M : mappings) (r : outcome mappings)     (* apply_nests_to_mappings, IndexMap order *)
| CUndo (T : table) (M : mappings) (r : outcome mappings)      (* undo_nests_to_mappings *)
| CMapNests (T : table) (M : mappings) (r : res table)         (* remap_nests, IndexMap order *)
| CRead (text : str) (r : res table)                           (* Nests::read *)
| CStrip (s : str) (r : str)                                   (* strip_local_class_prefix as seen in InnerClasses *)
| CJar (remap : bool) (J : jar) (T : table) (r : res (list out_class))
| CAnon (s : str) (nested : bool)
  (* the anonymous rule alone: a two-class jar {A, B}, B listed as anonymous in A with inner name s;
     nested = nest_jar recorded an InnerClasses entry for B *)
| CAnyClass (J : jar) (T : table) (asks answers : list str)
  (* the remapper nest_jar hands to dukebox::remap, observed through the class constants of a probe
     class (checkcast / anewarray operands: object names, array names, primitive arrays, unlisted
     classes) after nest_jar(remap = true) *)
| CLiteral (T : table) (ok : bool)
| CCreated (remap : bool) (vs : list version) (J : jar) (T : table) (r : res (list header)).
  (* round 7: the classes nest_jar creates for missing enclosing classes — vs = (major, minor) of the classes of J in
     entry order; r = the headers (version, access flags, name, super class, interfaces, number of fields and methods)
     of the first |output| - |input| class entries of the output, read back by the independent parser *)
  (* nest_jar: per output class (entry order) its name, the InnerClasses entry appended for it and
     its EnclosingMethod, as read back by the independent class-file parser *)

Definition check (c : case) : bool :=
  match c with
  | CApply T M r => outcome_eqb mappings_eqb (apply_nests M T) r
  | CUndo T M r => outcome_eqb mappings_eqb (undo_nests M T) r
  | CMapNests T M r => res_eqb table_eqb (map_nests T M) r
  | CRead text r => res_eqb table_eqb (read_nests text) r
  | CStrip s r => str_eqb (strip_local_class_prefix s) r
  | CJar rm J T r => res_eqb (list_eqb out_class_eqb) (nest_jar rm J T) r
  | CAnon s nested => Bool.eqb (anon_index_ok s) nested && Bool.eqb (anon_rule s) nested
  | CAnyClass J T asks answers =>
      match jar_remapper J T with
      | Ok r => list_eqb (res_eqb str_eqb) (map (jr_class_any r) asks) (map (fun a => Ok a) answers)
      | Err => false
      end
  | CLiteral T ok =>
      (* the literal depth-counter transcription against what MyRemapper::new answered (undo on empty mappings) *)
      Bool.eqb (is_ok (translation_lit (length T + 2) T)) ok && Bool.eqb (is_ok (translation T)) ok
  | CCreated rm vs J T r => res_eqb (list_eqb header_eqb) (nest_jar_created rm vs J T) r
  end.
