(* C14 theory, part 9 (round 5): two places where a neighbouring helper decides what the property says.

   1. "renames EXACTLY those listed classes".  Both remappers answer through ARemapper::map_class, which looks the whole
      name up and otherwise returns it unchanged: a class whose name merely EXTENDS a listed name with `$` (Foo$Helper
      beside the listed Foo) is not renamed with it — in the jar, in the mappings, in descriptors.
   2. "inner name expressed in the target namespace".  inner_name takes ObjClassNameSlice::get_simple_name of the target
      name, which is the WHOLE last path segment: every `$` of it stays (Things$Thing, not Thing).  Hence two listed
      classes with different target names in one package never get the same translated inner name; classes of different
      packages with the same simple name do (pinned example). *)
From FB Require Import C14.Model C14.Theory C14.Theory2 C14.Theory3 C14.Theory4 C14.Theory5 C14.Theory7.
From FB Require Import C18.Theory C18.Theory2.

(* ======================================================================================== *)
(* 1. exactly the listed classes                                                              *)

(* map_class answers by the whole name only *)
Lemma map_class_exact m c : ~ In c (map fst m) -> map_class m c = c.
Proof.
  intros H. unfold map_class. destruct (alookup m c) as [v|] eqn:E; [|reflexivity].
  exfalso. apply H. apply alookup_some in E. change c with (fst (c, v)). apply in_map. exact E.
Qed.

(* a renamed class is an applicable listed class (jar) / a listed class (mappings) *)
Theorem jar_renames_only_applicable J T c r :
  NoDup (keys T) -> acyclic T -> jar_name J T c = Ok r -> r <> c -> In c (keys (this_nests J T)).
Proof.
  intros Hnd Ha Hj Hne. destruct (in_dec (list_eq_dec N.eq_dec) c (keys (this_nests J T))) as [Hi|Hn]; [exact Hi|].
  exfalso. rewrite (jar_name_unchanged J T c Hnd Ha Hn) in Hj. injection Hj as <-. apply Hne. reflexivity.
Qed.

Theorem mapping_renames_only_listed T c r :
  acyclic T -> mapping_name T c = Ok r -> r <> c -> In c (keys T).
Proof.
  intros Ha Hm Hne. destruct (in_dec (list_eq_dec N.eq_dec) c (keys T)) as [Hi|Hn]; [exact Hi|].
  exfalso. rewrite (mapping_name_unlisted T c Ha Hn) in Hm. injection Hm as <-. apply Hne. reflexivity.
Qed.

(* in particular: an unlisted class named <listed>$x keeps its name on both sides, whatever happens to <listed> *)
Theorem dollar_child_unchanged J T c x :
  NoDup (keys T) -> acyclic T -> ~ In (c ++ cDOLLAR :: x) (keys T) ->
  jar_name J T (c ++ cDOLLAR :: x) = Ok (c ++ cDOLLAR :: x) /\
  mapping_name T (c ++ cDOLLAR :: x) = Ok (c ++ cDOLLAR :: x).
Proof.
  intros Hnd Ha Hn. split.
  - apply jar_name_unchanged; [exact Hnd|exact Ha|]. intros Hi. apply Hn.
    unfold keys in *. apply in_map_iff in Hi. destruct Hi as (n & En & Hi). apply in_map_iff. exists n. split; [exact En|].
    apply (this_nests_incl J T). exact Hi.
  - apply mapping_name_unlisted; assumption.
Qed.

(* and so do the descriptors that mention only such classes: a descriptor is rewritten name by name *)
Lemma map_desc_go_fix f : forall s acc r,
  map_desc_go f s acc = Ok r ->
  (forall n, In n (desc_names_go s acc) -> f n = n) ->
  r = (match acc with Some n => n | None => [] end) ++ s.
Proof.
  induction s as [|c s IH]; intros acc r H Hn; cbn [map_desc_go desc_names_go] in *.
  - destruct acc; [discriminate|]. injection H as <-. reflexivity.
  - destruct acc as [n|].
    + destruct (N.eqb c cSEMI) eqn:Ec.
      * apply N.eqb_eq in Ec. subst c. destruct n as [|n0 n]; [discriminate|].
        destruct (map_desc_go f s None) as [r'|] eqn:E; [|discriminate]. injection H as <-.
        rewrite (Hn (n0 :: n)) by (left; reflexivity).
        rewrite (IH None r' E) by (intros k Hk; apply Hn; right; exact Hk). reflexivity.
      * rewrite (IH _ _ H Hn). rewrite <- app_assoc. reflexivity.
    + destruct (map_desc_go f s (if N.eqb c cL then Some [] else None)) as [r'|] eqn:E; [|discriminate].
      injection H as <-. rewrite (IH _ _ E Hn). destruct (N.eqb c cL); reflexivity.
Qed.

Theorem desc_keeps_unlisted m d r :
  map_desc (map_class m) d = Ok r -> (forall n, In n (desc_names d) -> ~ In n (map fst m)) -> r = d.
Proof.
  unfold map_desc, desc_names. intros H Hn.
  apply (map_desc_go_fix (map_class m) d None r H). intros n Hi. apply map_class_exact. apply Hn. exact Hi.
Qed.

(* pinned: Foo is nested into Bar; Foo$Helper (not listed) stays, also inside descriptors *)
Definition dc_Foo : str := [70; 111; 111]. Definition dc_Bar : str := [66; 97; 114].
Definition dc_FooHelper : str := dc_Foo ++ cDOLLAR :: [72; 101; 108; 112; 101; 114].
Definition dc_T : table := [mkNest KInner dc_Foo dc_Bar None dc_Foo 1].
Definition dc_J : jar := [(dc_Foo, []); (dc_Bar, []); (dc_FooHelper, [])].
Definition dc_desc : str := [40; cL] ++ dc_FooHelper ++ [cSEMI; cL] ++ dc_Foo ++ [cSEMI; 41; 86].      (* (LFoo$Helper;LFoo;)V *)
Definition dollar_child_example : Prop :=
  jar_name dc_J dc_T dc_Foo = Ok (dc_Bar ++ cDOLLAR :: dc_Foo) /\
  jar_name dc_J dc_T dc_FooHelper = Ok dc_FooHelper /\
  mapping_name dc_T dc_FooHelper = Ok dc_FooHelper /\
  (exists m, translation dc_T = Ok m /\
     map_desc (map_class m) dc_desc = Ok ([40; cL] ++ dc_FooHelper ++ [cSEMI; cL] ++ (dc_Bar ++ cDOLLAR :: dc_Foo) ++ [cSEMI; 41; 86])).
Lemma dollar_child_example_holds : dollar_child_example.
Proof.
  unfold dollar_child_example. repeat split; try (vm_compute; reflexivity).
  eexists. split; vm_compute; reflexivity.
Qed.

(* ======================================================================================== *)
(* 2. the translated inner name is the whole last path segment of the target name             *)

(* get_simple_name on EVERY string: no `/` inside, and the string is the name itself or <prefix>/<name> *)
Lemma simple_name_segment s :
  ~ In cSLASH (get_simple_name s) /\
  ((~ In cSLASH s /\ get_simple_name s = s) \/ (exists p, s = p ++ cSLASH :: get_simple_name s)).
Proof.
  unfold get_simple_name. destruct (rsplit_once cSLASH s) as [[p i]|] eqn:E.
  - apply rsplit_once_sound in E. destruct E as [-> Hi]. split; [exact Hi|]. right. exists p. reflexivity.
  - apply rsplit_once_none in E. split; [exact E|]. left. split; [exact E|reflexivity].
Qed.

(* nothing is cut at a `$`: the simple name of pkg/A$B is A$B *)
Lemma simple_name_keeps_dollar p a b :
  ~ In cSLASH a -> ~ In cSLASH b -> get_simple_name (p ++ cSLASH :: a ++ cDOLLAR :: b) = a ++ cDOLLAR :: b.
Proof.
  intros Ha Hb. unfold get_simple_name. rewrite rsplit_once_app; [reflexivity|].
  intros Hi. apply in_app_iff in Hi. destruct Hi as [Hi|[Hi|Hi]]; [exact (Ha Hi)|discriminate Hi|exact (Hb Hi)].
Qed.
Lemma simple_name_keeps_dollar_nopkg a b :
  ~ In cSLASH a -> ~ In cSLASH b -> get_simple_name (a ++ cDOLLAR :: b) = a ++ cDOLLAR :: b.
Proof.
  intros Ha Hb. unfold get_simple_name.
  assert (E : rsplit_once cSLASH (a ++ cDOLLAR :: b) = None).
  { apply rsplit_once_none. intros Hi. apply in_app_iff in Hi. destruct Hi as [Hi|[Hi|Hi]]; [exact (Ha Hi)|discriminate Hi|exact (Hb Hi)]. }
  rewrite E. reflexivity.
Qed.

(* inner (no digits in front) and local (digits in front) nests without a custom inner name: the translated inner name
   is [digits ++] last path segment of the target name, `$` and all *)
Theorem inner_name_is_last_segment cls d c r mapped i :
  forallb is_digit d = true -> is_digit c = false -> ends_with cls (c :: r) = true ->
  inner_name cls (d ++ c :: r) mapped = Ok i ->
  exists seg, i = d ++ seg /\ ~ In cSLASH seg /\
    ((~ In cSLASH mapped /\ seg = mapped) \/ exists p, mapped = p ++ cSLASH :: seg).
Proof.
  intros Hd Hc He H. exists (get_simple_name mapped).
  destruct (simple_name_segment mapped) as [Hs Hcase]. split; [|split; [exact Hs|]].
  - destruct d as [|d0 d].
    + cbn [app] in *. rewrite (inner_name_inner cls c r mapped Hc), He in H. injection H as <-. reflexivity.
    + rewrite (inner_name_local cls (d0 :: d) c r mapped) in H by (try discriminate; assumption).
      rewrite He in H. injection H as <-. reflexivity.
  - destruct Hcase as [[Hn E]|(p & E)]; [left; split; [exact Hn|exact E]|right; exists p; exact E].
Qed.

(* two target names of one package with the same simple name are the same name: derived inner names of different
   classes of one package do not collide *)
Definition package_of (s : str) : option str :=
  match rsplit_once cSLASH s with Some (p, _) => Some p | None => None end.
Theorem same_package_distinct_simple a b :
  package_of a = package_of b -> get_simple_name a = get_simple_name b -> a = b.
Proof.
  unfold package_of, get_simple_name.
  destruct (rsplit_once cSLASH a) as [[pa ia]|] eqn:Ea, (rsplit_once cSLASH b) as [[pb ib]|] eqn:Eb; try discriminate.
  - intros [= ->] ->. apply rsplit_once_sound in Ea, Eb. destruct Ea as [-> _], Eb as [-> _]. reflexivity.
  - intros _ E. exact E.
Qed.

(* pinned: what the seeded change C14-b4 would break, and the collision that exists in the code as it is.
   e -> net/Encl; s1 -> net/Things$Thing and s2 -> net/Stuff$Thing, both inner classes of e: inner names Things$Thing and
   Stuff$Thing (distinct); s3 -> net/Things$Local local in e.run()V: 1Things$Local; s4 -> net/Host$C_12 anonymous: its
   number stays 3 (the simple name Host$C_12 does not start with C_).
   p1 -> a/Thing and p2 -> b/Thing (different packages, same simple name), both inner classes of e: BOTH get inner name
   Thing, and apply gives both the target name net/Encl$Thing. *)
Definition s_ (l : list N) : str := l.
Definition b4_e : str := [101]. Definition b4_s1 : str := [115; 49]. Definition b4_s2 : str := [115; 50].
Definition b4_s3 : str := [115; 51]. Definition b4_s4 : str := [115; 52].
Definition b4_net : str := [110; 101; 116; 47].
Definition b4_Encl : str := b4_net ++ [69; 110; 99; 108].
Definition b4_Thing : str := [84; 104; 105; 110; 103].
Definition b4_ThingsThing : str := [84; 104; 105; 110; 103; 115; 36] ++ b4_Thing.
Definition b4_StuffThing : str := [83; 116; 117; 102; 102; 36] ++ b4_Thing.
Definition b4_ThingsLocal : str := [84; 104; 105; 110; 103; 115; 36; 76; 111; 99; 97; 108].
Definition b4_HostC12 : str := [72; 111; 115; 116; 36; 67; 95; 49; 50].
Definition b4_run : str * str := ([114; 117; 110], [40; 41; 86]).
Definition b4_cls (a b : str) : class := mkClass [Some a; Some b] None [] [].
Definition b4_M : mappings :=
  mkMappings [[111]; [110]] None
    [b4_cls b4_e b4_Encl; b4_cls b4_s1 (b4_net ++ b4_ThingsThing); b4_cls b4_s2 (b4_net ++ b4_StuffThing);
     b4_cls b4_s3 (b4_net ++ b4_ThingsLocal); b4_cls b4_s4 (b4_net ++ b4_HostC12)].
Definition b4_T : table :=
  [mkNest KInner b4_s1 b4_e None b4_s1 1; mkNest KInner b4_s2 b4_e None b4_s2 1;
   mkNest KLocal b4_s3 b4_e (Some b4_run) (49 :: b4_s3) 0; mkNest KAnon b4_s4 b4_e (Some b4_run) [51] 0].
Definition b4_p1 : str := [112; 49]. Definition b4_p2 : str := [112; 50].
Definition b4_aThing : str := [97; 47] ++ b4_Thing. Definition b4_bThing : str := [98; 47] ++ b4_Thing.
Definition b4_M2 : mappings :=
  mkMappings [[111]; [110]] None [b4_cls b4_e b4_Encl; b4_cls b4_p1 b4_aThing; b4_cls b4_p2 b4_bThing].
Definition b4_T2 : table := [mkNest KInner b4_p1 b4_e None b4_p1 1; mkNest KInner b4_p2 b4_e None b4_p2 1].

Definition dollar_target_example : Prop :=
  map_nests b4_T b4_M =
    Ok [mkNest KInner (b4_net ++ b4_ThingsThing) b4_Encl None b4_ThingsThing 1;
        mkNest KInner (b4_net ++ b4_StuffThing) b4_Encl None b4_StuffThing 1;
        mkNest KLocal (b4_net ++ b4_ThingsLocal) b4_Encl (Some b4_run) (49 :: b4_ThingsLocal) 0;
        mkNest KAnon (b4_net ++ b4_HostC12) b4_Encl (Some b4_run) [51] 0] /\
  map_nests b4_T2 b4_M2 =
    Ok [mkNest KInner b4_aThing b4_Encl None b4_Thing 1; mkNest KInner b4_bThing b4_Encl None b4_Thing 1] /\
  (exists M1, apply_nests b4_M2 b4_T2 = OOk M1 /\
     map (fun c => nth_name (c_names c) 1) (ms_classes M1)
     = [Some b4_Encl; Some (b4_Encl ++ cDOLLAR :: b4_Thing); Some (b4_Encl ++ cDOLLAR :: b4_Thing)]).
Lemma dollar_target_example_holds : dollar_target_example.
Proof.
  unfold dollar_target_example. split; [vm_compute; reflexivity|]. split; [vm_compute; reflexivity|].
  eexists. split; vm_compute; reflexivity.
Qed.
