(* C14 theory, part 7: cyclic tables (the repaired code returns an error where it used to recurse
   without bound: the model's fuel exhaustion IS that error), when map_nests preserves acyclicity,
   order (in)dependence of the two sides, and the absence of panics. *)
From FB Require Import C14.Model C14.Theory C14.Theory2 C14.Theory3 C14.Theory4 C14.Theory6 C14.Theory5.
From Coq Require Import Lia Permutation.

Lemma Forall2_In_l {A B} (R : A -> B -> Prop) l l' x :
  Forall2 R l l' -> In x l -> exists y, In y l' /\ R x y.
Proof.
  induction 1 as [|a b l l' Hab _ IH]; intros Hin; [destruct Hin|].
  destruct Hin as [<-|Hin]; [exists b; split; [left; reflexivity|exact Hab]|].
  destruct (IH Hin) as (y & Hy & Hr). exists y. split; [right; exact Hy|exact Hr].
Qed.

Lemma Forall2_In_r {A B} (R : A -> B -> Prop) l l' y :
  Forall2 R l l' -> In y l' -> exists x, In x l /\ R x y.
Proof.
  induction 1 as [|a b l l' Hab _ IH]; intros Hin; [destruct Hin|].
  destruct Hin as [<-|Hin]; [exists a; split; [left; reflexivity|exact Hab]|].
  destruct (IH Hin) as (x & Hx & Hr). exists x. split; [right; exact Hx|exact Hr].
Qed.

(* ---------- the translation fails exactly on the cyclic tables ---------- *)

Lemma translation_ok_acyclic T m : translation T = Ok m -> acyclic T.
Proof.
  intros Em c. destruct (find_nest T c) as [n|] eqn:Ef; [|exists []; constructor; exact Ef].
  apply find_nest_some in Ef as Hn. destruct Hn as [Hin _].
  rewrite translation_unfold in Em. apply mapM_ok in Em.
  destruct (Forall2_In_l _ _ _ n Em Hin) as (kv & _ & Hkv). unfold entry_of, nest_translation in Hkv.
  destruct (build_translation (table_fuel T) T (n_encl n)) as [a|] eqn:Ea; [|discriminate].
  destruct (bt_chain _ _ _ _ Ea) as (l & Hl). exists (c :: l). econstructor; eauto.
Qed.

Theorem translation_ok_iff T : (exists m, translation T = Ok m) <-> acyclic T.
Proof. split; [intros (m & Em); eapply translation_ok_acyclic; eauto|apply translation_total]. Qed.

Theorem translation_err_iff T : translation T = Err <-> ~ acyclic T.
Proof.
  split.
  - intros E Ha. destruct (translation_total T Ha) as (m & Em). congruence.
  - intros Hn. destruct (translation T) as [m|] eqn:Em; [|reflexivity].
    exfalso. apply Hn. eapply translation_ok_acyclic; eauto.
Qed.

Theorem mapping_name_err_iff T c : mapping_name T c = Err <-> ~ acyclic T.
Proof.
  rewrite <- translation_err_iff. unfold mapping_name.
  destruct (translation T); split; congruence.
Qed.

Theorem mapping_name_ok_iff T c : (exists r, mapping_name T c = Ok r) <-> acyclic T.
Proof.
  split; [|apply mapping_name_total]. intros (r & E). unfold mapping_name in E.
  destruct (translation T) as [m|] eqn:Em; [|discriminate]. eapply translation_ok_acyclic; eauto.
Qed.

Theorem jar_map_err_iff F : jar_map F = Err <-> ~ acyclic F.
Proof.
  rewrite <- translation_err_iff, jar_map_is_translation.
  destruct (translation F); split; congruence.
Qed.

(* Theorem 1 without the hypothesis on cycles: either the table is acyclic and both sides give the
   transitive name, or it is cyclic and both sides return the error *)
Theorem jar_mapping_agree_or_cyclic J T :
  NoDup (keys T) -> all_apply J T ->
  forall c,
    (acyclic T /\ exists r, jar_name J T c = Ok r /\ mapping_name T c = Ok r /\ trans T c r) \/
    (~ acyclic T /\ jar_name J T c = Err /\ mapping_name T c = Err).
Proof.
  intros Hnd Hall c. destruct (translation T) as [m|] eqn:Em.
  - left. pose proof (translation_ok_acyclic T m Em) as Ha. split; [exact Ha|].
    apply jar_mapping_agree; assumption.
  - right. apply translation_err_iff in Em as Hn. split; [exact Hn|].
    rewrite jar_mapping_agree_eq by assumption. split; apply mapping_name_err_iff; exact Hn.
Qed.

Theorem nest_jar_cyclic_err rm J T : ~ acyclic (this_nests J T) -> nest_jar rm J T = Err.
Proof.
  intros Hn. unfold nest_jar. destruct J as [|j J]; [reflexivity|].
  apply jar_map_err_iff in Hn. rewrite Hn. reflexivity.
Qed.

Theorem nest_jar_ok_acyclic rm J T out : nest_jar rm J T = Ok out -> acyclic (this_nests J T).
Proof.
  intros H. destruct (acyclicb (this_nests J T)) eqn:E; [apply acyclicb_spec; exact E|].
  exfalso. assert (Hn : ~ acyclic (this_nests J T)) by (rewrite <- acyclicb_spec; congruence).
  rewrite (nest_jar_cyclic_err rm J T Hn) in H. discriminate.
Qed.

Theorem apply_cyclic_err T M T' :
  map_nests T M = Ok T' -> ~ acyclic T \/ ~ acyclic T' -> apply_nests M T = OErr.
Proof.
  intros Hm Hc. unfold apply_nests. rewrite Hm. cbn [of_res obind].
  destruct (translation T) as [m|] eqn:Em; [|reflexivity]. cbn [of_res obind].
  destruct Hc as [Hc|Hc].
  - exfalso. apply Hc. eapply translation_ok_acyclic; eauto.
  - apply translation_err_iff in Hc. rewrite Hc. reflexivity.
Qed.

Theorem apply_ok_acyclic T M M1 :
  apply_nests M T = OOk M1 -> acyclic T /\ exists T', map_nests T M = Ok T' /\ acyclic T'.
Proof.
  unfold apply_nests. destruct (map_nests T M) as [T'|]; [|discriminate]. cbn [of_res obind].
  destruct (translation T) as [m|] eqn:Em; [|discriminate]. cbn [of_res obind].
  destruct (translation T') as [m'|] eqn:Em'; [|discriminate]. intros _.
  split; [eapply translation_ok_acyclic; eauto|]. exists T'. split; [reflexivity|].
  eapply translation_ok_acyclic; eauto.
Qed.

Theorem undo_cyclic_err T M : ~ acyclic T -> undo_nests M T = OErr.
Proof. intros Hc. unfold undo_nests. apply translation_err_iff in Hc. rewrite Hc. reflexivity. Qed.

(* ---------- apply and undo never panic ---------- *)

Lemma add_children_no_panic {A K} (key : A -> option K) keqb f l acc :
  (forall x, f x <> OPanic) -> add_children key keqb f l acc <> OPanic.
Proof.
  intros Hf. revert acc. induction l as [|x l IH]; intros acc; cbn [add_children]; [discriminate|].
  destruct (f x) as [y| |] eqn:Ef; [|discriminate|exfalso; eapply Hf; eauto].
  destruct (key y); [|discriminate]. destruct (existsb _ acc); [discriminate|apply IH].
Qed.

Lemma rw_mappings_no_panic tr dtr M : rw_mappings tr dtr M <> OPanic.
Proof.
  unfold rw_mappings.
  assert (Hc : forall c, rw_class tr dtr c <> OPanic).
  { intros c. unfold rw_class. destruct (c_names c) as [|[src|] [|dst [|? ?]]]; try discriminate.
    pose proof (add_children_no_panic field_key key2_eqb (rw_field tr) (c_fields c) []) as Hf.
    destruct (add_children field_key key2_eqb (rw_field tr) (c_fields c) []) as [fs| |]; cbn [obind]; try discriminate.
    - pose proof (add_children_no_panic meth_key key2_eqb (rw_meth tr) (c_methods c) []) as Hm.
      destruct (add_children meth_key key2_eqb (rw_meth tr) (c_methods c) []) as [ms| |]; cbn [obind]; try discriminate.
      exfalso. apply Hm; [|reflexivity]. intros x. unfold rw_meth. destruct (map_desc tr (m_desc x)); discriminate.
    - exfalso. apply Hf; [|reflexivity]. intros x. unfold rw_field. destruct (map_desc tr (f_desc x)); discriminate. }
  pose proof (add_children_no_panic class_key str_eqb (rw_class tr dtr) (ms_classes M) [] Hc) as H.
  destruct (add_children class_key str_eqb (rw_class tr dtr) (ms_classes M) []); cbn [obind]; congruence.
Qed.

Theorem apply_never_panics M T : apply_nests M T <> OPanic.
Proof.
  unfold apply_nests. destruct (map_nests T M) as [T'|]; cbn [of_res obind]; [|discriminate].
  destruct (translation T); cbn [of_res obind]; [|discriminate].
  destruct (translation T'); cbn [of_res obind]; [|discriminate]. apply rw_mappings_no_panic.
Qed.

Theorem undo_never_panics M T : undo_nests M T <> OPanic.
Proof.
  unfold undo_nests. destruct (translation T); cbn [of_res obind]; [|discriminate]. apply rw_mappings_no_panic.
Qed.

(* ---------- map_nests and acyclicity ---------- *)

(* In general map_nests does NOT preserve acyclicity: an "already nested" target name P__Q overrides
   the enclosing class.  Table: c1 in Outer, c2 in c1; mappings c1 -> P__Q, c2 -> P (well formed,
   injective).  The image is P__Q in P, P in P__Q: cyclic; apply returns the error. *)
Definition cy_c1 : str := [99; 49]. Definition cy_c2 : str := [99; 50].
Definition cy_Outer : str := [79; 117; 116; 101; 114].
Definition cy_P : str := [80]. Definition cy_PQ : str := [80; 95; 95; 81].
Definition cyT : table :=
  [ mkNest KInner cy_c1 cy_Outer None [73] 1; mkNest KInner cy_c2 cy_c1 None [74] 1 ].
Definition cyM : mappings :=
  mkMappings [[111]; [110]] None
    [ mkClass [Some cy_c1; Some cy_PQ] None [] []; mkClass [Some cy_c2; Some cy_P] None [] [] ].
Definition cyT' : table :=
  [ mkNest KInner cy_PQ cy_P None [81] 1; mkNest KInner cy_P cy_PQ None [74] 1 ].

Theorem map_nests_can_create_cycle :
  NoDup (keys cyT) /\ acyclic cyT /\ wf cyM = true /\
  NoDup (map snd (class_pairs (ms_classes cyM) 0 1)) /\
  map_nests cyT cyM = Ok cyT' /\ ~ acyclic cyT' /\
  apply_nests cyM cyT = OErr.
Proof.
  split; [eapply nodupb_NoDup; [apply str_eqb_eq|vm_compute; reflexivity]|].
  split; [apply acyclicb_spec; vm_compute; reflexivity|].
  split; [vm_compute; reflexivity|].
  split; [eapply nodupb_NoDup; [apply str_eqb_eq|vm_compute; reflexivity]|].
  split; [vm_compute; reflexivity|].
  split; [rewrite <- acyclicb_spec; vm_compute; discriminate|].
  vm_compute; reflexivity.
Qed.

(* It does when no target name is of the already nested form and the class map is injective on the
   classes and enclosing classes of the table: the image's chains are the images of the chains. *)
Lemma NoDup_map_inj_on (f : str -> str) l S :
  NoDup l -> incl l S -> inj_on f S -> NoDup (map f l).
Proof.
  induction l as [|x l IH]; intros Hnd Hincl Hinj; cbn [map]; [constructor|].
  inversion Hnd as [|? ? Hnot Hnd']; subst. constructor.
  - intros Hin. apply in_map_iff in Hin. destruct Hin as (y & Hy & Hyin). apply Hnot.
    rewrite (Hinj x y); [exact Hyin|apply Hincl; left; reflexivity|apply Hincl; right; exact Hyin|symmetry; exact Hy].
  - apply IH; [exact Hnd'|intros z Hz; apply Hincl; right; exact Hz|exact Hinj].
Qed.

Theorem map_nests_acyclic T M B T' :
  mk_bremap M = Ok B ->
  NoDup (keys T) ->
  inj_on (b_map_class B) (keys T ++ map n_encl T) ->
  (forall n, In n T -> rsplit_uu (b_map_class B (n_class n)) = None) ->
  map_nests T M = Ok T' ->
  acyclic T -> acyclic T'.
Proof.
  intros HB Hnd Hinj Hno Hmap Ha.
  assert (HndB : NoDup (map (b_map_class B) (keys T))).
  { eapply NoDup_map_inj_on; [exact Hnd| |exact Hinj]. intros x Hx. apply in_or_app. left. exact Hx. }
  pose proof (map_nests_total T M B T' HB HndB Hmap) as F.
  assert (Hkeys : keys T' = map (b_map_class B) (keys T)).
  { clear -F. unfold keys. induction F as [|n n' l l' (_ & _ & Hc & _) _ IH]; [reflexivity|].
    cbn [map]. rewrite Hc. f_equal. exact IH. }
  assert (HndT' : NoDup (keys T')) by (rewrite Hkeys; exact HndB).
  assert (Himg : forall n, In n T -> exists n', In n' T' /\ n_class n' = b_map_class B (n_class n) /\
                                         n_encl n' = b_map_class B (n_encl n)).
  { intros n Hn. destruct (Forall2_In_l _ _ _ n F Hn) as (n' & Hn' & (_ & _ & Hc & _ & Hs)).
    exists n'. split; [exact Hn'|]. split; [exact Hc|].
    rewrite Hc, (Hno n Hn) in Hs. apply Hs. }
  assert (Hchain : forall c l, chain T c l -> In c (keys T ++ map n_encl T) ->
                               exists l', chain T' (b_map_class B c) l').
  { induction 1 as [c Hnone|c n l Hf _ IH]; intros Hc.
    - exists []. constructor. destruct (find_nest T' (b_map_class B c)) as [n'|] eqn:Ef'; [|reflexivity].
      exfalso. apply find_nest_some in Ef'. destruct Ef' as [Hn' Hcls].
      destruct (Forall2_In_r _ _ _ n' F Hn') as (n & Hn & (_ & _ & Hcn & _)).
      assert (E : c = n_class n).
      { apply Hinj; [exact Hc|apply in_or_app; left; unfold keys; apply in_map; exact Hn|congruence]. }
      apply (find_nest_none _ _ Hnone). rewrite E. unfold keys. apply in_map. exact Hn.
    - apply find_nest_some in Hf. destruct Hf as [Hn Hcls].
      destruct IH as (l' & Hl'); [apply in_or_app; right; apply in_map; exact Hn|].
      destruct (Himg n Hn) as (n' & Hn' & Hc' & He'). rewrite Hcls in Hc'.
      exists (b_map_class B c :: l'). econstructor.
      + rewrite <- Hc'. apply find_nest_in; assumption.
      + rewrite He'. exact Hl'. }
  intros c'. destruct (find_nest T' c') as [n'|] eqn:Ef'; [|exists []; constructor; exact Ef'].
  apply find_nest_some in Ef'. destruct Ef' as [Hn' Hcls].
  destruct (Forall2_In_r _ _ _ n' F Hn') as (n & Hn & (_ & _ & Hcn & _)).
  destruct (Ha (n_class n)) as (l & Hl).
  destruct (Hchain _ _ Hl) as (l' & Hl'); [apply in_or_app; left; unfold keys; apply in_map; exact Hn|].
  exists l'. rewrite <- Hcls, Hcn. exact Hl'.
Qed.

(* ---------- order of the table ---------- *)

Lemma find_nest_perm T T' c : NoDup (keys T) -> Permutation T T' -> find_nest T c = find_nest T' c.
Proof.
  intros Hnd Hp.
  assert (Hnd' : NoDup (keys T')) by (eapply Permutation_NoDup; [apply Permutation_map; exact Hp|exact Hnd]).
  destruct (find_nest T c) as [n|] eqn:Ef.
  - apply find_nest_some in Ef. destruct Ef as [Hin <-]. symmetry. apply find_nest_in; [exact Hnd'|].
    eapply Permutation_in; eauto.
  - destruct (find_nest T' c) as [n'|] eqn:Ef'; [|reflexivity].
    exfalso. apply find_nest_some in Ef'. destruct Ef' as [Hin <-].
    apply (find_nest_none _ _ Ef). unfold keys. apply in_map. eapply Permutation_in; [apply Permutation_sym; exact Hp|exact Hin].
Qed.

Lemma chain_perm T T' c l : (forall x, find_nest T x = find_nest T' x) -> chain T c l -> chain T' c l.
Proof.
  intros He. induction 1 as [c Hn|c n l Hf _ IH]; [constructor; rewrite <- He; exact Hn|].
  econstructor; [rewrite <- He; exact Hf|exact IH].
Qed.

Lemma trans_perm T T' c r : (forall x, find_nest T x = find_nest T' x) -> trans T c r -> trans T' c r.
Proof.
  intros He. induction 1 as [c Hn|c n a Hf _ IH]; [constructor; rewrite <- He; exact Hn|].
  econstructor; [rewrite <- He; exact Hf|exact IH].
Qed.

(* the mappings side does not depend on the order of the table *)
Theorem mapping_name_perm T T' c :
  NoDup (keys T) -> Permutation T T' -> mapping_name T c = mapping_name T' c.
Proof.
  intros Hnd Hp.
  assert (Hnd' : NoDup (keys T')) by (eapply Permutation_NoDup; [apply Permutation_map; exact Hp|exact Hnd]).
  assert (He : forall x, find_nest T x = find_nest T' x) by (intros x; apply find_nest_perm; assumption).
  assert (He' : forall x, find_nest T' x = find_nest T x) by (intros x; symmetry; apply He).
  destruct (mapping_name T c) as [r|] eqn:E.
  - assert (Ha : acyclic T).
    { unfold mapping_name in E. destruct (translation T) as [m|] eqn:Em; [|discriminate]. eapply translation_ok_acyclic; eauto. }
    assert (Ha' : acyclic T') by (intros x; destruct (Ha x) as (l & Hl); exists l; eapply chain_perm; eauto).
    destruct (mapping_name_total T' c Ha') as (r' & E'). rewrite E'. f_equal.
    apply mapping_name_trans in E; [|exact Hnd]. apply mapping_name_trans in E'; [|exact Hnd'].
    eapply trans_det; [eapply trans_perm; [exact He|exact E]|exact E'].
  - symmetry. apply mapping_name_err_iff. apply mapping_name_err_iff in E. intros Ha'. apply E.
    intros x. destruct (Ha' x) as (l & Hl). exists l. eapply chain_perm; eauto.
Qed.

(* the order-independent form of "all entries apply": every listed class is in the jar and satisfies
   the rule of its kind.  It implies the filter keeps the whole table, in any order. *)
Definition all_in_jar (J : jar) (T : table) : Prop :=
  forall n, In n T -> In (n_class n) (jar_classes J) /\ kind_rule J n = true.

Lemma filter_keeps_all J T p cr :
  incl (jar_classes J) p -> all_in_jar J T -> fst (filter_nests J T p cr) = T.
Proof.
  revert p cr; induction T as [|n T IH]; intros p cr Hp Hall; cbn [filter_nests]; [reflexivity|].
  destruct (Hall n (or_introl eq_refl)) as [Hc Hk].
  assert (E : mem_str (n_class n) p = true) by (apply mem_str_In; apply Hp; exact Hc).
  rewrite E. cbn [negb].
  set (p' := if negb (mem_str (n_encl n) p) then p ++ [n_encl n] else p).
  set (cr' := if negb (mem_str (n_encl n) p) then cr ++ [n_encl n] else cr).
  specialize (IH p' cr'). destruct (filter_nests J T p' cr') as [F c]. cbn [fst] in *.
  rewrite Hk, IH; [reflexivity| |intros m Hm; apply Hall; right; exact Hm].
  intros x Hx. subst p'. destruct (negb (mem_str (n_encl n) p)); [apply in_or_app; left|]; apply Hp; exact Hx.
Qed.

Theorem all_in_jar_all_apply J T : all_in_jar J T -> all_apply J T.
Proof. intros H. unfold all_apply, this_nests. apply filter_keeps_all; [intros x Hx; exact Hx|exact H]. Qed.

(* jar = mappings in ANY order of the table, when every listed class is in the jar *)
Theorem jar_mapping_agree_any_order J T T' :
  NoDup (keys T) -> all_in_jar J T -> Permutation T T' ->
  forall c, jar_name J T' c = mapping_name T c.
Proof.
  intros Hnd Hall Hp c.
  assert (Hnd' : NoDup (keys T')) by (eapply Permutation_NoDup; [apply Permutation_map; exact Hp|exact Hnd]).
  assert (Hall' : all_in_jar J T').
  { intros n Hn. apply Hall. eapply Permutation_in; [apply Permutation_sym; exact Hp|exact Hn]. }
  rewrite (jar_mapping_agree_eq J T' Hnd' (all_in_jar_all_apply J T' Hall')).
  symmetry. apply mapping_name_perm; assumption.
Qed.

(* The filter itself IS order dependent when a listed class is not in the jar but gets created as the
   missing enclosing class of another entry: jar {Y}, entries X in Z and Y in X.  With X's entry first
   it is skipped (X is not there yet), X is then created for Y and Y becomes X$Y; with Y's entry first
   X exists when its own entry is reached and Y becomes Z$X$Y.  The mappings side says Z$X$Y in both
   orders.  Neither order satisfies all_in_jar (X is not in the jar): outside the property's premise. *)
Definition od_X : str := [88]. Definition od_Y : str := [89]. Definition od_Z : str := [90].
Definition od_J : jar := [(od_Y, [])].
Definition od_nX : nest := mkNest KInner od_X od_Z None od_X 1.
Definition od_nY : nest := mkNest KInner od_Y od_X None od_Y 1.

Theorem filter_order_dependent :
  Permutation [od_nX; od_nY] [od_nY; od_nX] /\
  ~ all_apply od_J [od_nX; od_nY] /\ all_apply od_J [od_nY; od_nX] /\
  ~ all_in_jar od_J [od_nY; od_nX] /\
  jar_name od_J [od_nX; od_nY] od_Y = Ok [88; 36; 89] /\
  jar_name od_J [od_nY; od_nX] od_Y = Ok [90; 36; 88; 36; 89] /\
  mapping_name [od_nX; od_nY] od_Y = Ok [90; 36; 88; 36; 89] /\
  mapping_name [od_nY; od_nX] od_Y = Ok [90; 36; 88; 36; 89] /\
  new_classes od_J [od_nX; od_nY] = [od_X] /\ new_classes od_J [od_nY; od_nX] = [od_X; od_Z].
Proof.
  split; [apply perm_swap|].
  split; [unfold all_apply; vm_compute; discriminate|].
  split; [vm_compute; reflexivity|].
  split.
  { intros H. destruct (H od_nX (or_intror (or_introl eq_refl))) as [Hin _].
    vm_compute in Hin. destruct Hin as [E|[]]. discriminate. }
  repeat split; vm_compute; reflexivity.
Qed.

(* non-vacuity of map_nests_acyclic: the depth-3 example of Theory5 satisfies its hypotheses *)
Theorem map_nests_acyclic_nonvacuous :
  exists B T', mk_bremap exM = Ok B /\ NoDup (keys exT) /\
    inj_on (b_map_class B) (keys exT ++ map n_encl exT) /\
    (forall n, In n exT -> rsplit_uu (b_map_class B (n_class n)) = None) /\
    map_nests exT exM = Ok T' /\ acyclic exT /\ acyclic T' /\ T' <> exT.
Proof.
  destruct (mk_bremap exM) as [B|] eqn:EB; [|vm_compute in EB; discriminate].
  destruct (map_nests exT exM) as [T'|] eqn:ET; [|vm_compute in ET; discriminate].
  exists B, T'. split; [reflexivity|].
  vm_compute in EB. injection EB as <-.
  split; [eapply nodupb_NoDup; [apply str_eqb_eq|vm_compute; reflexivity]|].
  split; [apply inj_onb_spec; vm_compute; reflexivity|].
  split.
  { assert (H : forallb (fun n => match rsplit_uu (b_map_class
        [mkB nA [90] []; mkB nB [88] [(([109], [40;76;68;59;41;76;69;59]), ([110], [40;76;67;95;55;59;41;76;89;59]))];
         mkB nD [67;95;55] [(([109], [40;41;86]), ([114], [40;41;86]))]; mkB nE [89] []] (n_class n)) with None => true | Some _ => false end) exT = true)
      by (vm_compute; reflexivity).
    rewrite forallb_forall in H. intros n Hn. specialize (H n Hn).
    destruct (rsplit_uu _); [discriminate|reflexivity]. }
  split; [reflexivity|].
  split; [apply acyclicb_spec; vm_compute; reflexivity|].
  vm_compute in ET. injection ET as <-.
  split; [apply acyclicb_spec; vm_compute; reflexivity|]. vm_compute. discriminate.
Qed.
