#!/bin/sh
# regenerate _CoqProject from the files present (so adding a model needs no shared edit)
cd "$(dirname "$0")"
{
  echo "-Q . FB"
  echo "-arg -w -arg -notation-overridden,-deprecated-hint-without-locality,-deprecated-instance-without-locality"
  find . -name '*.v' -not -path './work/*' | sed 's#^\./##' | LC_ALL=C sort
} > _CoqProject.new
if cmp -s _CoqProject.new _CoqProject; then rm _CoqProject.new; else mv _CoqProject.new _CoqProject; fi
