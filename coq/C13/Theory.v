(* C13 — theory of merge_preserve_order (Part 1 of the model). *)
From Coq Require Import List NArith Bool Lia Permutation.
From FB Require Import Base.Str C13.Model.
Import ListNotations.

(* ---------------------------------------------------------------------------------------- *)
(** * Subsequences *)

Inductive subseq {A} : list A -> list A -> Prop :=
| sub_nil : subseq [] []
| sub_skip a l y : subseq a l -> subseq a (y :: l)
| sub_take a l x : subseq a l -> subseq (x :: a) (x :: l).

Lemma subseq_nil_l {A} (l : list A) : subseq [] l.
Proof. induction l; constructor; assumption. Qed.

Lemma subseq_refl {A} (l : list A) : subseq l l.
Proof. induction l; [apply sub_nil|apply sub_take; assumption]. Qed.

Lemma subseq_app {A} (a b l m : list A) : subseq a l -> subseq b m -> subseq (a ++ b) (l ++ m).
Proof.
  intros H; induction H as [|a l y H IH|a l x H IH]; intros Hb; cbn [app].
  - exact Hb.
  - apply sub_skip. apply IH, Hb.
  - apply sub_take. apply IH, Hb.
Qed.

Lemma subseq_incl {A} (a l : list A) : subseq a l -> incl a l.
Proof.
  intros H; induction H as [|a l y H IH|a l x H IH]; intros z Hz.
  - exact Hz.
  - right. apply IH, Hz.
  - destruct Hz as [->|Hz]; [left; reflexivity|right; apply IH, Hz].
Qed.

Lemma subseq_app_r {A} (a l m : list A) : subseq a l -> subseq a (l ++ m).
Proof.
  intros H. rewrite <- (app_nil_r a). apply subseq_app; [exact H|apply subseq_nil_l].
Qed.

(* ---------------------------------------------------------------------------------------- *)
(** * Membership test *)

Definition eqb_ok {A} (eqb : A -> A -> bool) : Prop := forall x y, eqb x y = true <-> x = y.

Lemma memb_In {A} (eqb : A -> A -> bool) (E : eqb_ok eqb) x l : memb eqb x l = true <-> In x l.
Proof.
  unfold memb. rewrite existsb_exists. split.
  - intros (y & Hy & He). apply E in He. subst. exact Hy.
  - intros H. exists x. split; [exact H|apply E; reflexivity].
Qed.

Lemma memb_nIn {A} (eqb : A -> A -> bool) (E : eqb_ok eqb) x l : memb eqb x l = false <-> ~ In x l.
Proof.
  split.
  - intros H Hin. apply (memb_In eqb E) in Hin. congruence.
  - intros H. destruct (memb eqb x l) eqn:M; [|reflexivity]. exfalso. apply H, (memb_In eqb E), M.
Qed.

Lemma N_eqb_ok : eqb_ok N.eqb.
Proof. intros x y. apply N.eqb_eq. Qed.

Lemma str_eqb_ok : eqb_ok str_eqb.
Proof. intros x y. apply str_eqb_eq. Qed.

(* ---------------------------------------------------------------------------------------- *)
(** * The inner loops *)

Lemma loop_both_spec {A} (eqb : A -> A -> bool) (E : eqb_ok eqb) ai bi p a2 b2 :
  loop_both eqb ai bi = (p, a2, b2) ->
  ai = p ++ a2 /\ bi = p ++ b2 /\
  match a2, b2 with x :: _, y :: _ => x <> y | _, _ => True end.
Proof.
  revert bi p a2 b2. induction ai as [|x ai IH]; intros bi p a2 b2 H; cbn [loop_both] in H.
  - injection H as <- <- <-. auto.
  - destruct bi as [|y bi].
    + injection H as <- <- <-. auto.
    + destruct (eqb y x) eqn:Exy.
      * apply E in Exy. subst y.
        destruct (loop_both eqb ai bi) as [[p' a'] b'] eqn:L.
        injection H as <- <- <-.
        destruct (IH _ _ _ _ L) as (-> & -> & Hne). auto.
      * injection H as <- <- <-. cbn [app]. repeat split.
        intros ->. assert (T : eqb y y = true) by (apply E; reflexivity). congruence.
Qed.

Lemma loop_only_spec {A} (eqb : A -> A -> bool) other it p rest :
  loop_only eqb other it = (p, rest) ->
  it = p ++ rest /\ Forall (fun x => memb eqb x other = false) p /\
  match rest with x :: _ => memb eqb x other = true | [] => True end.
Proof.
  revert p rest. induction it as [|x it IH]; intros p rest H; cbn [loop_only] in H.
  - injection H as <- <-. auto.
  - destruct (memb eqb x other) eqn:M; cbn [negb] in H.
    + injection H as <- <-. auto.
    + destruct (loop_only eqb other it) as [p' r'] eqn:L. injection H as <- <-.
      destruct (IH _ _ eq_refl) as (-> & HF & Hr). auto.
Qed.

(* ---------------------------------------------------------------------------------------- *)
(** * What the outer loop pushes: an interleaving of the consumed parts *)

(* [Merged a b ra rb r]: [r] interleaves [ra] and [rb]; an element is taken from both at once,
   or from [ra] alone if [b] does not have it, or from [rb] alone if [a] does not have it. *)
Inductive Merged {A} (a b : list A) : list A -> list A -> list A -> Prop :=
| M_nil : Merged a b [] [] []
| M_both x ra rb r : In x a -> In x b -> Merged a b ra rb r -> Merged a b (x :: ra) (x :: rb) (x :: r)
| M_a x ra rb r : ~ In x b -> Merged a b ra rb r -> Merged a b (x :: ra) rb (x :: r)
| M_b y ra rb r : ~ In y a -> Merged a b ra rb r -> Merged a b ra (y :: rb) (y :: r).

Lemma Merged_app {A} (a b : list A) ra rb r ra' rb' r' :
  Merged a b ra rb r -> Merged a b ra' rb' r' -> Merged a b (ra ++ ra') (rb ++ rb') (r ++ r').
Proof. intros H H'. induction H; cbn [app]; try constructor; auto. Qed.

Lemma Merged_both {A} (a b : list A) p : incl p a -> incl p b -> Merged a b p p p.
Proof.
  induction p as [|x p IH]; intros Ha Hb; constructor.
  - apply Ha; left; reflexivity.
  - apply Hb; left; reflexivity.
  - apply IH; intros z Hz; [apply Ha|apply Hb]; right; exact Hz.
Qed.

Lemma Merged_a {A} (a b : list A) p : Forall (fun x => ~ In x b) p -> Merged a b p [] p.
Proof. induction 1; constructor; assumption. Qed.

Lemma Merged_b {A} (a b : list A) p : Forall (fun x => ~ In x a) p -> Merged a b [] p p.
Proof. induction 1; constructor; assumption. Qed.

Lemma Merged_subseq_a {A} (a b : list A) ra rb r : Merged a b ra rb r -> subseq ra r.
Proof. induction 1; [apply sub_nil|apply sub_take|apply sub_take|apply sub_skip]; assumption. Qed.

Lemma Merged_subseq_b {A} (a b : list A) ra rb r : Merged a b ra rb r -> subseq rb r.
Proof. induction 1; [apply sub_nil|apply sub_take|apply sub_skip|apply sub_take]; assumption. Qed.

Lemma Merged_perm {A} (eqb : A -> A -> bool) (E : eqb_ok eqb) (a b : list A) ra rb r :
  Merged a b ra rb r -> Permutation r (ra ++ filter (fun y => negb (memb eqb y a)) rb).
Proof.
  induction 1 as [|x ra rb r Ha Hb H IH|x ra rb r Hb H IH|y ra rb r Ha H IH]; cbn [app filter].
  - constructor.
  - assert (M : memb eqb x a = true) by (apply (memb_In eqb E); exact Ha).
    rewrite M. cbn [negb]. constructor. exact IH.
  - constructor. exact IH.
  - assert (M : memb eqb y a = false) by (apply (memb_nIn eqb E); exact Ha).
    rewrite M. cbn [negb]. rewrite <- Permutation_middle. constructor. exact IH.
Qed.

(* the state the loop can stop in: nothing left, or none of the three loops can take anything *)
Definition stuck {A} (eqb : A -> A -> bool) (a b af bf : list A) : Prop :=
  (af = [] /\ bf = []) \/
  (match af, bf with x :: _, y :: _ => x <> y | _, _ => True end /\
   match af with x :: _ => memb eqb x b = true | [] => True end /\
   match bf with y :: _ => memb eqb y a = true | [] => True end).

Lemma all_nil_true {A} (p1 p2 p3 : list A) : all_nil p1 p2 p3 = true -> p1 = [] /\ p2 = [] /\ p3 = [].
Proof. destruct p1, p2, p3; cbn; intros; try discriminate; auto. Qed.

Lemma all_nil_false {A} (p1 p2 p3 : list A) : all_nil p1 p2 p3 = false -> (length p1 + length p2 + length p3 > 0)%nat.
Proof. destruct p1, p2, p3; cbn; intros; try discriminate; lia. Qed.

Lemma Forall_memb_false {A} (eqb : A -> A -> bool) (E : eqb_ok eqb) l p :
  Forall (fun x => memb eqb x l = false) p -> Forall (fun x => ~ In x l) p.
Proof. apply Forall_impl. intros x. apply (memb_nIn eqb E). Qed.

Lemma mpo_loop_spec {A} (eqb : A -> A -> bool) (E : eqb_ok eqb) fuel (a b : list A) :
  forall ai bi r af bf, incl ai a -> incl bi b ->
  mpo_loop eqb fuel a b ai bi = Ok (r, af, bf) ->
  exists ra rb, ai = ra ++ af /\ bi = rb ++ bf /\ Merged a b ra rb r /\ stuck eqb a b af bf.
Proof.
  induction fuel as [|fuel IH]; intros ai bi r af bf Ia Ib H; cbn [mpo_loop] in H; [discriminate|].
  assert (Hgen :
    match loop_both eqb ai bi with (p1, ai1, bi1) =>
    match loop_only eqb b ai1 with (p2, ai2) =>
    match loop_only eqb a bi1 with (p3, bi3) =>
      if all_nil p1 p2 p3 then Ok ([], ai2, bi3)
      else match mpo_loop eqb fuel a b ai2 bi3 with
           | Ok (r, af, bf) => Ok (p1 ++ p2 ++ p3 ++ r, af, bf)
           | Err => Err
           end
    end end end = Ok (r, af, bf) ->
    exists ra rb, ai = ra ++ af /\ bi = rb ++ bf /\ Merged a b ra rb r /\ stuck eqb a b af bf).
  { clear H.
    destruct (loop_both eqb ai bi) as [[p1 ai1] bi1] eqn:L1.
    destruct (loop_only eqb b ai1) as [p2 ai2] eqn:L2.
    destruct (loop_only eqb a bi1) as [p3 bi3] eqn:L3.
    destruct (loop_both_spec eqb E _ _ _ _ _ L1) as (Ea & Eb & Hne).
    destruct (loop_only_spec eqb _ _ _ _ L2) as (Ea2 & F2 & Hh2).
    destruct (loop_only_spec eqb _ _ _ _ L3) as (Eb3 & F3 & Hh3).
    destruct (all_nil p1 p2 p3) eqn:AN.
    - apply all_nil_true in AN. destruct AN as (-> & -> & ->). cbn [app] in *. subst ai1 bi1 ai bi.
      intros H. injection H as <- <- <-. exists [], []. repeat split; [constructor|].
      right. repeat split; assumption.
    - destruct (mpo_loop eqb fuel a b ai2 bi3) as [[[r' af'] bf']|] eqn:R; [|discriminate].
      intros H. injection H as <- <- <-.
      assert (Ia2 : incl ai2 a).
      { intros z Hz. apply Ia. subst ai ai1. apply in_or_app. right. apply in_or_app. right. exact Hz. }
      assert (Ib3 : incl bi3 b).
      { intros z Hz. apply Ib. subst bi bi1. apply in_or_app. right. apply in_or_app. right. exact Hz. }
      destruct (IH _ _ _ _ _ Ia2 Ib3 R) as (ra & rb & -> & -> & HM & HS).
      exists (p1 ++ p2 ++ ra), (p1 ++ p3 ++ rb). subst ai bi ai1 bi1.
      repeat split; [rewrite <- !app_assoc; reflexivity|rewrite <- !app_assoc; reflexivity| |exact HS].
      apply Merged_app.
      + apply Merged_both; intros z Hz; [apply Ia|apply Ib]; apply in_or_app; left; exact Hz.
      + change (p2 ++ ra) with (p2 ++ ra).
        replace (p3 ++ rb) with ([] ++ p3 ++ rb) by reflexivity.
        apply Merged_app; [apply Merged_a, (Forall_memb_false eqb E), F2|].
        replace (ra) with ([] ++ ra) by reflexivity.
        apply Merged_app; [apply Merged_b, (Forall_memb_false eqb E), F3|exact HM]. }
  destruct ai as [|x ai'].
  - destruct bi as [|y bi'].
    + injection H as <- <- <-. exists [], []. repeat split; [constructor|left; auto].
    + apply Hgen, H.
  - apply Hgen, H.
Qed.

(* ---------------------------------------------------------------------------------------- *)
(** * Fuel *)

Lemma mpo_loop_fuel {A} (eqb : A -> A -> bool) (E : eqb_ok eqb) fuel (a b : list A) :
  forall ai bi, (length ai + length bi < fuel)%nat -> exists x, mpo_loop eqb fuel a b ai bi = Ok x.
Proof.
  induction fuel as [|fuel IH]; intros ai bi Hl; [lia|]. cbn [mpo_loop].
  assert (Hgen : exists x,
    match loop_both eqb ai bi with (p1, ai1, bi1) =>
    match loop_only eqb b ai1 with (p2, ai2) =>
    match loop_only eqb a bi1 with (p3, bi3) =>
      if all_nil p1 p2 p3 then Ok ([], ai2, bi3)
      else match mpo_loop eqb fuel a b ai2 bi3 with
           | Ok (r, af, bf) => Ok (p1 ++ p2 ++ p3 ++ r, af, bf)
           | Err => Err
           end
    end end end = Ok x).
  { destruct (loop_both eqb ai bi) as [[p1 ai1] bi1] eqn:L1.
    destruct (loop_only eqb b ai1) as [p2 ai2] eqn:L2.
    destruct (loop_only eqb a bi1) as [p3 bi3] eqn:L3.
    destruct (loop_both_spec eqb E _ _ _ _ _ L1) as (Ea & Eb & _).
    destruct (loop_only_spec eqb _ _ _ _ L2) as (Ea2 & _ & _).
    destruct (loop_only_spec eqb _ _ _ _ L3) as (Eb3 & _ & _).
    destruct (all_nil p1 p2 p3) eqn:AN; [eexists; reflexivity|].
    apply all_nil_false in AN.
    destruct (IH ai2 bi3) as ([[r af] bf] & ->); [|eexists; reflexivity].
    subst ai bi ai1 bi1. rewrite !app_length in Hl. lia. }
  destruct ai; [destruct bi; [eexists; reflexivity|exact Hgen]|exact Hgen].
Qed.

Theorem mpo_fuel_suffices {A} (eqb : A -> A -> bool) (E : eqb_ok eqb) (a b : list A) :
  exists r, mpo_res eqb a b = Ok r.
Proof.
  unfold mpo_res.
  destruct (mpo_loop_fuel eqb E (S (length a + length b)) a b a b) as ([[r af] bf] & ->); [lia|].
  eexists; reflexivity.
Qed.

Lemma mpo_res_mpo {A} (eqb : A -> A -> bool) (E : eqb_ok eqb) (a b : list A) : mpo_res eqb a b = Ok (mpo eqb a b).
Proof. unfold mpo. destruct (mpo_fuel_suffices eqb E a b) as (r & ->). reflexivity. Qed.

(* ---------------------------------------------------------------------------------------- *)
(** * Exactly once *)

Definition minus {A} (eqb : A -> A -> bool) (b a : list A) : list A := filter (fun y => negb (memb eqb y a)) b.

Lemma mpo_res_shape {A} (eqb : A -> A -> bool) (E : eqb_ok eqb) (a b r : list A) :
  mpo_res eqb a b = Ok r ->
  exists ra rb af bf m, a = ra ++ af /\ b = rb ++ bf /\ Merged a b ra rb m /\ stuck eqb a b af bf /\
                        r = m ++ af ++ minus eqb bf a.
Proof.
  unfold mpo_res. destruct (mpo_loop eqb (S (length a + length b)) a b a b) as [[[m af] bf]|] eqn:L; [|discriminate].
  intros H. injection H as <-.
  destruct (mpo_loop_spec eqb E _ a b a b m af bf (incl_refl a) (incl_refl b) L) as (ra & rb & Ha & Hb & HM & HS).
  exists ra, rb, af, bf, m. auto.
Qed.

Theorem mpo_perm {A} (eqb : A -> A -> bool) (E : eqb_ok eqb) (a b r : list A) :
  mpo_res eqb a b = Ok r -> Permutation r (a ++ minus eqb b a).
Proof.
  intros H. destruct (mpo_res_shape eqb E a b r H) as (ra & rb & af & bf & m & Ha & Hb & HM & _ & ->).
  pose proof (Merged_perm eqb E a b ra rb m HM) as P.
  assert (X : a ++ minus eqb b a = (ra ++ af) ++ minus eqb (rb ++ bf) a) by (rewrite <- Ha, <- Hb; reflexivity).
  rewrite X, P. unfold minus. rewrite filter_app.
  rewrite <- !app_assoc. apply Permutation_app_head.
  rewrite !app_assoc. apply Permutation_app_tail. apply Permutation_app_comm.
Qed.

Lemma NoDup_app_intro {A} (l m : list A) :
  NoDup l -> NoDup m -> (forall x, In x l -> ~ In x m) -> NoDup (l ++ m).
Proof.
  intros Nl Nm D. induction Nl as [|x l Hx Nl IH]; cbn [app]; [exact Nm|].
  constructor.
  - rewrite in_app_iff. intros [H|H]; [exact (Hx H)|]. exact (D x (or_introl eq_refl) H).
  - apply IH. intros y Hy. apply D. right. exact Hy.
Qed.

Lemma NoDup_filter' {A} (f : A -> bool) (l : list A) : NoDup l -> NoDup (filter f l).
Proof.
  induction 1 as [|x l Hx N IH]; cbn [filter]; [constructor|].
  destruct (f x); [constructor; [|exact IH]|exact IH].
  intros H. apply filter_In in H. exact (Hx (proj1 H)).
Qed.

Lemma NoDup_union {A} (eqb : A -> A -> bool) (E : eqb_ok eqb) (a b : list A) :
  NoDup a -> NoDup b -> NoDup (a ++ minus eqb b a).
Proof.
  intros Na Nb. apply NoDup_app_intro; [exact Na|apply NoDup_filter', Nb|].
  intros x Hx H. apply filter_In in H. destruct H as (_ & H).
  apply (memb_In eqb E) in Hx. rewrite Hx in H. discriminate.
Qed.

Theorem mpo_exact_once {A} (eqb : A -> A -> bool) (E : eqb_ok eqb) (a b r : list A) :
  NoDup a -> NoDup b -> mpo_res eqb a b = Ok r ->
  Permutation r (a ++ minus eqb b a) /\ NoDup r /\ (forall x, In x r <-> In x a \/ In x b).
Proof.
  intros Na Nb H. pose proof (mpo_perm eqb E a b r H) as P. split; [exact P|]. split.
  - apply (Permutation_NoDup (Permutation_sym P)). apply (NoDup_union eqb E); assumption.
  - intros x. split.
    + intros Hx. apply (Permutation_in _ P) in Hx. apply in_app_or in Hx. destruct Hx as [Hx|Hx]; [left; exact Hx|].
      right. apply filter_In in Hx. exact (proj1 Hx).
    + intros Hx. apply (Permutation_in _ (Permutation_sym P)). apply in_or_app.
      destruct (memb eqb x a) eqn:M.
      * left. apply (memb_In eqb E). exact M.
      * destruct Hx as [Hx|Hx]; [left; exact Hx|]. right. apply filter_In. split; [exact Hx|]. rewrite M. reflexivity.
Qed.

(* ---------------------------------------------------------------------------------------- *)
(** * Order *)

(* the first list's order is always kept *)
Theorem mpo_order_a {A} (eqb : A -> A -> bool) (E : eqb_ok eqb) (a b r : list A) :
  mpo_res eqb a b = Ok r -> subseq a r.
Proof.
  intros H. destruct (mpo_res_shape eqb E a b r H) as (ra & rb & af & bf & m & Ha & Hb & HM & _ & ->).
  assert (X : subseq (ra ++ af) (m ++ af ++ minus eqb bf a)); [|rewrite <- Ha in X; exact X].
  apply subseq_app; [exact (Merged_subseq_a _ _ _ _ _ HM)|]. apply subseq_app_r, subseq_refl.
Qed.

(* the two orders are compatible: the elements both lists have come in the same order *)
Definition compatible {A} (eqb : A -> A -> bool) (a b : list A) : Prop :=
  filter (fun x => memb eqb x b) a = filter (fun y => memb eqb y a) b.

Lemma Merged_shared {A} (eqb : A -> A -> bool) (E : eqb_ok eqb) (a b : list A) ra rb r :
  Merged a b ra rb r -> filter (fun x => memb eqb x b) ra = filter (fun y => memb eqb y a) rb.
Proof.
  induction 1 as [|x ra rb r Ha Hb H IH|x ra rb r Hb H IH|y ra rb r Ha H IH]; cbn [filter].
  - reflexivity.
  - apply (memb_In eqb E) in Ha, Hb. rewrite Ha, Hb. f_equal. exact IH.
  - apply (memb_nIn eqb E) in Hb. rewrite Hb. exact IH.
  - apply (memb_nIn eqb E) in Ha. rewrite Ha. exact IH.
Qed.

Lemma stuck_compatible {A} (eqb : A -> A -> bool) (a b af bf : list A) :
  stuck eqb a b af bf ->
  filter (fun x => memb eqb x b) af = filter (fun y => memb eqb y a) bf ->
  af = [] /\ bf = [].
Proof.
  intros [S|(Hne & Ha & Hb)] C; [exact S|].
  destruct af as [|x af], bf as [|y bf]; cbn [filter] in C; auto.
  - rewrite Hb in C. discriminate.
  - rewrite Ha in C. discriminate.
  - rewrite Ha, Hb in C. injection C as C _. contradiction.
Qed.

Theorem mpo_order {A} (eqb : A -> A -> bool) (E : eqb_ok eqb) (a b r : list A) :
  compatible eqb a b -> mpo_res eqb a b = Ok r -> subseq a r /\ subseq b r.
Proof.
  intros C H. split; [exact (mpo_order_a eqb E a b r H)|].
  destruct (mpo_res_shape eqb E a b r H) as (ra & rb & af & bf & m & Ha & Hb & HM & HS & ->).
  pose proof (Merged_shared eqb E a b ra rb m HM) as Sh.
  assert (C' : filter (fun x => memb eqb x b) (ra ++ af) = filter (fun y => memb eqb y a) (rb ++ bf)).
  { rewrite <- Ha, <- Hb. exact C. }
  rewrite !filter_app in C'. rewrite Sh in C'. apply app_inv_head in C'. clear C. rename C' into C.
  destruct (stuck_compatible eqb a b af bf HS C) as (-> & ->).
  rewrite app_nil_r in Hb. subst rb. cbn [minus filter app]. rewrite app_nil_r.
  exact (Merged_subseq_b _ _ _ _ _ HM).
Qed.

(* [compatible] is what one expects: a duplicate-free common supersequence exists *)
Lemma subseq_nodup_filter {A} (eqb : A -> A -> bool) (E : eqb_ok eqb) (a s : list A) :
  NoDup s -> subseq a s -> filter (fun x => memb eqb x a) s = a.
Proof.
  intros N H. induction H as [|a l y H IH|a l x H IH].
  - reflexivity.
  - inversion N as [|? ? Hy N']; subst. cbn [filter].
    assert (M : memb eqb y a = false).
    { apply (memb_nIn eqb E). intros Hin. apply Hy. exact (subseq_incl _ _ H y Hin). }
    rewrite M. apply IH, N'.
  - inversion N as [|? ? Hx N']; subst. cbn [filter].
    assert (M : memb eqb x (x :: a) = true) by (apply (memb_In eqb E); left; reflexivity).
    rewrite M. f_equal. transitivity (filter (fun z => memb eqb z a) l); [|apply IH, N']. apply filter_ext_in.
    intros z Hz. unfold memb. cbn [existsb].
    destruct (eqb z x) eqn:Ezx; [|reflexivity]. apply E in Ezx. subst z. contradiction.
Qed.

Theorem common_supersequence_compatible {A} (eqb : A -> A -> bool) (E : eqb_ok eqb) (a b s : list A) :
  NoDup s -> subseq a s -> subseq b s -> compatible eqb a b.
Proof.
  intros N Ha Hb. unfold compatible.
  pose proof (subseq_nodup_filter eqb E a s N Ha) as Fa.
  pose proof (subseq_nodup_filter eqb E b s N Hb) as Fb.
  transitivity (filter (fun x => memb eqb x b) (filter (fun x => memb eqb x a) s)); [rewrite Fa; reflexivity|].
  transitivity (filter (fun y => memb eqb y a) (filter (fun x => memb eqb x b) s)); [|rewrite Fb; reflexivity].
  clear. induction s as [|x s IH]; [reflexivity|]. cbn [filter].
  destruct (memb eqb x a) eqn:Ma, (memb eqb x b) eqn:Mb; cbn [filter]; rewrite ?Ma, ?Mb; try rewrite IH; reflexivity.
Qed.

(* and conversely, for duplicate-free compatible lists the merge is such a supersequence *)
Theorem compatible_iff_common_supersequence {A} (eqb : A -> A -> bool) (E : eqb_ok eqb) (a b : list A) :
  NoDup a -> NoDup b ->
  (compatible eqb a b <-> exists s, NoDup s /\ subseq a s /\ subseq b s).
Proof.
  intros Na Nb. split.
  - intros C. destruct (mpo_fuel_suffices eqb E a b) as (r & H). exists r.
    destruct (mpo_exact_once eqb E a b r Na Nb H) as (_ & N & _).
    destruct (mpo_order eqb E a b r C H) as (Sa & Sb). auto.
  - intros (s & N & Sa & Sb). exact (common_supersequence_compatible eqb E a b s N Sa Sb).
Qed.

(* ---------------------------------------------------------------------------------------- *)
(** * Arbitrary lists (duplicates allowed) and scrambled orders *)

Lemma subseq_trans {A} (a b c : list A) : subseq a b -> subseq b c -> subseq a c.
Proof.
  intros H1 H2. revert a H1. induction H2 as [|b c y H2 IH|b c x H2 IH]; intros a H1.
  - exact H1.
  - apply sub_skip. apply IH, H1.
  - inversion H1 as [|a' l' y' Ha|a' l' x' Ha]; subst.
    + apply sub_skip. apply IH, Ha.
    + apply sub_take. apply IH, Ha.
Qed.

Lemma subseq_filter {A} (f : A -> bool) (l : list A) : subseq (filter f l) l.
Proof.
  induction l as [|x l IH]; cbn [filter]; [apply sub_nil|].
  destruct (f x); [apply sub_take|apply sub_skip]; exact IH.
Qed.

Lemma subseq_app_l {A} (a l : list A) : subseq a (l ++ a).
Proof. induction l as [|x l IH]; cbn [app]; [apply subseq_refl|apply sub_skip, IH]. Qed.

(* membership, whatever the lists are *)
Theorem mpo_in_iff {A} (eqb : A -> A -> bool) (E : eqb_ok eqb) (a b r : list A) :
  mpo_res eqb a b = Ok r -> forall x, In x r <-> In x a \/ In x b.
Proof.
  intros H x. pose proof (mpo_perm eqb E a b r H) as P. split.
  - intros Hx. apply (Permutation_in _ P) in Hx. apply in_app_or in Hx. destruct Hx as [Hx|Hx]; [left; exact Hx|].
    right. apply filter_In in Hx. exact (proj1 Hx).
  - intros Hx. apply (Permutation_in _ (Permutation_sym P)). apply in_or_app.
    destruct (memb eqb x a) eqn:M.
    + left. apply (memb_In eqb E). exact M.
    + destruct Hx as [Hx|Hx]; [left; exact Hx|]. right. apply filter_In. split; [exact Hx|].
      unfold minus. rewrite M. reflexivity.
Qed.

(* the elements only the second list has keep their relative order, whatever the lists are
   (compatible or scrambled, with or without duplicates) *)
Theorem mpo_order_b_only {A} (eqb : A -> A -> bool) (E : eqb_ok eqb) (a b r : list A) :
  mpo_res eqb a b = Ok r -> subseq (minus eqb b a) r.
Proof.
  intros H. destruct (mpo_res_shape eqb E a b r H) as (ra & rb & af & bf & m & Ha & Hb & HM & _ & ->).
  rewrite Hb. unfold minus at 1. rewrite filter_app. apply subseq_app.
  - apply (subseq_trans _ rb); [apply subseq_filter|exact (Merged_subseq_b _ _ _ _ _ HM)].
  - apply subseq_app_l.
Qed.

(* everything the function guarantees for ARBITRARY lists, in one statement: it terminates within
   the fuel, the result is a permutation of a ++ (b minus a) — so an element of [a] occurs as often
   as in [a], an element only [b] has as often as in [b] —, the first list and the b-only elements
   are subsequences of it *)
Theorem mpo_any_lists {A} (eqb : A -> A -> bool) (E : eqb_ok eqb) (a b : list A) :
  exists r, mpo_res eqb a b = Ok r /\
    Permutation r (a ++ minus eqb b a) /\
    (forall x, In x r <-> In x a \/ In x b) /\
    subseq a r /\ subseq (minus eqb b a) r.
Proof.
  destruct (mpo_fuel_suffices eqb E a b) as (r & H). exists r.
  split; [exact H|]. split; [exact (mpo_perm eqb E a b r H)|]. split; [exact (mpo_in_iff eqb E a b r H)|].
  split; [exact (mpo_order_a eqb E a b r H)|exact (mpo_order_b_only eqb E a b r H)].
Qed.

(* duplicate-free lists: the second list's order is kept exactly when the orders are compatible;
   a scrambled pair still yields every element exactly once (mpo_exact_once has no compatibility
   hypothesis), with the first list's order *)
Theorem mpo_b_order_iff_compatible {A} (eqb : A -> A -> bool) (E : eqb_ok eqb) (a b r : list A) :
  NoDup a -> NoDup b -> mpo_res eqb a b = Ok r -> (subseq b r <-> compatible eqb a b).
Proof.
  intros Na Nb H. split.
  - intros Sb. destruct (mpo_exact_once eqb E a b r Na Nb H) as (_ & N & _).
    exact (common_supersequence_compatible eqb E a b r N (mpo_order_a eqb E a b r H) Sb).
  - intros C. exact (proj2 (mpo_order eqb E a b r C H)).
Qed.

Theorem mpo_scrambled {A} (eqb : A -> A -> bool) (E : eqb_ok eqb) (a b r : list A) :
  NoDup a -> NoDup b -> ~ compatible eqb a b -> mpo_res eqb a b = Ok r ->
  NoDup r /\ (forall x, In x r <-> In x a \/ In x b) /\ subseq a r /\ subseq (minus eqb b a) r /\ ~ subseq b r.
Proof.
  intros Na Nb NC H. destruct (mpo_exact_once eqb E a b r Na Nb H) as (_ & N & Hin).
  split; [exact N|]. split; [exact Hin|]. split; [exact (mpo_order_a eqb E a b r H)|].
  split; [exact (mpo_order_b_only eqb E a b r H)|].
  intros Sb. apply NC. apply (mpo_b_order_iff_compatible eqb E a b r Na Nb H). exact Sb.
Qed.

(* where a scrambled pair gets stuck: the exact shape of the result.  The loop consumed [ra] of [a]
   and [rb] of [b] into an interleaving [m]; at [af], [bf] no loop can take anything (the heads
   differ and each occurs in the other list); then the rest of [a] and the b-only rest of [b] follow *)
Theorem mpo_shape {A} (eqb : A -> A -> bool) (E : eqb_ok eqb) (a b r : list A) :
  mpo_res eqb a b = Ok r ->
  exists ra rb af bf m, a = ra ++ af /\ b = rb ++ bf /\ Merged a b ra rb m /\ stuck eqb a b af bf /\
                        r = m ++ af ++ minus eqb bf a.
Proof. exact (mpo_res_shape eqb E a b r). Qed.
