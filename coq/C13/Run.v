(* C13 correspondence cases: what dukebox::merge::merge answered, to be compared with the model *)
From FB Require Export C13.Model C13.ModelAnn Base.Run.

(* the opaque components of a plain field / method / class as the harness prints them by name (its
   interner gives "None" the number 1 and "[]" the number 2 in every case) *)
Definition dF : list N := [1;1;2;2;2;2].
Definition dM : list N := [1;1;1;2;2;2;1;1;2].
Definition dC : list N := [1;1;1;1;2;2;1;1;1;1;1;2].

Definition class_eqb (a b : aclass) : bool :=
  N.eqb (c_version a) (c_version b) && N.eqb (c_access a) (c_access b)
  && str_eqb (c_name a) (c_name b) && oeqb str_eqb (c_super a) (c_super b)
  && leqb str_eqb (c_itfs a) (c_itfs b)
  && leqb member_eqb (c_fields a) (c_fields b) && leqb member_eqb (c_methods a) (c_methods b)
  && Bool.eqb (c_depr a) (c_depr b) && Bool.eqb (c_synth a) (c_synth b)
  && oeqb (leqb inner_eqb) (c_inner a) (c_inner b)
  && leqb ann_eqb (c_vis a) (c_vis b) && leqb ann_eqb (c_inv a) (c_inv b)
  && oeqb (leqb str_eqb) (c_perm a) (c_perm b) && N.eqb (c_rec a) (c_rec b) && leqb N.eqb (c_rest a) (c_rest b).

Definition ocontent_eqb (a b : ocontent) : bool :=
  match a, b with
  | ODir, ODir => true
  | OOther d, OOther e => leqb N.eqb d e
  | OVec r, OVec s => N.eqb r s
  | OParsed c, OParsed d => class_eqb c d
  | _, _ => false
  end.

(* What the comparison of a merged jar demands.  The property (and props/c13.py) leaves four things
   open, and the comparison leaves them open as well, so that a change of the implementation in
   one of them is not reported as a disagreement:
   - whether a merge that yields no jar returns Err or panics (Fail / Panic are one outcome here),
   - the zip attributes (time stamps) of the merged entries,
   - the order of the entries of the merged jar (entries are matched by name),
   - which side's bytes a resource that differs between the sides gets (either is accepted).
   The harness records how often the implementation agrees with the model exactly in these
   respects (report notes), it does not require it. *)
Definition find_entry (j : jar) (name : str) : option entry := find (fun e => str_eqb (e_name e) name) j.
Definition resource_of (j : jar) (name : str) : option (list N) :=
  match find_entry j name with
  | Some e => match e_content e with Other d => Some d | _ => None end
  | None => None
  end.

Definition content_ok (c s : jar) (name : str) (model impl : ocontent) : bool :=
  ocontent_eqb model impl ||
  match model, impl with
  | OOther _, OOther d =>
      negb (str_eqb name s_manifest) &&
      match resource_of c name, resource_of s name with
      | Some _, Some ds => leqb N.eqb d ds
      | _, _ => false
      end
  | _, _ => false
  end.

Definition entries_ok (c s : jar) (model impl : list oentry) : bool :=
  Nat.eqb (length model) (length impl)
  && forallb (fun i => existsb (fun m => str_eqb (o_name m) (o_name i) && content_ok c s (o_name i) (o_content m) (o_content i)) model) impl
  && forallb (fun m => existsb (fun i => str_eqb (o_name m) (o_name i)) impl) model.

Definition outcome_ok (c s : jar) (model impl : out (list oentry)) : bool :=
  match model, impl with
  | OK x, OK y => entries_ok c s x y
  | OK _, _ | _, OK _ => false
  | _, _ => true                           (* Fail / Panic: no jar *)
  end.

(* all duplicate-free lists over [alpha] of length <= n, in a fixed order *)
Fixpoint nodup_lists (alpha : list N) (n : nat) : list (list N) :=
  match n with
  | O => [[]]
  | S n' => [] :: flat_map (fun x => map (cons x) (nodup_lists (filter (fun y => negb (N.eqb y x)) alpha) n')) alpha
  end.

(* all lists over [alpha] of length <= n, duplicates allowed, in a fixed order *)
Fixpoint all_lists (alpha : list N) (n : nat) : list (list N) :=
  match n with
  | O => [[]]
  | S n' => [] :: flat_map (fun x => map (cons x) (all_lists alpha n')) alpha
  end.

Definition all_pairs {A} (l : list A) : list (A * A) := flat_map (fun a => map (fun b => (a, b)) l) l.

Inductive case :=
| CMpo (a b r : list N)
    (* two classes that differ only in their interface lists [a] and [b] (interface number n is
       the name I<n>), merged as one-entry jars: [r] is the interface list of the merged class.
       The same with fields (kind 1) and methods (kind 2) is CMerge's business. *)
| CMpoSweep (alpha : list N) (n : N) (rs : list (list N))
    (* every ordered pair of duplicate-free lists over [alpha] up to length [n], enumerated by
       the model; [rs] are the implementation's merged interface lists in the same order *)
| CMpoSweepDup (alpha : list N) (n : N) (rs : list (list N))
    (* the same over ALL lists up to length [n], duplicates allowed (outside the property's domain,
       inside C13_mpo_any_lists) *)
| CMerge (c s : jar) (r : out (list oentry))
    (* dukebox::merge::merge(client, server) projected to the model's types *)
| CLayout (cls fld mth : list str)
    (* the fields of duke's ClassFile / Field / Method the harness projects one by one into c_rest /
       m_rest, in its order: must be the rows of the regenerated tables the model keeps opaque *)
| CNames (names : list (str * (bool * bool * N)))
| CAnnSide (sd : side) (t : atree)
    (* round 7: the whole annotation tree the real merge appended to a class / field / method that only
       side [sd] has (printed structurally, not through the harness' proj_ann) *)
| CAnnItfs (a b : list str) (t : option atree)
    (* the whole tree the real class_merger_merge appended to the invisible annotations of a class whose
       two versions have the interface lists [a] and [b] (None: nothing appended) *)
| CAnnRead (t : atree) (p : ann).
    (* a tree (real or a near miss) and what the harness' proj_ann reads it as *)
    (* entry names with what the harness' own reading of the rules says: is a signature file, is a
       bundled server library, kind of a zip entry of that name (0 directory, 1 class, 2 other) *)

Definition check (c : case) : bool :=
  match c with
  | CMpo a b r => res_eqb (leqb N.eqb) (mpo_res N.eqb a b) (Ok r)
  | CMpoSweep alpha n rs =>
      leqb (leqb N.eqb)
        (map (fun p => mpo N.eqb (fst p) (snd p)) (all_pairs (nodup_lists alpha (N.to_nat n)))) rs
  | CMpoSweepDup alpha n rs =>
      leqb (leqb N.eqb)
        (map (fun p => mpo N.eqb (fst p) (snd p)) (all_pairs (all_lists alpha (N.to_nat n)))) rs
  | CMerge c s r => outcome_ok c s (merge_jar c s) r
  | CLayout cls fld mth =>
      leqb str_eqb (map (fun p => fname_str (fst p)) class_rest_table) cls
      && leqb str_eqb (map (fun p => fname_str (fst p)) field_rest_table) fld
      && leqb str_eqb (map (fun p => fname_str (fst p)) method_rest_table) mth
  | CNames l =>
      forallb (fun p =>
        match p with (n, (sg, lb, k)) =>
          Bool.eqb (is_signature n) sg && Bool.eqb (is_server_library n) lb
          && N.eqb (match zip_kind n with KDir => 0 | KClass => 1 | KOther => 2 end) k
        end) l
  | CAnnSide sd t => atree_eqb (sided_annotation sd) t
  | CAnnItfs a b t => oeqb atree_eqb (pushed_itfs_tree a b) t
  | CAnnRead t p =>
      match read_ann 0 t, p with
      | AOther _, AOther _ => true
      | x, y => ann_eqb x y
      end
  end.
