(* C13 — theory over the regenerated tables (C13/MergeGen.v): the string predicates of the entry
   loop, the partition of entry names, the frame of class_merger_merge field by field. *)
From Coq Require Import String.
From Coq Require Import List NArith Bool Lia Permutation.
From FB Require Import Base.Str C13.Model C13.Theory C13.Theory2.
Import ListNotations.

(* ---------------------------------------------------------------------------------------- *)
(** * The generated tables say what the hand-written part of the model does *)

(* every field of the struct exactly once *)
Definition covers (t : table) (fields : list fname) : bool :=
  nodup_fnames (map fst t) && Nat.eqb (List.length t) (List.length fields)
  && forallb (fun f => mem_string f (map fst t)) fields.

(* the rows of [t] for the fields in [expected] carry the expected actions *)
Definition agrees (t expected : table) : bool :=
  forallb (fun p => match lookup t (fst p) with Some a => act_eqb a (snd p) | None => false end) expected.

Definition tables_checked : Prop :=
  (* the struct literal of class_merger_merge initialises every field of duke's ClassFile once, the
     `inner` literals (completed by `..client.clone()`) every field of Field resp. Method *)
  covers g_class_table g_class_struct = true /\
  covers g_field_table g_field_struct = true /\
  covers g_method_table g_method_struct = true /\
  (* the fields the model spells out are merged the way Model.class_merge / merge_member do it *)
  agrees g_class_table expected_modelled_class = true /\
  agrees g_field_table expected_modelled_member = true /\
  agrees g_method_table expected_modelled_member = true /\
  fnames_eqb (map fst expected_modelled_class) modelled_class_fields = true /\
  fnames_eqb (map fst expected_modelled_member) modelled_member_fields = true /\
  (* members are keyed by (name, descriptor); the side marks go where mark_member / mark_class put them *)
  fnames_eqb g_field_key expected_member_key = true /\ fnames_eqb g_method_key expected_member_key = true /\
  fname_eqb g_field_mark_list expected_member_mark_list = true /\
  fname_eqb g_method_mark_list expected_member_mark_list = true /\
  fname_eqb g_class_mark_list expected_class_mark_list = true /\
  (* every other field is an opaque component with a scalar action (which side it is taken from is
     not pinned: C13_class_frame / C13_member_frame hold for whatever the table says) *)
  scalar_table class_rest_table = true /\ scalar_table field_rest_table = true /\ scalar_table method_rest_table = true /\
  (* 12 + 6 + 9 opaque fields *)
  List.length class_rest_table = 12%nat /\ List.length field_rest_table = 6%nat /\ List.length method_rest_table = 9%nat.

Theorem tables_checked_holds : tables_checked.
Proof. unfold tables_checked. repeat split; vm_compute; reflexivity. Qed.

(* ---------------------------------------------------------------------------------------- *)
(** * The frame: opaque components, row by row, for ANY table *)

Theorem merge_rest_frame tbl c s r : merge_rest tbl c s = OK r ->
  List.length r = List.length c /\
  forall i x, nth_error c i = Some x ->
    let y := match nth_error s i with Some y => y | None => x end in
    match row_act tbl i with
    | AClient => nth_error r i = Some x
    | AServer => nth_error r i = Some y
    | AAssertEq | ABailEq => nth_error r i = Some x /\ x = y
    | _ => False
    end.
Proof.
  revert tbl s r. induction c as [|x0 c IH]; intros tbl s r H; cbn [merge_rest] in H.
  - injection H as <-. split; [reflexivity|]. intros [|i] x Hx; discriminate.
  - set (a := match tbl with (_, a) :: _ => a | [] => AClient end) in H.
    set (y0 := match s with y :: _ => y | [] => x0 end) in H.
    destruct (apply_scalar a x0 y0) as [v| |] eqn:Ha; cbn [obind] in H; try discriminate.
    destruct (merge_rest (tl tbl) c (tl s)) as [r'| |] eqn:R; cbn [obind] in H; try discriminate.
    injection H as <-. destruct (IH _ _ _ R) as (Hl & Hf). split; [cbn [List.length]; rewrite Hl; reflexivity|].
    intros [|i] x Hx; cbn [nth_error] in Hx.
    + injection Hx as <-. cbn zeta.
      assert (Ea : row_act tbl 0 = a) by (unfold row_act, a; destruct tbl as [|[f a'] tbl]; reflexivity).
      assert (Ey : match nth_error s 0 with Some y => y | None => x0 end = y0) by (unfold y0; destruct s; reflexivity).
      rewrite Ea, Ey. cbn [nth_error]. unfold apply_scalar, from_client, merge_eq in Ha.
      destruct a; try discriminate.
      * injection Ha as <-. reflexivity.
      * injection Ha as <-. reflexivity.
      * destruct (N.eqb x0 y0) eqn:Exy; [|discriminate]. injection Ha as <-. apply N.eqb_eq in Exy. auto.
      * destruct (N.eqb x0 y0) eqn:Exy; [|discriminate]. injection Ha as <-. apply N.eqb_eq in Exy. auto.
    + specialize (Hf i x Hx). cbn zeta in Hf. rewrite row_act_tl, nth_error_tl in Hf. cbn [nth_error]. exact Hf.
Qed.

(* faithfulness: what both sides agree on is what the merged value says, whatever the row's action *)
Theorem merge_rest_agree tbl c s r i x :
  merge_rest tbl c s = OK r -> nth_error c i = Some x -> nth_error s i = Some x -> nth_error r i = Some x.
Proof.
  intros H Hc Hs. destruct (merge_rest_frame tbl c s r H) as (_ & Hf). specialize (Hf i x Hc). cbn zeta in Hf.
  rewrite Hs in Hf. destruct (row_act tbl i); try contradiction; try exact Hf; exact (proj1 Hf).
Qed.

(* the merged class: its opaque components are those of the two versions, row by row, as the
   regenerated table of the struct literal says *)
Theorem class_frame c s m : class_merge c s = OK m ->
  List.length (c_rest m) = List.length (c_rest c) /\
  (forall i x, nth_error (c_rest c) i = Some x ->
     let y := match nth_error (c_rest s) i with Some y => y | None => x end in
     match row_act class_rest_table i with
     | AClient => nth_error (c_rest m) i = Some x
     | AServer => nth_error (c_rest m) i = Some y
     | AAssertEq | ABailEq => nth_error (c_rest m) i = Some x /\ x = y
     | _ => False
     end) /\
  (forall i x, nth_error (c_rest c) i = Some x -> nth_error (c_rest s) i = Some x -> nth_error (c_rest m) i = Some x).
Proof.
  intros H. pose proof (cm_rest_tbl _ _ _ (class_merge_spec c s m H)) as R.
  destruct (merge_rest_frame _ _ _ _ R) as (Hl & Hf). split; [exact Hl|]. split; [exact Hf|].
  intros i x. apply (merge_rest_agree _ _ _ _ i x R).
Qed.

(* a member both sides have in different versions: key, access, flags and invisible annotations as
   written in the `inner` literal, every other field row by row *)
Theorem member_frame tbl ec es m : merge_member tbl ec es = OK m ->
  m_name m = m_name ec /\ m_desc m = m_desc ec /\ m_access m = m_access ec /\
  (m_depr m = m_depr ec /\ m_depr ec = m_depr es) /\ (m_synth m = m_synth ec /\ m_synth ec = m_synth es) /\
  m_inv m = m_inv ec /\
  List.length (m_rest m) = List.length (m_rest ec) /\
  (forall i x, nth_error (m_rest ec) i = Some x ->
     let y := match nth_error (m_rest es) i with Some y => y | None => x end in
     match row_act tbl i with
     | AClient => nth_error (m_rest m) i = Some x
     | AServer => nth_error (m_rest m) i = Some y
     | AAssertEq | ABailEq => nth_error (m_rest m) i = Some x /\ x = y
     | _ => False
     end) /\
  (forall i x, nth_error (m_rest ec) i = Some x -> nth_error (m_rest es) i = Some x -> nth_error (m_rest m) i = Some x).
Proof.
  intros H. destruct (merge_member_inv tbl ec es m H) as (rest & R & -> & Hd & Hs).
  cbn [m_name m_desc m_access m_depr m_synth m_inv m_rest].
  destruct (merge_rest_frame _ _ _ _ R) as (Hl & Hf). repeat split; try assumption.
  intros i x. apply (merge_rest_agree _ _ _ _ i x R).
Qed.

(* the members of the merged class that both sides have: found through merge_slice, they are either
   the (equal) member itself or the `inner` literal's result *)
Theorem shared_member_merged tbl cf sf ms :
  NoDup (map mkey cf) -> NoDup (map mkey sf) -> merge_members tbl cf sf = OK ms ->
  forall m, In m ms ->
    (exists ec, In ec cf /\ ~ In (mkey ec) (map mkey sf) /\ m = mark_member ec Client) \/
    (exists es, In es sf /\ ~ In (mkey es) (map mkey cf) /\ m = mark_member es Server) \/
    (exists ec es, In ec cf /\ In es sf /\ mkey ec = mkey es /\ (m = ec /\ ec = es \/ merge_member tbl ec es = OK m)).
Proof.
  intros Nc Ns H m Hm. unfold merge_members, merge_slice in H. apply collect_spec in H.
  destruct (Forall2_In_r _ _ _ _ H Hm) as (k & _ & S).
  destruct (find_last key_eqb mkey k cf) as [ec|] eqn:Fc, (find_last key_eqb mkey k sf) as [es|] eqn:Fs; try discriminate.
  - destruct (find_last_Some key_eqb key_eqb_ok mkey k cf ec Fc) as (Hec & Kc).
    destruct (find_last_Some key_eqb key_eqb_ok mkey k sf es Fs) as (Hes & Ks).
    right. right. exists ec, es. repeat split; try assumption; [congruence|].
    destruct (member_eqb ec es) eqn:Eq.
    + left. injection S as <-. split; [reflexivity|apply member_eqb_eq, Eq].
    + right. exact S.
  - destruct (find_last_Some key_eqb key_eqb_ok mkey k cf ec Fc) as (Hec & Kc).
    left. exists ec. injection S as <-. repeat split; try assumption.
    apply (find_last_None key_eqb key_eqb_ok) in Fs. subst k. exact Fs.
  - destruct (find_last_Some key_eqb key_eqb_ok mkey k sf es Fs) as (Hes & Ks).
    right. left. exists es. injection S as <-. repeat split; try assumption.
    apply (find_last_None key_eqb key_eqb_ok) in Fc. subst k. exact Fc.
Qed.

(* ---------------------------------------------------------------------------------------- *)
(** * The string predicates of the entry loop *)

Lemma ends_with_app suf s : ends_with suf s = true <-> exists p, s = p ++ suf.
Proof.
  unfold ends_with. rewrite starts_with_app. split.
  - intros (r & Hr). exists (rev r). apply (f_equal (@rev N)) in Hr. rewrite rev_involutive, rev_app_distr, rev_involutive in Hr. exact Hr.
  - intros (p & ->). exists (rev p). apply rev_app_distr.
Qed.

(* what the regenerated rules are today *)
Theorem rules_today :
  g_manifest_name = fname_str "META-INF/MANIFEST.MF" /\
  g_manifest_bytes = fname_str "Manifest-Version: 1.0" ++ [10] ++ fname_str "Main-Class: net.minecraft.client.Main" ++ [10] /\
  g_signature_rule = PAnd (PStarts s_metainf) (POr (POr (POr (PEnds s_SF) (PEnds s_RSA)) (PEnds s_DSA)) (PEnds s_EC)) /\
  g_library_rule = PAnd (PAnd (PEnds s_class) (PNot (PStarts s_minecraft))) (PContains cSLASH) /\
  s_metainf = fname_str "META-INF/" /\ s_SF = fname_str ".SF" /\ s_RSA = fname_str ".RSA" /\
  s_DSA = fname_str ".DSA" /\ s_EC = fname_str ".EC" /\
  s_class = fname_str ".class" /\ s_minecraft = fname_str "net/minecraft/".
Proof. repeat split; vm_compute; reflexivity. Qed.

Theorem signature_rule_spec n :
  is_signature n = true <->
  (exists r, n = s_metainf ++ r) /\
  ((exists p, n = p ++ s_SF) \/ (exists p, n = p ++ s_RSA) \/ (exists p, n = p ++ s_DSA) \/ (exists p, n = p ++ s_EC)).
Proof.
  unfold is_signature. destruct rules_today as (_ & _ & -> & _). cbn [peval].
  rewrite andb_true_iff, !orb_true_iff, starts_with_app, !ends_with_app. tauto.
Qed.

Theorem library_rule_spec n :
  is_server_library n = true <->
  (exists p, n = p ++ s_class) /\ ~ (exists r, n = s_minecraft ++ r) /\ In cSLASH n.
Proof.
  unfold is_server_library. destruct rules_today as (_ & _ & _ & -> & _). cbn [peval].
  rewrite !andb_true_iff, negb_true_iff, ends_with_app, mem_N_In.
  destruct (starts_with s_minecraft n) eqn:S.
  - apply starts_with_app in S. split; [intros ((_ & X) & _); discriminate|intros (_ & X & _); contradiction].
  - split; [intros ((H1 & _) & H3)|intros (H1 & _ & H3)]; repeat split; try assumption.
    intros X. apply starts_with_app in X. congruence.
Qed.

(* a class directly in the package net/minecraft (net/minecraft/Bootstrap.class), in a sub package,
   or in the default package is never a bundled library; nor is anything that is not a *.class *)
Theorem library_rule_never n :
  (exists r, n = s_minecraft ++ r) \/ ~ In cSLASH n \/ ~ (exists p, n = p ++ s_class) -> is_server_library n = false.
Proof.
  intros H. destruct (is_server_library n) eqn:L; [|reflexivity]. exfalso.
  apply library_rule_spec in L. destruct L as (L1 & L2 & L3). destruct H as [H|[H|H]]; contradiction.
Qed.

Lemma ends_with_last suf c s : ends_with (suf ++ [c]) s = true -> exists t, rev s = c :: t.
Proof.
  intros H. apply ends_with_app in H. destruct H as (p & ->). rewrite app_assoc, rev_app_distr. cbn [rev app].
  eexists; reflexivity.
Qed.

(* a name the library rule skips is a class entry of the zip archive (never a directory) *)
Theorem library_is_class n : is_server_library n = true -> zip_kind n = KClass.
Proof.
  intros L. unfold is_server_library in L. destruct rules_today as (_ & _ & _ & R & _). rewrite R in L. cbn [peval] in L.
  apply andb_true_iff in L. destruct L as (L & _). apply andb_true_iff in L. destruct L as (L & _).
  unfold zip_kind. rewrite L.
  change s_class with ([46;99;108;97;115] ++ [115]) in L. apply ends_with_last in L. destruct L as (t & ->).
  reflexivity.
Qed.

(* the names the focus is on, evaluated *)
Definition rule_examples : Prop :=
  (* directly in net/minecraft, in a sub package, in the default package: kept *)
  is_server_library (fname_str "net/minecraft/Bootstrap.class") = false /\
  is_server_library (fname_str "net/minecraft/server/MinecraftServer.class") = false /\
  is_server_library (fname_str "Top.class") = false /\
  is_server_library (fname_str ".class") = false /\
  is_server_library (fname_str "net/minecraft/.class") = false /\
  (* look-alike prefixes: bundled *)
  is_server_library (fname_str "net/minecraftx/E.class") = true /\
  is_server_library (fname_str "net/minecraft.class") = true /\
  is_server_library (fname_str "net/Minecraft/A.class") = true /\
  is_server_library (fname_str "com/google/Lib.class") = true /\
  is_server_library (fname_str "META-INF/versions/9/Z.class") = true /\
  is_server_library (fname_str "a/.class") = true /\
  (* not classes *)
  is_server_library (fname_str "lib/x.class.txt") = false /\
  is_server_library (fname_str "com/google/Lib.CLASS") = false /\
  is_server_library (fname_str "com/google/x.class/") = false /\
  (* signature files *)
  is_signature (fname_str "META-INF/MOJANGCS.SF") = true /\
  is_signature (fname_str "META-INF/MOJANGCS.RSA") = true /\
  is_signature (fname_str "META-INF/sub/Y.SF") = true /\
  is_signature (fname_str "META-INF/.SF") = true /\
  is_signature (fname_str "META-INF/MANIFEST.MF.SF") = true /\
  is_signature (fname_str "META-INF/X.DSA") = true /\
  is_signature (fname_str "META-INF/X.EC") = true /\
  is_signature (fname_str "META-INF/sub/k.EC") = true /\
  is_signature (fname_str "META-INF/x.sf") = false /\
  is_signature (fname_str "META-INF/x.dsa") = false /\
  is_signature (fname_str "META-INF/X.DSA.txt") = false /\
  is_signature (fname_str "META-INF/SIG-X") = false /\
  is_signature (fname_str "X.DSA") = false /\
  is_signature (fname_str "META-INF/a.RSA.txt") = false /\
  is_signature (fname_str "meta-inf/Z.SF") = false /\
  is_signature (fname_str "X.SF") = false /\
  is_signature (fname_str "META-INF") = false /\
  (* kinds of zip entries *)
  zip_kind (fname_str "net/minecraft/") = KDir /\ zip_kind (fname_str "x.class/") = KDir /\
  zip_kind (fname_str "a/B.class") = KClass /\ zip_kind (fname_str ".class") = KClass /\
  zip_kind (fname_str "a/B.class.txt") = KOther /\ zip_kind [] = KOther.

Theorem rule_examples_hold : rule_examples.
Proof. unfold rule_examples. repeat split; vm_compute; reflexivity. Qed.

(* ---------------------------------------------------------------------------------------- *)
(** * The partition of entry names *)

Lemma merge_entry_verdict k cb inc ins :
  (match cb with CS _ => inc = false /\ ins = true | _ => inc = true end) ->
  match name_verdict k inc ins with
  | VManifest | VKept => kept (k, cb) = true
  | VSignature | VLibrary => kept (k, cb) = false
  end.
Proof.
  unfold name_verdict, kept. intros H. destruct (str_eqb k s_manifest); cbn [orb]; [reflexivity|].
  destruct (is_signature k); cbn [negb andb]; [reflexivity|].
  destruct cb as [c|s|c s].
  - rewrite H. cbn [negb andb]. reflexivity.
  - destruct H as (-> & ->). cbn [negb andb]. destruct (is_server_library k); reflexivity.
  - rewrite H. cbn [negb andb]. reflexivity.
Qed.

(* every entry name of either jar lands in exactly one class: kept (once), replaced manifest (once),
   skipped as a signature file, skipped as a bundled server library; the class is a function of the
   name and of which jars have it; nothing else is in the merged jar *)
Theorem entries_partition c s out :
  NoDup (names c) -> NoDup (names s) -> merge_jar c s = OK out ->
  NoDup (map o_name out) /\
  (forall n, In n (map o_name out) -> In n (names c) \/ In n (names s)) /\
  (forall n, In n (names c) \/ In n (names s) ->
     match name_verdict n (memb str_eqb n (names c)) (memb str_eqb n (names s)) with
     | VManifest | VKept => In n (map o_name out)
     | VSignature | VLibrary => ~ In n (map o_name out)
     end).
Proof.
  intros Nc Ns H. destruct (entries_once c s out Nc Ns H) as (N & Hin & _ & _).
  split; [exact N|]. split; [intros n Hn; apply Hin in Hn; exact (proj1 Hn)|].
  intros n Hor. unfold name_verdict.
  destruct (str_eqb n s_manifest) eqn:Em.
  - apply Hin. split; [exact Hor|]. left. apply str_eqb_eq, Em.
  - assert (Hne : n <> s_manifest) by (apply str_eqb_neq, Em).
    destruct (is_signature n) eqn:Es.
    + intros Hn. apply Hin in Hn. destruct Hn as (_ & [X|(X & _)]); [contradiction|congruence].
    + destruct (memb str_eqb n (names c)) eqn:Mc; cbn [negb andb].
      * apply Hin. split; [exact Hor|]. right. split; [exact Es|]. left. apply (memb_In str_eqb str_eqb_ok), Mc.
      * assert (Hnc : ~ In n (names c)) by (apply (memb_nIn str_eqb str_eqb_ok), Mc).
        assert (Hs : In n (names s)) by tauto.
        assert (Ms : memb str_eqb n (names s) = true) by (apply (memb_In str_eqb str_eqb_ok), Hs).
        rewrite Ms. destruct (is_server_library n) eqn:El.
        -- intros Hn. apply Hin in Hn. destruct Hn as (_ & [X|(_ & [X|X])]); [contradiction|contradiction|congruence].
        -- apply Hin. split; [exact Hor|]. right. split; [exact Es|]. right. exact El.
Qed.

(* the verdicts spelled out *)
Theorem name_verdict_spec n inc ins :
  match name_verdict n inc ins with
  | VManifest => n = s_manifest
  | VSignature => n <> s_manifest /\ is_signature n = true
  | VLibrary => n <> s_manifest /\ is_signature n = false /\ inc = false /\ ins = true /\ is_server_library n = true
  | VKept => n <> s_manifest /\ is_signature n = false /\ (inc = true \/ ins = false \/ is_server_library n = false)
  end.
Proof.
  unfold name_verdict. destruct (str_eqb n s_manifest) eqn:Em; [apply str_eqb_eq, Em|].
  assert (Hne : n <> s_manifest) by (apply str_eqb_neq, Em).
  destruct (is_signature n); [auto|]. destruct inc, ins, (is_server_library n); cbn [negb andb]; auto 7.
Qed.

(* the whole class record: a one-sided class is the input class with one @Environment(side) appended
   to its visible annotations, every other component untouched *)
Theorem mark_class_frame p sd :
  mark_class p sd = mkClass (c_version p) (c_access p) (c_name p) (c_super p) (c_itfs p) (c_fields p) (c_methods p)
    (c_depr p) (c_synth p) (c_inner p) (c_vis p ++ [AEnv sd]) (c_inv p) (c_perm p) (c_rec p) (c_rest p).
Proof. reflexivity. Qed.
