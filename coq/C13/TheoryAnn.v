(* C13 — the side marks as annotation trees: the reader accepts exactly the trees merge.rs builds,
   so the abstract marks [AEnv] / [AItfs] of Model.v and the concrete trees are in bijection. *)
From FB Require Import C13.ModelAnn C13.Theory C13.Theory2.

Lemma read_side_exact c sd : read_side c = Some sd <-> c = side_const sd.
Proof.
  split.
  - unfold read_side. destruct (str_eqb_spec c s_CLIENT) as [->|_]; [intros [= <-]; reflexivity|].
    destruct (str_eqb_spec c s_SERVER) as [->|_]; [intros [= <-]; reflexivity|discriminate].
  - intros ->. destruct sd; reflexivity.
Qed.

Lemma read_side_pair_exact p sd : read_side_pair p = Some sd <-> p = side_pair sd.
Proof.
  destruct p as [n v]. unfold side_pair. split.
  - destruct v as [id|ty c|d|ty ps|l]; cbn [read_side_pair]; try discriminate.
    destruct (str_eqb_spec n s_value) as [->|_]; [|discriminate].
    destruct (str_eqb_spec ty (from_class n_env_type)) as [->|_]; [|discriminate].
    cbn [andb]. intros H. apply read_side_exact in H. subst c. reflexivity.
  - intros [= -> ->]. cbn [read_side_pair]. rewrite !str_eqb_refl. cbn [andb]. apply read_side_exact. reflexivity.
Qed.

(* an @Environment tree reads as side [sd] iff it is the tree sided_annotation(sd) builds *)
Theorem env_tree_exact t sd : read_env t = Some sd <-> t = sided_annotation sd.
Proof.
  destruct t as [ty ps]. unfold sided_annotation. split.
  - destruct ps as [|p [|q ps]]; cbn [read_env]; try discriminate.
    destruct (str_eqb_spec ty (from_class n_environment)) as [->|_]; [|discriminate].
    intros H. apply read_side_pair_exact in H. subst p. reflexivity.
  - intros [= -> ->]. cbn [read_env]. rewrite str_eqb_refl. apply read_side_pair_exact. reflexivity.
Qed.

Lemma strip_L_exact d i : strip_L d = Some i <-> d = from_class i.
Proof.
  unfold strip_L, from_class. split.
  - destruct d as [|x r]; [discriminate|].
    destruct (N.eqb_spec x 76) as [->|Hx]; [|discriminate].
    destruct (rev r) as [|y q] eqn:R; [discriminate|].
    destruct (N.eqb_spec y 59) as [->|Hy]; [|discriminate].
    intros [= <-]. rewrite <- (rev_involutive r), R. cbn [rev]. reflexivity.
  - intros ->. rewrite N.eqb_refl, rev_app_distr. cbn [rev app]. rewrite N.eqb_refl, rev_involutive. reflexivity.
Qed.

Lemma read_itf_exact e sd i : read_itf e = Some (sd, i) <-> e = make_annotation i sd.
Proof.
  unfold make_annotation. split.
  - destruct e as [id|ty c|d|ty ps|l]; cbn [read_itf]; try discriminate.
    destruct ps as [|p1 [|[n2 v2] ps']]; try discriminate.
    destruct v2 as [id|ty2 c2|d|ty2 ps2|l2]; try discriminate; destruct ps' as [|q ps']; try discriminate.
    destruct (str_eqb_spec ty (from_class n_env_itf)) as [->|_]; [|discriminate].
    destruct (str_eqb_spec n2 s_itf) as [->|_]; [|discriminate].
    cbn [andb]. destruct (read_side_pair p1) as [s|] eqn:P; [|discriminate].
    destruct (strip_L d) as [j|] eqn:S; [|discriminate].
    intros [= -> ->]. apply read_side_pair_exact in P. apply strip_L_exact in S. subst. reflexivity.
  - intros ->. cbn [read_itf]. rewrite !str_eqb_refl. cbn [andb].
    rewrite (proj2 (read_side_pair_exact _ sd) eq_refl), (proj2 (strip_L_exact _ i) eq_refl). reflexivity.
Qed.

Lemma read_all_exact l marks :
  read_all l = Some marks <-> l = map (fun p => make_annotation (snd p) (fst p)) marks.
Proof.
  revert marks. induction l as [|e l IH]; intros marks; cbn [read_all].
  - split; [intros [= <-]; reflexivity|]. destruct marks; [reflexivity|discriminate].
  - split.
    + destruct (read_itf e) as [[sd i]|] eqn:E; [|discriminate].
      destruct (read_all l) as [ms|] eqn:R; [|discriminate].
      intros [= <-]. apply read_itf_exact in E. subst e. cbn [map fst snd]. f_equal. apply IH. reflexivity.
    + destruct marks as [|[sd i] ms]; [discriminate|]. cbn [map fst snd]. intros [= -> ->].
      rewrite (proj2 (read_itf_exact _ sd i) eq_refl), (proj2 (IH ms) eq_refl). reflexivity.
Qed.

(* an @EnvironmentInterfaces tree reads as the marks [l] iff it is the tree class_merger_merge builds for [l] *)
Theorem itfs_tree_exact t marks : read_itfs t = Some marks <-> t = itfs_annotation marks.
Proof.
  destruct t as [ty ps]. unfold itfs_annotation. split.
  - destruct ps as [|[n v] ps']; cbn [read_itfs]; try discriminate.
    destruct v as [id|ty2 c2|d|ty2 ps2|l]; try discriminate; destruct ps' as [|q ps']; try discriminate.
    destruct (str_eqb_spec ty (from_class n_env_itfs)) as [->|_]; [|discriminate].
    destruct (str_eqb_spec n s_value) as [->|_]; [|discriminate].
    cbn [andb]. intros H. apply read_all_exact in H. subst l. reflexivity.
  - intros [= -> ->]. cbn [read_itfs]. rewrite !str_eqb_refl. cbn [andb]. apply read_all_exact. reflexivity.
Qed.

Lemma read_env_itfs_None marks : read_env (itfs_annotation marks) = None.
Proof.
  unfold itfs_annotation. cbn [read_env].
  destruct (str_eqb (from_class n_env_itfs) (from_class n_environment)); reflexivity.
Qed.

(* the abstraction of Model.v against the trees: an abstract mark stands for one tree, that tree reads
   back as the mark; a tree that reads as a mark IS that mark's tree (so the two sides' marks are never
   confused, and nothing but the trees merge.rs builds passes as a mark) *)
Theorem read_ann_bijection :
  (forall a t o, tree_of a = Some t -> read_ann o t = a) /\
  (forall t o a, read_ann o t = a -> tree_of a = Some t \/ a = AOther o) /\
  sided_annotation Client <> sided_annotation Server.
Proof.
  split; [|split].
  - intros [s|l|id] t o; cbn [tree_of]; intros [= <-]; unfold read_ann.
    + rewrite (proj2 (env_tree_exact _ s) eq_refl). reflexivity.
    + rewrite read_env_itfs_None, (proj2 (itfs_tree_exact _ l) eq_refl). reflexivity.
  - intros t o a <-. unfold read_ann.
    destruct (read_env t) as [s|] eqn:E.
    + left. apply env_tree_exact in E. subst t. reflexivity.
    + destruct (read_itfs t) as [l|] eqn:I; [|right; reflexivity].
      left. apply itfs_tree_exact in I. subst t. reflexivity.
  - discriminate.
Qed.

(* a one-sided class / member: the appended mark is the tree of that side, and it reads back as that side only *)
Theorem one_sided_mark_trees p m sd :
  map tree_of (c_vis (mark_class p sd)) = map tree_of (c_vis p) ++ [Some (sided_annotation sd)] /\
  map tree_of (m_inv (mark_member m sd)) = map tree_of (m_inv m) ++ [Some (sided_annotation sd)] /\
  forall sd', read_env (sided_annotation sd) = Some sd' <-> sd' = sd.
Proof.
  split; [|split].
  - cbn [mark_class c_vis]. rewrite map_app. reflexivity.
  - cbn [mark_member m_inv]. rewrite map_app. reflexivity.
  - intros sd'. rewrite env_tree_exact. split; [|intros ->; reflexivity].
    destruct sd, sd'; try reflexivity; discriminate.
Qed.

(* a class both sides have with different bytes, concretely: the merged class carries the client's
   invisible annotations and then — iff some interface is one-sided — ONE EnvironmentInterfaces tree,
   which reads back as exactly the one-sided interfaces with their sides *)
Theorem class_merge_itf_tree c s m :
  NoDup (c_itfs c) -> NoDup (c_itfs s) -> class_merge c s = OK m ->
  let ci := c_itfs c in let si := c_itfs s in
  exists marks, NoDup marks /\
    (forall sd i, In (sd, i) marks <-> (sd = Client /\ In i ci /\ ~ In i si) \/ (sd = Server /\ In i si /\ ~ In i ci)) /\
    map tree_of (c_inv m) = map tree_of (c_inv c) ++ match marks with [] => [] | _ => [Some (itfs_annotation marks)] end /\
    pushed_itfs_tree ci si = match marks with [] => None | _ => Some (itfs_annotation marks) end /\
    read_itfs (itfs_annotation marks) = Some marks.
Proof.
  intros Nc Ns H ci si.
  destruct (class_merge_spec c s m H) as [_ _ _ _ R _ _ _ Hinv _ _ _].
  destruct (mpo_exact_once str_eqb str_eqb_ok ci si (c_itfs m) Nc Ns R) as (_ & N & Hin).
  assert (Em : mpo str_eqb ci si = c_itfs m).
  { unfold mpo. fold ci si in R. rewrite R. reflexivity. }
  exists (itf_marks (c_itfs m) ci si). split; [apply itf_marks_NoDup, N|]. split; [|split; [|split]].
  - intros sd i. rewrite itf_marks_In. rewrite (Hin i). tauto.
  - rewrite Hinv. fold ci si. destruct (itf_marks (c_itfs m) ci si); rewrite map_app; reflexivity.
  - unfold pushed_itfs_tree. rewrite Em. destruct (itf_marks (c_itfs m) ci si); reflexivity.
  - apply itfs_tree_exact. reflexivity.
Qed.

(* non-vacuity: the trees spelled out, as duke renders them *)
Definition ann_examples : Prop :=
  sided_annotation Client =
    ([76;110;101;116;47;102;97;98;114;105;99;109;99;47;97;112;105;47;69;110;118;105;114;111;110;109;101;110;116;59],
     [([118;97;108;117;101], VEnum [76;110;101;116;47;102;97;98;114;105;99;109;99;47;97;112;105;47;69;110;118;84;121;112;101;59] [67;76;73;69;78;84])])
  /\ pushed_itfs_tree [[65]; [66]] [[66]; [67]] = Some (itfs_annotation [(Client, [65]); (Server, [67])])
  /\ pushed_itfs_tree [[65]; [66]] [[66]; [65]] = None
  /\ read_itfs (itfs_annotation [(Client, [65]); (Server, [67;59])]) = Some [(Client, [65]); (Server, [67;59])]
  /\ read_env (from_class n_environment, [(s_value, VEnum (from_class n_env_type) [99;108;105;101;110;116])]) = None
  /\ read_ann 7 (from_class n_environment, []) = AOther 7.

Theorem ann_examples_hold : ann_examples.
Proof. unfold ann_examples. repeat split; vm_compute; reflexivity. Qed.
